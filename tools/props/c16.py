"""C16 -- collection operations (filter, sort, groupby, get/select, todict, set operators, attaching features):
cases, implementation driver, Coq term printer, property oracle."""
import itertools, operator, json
from framework import coq_bs, coq_z, coq_N, coq_bool, coq_list

ID = 'C16'
COQ_IMPORTS = ['C16_Model']
NO_SHRINK_KEYS = ('via', 'tform', 'c', 'kind', 'xsteps')
GENERATORS = ['gen_c16_reserved', 'gen_c16_ops']
RULE = ('random FeatureLists / BioBaskets of 0-8 elements drawn from small pools (so that equal elements, equal keys and ties are '
        'frequent; features may lack type/seqid/name/id), every documented filter operator and alias with values of matching and '
        'non-matching kinds, key specs as "a b" strings, tuples, len and None (default order) with and without reverse, nested '
        'groupby up to 3 keys, get/select with str and list arguments in mixed case, the 12 set-operator methods with plain-list '
        'and collection operands, basket.fts= / add_fts with duplicate and unknown ids; plus an exhaustive box for the multi-key '
        'sort (all lists up to length 3 (quick) / 6 (thorough) over 4 elements with 2x2 key values, both directions) and all 256 Latin-1 '
        'code points through lower() and through the key-string split(); '
        '320 (quick) / 3000 (thorough) HISTORIES of 2-6 calls on one collection (repeat calls, option changes, in-place edits between '
        'calls, mutation of every not-in-place result, shared construction list, read-only touches of ALL or only the FIRST element, '
        'groupby by Location / LocationTuple objects after set operators) and 60/600 attach histories on one basket (sequences no '
        'feature is attached to must keep their metadata keys and stay equal to an earlier copy); a few mixed-kind collections '
        '(outside the domain); '
        'round 6: 420/5000 get/select cases over feature types that are substrings / prefixes / case variants of one another '
        '(gene/pseudogene, RNA/mRNA/tRNA/ncRNA, exon/exon_junction, UTR/5\'UTR, CDS/cds, the empty type, None, no type) requested as '
        'str, tuple and list through FeatureList, BioSeq.fts, BioBasket.fts and the str index seq[\'type\'] (residues compared); '
        '260/3000 filter cases with str values containing one another, keys present with None vs missing, len conditions, list and '
        'tuple values, plus the exhaustive operator box (12 operators x 17 condition values x 3 collections = 612 cases); 160/2000 '
        'cases with values that collide after str() (1 / \'1\', None / \'None\', 0 / \'0\' / \'\') as group keys, ids, condition values '
        'and as the only difference between elements; 220/3000 sorts with key tuples mixing metadata keys, len, None and callables '
        '(-len, constant, lower-cased value, value with default), both directions; BioSeq.add_fts as a transport of the default '
        'sort; .d as a transport of todict; a 91-case corpus of the round-6 witnesses; '
        'round 7: 32/400 fixed + 40/600 per-seed HISTORIES ACROSS COLLECTION KINDS in one process (run_C16_xhist): the same 2-4 key names '
        '(rf, seqid, n, name, type, id, k, pos, lenseq, endpos) applied in turn to BioMatchList (groupby, d), FeatureList and BioBasket '
        '(groupby, sort, filter) objects as "a b" strings, tuples and callables, in four fixed orders of the kinds (matches first / last / '
        'middle / round robin; half of the fixed set runs first thing in the process, half last) and per seed shuffled; every object '
        'carries DIFFERENT values at every place a key can live (metadata, instance attributes, attributes of the wrapped re.Match, a '
        '.meta attribute on a BioMatch), so a getter looking in the wrong place or kept from another collection answers wrongly at once; '
        'about a third of the groupby / filter steps are followed by a groupby on the SAME collection object after it grew by 1-2 objects (same keys or new ones); key tuples also as list and iterator; '
        'interleaved find_orfs / matchall steps (they group their own collections internally) whose results are grouped / sorted / '
        'filtered / attached to a basket and compared with the partition by the values read directly off the returned objects; '
        'non-trivial = distinct case whose result is neither empty nor the unchanged input')
TRUSTED = ['CPython sorted() is a stable sort (modelled by the proven-stable insertion sort of lib/C16_StableSort.v and compared on '
           'tie-heavy inputs), dict insertion order, list.__contains__, str.lower/str.split/str.rsplit, operator module',
           'modelled: cane._keyfuncs/_groupby/_sorted/_filter (cane.py:13-105), BioMatchList.groupby / d and the attribute lookup of BioMatch (instance, then wrapped re.Match; cane.py:133-134,148-164); FeatureList.get/select/todict/groupby/sort/filter and '
           'the 12 set-operator methods (fts.py:466-505,632-699,778-830); the BioBasket counterparts, fts setter, add_fts '
           '(seq.py:661-770,1006-1116); Feature.__eq__/__lt__/__len__, LocationTuple.range/__lt__, BioSeq.__eq__/__lt__',
           'the operator table of the model is regenerated on every run by probing cane._filter with every documented operator name '
           '(tools/gens/c16.py -> gen/G_c16_ops.v) and pinned by C16_op_table_documented; '
           'Location / LocationTuple objects as group keys are rendered as text (strand, start:stop,...) on both sides; that this '
           'rendering is injective is read off, not proved; '
           'Location equality beyond (start, stop) (strand, defect, location meta) and LocationTuple construction are C08; '
           'Meta/Attr mapping behaviour is C18 (keys shadowing mapping methods, open finding F20, are outside wf_C16)']
ASSUMPTIONS = ['Python str restricted to Latin-1 code points; metadata values restricted to None, int, str',
               'key values of one sort key are all int or all str (Python cannot order None or mixed kinds: TypeError, outside the domain)']

MODELLED_FUNCS = {
    'sugar/core/cane.py': ['_keyfuncs', '_groupby', '_sorted', '_filter', 'BioMatchList.groupby', 'BioMatchList.d', 'BioMatch.__getattr__'],
    'sugar/core/fts.py': ['LocationTuple.range', 'LocationTuple.__lt__', 'Feature.type', 'Feature.id', 'Feature.seqid',
                          'Feature.__eq__', 'Feature.__lt__', 'Feature.__len__', 'Location.__eq__',
                          'FeatureList.__and__', 'FeatureList.__rand__', 'FeatureList.__iand__', 'FeatureList.__or__',
                          'FeatureList.__ror__', 'FeatureList.__ior__', 'FeatureList.__sub__', 'FeatureList.__rsub__',
                          'FeatureList.__isub__', 'FeatureList.__xor__', 'FeatureList.__rxor__', 'FeatureList.__ixor__',
                          'FeatureList.get', 'FeatureList.select', 'FeatureList.todict', 'FeatureList.groupby',
                          'FeatureList.sort', 'FeatureList.filter', 'FeatureList.d'],
    'sugar/core/seq.py': ['BioSeq.__eq__', 'BioSeq.__lt__', 'BioSeq.__len__', 'BioSeq.id', 'BioSeq.fts', 'BioSeq.add_fts',
                          'BioBasket.__and__', 'BioBasket.__rand__', 'BioBasket.__iand__', 'BioBasket.__or__',
                          'BioBasket.__ror__', 'BioBasket.__ior__', 'BioBasket.__sub__', 'BioBasket.__rsub__',
                          'BioBasket.__isub__', 'BioBasket.__xor__', 'BioBasket.__rxor__', 'BioBasket.__ixor__',
                          'BioBasket.fts', 'BioBasket.add_fts', 'BioBasket.todict', 'BioBasket.d', 'BioBasket.sort', 'BioBasket.groupby',
                          'BioBasket.filter'],
}
TYPES = ['CDS', 'cds', 'gene', 'Gene', 'tRNA', 'pseudogene', 'RNA']
NAMES = ['a', 'b', 'A', 'ab']
SEQIDS = ['s1', 's2', 'S1']
IDS = ['x', 'y', 'z']
SETOPS = ['and', 'or', 'sub', 'xor', 'rand', 'ror', 'rsub', 'rxor', 'iand', 'ior', 'isub', 'ixor']
FOPS = ['lt', 'le', 'eq', 'ne', 'ge', 'gt', 'max', 'min', 'in', 'lowerin', 'lowereq', 'contains']
# feature types that are substrings / prefixes / case variants of one another (and the empty type)
TYPE_FAMILIES = [['gene', 'pseudogene', 'Gene', 'GENE', 'gen'], ['RNA', 'mRNA', 'tRNA', 'ncRNA', 'rna', 'MRNA', 'rRNA'],
                 ['exon', 'exon_junction', 'Exon', 'ex'], ['UTR', "5'UTR", "3'UTR", 'utr', "5'utr"],
                 ['CDS', 'cds', 'Cds', 'CDS_motif', 'cd', 'mat_peptide_cds'], ['', 'a', 'ab', 'abc', 'b', 'A', 'bc']]
SUBNAMES = ['a', 'ab', 'abc', 'b', 'bc', 'A', 'Ab', 'AB', '']
COLLIDE = [1, '1', None, 'None', 0, '0', '', -1, '-1']          # values that collide after str()
DATA = 'ACGTTGCAAGGCTTAACCGGATCGATTACAGTC'                      # residues for the index transport of get()


# ----------------------------------------------------------------------------- case generation

def g_feat(rng, full, wild=False):
    m = []
    if full or rng.random() < 0.75:
        m.append(['type', rng.choice(TYPES)])
    if full or rng.random() < 0.7:
        m.append(['seqid', rng.choice(SEQIDS)])
    if full or rng.random() < 0.55:
        m.append(['name', rng.choice(NAMES)])
    if full or rng.random() < 0.55:
        m.append(['n', rng.randrange(3)])
    if rng.random() < 0.3:
        m.append(['id', rng.choice(IDS)])
    if wild and rng.random() < 0.3:
        m.append([rng.choice(['my_key', 'k', 'Len']), rng.choice([None, 1, 'q', 'Q', -2])])
    if wild and rng.random() < 0.1:
        m = [kv for kv in m if kv[0] != 'type'] + [['type', rng.choice([None, 7])]]
    rng.shuffle(m)
    nl = rng.choice([1, 1, 1, 1, 1, 2, 2, 3])
    minus = rng.random() < 0.3
    locs = []
    for _ in range(nl):
        s = rng.randrange(-1, 6)
        locs.append([s, s + rng.choice([1, 2, 3, 3, 5, 8])])          # long ones nest shorter ones
    return _with_locs({'f': True, 'd': '', 'm': m}, locs, minus)


def _with_locs(e, locs, minus):
    """locations in the order LocationTuple.__new__ stores them (fts.py:188-191): '-' by descending stop, else by start"""
    locs = sorted(locs, key=lambda l: l[1], reverse=True) if minus else sorted(locs, key=lambda l: l[0])
    e = dict(e, locs=[list(l) for l in locs])
    if minus:
        e['minus'] = True
    else:
        e.pop('minus', None)
    return e


def g_seq(rng, full, wild=False):
    m = [['id', rng.choice(IDS + ['', 'X'])]]
    if full or rng.random() < 0.6:
        m.append(['name', rng.choice(NAMES)])
    if full or rng.random() < 0.6:
        m.append(['n', rng.randrange(3)])
    if full or rng.random() < 0.4:
        m.append(['type', rng.choice(TYPES)])
    if wild and rng.random() < 0.3:
        m.append([rng.choice(['my_key', 'k']), rng.choice([None, 1, 'q', 'Q'])])
    if wild and rng.random() < 0.05:
        m[0] = ['id', rng.choice([None, 3])]
    rng.shuffle(m)
    return {'f': False, 'd': ''.join(rng.choice('ACGT') for _ in range(rng.randrange(0, 5))), 'locs': [], 'm': m}


def g_list(rng, feat=None, maxn=8, full=None, wild=None, start=0):
    feat = rng.random() < 0.65 if feat is None else feat
    full = rng.random() < 0.6 if full is None else full
    wild = rng.random() < 0.25 if wild is None else wild
    g = g_feat if feat else g_seq
    pool = [g(rng, full, wild) for _ in range(rng.choice([1, 2, 3, 3, 4, 5]))]
    n = rng.choice([0, 1, 2, 2, 3, 3, 4, 5, 6, maxn])
    xs = [dict(rng.choice(pool)) for _ in range(n)]
    for i, x in enumerate(xs):
        x['_i'] = start + i
    return xs, feat


def g_callable(rng):
    """a callable key out of the closed family the model knows (besides len)"""
    r = rng.random()
    if r < 0.25:
        return {'c': 'neglen'}
    if r < 0.4:
        return {'c': 'const'}
    if r < 0.7:
        return {'c': 'lower', 'k': rng.choice(['name', 'type', 'name', 'seqid', 'id'])}
    k = rng.choice(['n', 'name', 'k', 'type'])
    return {'c': 'getor', 'k': k, 'v': rng.choice([0, 1, -1] if k in ('n', 'k') else ['', 'a', 'zz', 'CDS'])}


def g_key(rng, allow_default):
    r = rng.random()
    if r < 0.12:
        return {'c': 'len'}
    if r < 0.22:
        return g_callable(rng)
    if r < 0.25 and allow_default:
        return None
    if r < 0.28:
        return rng.choice(['items', 'copy', '_x'])          # names shadowed by Meta methods: outside the domain (F20)
    return rng.choice(['type', 'name', 'n', 'seqid', 'id', 'name', 'n', 'k', 'len'])


def g_keys(rng, allow_default):
    r = rng.random()
    if r < 0.12:
        return {'default': True}
    if r < 0.35:
        ks = [g_key(rng, False) for _ in range(rng.choice([0, 1, 2, 2, 3]))]
        ks = [k for k in ks if isinstance(k, str)]
        return {'s': rng.choice([' ', '  ', '\t']).join(ks) + rng.choice(['', ' '])}
    if r < 0.5:
        k = g_key(rng, allow_default)
        return {'one': k} if not isinstance(k, str) else {'s': k}
    return {'t': [g_key(rng, allow_default) for _ in range(rng.choice([0, 1, 1, 2, 2, 3]))]}


def g_cond(rng, feat):
    r = rng.random()
    if rng.random() < 0.1:              # None as comparison value: selects / excludes the elements lacking the key
        return [rng.choice(['type', 'name', 'seqid', 'n']) + rng.choice(['_eq', '_ne']), None]
    if r < 0.25:
        return [rng.choice(['n', 'len']) + '_' + rng.choice(['lt', 'le', 'eq', 'ne', 'ge', 'gt', 'max', 'min']), rng.randrange(0, 4)]
    if r < 0.4:
        return [rng.choice(['name', 'seqid', 'id']) + '_' + rng.choice(['lt', 'le', 'eq', 'ne', 'ge', 'gt', 'max', 'min']),
                rng.choice(NAMES + SEQIDS + IDS)]
    if r < 0.55:
        key = rng.choice(['type', 'name', 'n', 'seqid'])
        pool = {'type': TYPES, 'name': NAMES, 'n': [0, 1, 2], 'seqid': SEQIDS}[key] + [None]
        return [key + '_in', {'l': rng.sample(pool, rng.randrange(0, 3))}]
    if r < 0.62:
        return [rng.choice(['type', 'name', 'seqid']) + '_in', rng.choice(['cdsgene', 'ab', 's1s2', ''])]
    if r < 0.72:
        return ['type_lowerin', rng.choice([{'l': ['cds', 'trna']}, {'l': ['gene']}, {'l': ['CDS']}, 'cds gene', {'l': []}])]
    if r < 0.8:
        return [rng.choice(['type', 'name']) + '_lowereq', rng.choice(['cds', 'CDS', 'gene', 'a', 'ab'])]
    if r < 0.88:
        return [rng.choice(['type', 'name', 'seqid']) + '_contains', rng.choice(['s', 'a', 'S', 'e', '', 1])]
    if r < 0.94:
        return [rng.choice(['my_key', 'k', 'Len', 'n']) + '_' + rng.choice(['eq', 'ne', 'in', 'lt']), rng.choice([None, 1, 'q', {'l': [None, 1]}])]
    return [rng.choice(['n_lt', 'n', 'name_', 'n_foo', 'n_eq', '_eq', 'n__eq', 'items_eq', 'keys_ne']), rng.choice([1, 'a'])]


def g_targ(rng):
    if rng.random() < 0.55:
        return rng.choice(['cds', 'CDS', 'Gene', 'gene', 'trna', 'x', '', 'pseudogene', 'rna', 'PseudoGene', 'ene'])
    return [rng.choice(['cds', 'CDS', 'GENE', 'tRNA', 'x', 'pseudogene', 'RNA', 'rna']) for _ in range(rng.randrange(0, 3))]


def g_typed_feat(rng, fam, i):
    """a feature whose type comes from one substring family (or is None / absent), locations inside DATA"""
    r = rng.random()
    m = []
    if r < 0.8:
        m.append(['type', rng.choice(fam)])
    elif r < 0.9:
        m.append(['type', None])
    if rng.random() < 0.5:
        m.append(['seqid', rng.choice(['s1', 's2'])])
    if rng.random() < 0.4:
        m.append(['name', rng.choice(SUBNAMES)])
    rng.shuffle(m)
    locs = []
    for _ in range(rng.choice([1, 1, 1, 2])):
        a = rng.randrange(0, 24)
        locs.append([a, a + rng.randrange(1, 9)])
    e = _with_locs({'f': True, 'd': '', 'm': m}, locs, rng.random() < 0.2)
    e['_i'] = i
    return e


def _recase(rng, t):
    return rng.choice([t, t, t.lower(), t.upper(), t.capitalize(), t.swapcase()])


def g_getselect(rng):
    """get/select over types that contain one another; the request as str, tuple or list; several transports"""
    fam = rng.choice(TYPE_FAMILIES)
    if rng.random() < 0.15:
        fam = fam + rng.choice(TYPE_FAMILIES)
    xs = [g_typed_feat(rng, fam, i) for i in range(rng.choice([1, 2, 3, 3, 4, 5, 6]))]
    present = [dict(map(tuple, e['m'])).get('type') for e in xs]
    present = [t for t in present if isinstance(t, str)]
    r = rng.random()
    if r < 0.45:                         # a str request: a family member, preferably one that a LATER feature carries
        t = _recase(rng, rng.choice(present[1:] or present or fam) if rng.random() < 0.7 else rng.choice(fam + ['x', '']))
    else:                                # several requested types (order of the request must not matter, only list order)
        n = rng.choice([0, 1, 1, 2, 2, 3])
        t = [_recase(rng, rng.choice((present if rng.random() < 0.5 and present else fam) + ['x'])) for _ in range(n)]
        if rng.random() < 0.3:
            t.reverse()
    op = rng.choice(['get', 'select'])
    via = rng.choice(['fl', 'fl', 'seqfts', 'basketfts'] + (['index'] * 4 if op == 'get' and isinstance(t, str) else []))
    c = {'_op': op, '_recv': 'fl', 'xs': xs, 't': t, 'via': via}
    if not isinstance(t, str):
        c['tform'] = rng.choice(['tuple', 'list'])
    if via == 'basketfts':
        c['cut'] = rng.randrange(0, len(xs) + 1)
    return c


def g_sub_elem(rng, feat, full, fam=None):
    """elements whose str values are substrings / prefixes of one another; keys present with value None vs missing"""
    fam = fam or rng.choice(TYPE_FAMILIES)
    m = [] if feat else [['id', rng.choice(IDS + SUBNAMES)]]
    for key, pool in (('name', SUBNAMES), ('type', fam), ('n', [0, 1, 2, 3])):
        r = rng.random()
        if full or r < 0.6:
            m.append([key, rng.choice(pool)])
        elif r < 0.8:
            m.append([key, None])
    rng.shuffle(m)
    if not feat:
        return {'f': False, 'd': ''.join(rng.choice('ACGT') for _ in range(rng.randrange(0, 5))), 'locs': [], 'm': m}
    a = rng.randrange(0, 6)
    return _with_locs({'f': True, 'd': '', 'm': m}, [[a, a + rng.randrange(1, 5)]], rng.random() < 0.2)


def g_cond_sub(rng, full, fam):
    key = rng.choice(['name', 'type'])
    strs = SUBNAMES if key == 'name' else fam
    r = rng.random()
    if r < 0.12:                # None as the value / inside the value: present-with-None and missing read alike
        return [key + '_' + rng.choice(['eq', 'ne']), None]
    if r < 0.22:
        return [key + '_in', {'l': rng.sample(strs + [None], rng.randrange(0, 4)), 'tup': rng.random() < 0.5}]
    if r < 0.38 and full:       # str in str: containment (not prefix, not equality), the container is NOT lower-cased
        cont = rng.choice(strs + ['abcab', 'xabx', 'pseudogenes', 'mrna trna', 'mRNA tRNA', 'xAbx', ' '.join(rng.sample(strs, 2)),
                                  ''.join(rng.sample(strs, 2)), 'x' + rng.choice(strs) + 'x', 'x' + rng.choice(strs).lower()])
        return [key + '_' + rng.choice(['in', 'lowerin']), cont]
    if r < 0.46 and full:
        return [key + '_lowerin', {'l': [x.lower() if rng.random() < 0.8 else x for x in rng.sample(strs, rng.randrange(0, 4))],
                                   'tup': rng.random() < 0.5}]
    if r < 0.54 and full:
        return [key + '_lowereq', rng.choice([x.lower() for x in strs] + strs)]
    if r < 0.64 and full:
        return [key + '_contains', rng.choice(strs + ['g', 'RNA', 'a'])]
    if r < 0.74 and full:       # ordering between prefixes ('a' < 'ab' < 'abc' < 'b', upper before lower case)
        return [key + '_' + rng.choice(['lt', 'le', 'ge', 'gt', 'max', 'min']), rng.choice(strs)]
    if r < 0.84:                # the callable key len
        return rng.choice([['len_in', {'l': rng.sample([0, 1, 2, 3, 4, '1', None], rng.randrange(0, 4)), 'tup': rng.random() < 0.5}],
                           ['len_' + rng.choice(['eq', 'ne', 'lt', 'le', 'ge', 'gt', 'max', 'min']), rng.randrange(0, 5)],
                           ['len_eq', rng.choice(['1', None])]])
    if r < 0.92:
        return ['n_' + rng.choice(['eq', 'ne']), rng.choice([0, 1, '1', None])]
    return ['n_in', {'l': rng.sample([0, 1, 2, '1', None], rng.randrange(0, 4)), 'tup': rng.random() < 0.5}]


def g_collide(rng):
    """values that look alike after str() (1 / '1', None / 'None', 0 / '0' / '') as group keys, ids, condition values and as
    the only difference between two elements"""
    feat = rng.random() < 0.6
    pool = []
    for _ in range(rng.choice([2, 3, 4])):
        m = [['id', rng.choice(COLLIDE)]] if (not feat or rng.random() < 0.6) else []
        if rng.random() < 0.85:
            m.append(['n', rng.choice(COLLIDE)])
        if rng.random() < 0.5:
            m.append(['k', rng.choice(COLLIDE)])
        if feat and rng.random() < 0.5:
            m.append(['seqid', rng.choice(['1', 1, 's1'])])
        rng.shuffle(m)
        pool.append(_with_locs({'f': True, 'd': '', 'm': m}, [[0, rng.choice([1, 2])]], False) if feat
                    else {'f': False, 'd': rng.choice(['', 'A', 'AC']), 'locs': [], 'm': m})
    xs = [dict(rng.choice(pool)) for _ in range(rng.choice([2, 3, 4, 5, 6]))]
    for i, x in enumerate(xs):
        x['_i'] = i
    recv = 'fl' if feat else 'bb'
    r = rng.random()
    if r < 0.4:
        keys = rng.choice([{'s': 'n'}, {'t': ['n', 'k']}, {'t': ['k', 'n']}, {'s': 'id n'}, {'default': True}, {'one': {'c': 'getor', 'k': 'n', 'v': '1'}},
                           {'t': [{'c': 'getor', 'k': 'k', 'v': 1}, 'n']}, {'t': ['seqid', 'n']}])
        return {'_op': 'groupby', '_recv': recv, 'xs': xs, 'keys': keys}
    if r < 0.55:
        return {'_op': 'todict', '_recv': recv, 'xs': xs}
    if r < 0.8:
        key = rng.choice(['n', 'k', 'id'])
        v = rng.choice(COLLIDE)
        c = rng.choice([[key + '_eq', v], [key + '_ne', v], [key + '_in', {'l': rng.sample(COLLIDE, rng.randrange(0, 4)), 'tup': rng.random() < 0.5}]])
        return {'_op': 'filter', '_recv': recv, 'inplace': rng.random() < 0.3, 'xs': xs, 'conds': [c]}
    k = rng.randrange(0, len(xs))
    return {'_op': 'setop', '_recv': recv, 'code': rng.randrange(12), 'a': xs[:k], 'b': xs[k:], 'plain': rng.random() < 0.4}


def g_sortmix(rng):
    """sort with key tuples mixing meta keys and callables, both directions, tie-heavy"""
    feat = rng.random() < 0.6
    pool = [g_sub_elem(rng, feat, True) for _ in range(rng.choice([2, 3, 4]))]
    xs = [dict(rng.choice(pool)) for _ in range(rng.choice([2, 3, 4, 5, 6, 7]))]
    for i, x in enumerate(xs):
        x['_i'] = i
    ks = []
    for _ in range(rng.choice([1, 2, 2, 3, 3, 4])):
        r = rng.random()
        ks.append(rng.choice(['name', 'n', 'type']) if r < 0.45 else {'c': 'len'} if r < 0.55 else None if r < 0.6 and feat
                  else rng.choice([{'c': 'neglen'}, {'c': 'const'}, {'c': 'lower', 'k': rng.choice(['name', 'type'])},
                                   {'c': 'getor', 'k': rng.choice(['n', 'q']), 'v': rng.choice([0, 1, 5])}]))
    keys = {'t': ks} if len(ks) > 1 or rng.random() < 0.5 else {'one': ks[0]} if not isinstance(ks[0], str) else {'s': ks[0]}
    return {'_op': 'sort', '_recv': 'fl' if feat else 'bb', 'xs': xs, 'keys': keys, 'reverse': rng.random() < 0.6}


def box_cases(maxlen):
    """exhaustive box for the multi-key sort: 4 elements with key values (name, n) in {a,b} x {0,1}"""
    pool = [{'f': True, 'd': '', 'locs': [[0, 1]], 'm': [['name', a], ['n', n]]} for a in 'ab' for n in (0, 1)]
    out = []
    for n in range(0, maxlen + 1):
        for t in itertools.product(range(4), repeat=n):
            xs = []
            for i, j in enumerate(t):
                x = dict(pool[j])
                x['_i'] = i
                xs.append(x)
            for rev in (False, True):
                out.append({'_op': 'sort', '_recv': 'fl', 'xs': xs, 'keys': {'t': ['name', 'n']}, 'reverse': rev})
    return out


def op_box_cases():
    """every documented operator x a battery of condition values x three collections (all-str values that are substrings,
    prefixes and case variants of one another; key missing / present with None; ints) - exhaustive, deterministic"""
    def coll(vals, key='name'):
        xs = []
        for i, v in enumerate(vals):
            m = [['tag', i]] + ([] if v == 'MISSING' else [[key, v]])
            xs.append({'f': True, 'd': '', 'locs': [[0, 1 + i % 3]], 'm': m, '_i': i})
        return xs
    colls = [coll(['a', 'ab', 'AB', 'b', '', 'Ab', 'abc']), coll(['MISSING', None]), coll([1, 2, 0], 'n')]
    values = ['a', 'ab', 'abc', 'xabx', 'AB', 'xABx', '', None, 1, 2, {'l': ['a']}, {'l': ['ab', None]}, {'l': ['A', 'ab'], 'tup': True},
              {'l': []}, {'l': [1]}, {'l': [0, 2], 'tup': True}, {'l': ['abc', 'b'], 'tup': True}]
    out = []
    for xs in colls:
        key = 'n' if xs[0]['m'][-1][0] == 'n' else 'name'
        for kop in FOPS:
            for v in values:
                out.append({'_op': 'filter', '_recv': 'fl', 'inplace': False, 'xs': [dict(x) for x in xs], 'conds': [[key + '_' + kop, v]]})
    return out


def latin1_cases():
    """every Latin-1 code point through str.lower() (lowereq) and through str.split() (a key string 'name<c>n')"""
    out = []
    for c in range(256):
        ch = chr(c)
        x = {'f': True, 'd': '', 'locs': [[0, 2]], 'm': [['name', 'A' + ch], ['n', 1]], '_i': 0}
        y = {'f': True, 'd': '', 'locs': [[1, 2]], 'm': [['name', 'a'], ['n', 2]], '_i': 1}
        out.append({'_op': 'filter', '_recv': 'fl', 'inplace': False, 'xs': [x, y], 'conds': [['name_lowereq', ('A' + ch).lower()]]})
        out.append({'_op': 'groupby', '_recv': 'fl', 'xs': [dict(x), dict(y)], 'keys': {'s': 'name' + ch + 'n'}})
    return out


# ----------------------------------------------------------------------------- histories (state-independence stream)

def g_cond_safe(rng, feat):
    r = rng.random()
    if r < 0.3:
        return [rng.choice(['n', 'len']) + '_' + rng.choice(['lt', 'le', 'eq', 'ne', 'ge', 'gt', 'max', 'min']), rng.randrange(0, 4)]
    if r < 0.5:
        return ['name_' + rng.choice(['lt', 'le', 'eq', 'ne', 'ge', 'gt', 'max', 'min']), rng.choice(NAMES)]
    if r < 0.65:
        return ['type_in', {'l': rng.sample(TYPES, rng.randrange(0, 4))}]
    if r < 0.75:
        return ['type_lowerin', {'l': rng.sample(['cds', 'gene', 'trna'], rng.randrange(0, 3))}]
    if r < 0.85:
        return ['type_lowereq', rng.choice(['cds', 'gene'])]
    if r < 0.93:
        return ['name_contains', rng.choice(['a', 'b', ''])]
    return ['tag_' + rng.choice(['eq', 'ne']), rng.choice([None, 1, 'q'])]


def g_keys_safe(rng, feat, sort):
    pool = ['name', 'n', 'type', {'c': 'len'}, 'seqid' if feat else 'id', {'c': 'neglen'}, {'c': 'getor', 'k': 'n', 'v': 1},
            {'c': 'lower', 'k': 'name'}, {'c': 'const'}]
    r = rng.random()
    if r < 0.15:
        return {'default': True}
    if r < 0.4:
        ks = [k for k in rng.sample(pool, rng.choice([1, 2])) if isinstance(k, str)] or ['name']
        return {'s': ' '.join(ks)}
    if r < 0.5 and sort:
        return {'one': rng.choice([None, {'c': 'len'}])}
    if r < 0.55:
        return {'one': {'c': 'len'}}
    return {'t': rng.sample(pool, rng.choice([1, 2, 2, 3])) + ([None] if sort and rng.random() < 0.15 else [])}


def g_hist(rng):
    feat = rng.random() < 0.6
    g = g_feat if feat else g_seq
    pool = [g(rng, True, False) for _ in range(rng.choice([2, 3, 4]))]
    xs = [dict(rng.choice(pool)) for _ in range(rng.choice([1, 2, 3, 4, 5, 6]))]
    for i, x in enumerate(xs):
        x['_i'] = i
    nxt = len(xs)
    steps = []
    for _ in range(rng.choice([2, 3, 4, 5, 6])):
        r = rng.random()
        if r < 0.28:
            conds, seen = [], set()
            for _ in range(rng.choice([0, 0, 1, 1, 2])):
                c = g_cond_safe(rng, feat)
                if c[0] not in seen:
                    seen.add(c[0])
                    conds.append(c)
            steps.append({'s': 'filter', 'inplace': rng.random() < 0.25, 'conds': conds})
        elif r < 0.42:
            steps.append({'s': 'sort', 'keys': g_keys_safe(rng, feat, True), 'reverse': rng.random() < 0.4})
        elif r < 0.52:
            keys = g_keys_safe(rng, feat, False)
            if feat and rng.random() < 0.45:        # Location / LocationTuple objects as group keys (hashed, compared with ==)
                lk = {'c': rng.choice(['loc', 'locs'])}
                keys = rng.choice([{'one': lk}, {'t': [lk]}, {'t': ['seqid', lk]}, {'t': [lk, 'type']}])
            steps.append({'s': 'groupby', 'keys': keys})
        elif r < 0.6 and feat:
            steps.append({'s': rng.choice(['select', 'get']), 't': g_targ(rng)})
        elif r < 0.65:
            steps.append({'s': 'todict'})
        elif r < 0.85:
            b = [dict(rng.choice(pool)) for _ in range(rng.choice([0, 1, 2, 3]))]
            for x in b:
                x['_i'] = nxt
                nxt += 1
            steps.append({'s': 'setop', 'code': rng.randrange(12), 'b': b, 'plain': rng.random() < 0.4})
        elif r < 0.885:
            steps.append({'s': 'touch', 'kind': rng.choice(['str', 'repr', 'locmeta', 'loc1meta', 'locmeta0', 'eq0', 'hash0'])})
        elif r < 0.9:
            steps.append({'s': 'reverse'})
        elif r < 0.94:
            steps.append({'s': 'setitem', 'j': rng.randrange(0, 4), 'i': rng.randrange(0, 4)})
        else:
            k = rng.choice(['name', 'n', 'type', 'tag', 'id', 'seqid' if feat else 'id'])
            v = rng.choice({'name': NAMES, 'n': [0, 1, 2], 'type': TYPES, 'tag': [None, 1, 'q'], 'id': IDS, 'seqid': SEQIDS}[k])
            steps.append({'s': 'setmeta', 'j': rng.randrange(0, 4), 'k': k, 'v': v})
    return {'_op': 'hist', '_recv': 'fl' if feat else 'bb', 'xs': xs, 'steps': steps}


def g_hattach(rng):
    k = 0
    seqs = []
    for _ in range(rng.choice([1, 2, 3, 4])):
        sid = rng.choice(SEQIDS + ['s1', 's9'])
        old = []
        for _ in range(rng.choice([0, 0, 1])):
            f = g_feat(rng, True)
            f['m'] = [kv if kv[0] != 'seqid' else ['seqid', sid] for kv in f['m']]
            f['_i'] = k
            k += 1
            old.append(f)
        seqs.append([sid, old])
    steps = []
    for _ in range(rng.choice([2, 3, 4])):
        fs = [g_feat(rng, rng.random() < 0.8) for _ in range(rng.choice([0, 1, 2, 3, 4]))]
        for f in fs:
            f['_i'] = k
            k += 1
        steps.append({'add': rng.random() < 0.5, 'fs': fs, 'plain': rng.random() < 0.5})
    return {'_op': 'hattach', 'seqs': seqs, 'steps': steps}


# ----------------------------------------------------------------------------- histories ACROSS collection kinds (round 7)
# The same key names applied in turn to BioMatchList, FeatureList and BioBasket objects in one process; every object carries BOTH
# places a key can live in (metadata AND instance attributes, BioMatch also the attributes of the wrapped re.Match) with DIFFERENT
# values, so a getter that looks in the wrong place (or was built for another collection and kept) gives a wrong answer at once.

XNAMES = {'rf': [-3, -2, -1, 0, 1, 2], 'seqid': ['s1', 's2', 'S1'], 'n': [0, 1, 2], 'name': ['a', 'b', 'A', 'ab'], 'type': ['CDS', 'cds', 'gene', 'ORF'],
          'id': ['x', 'y', 'z'], 'k': [5, 6, 7], 'pos': [0, 1, 2, 3], 'lenseq': [3, 30, 33], 'endpos': [4, 5, 6]}
XINST = ['rf', 'n', 'k', 'pos', 'lenseq', 'endpos']          # names free for an instance attribute on Feature / BioSeq


def _other(rng, name, v):
    pool = [x for x in XNAMES[name] if x != v] or XNAMES[name]
    return rng.choice(pool)


def g_xobj(rng, K, names, full, i):
    """one object of kind K with values for `names` at every place it has (different value per place)"""
    if K == 'ml':
        inst = []
        for a in ('rf', 'seqid', 'lenseq'):                  # BioMatch.__init__ always sets these three (possibly to None)
            inst.append([a, rng.choice(XNAMES[a]) if (a in names and full) or rng.random() < 0.75 else None])
        for a in names:
            if a not in ('rf', 'seqid', 'lenseq', 'endpos') and (a != 'pos' or rng.random() < 0.4) and (full or rng.random() < 0.7):
                inst.append([a, rng.choice(XNAMES[a])])     # an instance attribute set by the caller ('pos': hides the re.Match one)
        L = rng.choice(XNAMES['endpos'])
        p = rng.choice(XNAMES['pos'])
        d = dict(map(tuple, inst))
        meta = None
        if rng.random() < 0.6:                               # a .meta attribute holding OTHER values (never looked at)
            meta = [[a, _other(rng, a, d.get(a))] for a in names if rng.random() < 0.8]
        return {'ml': True, 'f': False, 'd': '', 'locs': [], 'm': meta or [], 'hasmeta': meta is not None, '_i': i, 'inst': inst,
                'wrap': [['pos', p], ['endpos', L], ['lastindex', None], ['lastgroup', None]]}
    feat = K == 'fl'
    m = [] if feat else [['id', rng.choice(XNAMES['id'])]]
    for a in names:
        if (a != 'id' or feat) and (full or rng.random() < 0.75):
            m.append([a, rng.choice(XNAMES[a])])
    if feat and 'seqid' not in names and rng.random() < 0.5:
        m.append(['seqid', rng.choice(XNAMES['seqid'])])
    rng.shuffle(m)
    d = dict(map(tuple, m))
    inst = [[a, _other(rng, a, d.get(a))] for a in names if a in XINST and rng.random() < 0.7]
    if feat:
        a0 = rng.randrange(0, 6)
        e = _with_locs({'f': True, 'd': '', 'm': m}, [[a0, a0 + rng.randrange(1, 5)]], rng.random() < 0.2)
    else:
        e = {'f': False, 'd': ''.join(rng.choice('ACGT') for _ in range(rng.randrange(0, 5))), 'locs': [], 'm': m}
    e.update(_i=i, inst=inst, wrap=[])
    return e


def g_xkeys(rng, K, names, sort):
    """a key spec over the shared names: 'a b' string, one str, tuple with callables"""
    strs = [a for a in names if not (K == 'bb' and False)]
    r = rng.random()
    if r < 0.1 and not sort:
        return {'default': True}
    if r < 0.4:
        return {'s': rng.choice(strs)}
    if r < 0.6:
        return {'s': rng.choice([' ', '  ']).join(rng.sample(strs, min(len(strs), rng.choice([1, 2, 2, 3]))))}
    ks = []
    for a in rng.sample(strs, min(len(strs), rng.choice([1, 2, 2, 3]))):
        q = rng.random()
        if q < 0.7:
            ks.append(a)
        elif q < 0.85:
            ks.append({'c': 'getor', 'k': a, 'v': rng.choice(XNAMES[a])})
        elif isinstance(XNAMES[a][0], str):
            ks.append({'c': 'lower', 'k': a})
        else:
            ks.append({'c': 'const'})
    if K != 'ml' and rng.random() < 0.15:
        ks.insert(rng.randrange(len(ks) + 1), {'c': 'len'})
    if len(ks) == 1 and rng.random() < 0.4:
        return {'one': ks[0]} if not isinstance(ks[0], str) else {'s': ks[0]}
    return {'t': ks}


def g_xcond(rng, names):
    a = rng.choice(names + ['len'] if rng.random() < 0.15 else names)
    if a == 'len':
        return ['len_' + rng.choice(['ge', 'le', 'eq', 'min', 'max']), rng.randrange(0, 5)]
    r = rng.random()
    if r < 0.4:
        return [a + '_' + rng.choice(['eq', 'ne']), rng.choice(XNAMES[a] + [None])]
    if r < 0.7:
        return [a + '_in', {'l': rng.sample(XNAMES[a] + [None], rng.randrange(0, 4)), 'tup': rng.random() < 0.5}]
    return [a + '_' + rng.choice(['lt', 'le', 'ge', 'gt', 'min', 'max']), rng.choice(XNAMES[a])]


XSEQS = ['ATGAAATAGCATGCCCTGAAACAT', 'CCATGATGTAACTATTTCATAGG', 'ATGTAA', 'TTACATATGCCCTAGATGA', 'AUGGCUUAAGCAUGGGUAG', 'ACGT', '',
         'ATG-AAA-TAGCATG--CCCTGA']


def g_xoracle(rng, names):
    """a step through find_orfs / matchall (they call the helpers internally and on their own collections); the answer is checked
    against the partition / stable order by the values read directly off the returned objects"""
    seq = rng.choice(XSEQS)
    rf = rng.choice(['both', 'both', 'fwd', 'bwd', 0, -1, [0, -1, 2]])
    if rng.random() < 0.5:
        key = rng.choice(['rf', 'rf', 'seqid', 'type'] + [a for a in names if a in ('rf', 'seqid', 'type', 'name')])
        return {'s': 'orfs', 'seq': seq, 'rf': rf, 'need_start': rng.choice(['always', 'always', 'once', 'never']),
                'op': rng.choice(['groupby', 'groupby', 'sort', 'filter', 'basket']), 'key': key, 'reverse': rng.random() < 0.3}
    keys = rng.choice(['rf', None, 'seqid', 'rf seqid', 'lenseq', 'pos', 'd'] + [a for a in names if a not in ('type', 'name', 'id')])
    return {'s': 'mall', 'seq': seq, 'rf': rf, 'sub': rng.choice(['start', 'stop', 'A', 'AT.', 'G|C']), 'keys': keys}


def g_xhist(rng, mode):
    names = rng.sample(sorted(XNAMES), rng.choice([2, 3, 3, 4]))
    if 'rf' not in names and rng.random() < 0.5:
        names[0] = 'rf'
    by_kind = {'ml': [], 'fl': [], 'bb': []}
    for K in by_kind:
        knames = [a for a in names if not (K == 'bb' and a == 'id')] or ['n']
        for _ in range(rng.choice([1, 2, 2, 3])):
            op = 'groupby' if K == 'ml' else rng.choice(['groupby', 'groupby', 'sort', 'sort', 'filter'])
            st = {'s': op, 'K': K}
            if op == 'filter':
                conds, seen = [], set()
                for _ in range(rng.choice([1, 1, 2])):
                    c = g_xcond(rng, knames)
                    if c[0] not in seen:
                        seen.add(c[0])
                        conds.append(c)
                st['conds'] = conds
            else:
                st['keys'] = g_xkeys(rng, K, knames, op == 'sort')
                if 't' in st['keys'] and rng.random() < 0.4:
                    st['kform'] = rng.choice(['list', 'iter'])
                if op == 'sort':
                    st['reverse'] = rng.random() < 0.4
                elif K == 'ml' and rng.random() < 0.1:
                    st['via'] = 'd'                       # BioMatchList.d: documented alias of groupby('seqid')
                    st['keys'] = {'s': 'seqid'}
            # ordering comparisons and .lower() need a value of the right kind on every object (None: TypeError / AttributeError)
            needy = (op == 'sort' or any(c[0].rsplit('_', 1)[1] in ('lt', 'le', 'ge', 'gt', 'min', 'max') for c in st.get('conds', []))
                     or any(isinstance(k, dict) and k['c'] == 'lower' for k in st.get('keys', {}).get('t', [st.get('keys', {}).get('one')])))
            full = needy or rng.random() < 0.4
            pool = [g_xobj(rng, K, knames, full, 0) for _ in range(rng.choice([2, 3, 4]))]
            xs = [dict(rng.choice(pool)) for _ in range(rng.choice([0, 1, 2, 3, 4, 5, 6]) if rng.random() < 0.15 else rng.choice([3, 4, 5, 6]))]
            for i, x in enumerate(xs):
                x['_i'] = i
            st['xs'] = xs
            unit = [st]
            if op != 'sort' and rng.random() < 0.35:
                # the SAME collection object again after it grew by some objects: same keys (a kept answer would show) or new ones
                extra = [dict(rng.choice(pool)) for _ in range(rng.choice([1, 1, 2]))]
                for i, x in enumerate(extra):
                    x['_i'] = len(xs) + i
                st2 = {'s': 'groupby', 'K': K, 'xs': [dict(x) for x in xs] + extra, 'reuse': len(xs)}
                if op == 'groupby' and rng.random() < 0.6:
                    st2['keys'] = st['keys']
                    for a in ('via', 'kform'):
                        if a in st:
                            st2[a] = st[a]
                else:
                    st2['keys'] = g_xkeys(rng, K, knames, False)
                    if any(isinstance(k, dict) and k['c'] == 'lower' for k in st2['keys'].get('t', [st2['keys'].get('one')])) and not full:
                        st2['keys'] = {'s': knames[0]}
                unit.append(st2)
            by_kind[K].append(unit)
    if mode == 0:
        steps = by_kind['ml'] + by_kind['fl'] + by_kind['bb']
    elif mode == 1:
        steps = by_kind['fl'] + by_kind['bb'] + by_kind['ml']
    elif mode == 2:
        steps = by_kind['bb'] + by_kind['ml'] + by_kind['fl']
    elif mode == 3:                                     # round robin
        steps = [st for tri in itertools.zip_longest(by_kind['fl'], by_kind['ml'], by_kind['bb']) for st in tri if st]
    else:
        steps = by_kind['ml'] + by_kind['fl'] + by_kind['bb']
        rng.shuffle(steps)
    for _ in range(rng.choice([0, 1, 1, 2])):
        steps.insert(rng.randrange(len(steps) + 1), [g_xoracle(rng, names)])
    return {'_op': 'xhist', 'xsteps': [st for unit in steps for st in unit]}


def gen_cases(rng, tier):
    # histories across collection kinds: a FIXED set (the same for every seed; four orders of the kinds), half of it first thing in the
    # process and half after everything else, and a per-seed set in shuffled order (drawn without touching the stream of `rng`)
    _R = __import__('random').Random
    frng = _R(16)
    nfix, nseed = (100, 600) if tier == 'thorough' else (8, 40)
    xfix = [g_xhist(frng, mode) for _ in range(nfix) for mode in (0, 1, 2, 3)]
    xsrng = _R(repr(rng.getstate()[1][:8]))
    xseed = [g_xhist(xsrng, 4) for _ in range(nseed)]
    cases = xfix[:len(xfix) // 2] + box_cases(6 if tier == 'thorough' else 3) + latin1_cases() + op_box_cases()
    hrng = __import__('random').Random(rng.random())        # own stream: the single-call cases keep their sequence
    for _ in range(3000 if tier == 'thorough' else 320):
        cases.append(g_hist(hrng))
    for _ in range(600 if tier == 'thorough' else 60):
        cases.append(g_hattach(hrng))
    for _ in range(400 if tier == 'thorough' else 40):        # |= / ^= with several mutually equal new elements on the right
        feat = hrng.random() < 0.5
        g = g_feat if feat else g_seq
        pool = [g(hrng, True, False) for _ in range(4)]
        a = [dict(hrng.choice(pool[:2])) for _ in range(hrng.choice([0, 1, 2]))]
        b = [dict(hrng.choice(pool[1:])) for _ in range(hrng.choice([2, 3, 4, 5]))]
        for i, x in enumerate(a + b):
            x['_i'] = i
        cases.append({'_op': 'setop', '_recv': 'fl' if feat else 'bb', 'code': hrng.choice([9, 9, 11, 1, 5]), 'a': a, 'b': b,
                      'plain': hrng.random() < 0.5})
    for _ in range(600 if tier == 'thorough' else 60):        # elements differing only in WHICH key holds None / is absent
        feat = hrng.random() < 0.5
        base = (g_feat if feat else g_seq)(hrng, hrng.random() < 0.5, False)
        ks = hrng.sample(['name', 'seqid', 'organism', 'strain', 'note'], 3)
        bm = [kv for kv in base['m'] if kv[0] not in ks]
        pool = [dict(base, m=bm + [[ks[0], None]]), dict(base, m=bm + [[ks[1], None]]), dict(base, m=bm + [[ks[0], None], [ks[1], None]]),
                dict(base, m=bm + [[ks[0], 'v']]), dict(base, m=bm), dict(base, m=[[ks[1], None]] + bm), dict(base, m=bm + [[ks[2], 0]])]
        a = [dict(hrng.choice(pool)) for _ in range(hrng.choice([1, 2, 3]))]
        b = [dict(hrng.choice(pool)) for _ in range(hrng.choice([1, 2, 3]))]
        for i, x in enumerate(a + b):
            x['_i'] = i
        cases.append({'_op': 'setop', '_recv': 'fl' if feat else 'bb', 'code': hrng.randrange(12), 'a': a, 'b': b,
                      'plain': hrng.random() < 0.4})
    for _ in range(600 if tier == 'thorough' else 60):        # multi-location features, both strands, nested: default order
        xs = []
        for i in range(hrng.choice([2, 3, 4, 5])):
            f = g_feat(hrng, True)
            f['m'] = [kv if kv[0] != 'seqid' else ['seqid', hrng.choice(['s1', 's1', 's2'])] for kv in f['m']]
            locs = [[s, s + hrng.choice([1, 3, 10, 40, 60])] for s in (hrng.choice([0, 0, 5, 20, 30]) for _ in range(hrng.choice([1, 2, 3])))]
            f = _with_locs(f, locs, hrng.random() < 0.5)
            f['_i'] = i
            xs.append(f)
        keys = hrng.choice([{'default': True}, {'one': None}, {'t': ['seqid', None]}, {'t': [None]}, {'t': [None, 'n']}])
        if hrng.random() < 0.3:
            seqs = [[sid, []] for sid in hrng.sample(['s1', 's2', 's9'], 2)]
            k = len(xs)
            for sq in seqs:
                for _ in range(hrng.choice([0, 1])):
                    f = _with_locs(dict(g_feat(hrng, True), m=[['seqid', sq[0]], ['type', 'x']]), [[hrng.choice([0, 20]), 25]], False)
                    f['_i'] = k
                    k += 1
                    sq[1].append(f)
            cases.append({'_op': 'attach', 'add': True, 'seqs': seqs, 'fs': xs, 'plain': hrng.random() < 0.5})
        else:
            c = {'_op': 'sort', '_recv': 'fl', 'xs': xs, 'keys': keys, 'reverse': hrng.random() < 0.4}
            if hrng.random() < 0.35:        # BioSeq.add_fts: the old features followed by the new ones, in the default order
                c.update(keys={'default': True}, reverse=False, via='seqadd', cut=hrng.randrange(0, len(xs) + 1), plain=hrng.random() < 0.5)
            cases.append(c)
    for _ in range(500 if tier == 'thorough' else 50):        # get/select with several requested types, features of several types
        xs, _ = g_list(hrng, feat=True, full=hrng.random() < 0.7, wild=False)
        ts = hrng.sample(['cds', 'CDS', 'gene', 'GENE', 'tRNA', 'trna', 'x'], hrng.choice([2, 2, 3]))
        present = []
        for e in xs:
            t = dict(map(tuple, e['m'])).get('type')
            if isinstance(t, str) and t.lower() not in present:
                present.append(t.lower())
        if len(present) >= 2 and hrng.random() < 0.7:          # request the types that occur, the later-occurring one first
            ts = [hrng.choice([t, t.upper(), t.capitalize()]) for t in reversed(present)]
            if hrng.random() < 0.3:
                ts.insert(hrng.randrange(len(ts) + 1), 'x')
        cases.append({'_op': hrng.choice(['get', 'get', 'select']), '_recv': 'fl', 'xs': xs, 't': ts})
    for _ in range(400 if tier == 'thorough' else 40):        # two conditions on the SAME key
        xs, feat = g_list(hrng, full=True, wild=False)
        key = hrng.choice(['n', 'len', 'name'])
        lo, hi = hrng.sample(['gt', 'ge', 'min', 'ne'], 1)[0], hrng.sample(['lt', 'le', 'max', 'ne', 'eq'], 1)[0]
        v = (lambda: hrng.choice(NAMES)) if key == 'name' else (lambda: hrng.randrange(0, 4))
        conds = [[key + '_' + lo, v()], [key + '_' + hi, v()]]
        if hrng.random() < 0.5:
            conds.reverse()
        cases.append({'_op': 'filter', '_recv': 'fl' if feat else 'bb', 'inplace': hrng.random() < 0.3, 'xs': xs, 'conds': conds})
    wrng = __import__('random').Random(hrng.random())        # round-6 streams (own stream again)
    for _ in range(5000 if tier == 'thorough' else 420):      # substring families through get/select, every transport
        cases.append(g_getselect(wrng))
    for _ in range(3000 if tier == 'thorough' else 260):      # filter: substrings / prefixes, None vs missing, len, in-tuples
        feat = wrng.random() < 0.6
        full = wrng.random() < 0.6
        fam = wrng.choice(TYPE_FAMILIES)
        pool = [g_sub_elem(wrng, feat, full, fam) for _ in range(wrng.choice([2, 3, 4, 5]))]
        xs = [dict(wrng.choice(pool)) for _ in range(wrng.choice([1, 2, 3, 4, 5, 6]))]
        for i, x in enumerate(xs):
            x['_i'] = i
        conds, seen = [], set()
        for _ in range(wrng.choice([1, 1, 1, 2, 2, 3])):
            c = g_cond_sub(wrng, full, fam)
            if c[0] not in seen:
                seen.add(c[0])
                conds.append(c)
        cases.append({'_op': 'filter', '_recv': 'fl' if feat else 'bb', 'inplace': wrng.random() < 0.35, 'xs': xs, 'conds': conds})
    for _ in range(2000 if tier == 'thorough' else 160):
        cases.append(g_collide(wrng))
    for _ in range(3000 if tier == 'thorough' else 220):
        cases.append(g_sortmix(wrng))
    n = 30000 if tier == 'thorough' else 1800
    for _ in range(n):
        r = rng.random()
        if r < 0.2:
            xs, feat = g_list(rng)
            nc = rng.choice([0, 1, 1, 1, 2, 2, 3])
            conds, seen = [], set()
            for _ in range(nc):
                c = g_cond(rng, feat)
                if c[0] not in seen:
                    seen.add(c[0])
                    conds.append(c)
            cases.append({'_op': 'filter', '_recv': 'fl' if feat else 'bb', 'inplace': rng.random() < 0.4, 'xs': xs, 'conds': conds})
        elif r < 0.42:
            xs, feat = g_list(rng, full=rng.random() < 0.8)
            if rng.random() < 0.03:             # a collection holding both kinds: Python raises TypeError (outside the domain)
                xs.insert(rng.randrange(len(xs) + 1), dict((g_seq if feat else g_feat)(rng, True, False), _i=len(xs)))
            cases.append({'_op': 'sort', '_recv': 'fl' if feat else 'bb', 'xs': xs, 'keys': g_keys(rng, True), 'reverse': rng.random() < 0.4})
        elif r < 0.57:
            xs, feat = g_list(rng)
            cases.append({'_op': 'groupby', '_recv': 'fl' if feat else 'bb', 'xs': xs, 'keys': g_keys(rng, rng.random() < 0.1)})
        elif r < 0.67:
            xs, _ = g_list(rng, feat=True, full=False)
            cases.append({'_op': rng.choice(['select', 'get']), '_recv': 'fl', 'xs': xs, 't': g_targ(rng)})
        elif r < 0.72:
            xs, feat = g_list(rng)
            cases.append({'_op': 'todict', '_recv': 'fl' if feat else 'bb', 'xs': xs, 'via': rng.choice(['todict', 'd'])})
        elif r < 0.9:
            feat = rng.random() < 0.6
            full = rng.random() < 0.5
            g = g_feat if feat else g_seq
            pool = [g(rng, full, False) for _ in range(rng.choice([2, 3, 4, 5]))]
            a = [dict(rng.choice(pool)) for _ in range(rng.choice([0, 1, 2, 3, 4, 6]))]
            b = [dict(rng.choice(pool)) for _ in range(rng.choice([0, 1, 2, 3, 4, 6]))]
            for i, x in enumerate(a + b):
                x['_i'] = i
            if rng.random() < 0.04:             # an element of the other kind in the right operand (outside the domain)
                b.append(dict((g_seq if feat else g_feat)(rng, full, False), _i=len(a) + len(b)))
            cases.append({'_op': 'setop', '_recv': 'fl' if feat else 'bb', 'code': rng.randrange(12), 'a': a, 'b': b,
                          'plain': rng.random() < 0.4,
                          'touch': [[rng.choice('ab'), rng.choice(TOUCHES)] for _ in range(rng.choice([0, 0, 1, 1, 2]))]})
        else:
            wild = rng.random() < 0.3
            fs, _ = g_list(rng, feat=True, full=not wild and rng.random() < 0.8, wild=False, maxn=7)
            nseq = rng.choice([0, 1, 2, 3, 4])
            seqs, k = [], len(fs)
            for _ in range(nseq):
                sid = rng.choice(SEQIDS + ['s1', 's9'] + ([None, 2] if wild else []))
                old = []
                for _ in range(rng.choice([0, 0, 1, 2])):
                    f = g_feat(rng, True)
                    if isinstance(sid, str) and rng.random() < 0.85:
                        f['m'] = [kv if kv[0] != 'seqid' else ['seqid', sid] for kv in f['m']]
                    f['_i'] = k
                    k += 1
                    old.append(f)
                seqs.append([sid, old])
            cases.append({'_op': 'attach', 'add': rng.random() < 0.5, 'seqs': seqs, 'fs': fs, 'plain': rng.random() < 0.5})
    return cases + xfix[len(xfix) // 2:] + xseed


# ----------------------------------------------------------------------------- implementation driver

def _build(e):
    from sugar import BioSeq, Feature
    from sugar.core.fts import Location
    if e['f']:
        return Feature(locs=[Location(s, t, strand='-' if e.get('minus') else '+') for s, t in e['locs']], meta={k: v for k, v in e['m']})
    return BioSeq(e['d'], meta={k: v for k, v in e['m']})


TOUCHES = ['str', 'repr', 'locmeta', 'loc1meta', 'slice', 'copy']


def _touch(objs, kind, cls, ident):
    """read-only use of a list of elements; 'slice'/'copy' give equal new objects (registered under the same positions)"""
    from sugar import FeatureList
    new = None
    try:
        if kind == 'str':
            str(cls(objs))
        elif kind == 'repr':
            repr(cls(objs)), [repr(o) for o in objs]
        elif kind in ('locmeta0', 'eq0', 'hash0'):          # only the FIRST element is looked at
            if objs and kind == 'locmeta0' and cls is FeatureList:
                objs[0].loc.meta
            elif objs and kind == 'eq0':
                objs[0] == objs[0].copy(), objs[0] in [objs[-1]]
            elif objs and cls is FeatureList:
                hash(objs[0].loc), {objs[0].locs: 1}
        elif kind in ('locmeta', 'loc1meta') and cls is FeatureList:
            for o in objs:
                if kind == 'locmeta':
                    o.loc.meta
                elif len(o.locs) > 1:
                    o.locs[1].meta
        elif kind == 'slice' and cls is FeatureList:
            new = list(cls(objs).slice(None, None))
        elif kind == 'copy':
            new = list(cls(objs).copy())
    except Exception:
        return objs
    if new is None or len(new) != len(objs):
        return objs
    for o, n in zip(objs, new):
        ident[id(n)] = ident[id(o)]
    ident.setdefault('_keep', []).append(objs)          # keep the originals alive: ids stay unique
    return new


def _pykey(k):
    if not isinstance(k, dict):
        return k
    c = k['c']
    if c == 'len':
        return len
    if c == 'neglen':
        return lambda o: -len(o)
    if c == 'const':
        return lambda o: 0
    if c == 'lower':
        return lambda o, key=k['k']: o.meta.get(key).lower()
    if c == 'getor':
        return lambda o, key=k['k'], v=k['v']: o.meta.get(key, v)
    if c == 'loc':
        return lambda o: o.loc
    if c == 'locs':
        return lambda o: o.locs
    raise ValueError(c)


def _kjson(k):
    """a group key as JSON value; Location / LocationTuple keys as text: strand, then start:stop joined by ','"""
    from sugar.core.fts import Location, LocationTuple
    if isinstance(k, Location):
        k = (k,)
    if isinstance(k, (LocationTuple, tuple)) and k and all(isinstance(l, Location) for l in k):
        return ('-' if k[0].strand == '-' else '+') + ','.join('%d:%d' % (l.start, l.stop) for l in k)
    return k


def _pykeys(ks):
    """-> (args tuple for keys)"""
    if 'default' in ks:
        return ()
    if 's' in ks:
        return (ks['s'],)
    if 'one' in ks:
        return (_pykey(ks['one']),)
    return (tuple(_pykey(k) for k in ks['t']),)


def _val(v):
    if isinstance(v, dict):
        return tuple(v['l']) if v.get('tup') else list(v['l'])
    return v


def _transport(case, objs):
    """the FeatureList a get/select request is sent to: the list itself, the feature list of a sequence, or the joined
    feature list of a basket (the same Feature objects in the same order in every case)"""
    import warnings
    from sugar import BioBasket, BioSeq, FeatureList
    via = case.get('via', 'fl')
    with warnings.catch_warnings():
        warnings.simplefilter('ignore')
        if via == 'fl':
            return FeatureList(objs), None
        if via in ('seqfts', 'index'):
            s = BioSeq(DATA, id='s1')
            s.fts = FeatureList(objs)
            return s.fts, s
        cut = case.get('cut', 0)
        s1, s2 = BioSeq(DATA, id='s1'), BioSeq(DATA[::-1], id='s2')
        s1.fts = FeatureList(objs[:cut])
        s2.fts = objs[cut:]
        bk = BioBasket([s1, s2])
        return bk.fts, bk


def _probe_result(r, sentinel):
    """mutate a not-in-place result in every way a caller might"""
    if isinstance(r, dict):
        for v in list(r.values()):
            _probe_result(v, sentinel)
        r.clear()
    elif hasattr(r, 'data') and isinstance(r.data, list):
        r.append(sentinel)
        r.data.reverse()
        if len(r) > 1:
            r.pop()
        r.insert(0, sentinel)


def _impl_hist(case):
    from sugar import BioBasket, FeatureList
    from framework import canon_exc
    cls = FeatureList if case.get('_recv', 'fl') == 'fl' else BioBasket
    feat = cls is FeatureList
    ident = {}

    def build_all(es):
        objs = [_build(e) for e in es]
        for e, o in zip(es, objs):
            ident[id(o)] = e['_i']
        return objs

    def ix(objs):
        return [ident.get(id(o), -1) for o in objs]

    def render(t):
        if isinstance(t, dict):
            return [[_kjson(k), render(v) if isinstance(v, (dict, cls)) else ident.get(id(v), -1)] for k, v in t.items()]
        if t is None:
            return None
        if isinstance(t, cls):
            return ix(t.data)
        return ident.get(id(t), -1)
    sentinel = _build({'f': feat, 'd': 'TTT', 'locs': [[0, 1]], 'm': [['id', 'sentinel']]})
    objs = build_all(case['xs'])
    objs0 = list(objs)
    cur = cls(objs)
    twin = cls(objs)                     # a second collection built from the same list object
    earlier = []                         # (what, object, snapshot) that must never change any more
    out = []

    def check(what):
        if ix(objs) != ix(objs0):
            return 'the list the collection was built from changed after ' + what
        if ix(twin.data) != ix(objs0):
            return 'a second collection built from the same list changed after ' + what
        for w, o, snap in earlier:
            if (render(o) if not isinstance(o, list) else ix(o)) != snap:
                return '%s changed after %s' % (w, what)
        return None
    for n, st in enumerate(case['steps']):
        k = st['s']
        what = 'step %d (%s)' % (n, k)
        try:
            before = ix(cur.data)
            call = None
            if k == 'filter':
                kw = {a: _val(v) for a, v in st['conds']}
                if st['inplace']:
                    r = cur.filter(inplace=True, **kw)
                    if r is not cur:
                        out.append({'independence': 'filter(inplace=True) did not return the receiver'})
                        return out
                    v = [ix(cur.data), ix(cur.data)]
                else:
                    call = lambda: cur.filter(inplace=False, **kw)
            elif k == 'sort':
                r = cur.sort(*_pykeys(st['keys']), reverse=st['reverse'])
                if r is not cur:
                    out.append({'independence': 'sort did not return the receiver'})
                    return out
                v = ix(cur.data)
            elif k == 'groupby':
                call = lambda: cur.groupby(*_pykeys(st['keys']))
            elif k == 'select':
                call = lambda: cur.select(st['t'])
            elif k == 'get':
                call = lambda: cur.get(st['t'])
            elif k == 'todict':
                call = lambda: cur.todict()
            elif k == 'setop':
                code = st['code']
                b = build_all(st['b'])
                fn = [operator.and_, operator.or_, operator.sub, operator.xor][code % 4]
                ifn = [operator.iand, operator.ior, operator.isub, operator.ixor][code % 4]
                if code < 4:
                    B = list(b) if st['plain'] else cls(b)
                    call = lambda: fn(cur, B)
                elif code < 8:
                    B = list(b)
                    call = lambda: fn(B, cur)
                else:
                    B = list(b) if st['plain'] else cls(b)
                    c0 = cur
                    cur = ifn(cur, B)
                    if cur is not c0:
                        out.append({'independence': 'in-place set operator did not return the receiver'})
                        return out
                    v = ix(cur.data)
                earlier.append(('the other operand of ' + what, B, ix(B) if isinstance(B, list) else render(B)))
            elif k == 'reverse':
                cur.data.reverse()
                v = None
            elif k == 'touch':
                _touch(list(cur.data), st['kind'], cls, {id(o): 0 for o in cur.data})
                v = None
            elif k == 'setitem':
                cur.data[st['j']] = cur.data[st['i']]
                v = None
            elif k == 'setmeta':
                tgt = cur.data[st['j']]
                if st['k'] in ('type', 'id', 'seqid', 'name') and feat or st['k'] == 'id':
                    setattr(tgt, st['k'], st['v'])          # Feature.type/id/seqid/name, BioSeq.id: aliases of meta entries
                else:
                    tgt.meta[st['k']] = st['v']
                v = None
            if call is not None:
                r1 = call()
                v = render(r1)
                if k == 'filter':
                    if r1 is cur or type(r1) is not cls:
                        out.append({'independence': 'filter(inplace=False) returned the receiver or another class'})
                        return out
                    v = [v, before]
                r2 = call()                                   # (a) the same call again: same answer
                if render(r2) != (v[0] if k == 'filter' else v):
                    out.append({'independence': 'repeating %s gave %r, first answer %r' % (what, render(r2), v)})
                    return out
                _probe_result(r1, sentinel)                   # (d) mutate the result ...
                if ix(cur.data) != before:
                    out.append({'independence': 'the receiver changed (%r -> %r) when the result of %s was modified'
                                % (before, ix(cur.data), what)})
                    return out
                if render(r2) != (v[0] if k == 'filter' else v):
                    out.append({'independence': 'a second result of %s changed when the first one was modified' % what})
                    return out
                if k != 'get':
                    earlier.append(('the result of ' + what, r2, render(r2)))
            bad = check(what)
            if bad:
                out.append({'independence': bad})
                return out
            out.append([v, ix(cur.data)])
        except Exception as e:
            out.append(canon_exc(e))
            return out
    return out


def _held(sq):
    """the features a sequence holds, read WITHOUT the BioSeq.fts getter (which inserts an empty list into the metadata)"""
    return list(sq.meta['fts'].data) if 'fts' in sq.meta else []


def _attach_probe(bk):
    return [(sq.copy(), sorted(sq.meta.keys()), _held(sq)) for sq in bk]


def _attach_compare(bk, before, what):
    """a sequence that holds the very same features after basket.fts = ... / add_fts as before was not concerned: it must not
    have changed at all (same metadata keys, still equal to its earlier copy - the set operators work under that equality)"""
    for i, (sq, (cp, keys, held)) in enumerate(zip(bk, before)):
        if [id(o) for o in _held(sq)] != [id(o) for o in held]:
            continue
        if sorted(sq.meta.keys()) != keys:
            return 'meta keys of sequence %d (no feature was attached to it) changed from %r to %r after %s' % (i, keys, sorted(sq.meta.keys()), what)
        if not (sq == cp) or sq not in [cp]:
            return 'sequence %d (no feature was attached to it) is no longer equal to its earlier copy after %s' % (i, what)
    return None


def _impl_hattach(case):
    from sugar import BioBasket, BioSeq, FeatureList
    from framework import canon_exc
    ident = {}

    def build_all(es):
        objs = [_build(e) for e in es]
        for e, o in zip(es, objs):
            ident[id(o)] = e['_i']
        return objs

    def ix(objs):
        return [ident.get(id(o), -1) for o in objs]
    seqs = []
    for sid, old in case['seqs']:
        s = BioSeq('ACGT', id=sid)
        if old:
            s.fts = FeatureList(build_all(old))
        seqs.append(s)
    bk = BioBasket(seqs)
    out, args = [], []
    for n, st in enumerate(case['steps']):
        fs = build_all(st['fs'])
        arg = list(fs) if st['plain'] else FeatureList(fs)
        args.append((arg, ix(fs)))
        held = [(s.meta['fts'], ix(_held(s))) for s in bk if 'fts' in s.meta]        # feature lists held before the call
        probe = _attach_probe(bk)
        try:
            if st['add']:
                bk.add_fts(arg)
            else:
                bk.fts = arg
        except Exception as e:
            out.append(canon_exc(e))
            return out
        bad = _attach_compare(bk, probe, 'step %d' % n)
        if bad:
            out.append({'independence': bad})
            return out
        for a, snap in args:
            if ix(a if isinstance(a, list) else a.data) != snap:
                out.append({'independence': 'a feature list passed to the basket changed after step %d' % n})
                return out
        for fl, snap in held:
            if not any(fl is sq.meta.get('fts') for sq in bk) and ix(fl.data) != snap:
                out.append({'independence': 'a replaced feature list was modified in step %d' % n})
                return out
        out.append([ix(_held(s)) for s in bk])
    return out


def _xbuild(e):
    """an object of a cross-kind history with every place filled in"""
    if e.get('ml'):
        import re
        from sugar.core.cane import BioMatch
        from sugar.core.meta import Meta
        w = dict(map(tuple, e['wrap']))
        mt = re.compile('A').search('A' * w['endpos'], w['pos'])
        d = dict(map(tuple, e['inst']))
        o = BioMatch(mt, rf=d['rf'], lenseq=d['lenseq'], seqid=d['seqid'])
        for k, v in e['inst']:
            if k not in ('rf', 'lenseq', 'seqid'):
                setattr(o, k, v)
        if e.get('hasmeta'):
            o.meta = Meta({k: v for k, v in e['m']})
        return o
    o = _build(e)
    for k, v in e['inst']:
        setattr(o, k, v)
    return o


def _xpykey(k, ml):
    if not ml or not isinstance(k, dict):
        return _pykey(k)
    c = k['c']
    if c == 'const':
        return lambda o: 0
    if c == 'lower':
        return lambda o, key=k['k']: getattr(o, key).lower()
    if c == 'getor':
        return lambda o, key=k['k'], v=k['v']: getattr(o, key, v)
    raise ValueError(c)


def _xpykeys(ks, ml, form='tuple'):
    if 'default' in ks:
        return ()
    if 's' in ks:
        return (ks['s'],)
    if 'one' in ks:
        return (_xpykey(ks['one'], ml),)
    t = [_xpykey(k, ml) for k in ks['t']]
    return (tuple(t) if form == 'tuple' else t if form == 'list' else iter(t),)      # any iterable of keys (cane.py:17-18)


def _partition(vals):
    """first-occurrence-ordered partition of positions by value (== on values of one kind; None apart)"""
    keys, groups = [], []
    for i, v in enumerate(vals):
        t = _tag(v)
        if t not in keys:
            keys.append(t)
            groups.append([])
        groups[keys.index(t)].append(i)
    return [[k[1], g] for k, g in zip(keys, groups)]


def _xoracle_step(st):
    """find_orfs / matchall: the library groups its own collections internally; then group / sort / filter what it returned and
    compare with the partition / stable order by the values read directly off the objects.  -> None or a message"""
    import warnings
    from sugar import BioSeq, BioBasket, FeatureList
    rf = st['rf']
    rf = tuple(rf) if isinstance(rf, list) else rf
    seq = BioSeq(st['seq'], id='q1')
    with warnings.catch_warnings():
        warnings.simplefilter('ignore')
        if st['s'] == 'mall':
            ml = seq.matchall(st['sub'], rf=rf)
            objs = list(ml)
            keys = st['keys']
            names = ['seqid'] if keys == 'd' else ['rf'] if keys is None else keys.split()
            got = ml.d if keys == 'd' else ml.groupby() if keys is None else ml.groupby(keys)
            pos = {id(o): i for i, o in enumerate(objs)}

            def chk(node, idxs, d):
                if d == len(names):
                    if type(node) is not type(ml) or [pos.get(id(o)) for o in node] != idxs:
                        return 'group holds %r, expected the matches %r' % ([pos.get(id(o)) for o in node], idxs)
                    return None
                exp = _partition([getattr(objs[i], names[d], None) for i in idxs])
                if not isinstance(node, dict) or [_tag(k) for k in node] != [_tag(k) for k, _ in exp]:
                    return 'group keys %r at depth %d, expected %r' % (list(node) if isinstance(node, dict) else node, d, [k for k, _ in exp])
                for (k, g), sub in zip(exp, node.values()):
                    r = chk(sub, [idxs[j] for j in g], d + 1)
                    if r:
                        return r
                return None
            if not objs:
                return None if got == {} else 'groupby of no matches gave %r' % (got,)
            r = chk(got, list(range(len(objs))), 0)
            return r and 'matchall(%r, rf=%r).groupby(%r) on %r: %s' % (st['sub'], rf, keys, st['seq'], r)
        orfs = seq.find_orfs(rf=rf, need_start=st['need_start'])
        objs = list(orfs)
        pos = {id(o): i for i, o in enumerate(objs)}
        key = st['key']
        vals = [o.meta.get(key) for o in objs]
        what = 'find_orfs(rf=%r, need_start=%r) on %r, then %s by %r' % (rf, st['need_start'], st['seq'], st['op'], key)
        if st['op'] == 'groupby':
            got = orfs.groupby(key)
            exp = _partition(vals)
            if [[_tag(k), [pos.get(id(o)) for o in v]] for k, v in got.items()] != [[_tag(k), g] for k, g in exp]:
                return '%s: groups %r, expected %r' % (what, [[k, [pos.get(id(o)) for o in v]] for k, v in got.items()], exp)
        elif st['op'] == 'sort':
            if any(v is None for v in vals):
                return None
            c = FeatureList(objs)
            c.sort(key, reverse=st['reverse'])
            exp = sorted(range(len(objs)), key=lambda i: vals[i], reverse=st['reverse'])
            if [pos.get(id(o)) for o in c] != exp:
                return '%s (reverse=%r): order %r, expected %r' % (what, st['reverse'], [pos.get(id(o)) for o in c], exp)
        elif st['op'] == 'filter':
            if not objs:
                return None
            v0 = vals[len(vals) // 2]
            got = orfs.filter(**{key + '_eq': v0})
            exp = [i for i, v in enumerate(vals) if _tag(v) == _tag(v0)]
            if [pos.get(id(o)) for o in got] != exp:
                return '%s == %r: %r, expected %r' % (what, v0, [pos.get(id(o)) for o in got], exp)
        else:                                            # a basket holding the sequence with the ORFs attached, grouped by id
            bk = BioBasket([seq, BioSeq('ACGT', id='q2'), BioSeq('AC', id='q1')])
            bk.fts = orfs
            got = bk.groupby('id')
            if [[k, [id(o) for o in v]] for k, v in got.items()] != [['q1', [id(bk[0]), id(bk[2])]], ['q2', [id(bk[1])]]]:
                return 'basket.groupby("id") after find_orfs gave %r' % ({k: len(v) for k, v in got.items()},)
            if [pos.get(id(o)) for o in bk[0].fts] != list(range(len(objs))) and st['key'] == 'rf':
                return 'basket.fts = find_orfs(...) attached %r' % ([pos.get(id(o)) for o in bk[0].fts],)
    return None


def _impl_xhist(case):
    """every step on fresh objects, all steps in this one process, in the order given"""
    from sugar import BioBasket, FeatureList
    from sugar.core.cane import BioMatchList
    from framework import canon_exc
    out, orc = [], []
    prev = None
    for st in case['xsteps']:
        if st['s'] in ('orfs', 'mall'):
            prev = None
            try:
                orc.append(_xoracle_step(st))
            except Exception as e:
                orc.append('%s step raised %s' % (st['s'], type(e).__name__))
            continue
        try:
            K = st['K']
            cls = {'fl': FeatureList, 'bb': BioBasket, 'ml': BioMatchList}[K]
            if st.get('reuse') is not None and prev is not None and type(prev[0]) is cls and len(prev[1]) == st['reuse']:
                c, objs = prev[0], list(prev[1])               # the collection of the step before, grown by some objects
                more = [_xbuild(e) for e in st['xs'][st['reuse']:]]
                c.data.extend(more)
                objs += more
            else:
                objs = [_xbuild(e) for e in st['xs']]
                c = cls(objs)
            ident = {id(o): e['_i'] for o, e in zip(objs, st['xs'])}
            ix = lambda l: [ident.get(id(o), -1) for o in l]
            prev = (c, objs) if st['s'] != 'sort' else None
            if st['s'] == 'groupby':
                d = c.d if st.get('via') == 'd' else c.groupby(*_xpykeys(st['keys'], K == 'ml', st.get('kform', 'tuple')))

                def render(t):
                    if isinstance(t, dict):
                        return [[_kjson(k), render(v)] for k, v in t.items()]
                    assert type(t) is cls
                    return ix(t.data)
                assert ix(c.data) == ix(objs)
                out.append(render(d))
            elif st['s'] == 'sort':
                r = c.sort(*_xpykeys(st['keys'], False, st.get('kform', 'tuple')), reverse=st['reverse'])
                assert r is c
                out.append(ix(c.data))
            else:
                r = c.filter(**{k: _val(v) for k, v in st['conds']})
                assert type(r) is cls and r is not c
                out.append([ix(r.data), ix(c.data)])
        except Exception as e:
            out.append(canon_exc(e))
    return {'m': out, 'o': orc}


def impl(case):
    from sugar import BioBasket, FeatureList
    op = case['_op']
    if op == 'xhist':
        return _impl_xhist(case)
    if op == 'hist':
        return _impl_hist(case)
    if op == 'hattach':
        return _impl_hattach(case)
    cls = FeatureList if case.get('_recv', 'fl') == 'fl' else BioBasket
    ident = {}

    def build_all(es):
        objs = [_build(e) for e in es]
        for e, o in zip(es, objs):
            ident[id(o)] = e['_i']
        return objs

    def ix(objs):
        return [ident[id(o)] for o in objs]
    if op == 'setop':
        a, b = build_all(case['a']), build_all(case['b'])
        keep = a + b
        for which, kind in case.get('touch', []):           # element equality must not depend on what an operand went through
            if which == 'a':
                a = _touch(a, kind, cls, ident)
            else:
                b = _touch(b, kind, cls, ident)
        code = case['code']
        fn = [operator.and_, operator.or_, operator.sub, operator.xor][code % 4]
        ifn = [operator.iand, operator.ior, operator.isub, operator.ixor][code % 4]
        if code < 4:
            A, B = cls(a), (list(b) if case['plain'] else cls(b))
            r = fn(A, B)
            assert type(r) is cls and r is not A
            assert ix(A.data) == ix(a) and ix(B if case['plain'] else B.data) == ix(b), 'operand mutated'
            return ix(r.data)
        if code < 8:
            A, B = list(a), cls(b)
            r = fn(A, B)
            assert type(r) is cls and r is not B
            assert ix(A) == ix(a) and ix(B.data) == ix(b), 'operand mutated'
            return ix(r.data)
        A, B = cls(a), (list(b) if case['plain'] else cls(b))
        A0 = A
        A = ifn(A, B)
        assert A is A0, 'in-place operator must return the receiver'
        assert ix(B if case['plain'] else B.data) == ix(b), 'operand mutated'
        return ix(A.data)
    if op == 'attach':
        from sugar import BioSeq
        fs = build_all(case['fs'])
        seqs = []
        for sid, old in case['seqs']:
            s = BioSeq('ACGT', id=sid)
            if old:
                s.fts = FeatureList(build_all(old))
            seqs.append(s)
        bk = BioBasket(seqs)
        arg = list(fs) if case['plain'] else FeatureList(fs)
        probe = _attach_probe(bk)
        if case['add']:
            bk.add_fts(arg)
        else:
            bk.fts = arg
        bad = _attach_compare(bk, probe, 'attaching')
        if bad:
            return {'independence': bad}
        assert ix(arg if case['plain'] else arg.data) == ix(fs), 'the features handed to the basket were reordered'
        return [ix(_held(s)) for s in bk]
    objs = build_all(case['xs'])
    if op in ('select', 'get'):
        t = case['t']
        if not isinstance(t, str):
            t = tuple(t) if case.get('tform') == 'tuple' else list(t)
        t0 = t if isinstance(t, str) else list(t)
        obj, owner = _transport(case, objs)
        assert type(obj) is FeatureList and ix(obj.data) == ix(objs)
        if case.get('via') == 'index':
            # seq['<type>'] resolves the str through FeatureList.get (seq.py:_getitem): the residues returned are those of
            # the feature get() picks; nothing found -> ValueError.  Reported: the features whose own residues equal the answer.
            try:
                sub = owner[t]
            except ValueError:
                return None
            return [ident[id(o)] for o in objs if str(owner[o]) == str(sub)]
        if op == 'select':
            r = obj.select(t)
            assert type(r) is FeatureList and r is not obj and ix(obj.data) == ix(objs)
            res = ix(r.data)
        else:
            r = obj.get(t)
            res = None if r is None else ident[id(r)]
        assert (t if isinstance(t, str) else list(t)) == t0, 'the requested types were modified'
        return res
    obj = cls(objs)
    if op == 'filter':
        r = obj.filter(inplace=case['inplace'], **{k: _val(v) for k, v in case['conds']})
        assert type(r) is cls
        assert (r is obj) == bool(case['inplace']), 'inplace flag not respected'
        res = [ix(r.data), ix(obj.data)]
        if not case['inplace']:                 # modifying the returned collection must not reach the receiver
            r.data.append(None)
            r.data.reverse()
            assert ix(obj.data) == res[1], 'receiver shares its list with the result of filter(inplace=False)'
        return res
    if op == 'sort':
        if case.get('via') == 'seqadd':
            import warnings
            from sugar import BioSeq
            cut = case['cut']
            with warnings.catch_warnings():
                warnings.simplefilter('ignore')
                sq = BioSeq(DATA, id='s1')
                sq.fts = FeatureList(objs[:cut])
                new = objs[cut:] if case.get('plain') else FeatureList(objs[cut:])
                sq.add_fts(new)
            assert ix(new if case.get('plain') else new.data) == ix(objs[cut:]), 'the features handed to add_fts were reordered'
            return ix(sq.fts.data)
        r = obj.sort(*_pykeys(case['keys']), reverse=case['reverse'])
        assert r is obj
        return ix(obj.data)
    if op == 'groupby':
        d = obj.groupby(*_pykeys(case['keys']))

        def render(t):
            if isinstance(t, dict):
                return [[_kjson(k), render(v)] for k, v in t.items()]
            assert type(t) is cls
            return ix(t.data)
        assert ix(obj.data) == ix(objs)
        return render(d)
    if op == 'todict':
        d = obj.d if case.get('via') == 'd' else obj.todict()          # .d: documented alias
        assert type(d) is dict and ix(obj.data) == ix(objs)
        return [[k, ident[id(v)]] for k, v in d.items()]
    raise ValueError(op)


# ----------------------------------------------------------------------------- Coq terms

def t_pv(v):
    if v is None:
        return 'PNone'
    if isinstance(v, int):
        return '(PInt %s)' % coq_z(v)
    return '(PStr %s)' % coq_bs(v)


def t_meta(m):
    return coq_list(['(%s, %s)' % (coq_bs(k), t_pv(v)) for k, v in m])


def t_elem(e):
    if e['f']:
        return '(%s %d %s %s)' % ('Fm' if e.get('minus') else 'Ft', e['_i'], coq_list(['(%d, %d)%%Z' % (s, t) for s, t in e['locs']]), t_meta(e['m']))
    return '(Sq %d %s %s)' % (e['_i'], coq_bs(e['d']), t_meta(e['m']))


def t_elems(es):
    return coq_list([t_elem(e) for e in es])


def t_key(k):
    if k is None:
        return 'KDefault'
    if isinstance(k, dict):
        c = k['c']
        if c == 'lower':
            return '(KLowerMeta %s)' % coq_bs(k['k'])
        if c == 'getor':
            return '(KMetaOr %s %s)' % (coq_bs(k['k']), t_pv(k['v']))
        return {'len': 'KLen', 'neglen': 'KNegLen', 'const': 'KConst', 'loc': 'KLoc', 'locs': 'KLocs'}[c]
    return '(KMeta %s)' % coq_bs(k)


def t_keys(ks, recv, op):
    if 'default' in ks:
        if op == 'sort':
            return '(KsOne KDefault)' if recv == 'fl' else '(KsTuple [KMeta k_id])'          # fts.py:779, seq.py:1053
        return '(KsTuple [KMeta k_seqid])' if recv == 'fl' else '(KsTuple [KMeta k_id])'     # fts.py:675, seq.py:1072
    if 's' in ks:
        return '(KsStr %s)' % coq_bs(ks['s'])
    if 'one' in ks:
        return '(KsOne %s)' % t_key(ks['one'])
    return '(KsTuple %s)' % coq_list([t_key(k) for k in ks['t']])


def t_fval(v):
    if isinstance(v, dict):
        return '(FL %s)' % coq_list([t_pv(x) for x in v['l']])
    return '(FV %s)' % t_pv(v)


def t_targ(t):
    if isinstance(t, str):
        return '(TOne %s)' % coq_bs(t)
    return '(TMany %s)' % coq_list([coq_bs(x) for x in t])


def model_term(case):
    try:
        return _model_term(case)
    except Exception:           # malformed (over-shrunk) case: outside the domain
        return 'out (VL [VB false; VNone])'


def t_step(st, recv):
    k = st['s']
    if k == 'filter':
        return '(HFilter %s %s)' % (coq_bool(st['inplace']), coq_list(['(%s, %s)' % (coq_bs(a), t_fval(v)) for a, v in st['conds']]))
    if k == 'sort':
        return '(HSort %s %s)' % (t_keys(st['keys'], recv, 'sort'), coq_bool(st['reverse']))
    if k == 'groupby':
        return '(HGroup %s)' % t_keys(st['keys'], recv, 'groupby')
    if k == 'select':
        return '(HSelect %s)' % t_targ(st['t'])
    if k == 'get':
        return '(HGet %s)' % t_targ(st['t'])
    if k == 'todict':
        return 'HTodict'
    if k == 'setop':
        return '(HSetop %s %s)' % (coq_N(st['code']), t_elems(st['b']))
    if k == 'touch':
        return 'HTouch'
    if k == 'reverse':
        return 'HReverse'
    if k == 'setitem':
        return '(HSetItem %d %d)' % (st['j'], st['i'])
    if k == 'setmeta':
        return '(HSetMeta %d %s %s)' % (st['j'], coq_bs(st['k']), t_pv(st['v']))
    raise ValueError(k)


def t_xobj(e):
    return '(mkX %s %s %s)' % (t_elem(dict(e, f=e['f'])) if not e.get('ml') else '(Sq %d %s %s)' % (e['_i'], coq_bs(''), t_meta(e['m'])),
                               t_meta(e['inst']), t_meta(e['wrap']))


def t_xstep(st):
    K = {'fl': 'CFl', 'bb': 'CBb', 'ml': 'CMl'}[st['K']]
    xs = coq_list([t_xobj(e) for e in st['xs']])
    if st['s'] == 'filter':
        return '(XsFilter %s %s %s)' % (K, xs, coq_list(['(%s, %s)' % (coq_bs(a), t_fval(v)) for a, v in st['conds']]))
    if st['K'] == 'ml' and 'default' in st['keys']:
        ks = '(KsStr %s)' % coq_bs('rf')                       # BioMatchList.groupby(keys='rf'), cane.py:148
    else:
        ks = t_keys(st['keys'], st['K'], st['s'])
    if st['s'] == 'sort':
        return '(XsSort %s %s %s %s)' % (K, xs, ks, coq_bool(st['reverse']))
    return '(XsGroup %s %s %s)' % (K, xs, ks)


def _model_term(case):
    op = case['_op']
    if op == 'xhist':
        return 'out (run_C16_xhist %s)' % coq_list([t_xstep(st) for st in case['xsteps'] if st['s'] not in ('orfs', 'mall')])
    if op == 'hist':
        return 'out (run_C16_hist %s %s)' % (t_elems(case['xs']), coq_list([t_step(st, case['_recv']) for st in case['steps']]))
    if op == 'hattach':
        return 'out (run_C16_hattach %s %s)' % (
            coq_list(['(%s, %s)' % (t_pv(sid), t_elems(old)) for sid, old in case['seqs']]),
            coq_list(['(%s, %s)' % (coq_bool(st['add']), t_elems(st['fs'])) for st in case['steps']]))
    if op == 'filter':
        r = 'RFilter %s %s %s' % (coq_bool(case['inplace']), t_elems(case['xs']),
                                  coq_list(['(%s, %s)' % (coq_bs(k), t_fval(v)) for k, v in case['conds']]))
    elif op == 'sort' and case.get('via') == 'seqadd':
        # BioSeq.add_fts = the default sort of old ++ new; reported through the RSort entry point on the same elements
        cut = case['cut']
        return ('out (VL [VB (wf_C16 (RSort %s (KsOne KDefault) false)); vidx (m_seq_add_fts %s %s)])'
                % (t_elems(case['xs']), t_elems(case['xs'][:cut]), t_elems(case['xs'][cut:])))
    elif op == 'sort':
        r = 'RSort %s %s %s' % (t_elems(case['xs']), t_keys(case['keys'], case['_recv'], op), coq_bool(case['reverse']))
    elif op == 'groupby':
        r = 'RGroup %s %s' % (t_elems(case['xs']), t_keys(case['keys'], case['_recv'], op))
    elif op in ('select', 'get'):
        xs = t_elems(case['xs'])
        if case.get('via') == 'basketfts':          # the joined feature lists of the two sequences (BioBasket.fts getter)
            xs = '(m_basket_fts [%s; %s])' % (t_elems(case['xs'][:case['cut']]), t_elems(case['xs'][case['cut']:]))
        r = '%s %s %s' % ('RSelect' if op == 'select' else 'RGet', xs, t_targ(case['t']))
    elif op == 'todict':
        r = 'RTodict %s' % t_elems(case['xs'])
    elif op == 'setop':
        r = 'RSetop %s %s %s' % (coq_N(case['code']), t_elems(case['a']), t_elems(case['b']))
    else:
        r = 'RAttach %s %s %s' % (coq_bool(case['add']),
                                  coq_list(['(%s, %s)' % (t_pv(sid), t_elems(old)) for sid, old in case['seqs']]),
                                  t_elems(case['fs']))
    return 'out (run_C16 (%s))' % r


def split_model(case, m):
    return bool(m[0]), m[1]


def agree(case, implval, modelval):
    if case.get('_op') == 'xhist':
        return isinstance(implval, dict) and implval.get('m') == modelval
    if case.get('via') == 'index' and isinstance(implval, list):
        return modelval in implval
    if isinstance(implval, dict) and 'e' in implval and isinstance(modelval, dict) and 'e' in modelval:
        return implval['e'] == modelval['e']
    return implval == modelval


# ----------------------------------------------------------------------------- property oracle (independent of sugar and of the model)

def _meta(e):
    return {k: v for k, v in e['m']}


def _len(e):
    if e['f']:
        return max(t for _, t in e['locs']) - min(s for s, _ in e['locs'])
    return len(e['d'])


def _same(x, y):
    return (x['f'] == y['f'] and x['d'] == y['d'] and x['locs'] == y['locs'] and bool(x.get('minus')) == bool(y.get('minus'))
            and _tagd(_meta(x)) == _tagd(_meta(y)))


def _tag(v):
    return (type(v).__name__, v)


def _tagd(d):
    return {k: _tag(v) for k, v in d.items()}


def _isin(x, l):
    return any(_same(x, y) for y in l)


_SPEC_OPS = {'lt': operator.lt, 'le': operator.le, 'eq': operator.eq, 'ne': operator.ne, 'ge': operator.ge, 'gt': operator.gt,
             'max': operator.le, 'min': operator.ge, 'in': lambda a, b: a in b, 'lowerin': lambda a, b: a.lower() in b,
             'lowereq': lambda a, b: a.lower() == b, 'contains': lambda a, b: b in a}


def _resolve_keys(case):
    ks, recv = case['keys'], case['_recv']
    if 'default' in ks:
        if case['_op'] == 'sort':
            return [None] if recv == 'fl' else ['id']
        return ['seqid'] if recv == 'fl' else ['id']
    if 's' in ks:
        return ks['s'].split()
    if 'one' in ks:
        return [ks['one']]
    return list(ks['t'])


def _keyfn(k, xs):
    if k is None:           # documented default order: features by seqid then position; sequences by id
        if xs and xs[0]['f']:
            same = len({_tag(_meta(x).get('seqid')) for x in xs}) <= 1
            return lambda e: (0 if same else _meta(e).get('seqid'), min(s for s, _ in e['locs']), max(t for _, t in e['locs']))
        return lambda e: _meta(e).get('id', '')
    if isinstance(k, dict):
        c = k['c']
        if c == 'len':
            return _len
        if c == 'neglen':
            return lambda e: -_len(e)
        if c == 'const':
            return lambda e: 0
        if c == 'lower':
            return lambda e: _meta(e).get(k['k']).lower()
        if c in ('loc', 'locs'):        # features with equal (first) location(s) and strand share a group
            return lambda e: ('-' if e.get('minus') else '+') + ','.join('%d:%d' % (a, b) for a, b in (e['locs'][:1] if c == 'loc' else e['locs']))
        return lambda e: _meta(e).get(k['k'], k['v'])
    return lambda e: _meta(e).get(k)


def _xsubcase(st):
    """one step of a cross-kind history as a single-call case on what the helper has to look at: the metadata of a Feature /
    BioSeq; of a BioMatch its instance attributes, then those of the wrapped re.Match"""
    ml = st['K'] == 'ml'
    xs = [dict(e, f=False, d='', locs=[], m=[list(kv) for kv in e['inst']] + [kv for kv in e['wrap'] if kv[0] not in dict(map(tuple, e['inst']))])
          if ml else e for e in st['xs']]
    sub = {'_op': st['s'], '_recv': 'bb' if ml else st['K'], 'xs': xs, 'inplace': False}
    if st['s'] == 'filter':
        sub['conds'] = st['conds']
    else:
        sub['keys'] = {'s': 'rf'} if ml and 'default' in st['keys'] else st['keys']
        sub['reverse'] = st.get('reverse', False)
    return sub


def spec(case, got):
    if isinstance(got, dict) and 'e' in got:
        return 'raised %s inside the domain' % got['e']
    if isinstance(got, dict) and 'independence' in got:
        return 'state independence: ' + got['independence']
    op = case['_op']
    if op == 'xhist':
        msteps = [st for st in case['xsteps'] if st['s'] not in ('orfs', 'mall')]
        for n, (st, v) in enumerate(zip(msteps, got['m'])):
            r = spec(_xsubcase(st), v)
            if r:
                return 'step %d (%s on a %s, in one process after the steps before it): %s' % (
                    case['xsteps'].index(st), st['s'], {'fl': 'FeatureList', 'bb': 'BioBasket', 'ml': 'BioMatchList'}[st['K']], r)
        for r in got['o']:
            if r:
                return r
        return None
    if op in ('hist', 'hattach'):
        for n, v in enumerate(got):
            if isinstance(v, dict) and 'independence' in v:
                return 'state independence: ' + v['independence']
            if isinstance(v, dict) and 'e' in v:
                return 'step %d raised %s inside the domain' % (n, v['e'])
        return None
    if op == 'filter':
        xs = case['xs']

        def holds(e, c):
            key, kop = c[0].rsplit('_', 1)
            a = _len(e) if key == 'len' else _meta(e).get(key)
            return bool(_SPEC_OPS[kop](a, _val(c[1])))
        exp = [e['_i'] for e in xs if all(holds(e, c) for c in case['conds'])]
        if got[0] != exp:
            return 'filter returned %r, the elements satisfying all conditions are %r' % (got[0], exp)
        recv = exp if case['inplace'] else [e['_i'] for e in xs]
        if got[1] != recv:
            return 'receiver afterwards holds %r, expected %r' % (got[1], recv)
        return None
    if op == 'sort':
        xs = case['xs']
        fns = [_keyfn(k, xs) for k in _resolve_keys(case)]
        if sorted(got) != [e['_i'] for e in xs]:
            return 'sort result %r is not a permutation of the input' % (got,)
        kt = {e['_i']: tuple(f(e) for f in fns) for e in xs}
        for a, b in zip(got, got[1:]):
            if kt[a] == kt[b]:
                if a > b:
                    return 'not stable: elements %d and %d have equal keys %r but were swapped' % (b, a, kt[a])
            elif (kt[a] < kt[b]) == bool(case['reverse']):
                return 'not sorted: %r before %r (reverse=%r)' % (kt[a], kt[b], case['reverse'])
        return None
    if op == 'groupby':
        xs = case['xs']
        fns = [_keyfn(k, xs) for k in _resolve_keys(case)]

        def chk(node, es, d):
            if d == len(fns):
                if node != [e['_i'] for e in es] or not es:
                    return 'group holds %r, expected %r' % (node, [e['_i'] for e in es])
                return None
            keys = []
            for e in es:
                if _tag(fns[d](e)) not in [_tag(k) for k in keys]:
                    keys.append(fns[d](e))
            if not isinstance(node, list) or not all(isinstance(kv, list) and len(kv) == 2 for kv in node):
                return 'at depth %d there is %r instead of a dict of groups (keys expected: %r)' % (d, node, keys)
            if [_tag(kv[0]) for kv in node] != [_tag(k) for k in keys]:
                return 'group keys at depth %d are %r, expected %r (first-occurrence order)' % (d, [kv[0] for kv in node], keys)
            for k, sub in node:
                r = chk(sub, [e for e in es if _tag(fns[d](e)) == _tag(k)], d + 1)
                if r:
                    return r
            return None
        if not xs:
            return None if got == [] else 'groupby of an empty collection gave %r' % (got,)
        return chk(got, xs, 0)
    if op in ('select', 'get'):
        t = case['t']
        ts = [t.lower()] if isinstance(t, str) else [x.lower() for x in t]
        exp = [e['_i'] for e in case['xs'] if isinstance(_meta(e).get('type'), str) and _meta(e)['type'].lower() in ts]
        if op == 'get':
            exp = exp[0] if exp else None
            if case.get('via') == 'index' and isinstance(got, list):
                return None if exp in got else 'seq[%r] gave the residues of features %r, the first feature of that type is %r' % (t, got, exp)
        return None if got == exp else '%s gave %r, expected %r' % (op, got, exp)
    if op == 'todict':
        exp = {}
        for e in case['xs']:
            exp[_tag(_meta(e).get('id'))] = e['_i']
        g = [[_tag(k), v] for k, v in got]
        return None if g == [[k, v] for k, v in exp.items()] else 'todict gave %r' % (got,)
    if op == 'setop':
        a, b, code = case['a'], case['b'], case['code']
        if code in (4, 5, 7):          # reflected forms as coded: the collection is the receiver
            a, b = b, a
        k = code % 4
        if k == 0:
            exp = [x for x in a if _isin(x, b)]
        elif k == 1:
            exp = a + [x for x in b if not _isin(x, a)]
        elif k == 2:
            exp = [x for x in a if not _isin(x, b)]
        else:
            exp = [x for x in a + [y for y in b if not _isin(y, a)] if not (_isin(x, a) and _isin(x, b))]
        exp = [x['_i'] for x in exp]
        return None if got == exp else 'set operator %s gave %r, expected %r' % (SETOPS[code], got, exp)
    if op == 'attach':
        fs = case['fs']
        exp, used = [], []
        for sid, old in case['seqs']:
            mine = [f for f in fs if _tag(_meta(f).get('seqid')) == _tag(sid)]
            if mine and _tag(sid) not in used:
                used.append(_tag(sid))
                if case['add']:
                    allf = old + mine
                    fn = _keyfn(None, allf)
                    pos = {f['_i']: n for n, f in enumerate(allf)}
                    exp.append([f['_i'] for f in sorted(allf, key=lambda f: (fn(f), pos[f['_i']]))])
                else:
                    exp.append([f['_i'] for f in mine])
            else:
                exp.append([f['_i'] for f in old])
        return None if got == exp else 'sequences hold %r after attaching, expected %r' % (got, exp)
    return None


def extra_checks(rng, tier, cov):
    """Comparison branches of the anchored code that no collection of Features / BioSeqs reaches (a LocationTuple or a foreign
    object as an element): executed here against their documented behaviour, without a model."""
    from sugar import Feature, FeatureList, BioSeq
    from sugar.core.fts import Location, LocationTuple
    n = 0
    for s1, e1, s2, e2 in [(0, 3, 0, 3), (0, 3, 1, 2), (1, 2, 0, 3), (0, 2, 0, 3), (0, 3, 0, 2)]:
        f, g = Feature('x', start=s1, stop=e1), Feature('y', start=s2, stop=e2)
        n += 1
        exp = (s1, e1) < (s2, e2)
        if (f < g.locs) != exp or (f.locs < g.locs) != exp:
            yield {'case': {'lt': [s1, e1, s2, e2]}, 'impl': [f < g.locs, f.locs < g.locs], 'spec': 'Feature < LocationTuple must order by range'}
        got = [x.locs.range for x in FeatureList([g, f]).sort()] if not isinstance(g, LocationTuple) else None
        if got != sorted([(s1, e1), (s2, e2)]):
            yield {'case': {'sort': [s1, e1, s2, e2]}, 'impl': got, 'spec': 'default feature order is by range'}
    f = Feature('x', start=0, stop=3)
    for what, fn in [('LocationTuple < Feature', lambda: f.locs < f), ('Feature < BioSeq', lambda: f < BioSeq('A')),
                     ('BioSeq < Feature', lambda: BioSeq('A') < f), ('sort of LocationTuple and Feature', lambda: FeatureList([f, f.locs]).sort())]:
        n += 1
        try:
            fn()
            yield {'case': {'what': what}, 'impl': 'no error', 'spec': what + ' must raise TypeError'}
        except TypeError:
            pass
    n += 1
    if Location(0, 1) == 5 or f == 5 or f == BioSeq('A') or (f in [None, 5, BioSeq('A')]):
        yield {'case': {'what': 'eq foreign'}, 'impl': True, 'spec': 'a Feature / Location equals no foreign object'}
    cov['extra_relational_checks'] = n


def nontrivial(case, got):
    if case['_op'] == 'xhist':        # at least two steps on different kinds of collection with more than one group / element
        kinds = {st['K'] for st, v in zip([st for st in case['xsteps'] if 'K' in st], got.get('m', [])) if isinstance(v, list) and len(v) > 1}
        return 'xhist' if len(kinds) >= 2 else None
    if isinstance(got, dict):
        return None
    op = case['_op']
    if op in ('hist', 'hattach'):
        return op if len(got) >= 2 and all(isinstance(v, list) for v in got) else None
    if op == 'filter':
        return 'filter' if got[0] and len(got[0]) < len(case['xs']) else None
    if op == 'sort':
        return 'sort' if got != sorted(got) else None
    if op == 'groupby':
        return 'groupby' if len(got) > 1 else None
    if op in ('select', 'get'):
        return op if got not in ([], None) else None
    if op == 'todict':
        return 'todict' if len(got) < len(case['xs']) else None
    if op == 'setop':
        return SETOPS[case['code']] if got and case['a'] and case['b'] else None
    if op == 'attach':
        return 'attach' if any(got) else None
    return None


def histkey(case, got):
    op = case['_op']
    if op == 'xhist':
        hk = ['op=xhist', 'steps=%d' % len(case['xsteps'])]
        hk += ['xstep=%s/%s%s' % (st['s'], st.get('K') or st.get('op') or 'groupby', '/same-object-grown' if st.get('reuse') is not None else '') for st in case['xsteps']]
        hk.append('xorder=' + ''.join(dict.fromkeys(st.get('K', 'o')[0] for st in case['xsteps'])))
        if isinstance(got, dict) and any(isinstance(v, dict) for v in got.get('m', [])):
            hk.append('raises=in-step')
        return hk
    if op in ('hist', 'hattach'):
        hk = ['op=' + op, 'steps=%d' % len(case['steps'])]
        if op == 'hist':
            hk += ['hstep=' + st['s'] + ('/inplace' if st.get('inplace') or st.get('code', 0) >= 8 else '') for st in case['steps']]
        if got and isinstance(got[-1], dict):
            hk.append('raises=' + got[-1].get('e', 'independence'))
        return hk
    n = len(case.get('xs', case.get('a', case.get('fs', []))))
    hk = ['op=' + (SETOPS[case['code']] if op == 'setop' else op), 'n=' + ('0' if n == 0 else '1' if n == 1 else '2-4' if n <= 4 else '5+'),
          'recv=' + case.get('_recv', 'bb')]
    if isinstance(got, dict) and 'e' in got:
        hk.append('raises=' + got['e'])
    if op == 'filter':
        hk += ['fop=' + c[0].rsplit('_', 1)[-1] for c in case['conds']] + ['nconds=%d' % len(case['conds'])]
    if op == 'sort' and case.get('via'):
        hk.append('via=' + case['via'])
    if op in ('select', 'get'):
        hk += ['via=' + case.get('via', 'fl'), 'targ=' + ('str' if isinstance(case['t'], str) else case.get('tform', 'list'))]
    if op in ('sort', 'groupby'):
        if any(isinstance(k, dict) and k['c'] != 'len' for k in case['keys'].get('t', [case['keys'].get('one')])):
            hk.append('keys=with-callable')
        hk.append('keys=' + ('default' if 'default' in case['keys'] else 'str' if 's' in case['keys'] else 'one' if 'one' in case['keys']
                             else 'tuple%d' % len(case['keys']['t'])))
    return hk


def features(case, implval):
    return {'_op': case['_op'], 'raises': implval.get('e') if isinstance(implval, dict) else None}


def _xsnippet(case):
    s = ('import re, warnings; warnings.simplefilter("ignore")\n'
         'from sugar import BioSeq, BioBasket, Feature, FeatureList; from sugar.core.fts import Location\n'
         'from sugar.core.cane import BioMatch, BioMatchList; from sugar.core.meta import Meta\n'
         'def obj(o, inst, meta=None):\n    for k, v in inst: setattr(o, k, v)\n    if meta is not None: o.meta = Meta(meta)\n    return o\n'
         '# ONE process, the steps in this order; every answer must be the partition / stable order / selection by the values at the\n'
         '# place the collection looks its keys up (meta for FeatureList / BioBasket, attributes for BioMatchList)\n')

    def pe(e):
        if e.get('ml'):
            w, d = dict(map(tuple, e['wrap'])), dict(map(tuple, e['inst']))
            return 'obj(BioMatch(re.compile("A").search("A" * %d, %d), rf=%r, lenseq=%r, seqid=%r), %r, %r)' % (
                w['endpos'], w['pos'], d['rf'], d['lenseq'], d['seqid'], [kv for kv in e['inst'] if kv[0] not in ('rf', 'lenseq', 'seqid')],
                dict(map(tuple, e['m'])) if e.get('hasmeta') else None)
        if e['f']:
            b = 'Feature(locs=[%s], meta=%r)' % (', '.join('Location(%d, %d%s)' % (a, t, ", '-'" if e.get('minus') else '') for a, t in e['locs']), _meta(e))
        else:
            b = 'BioSeq(%r, meta=%r)' % (e['d'], _meta(e))
        return 'obj(%s, %r)' % (b, e['inst'])

    def pk(ks, ml):
        if 'default' in ks:
            return ''
        if 's' in ks:
            return repr(ks['s'])

        def f(k):
            if not isinstance(k, dict):
                return repr(k)
            if ml:
                return {'const': '(lambda o: 0)', 'lower': '(lambda o: getattr(o, %r).lower())' % k.get('k'),
                        'getor': '(lambda o: getattr(o, %r, %r))' % (k.get('k'), k.get('v'))}[k['c']]
            return {'len': 'len', 'const': '(lambda o: 0)', 'lower': '(lambda o: o.meta.get(%r).lower())' % k.get('k'),
                    'getor': '(lambda o: o.meta.get(%r, %r))' % (k.get('k'), k.get('v'))}[k['c']]
        if 'one' in ks:
            return f(ks['one'])
        return '(' + ''.join(f(k) + ', ' for k in ks['t']) + ')'
    def kf(txt, st):
        return {'list': 'list(%s)', 'iter': 'iter(%s)'}.get(st.get('kform'), '%s') % txt if txt else txt
    for st in case['xsteps']:
        if st['s'] == 'mall':
            rf = tuple(st['rf']) if isinstance(st['rf'], list) else st['rf']
            call = '.d' if st['keys'] == 'd' else '.groupby()' if st['keys'] is None else '.groupby(%r)' % st['keys']
            s += 'print(BioSeq(%r, id="q1").matchall(%r, rf=%r)%s)\n' % (st['seq'], st['sub'], rf, call)
        elif st['s'] == 'orfs':
            rf = tuple(st['rf']) if isinstance(st['rf'], list) else st['rf']
            s += 'orfs = BioSeq(%r, id="q1").find_orfs(rf=%r, need_start=%r); print([ft.meta.get(%r) for ft in orfs])\n' % (st['seq'], rf, st['need_start'], st['key'])
            s += {'groupby': 'print(orfs.groupby(%r))\n' % st['key'], 'sort': 'print(orfs.sort(%r, reverse=%r))\n' % (st['key'], st['reverse']),
                  'filter': 'print(orfs.filter(%s_eq=orfs[len(orfs) // 2].meta.get(%r)) if orfs else None)\n' % (st['key'], st['key']),
                  'basket': 'b = BioBasket([BioSeq("A", id="q1"), BioSeq("ACGT", id="q2"), BioSeq("AC", id="q1")]); b.fts = orfs; print(b.groupby("id"))\n'}[st['op']]
        else:
            cls = {'fl': 'FeatureList', 'bb': 'BioBasket', 'ml': 'BioMatchList'}[st['K']]
            if st.get('reuse') is not None:
                s += 'x.data.extend([%s])   # the same collection object, grown\n' % ', '.join(pe(e) for e in st['xs'][st['reuse']:])
            else:
                s += 'x = %s([%s])\n' % (cls, ', '.join(pe(e) for e in st['xs']))
            if st['s'] == 'groupby':
                s += 'print(x.d)\n' if st.get('via') == 'd' else 'print(x.groupby(%s))\n' % kf(pk(st['keys'], st['K'] == 'ml'), st)
            elif st['s'] == 'sort':
                k = kf(pk(st['keys'], False), st)
                s += 'print(x.sort(%s%sreverse=%r))\n' % (k, ', ' if k else '', st['reverse'])
            else:
                s += 'print(x.filter(**%r))\n' % ({k: _val(v) for k, v in st['conds']},)
    return s


def python_snippet(case):
    if case.get('_op') == 'xhist':
        return _xsnippet(case)
    def pe(e):
        if e['f']:
            return 'Feature(locs=[%s], meta=%r)' % (', '.join('Location(%d, %d%s)' % (s, t, ", '-'" if e.get('minus') else '')
                                                                for s, t in e['locs']), _meta(e))
        return 'BioSeq(%r, meta=%r)' % (e['d'], _meta(e))

    def pl(es):
        return '[' + ', '.join(pe(e) for e in es) + ']'

    def pk(ks):
        if 'default' in ks:
            return ''
        if 's' in ks:
            return repr(ks['s'])
        def f(k):
            if not isinstance(k, dict):
                return repr(k)
            return {'len': 'len', 'neglen': '(lambda o: -len(o))', 'const': '(lambda o: 0)', 'loc': '(lambda ft: ft.loc)', 'locs': '(lambda ft: ft.locs)',
                    'lower': '(lambda o: o.meta.get(%r).lower())' % k.get('k'),
                    'getor': '(lambda o: o.meta.get(%r, %r))' % (k.get('k'), k.get('v'))}[k['c']]
        if 'one' in ks:
            return f(ks['one'])
        return '(' + ''.join(f(k) + ', ' for k in ks['t']) + ')'
    cls = 'FeatureList' if case.get('_recv', 'fl') == 'fl' else 'BioBasket'
    head = 'from sugar import BioSeq, BioBasket, Feature, FeatureList; from sugar.core.fts import Location\n'
    op = case['_op']
    if op == 'hist':
        s = head + 'x = %s(%s)\n' % (cls, pl(case['xs']))
        for st in case['steps']:
            k = st['s']
            if k == 'filter':
                call = 'x.filter(inplace=%r, **%r)' % (st['inplace'], {a: _val(v) for a, v in st['conds']})
            elif k == 'sort':
                a = pk(st['keys'])
                call = 'x.sort(%s%sreverse=%r)' % (a, ', ' if a else '', st['reverse'])
            elif k == 'groupby':
                call = 'x.groupby(%s)' % pk(st['keys'])
            elif k in ('select', 'get'):
                call = 'x.%s(%r)' % (k, st['t'])
            elif k == 'todict':
                call = 'x.todict()'
            elif k == 'setop':
                sym = ['&', '|', '-', '^'][st['code'] % 4]
                b = pl(st['b']) if st['plain'] or 4 <= st['code'] < 8 else '%s(%s)' % (cls, pl(st['b']))
                if st['code'] >= 8:
                    s += 'x %s= %s; print(x)\n' % (sym, b)
                    continue
                call = ('%s %s x' % (b, sym)) if st['code'] >= 4 else ('x %s %s' % (sym, b))
            elif k == 'reverse':
                s += 'x.data.reverse()\n'
                continue
            elif k == 'touch':
                s += {'str': 'str(x)', 'repr': 'repr(x)', 'locmeta': '[f.loc.meta for f in x]',
                      'loc1meta': '[f.locs[1].meta for f in x if len(f.locs) > 1]', 'locmeta0': 'x[0].loc.meta',
                      'eq0': 'x[0] == x[0].copy(); x[0] in [x[-1]]', 'hash0': 'hash(x[0].loc); {x[0].locs: 1}'}[st['kind']] + '\n'
                continue
            elif k == 'setitem':
                s += 'x.data[%d] = x.data[%d]\n' % (st['j'], st['i'])
                continue
            else:
                s += 'x.data[%d].meta[%r] = %r\n' % (st['j'], st['k'], st['v'])
                continue
            if k == 'filter' and st['inplace'] or k == 'sort':
                s += 'print(%s)\n' % call
            else:
                s += ('r = %s; print(r); before = list(x.data)\n'
                      'if hasattr(r, "data"): r.data.append(None); r.data.reverse()   # modifying the result must not reach the receiver\n'
                      'assert [id(o) for o in x.data] == [id(o) for o in before], "receiver changed"\n') % call
        return s
    if op == 'hattach':
        s = head + 'seqs = BioBasket([%s])\n' % ', '.join('BioSeq("ACGT", id=%r)' % (sid,) for sid, _ in case['seqs'])
        for n, (sid, old) in enumerate(case['seqs']):
            if old:
                s += 'seqs[%d].fts = FeatureList(%s)\n' % (n, pl(old))
        for st in case['steps']:
            s += ('seqs.add_fts(%s)\n' if st['add'] else 'seqs.fts = %s\n') % pl(st['fs'])
            s += 'print([list(s.fts) for s in seqs])\n'
        return s
    if op == 'setop':
        sym = ['&', '|', '-', '^'][case['code'] % 4]
        a, b = pl(case['a']), pl(case['b'])
        if case['code'] < 4:
            return head + 'a = %s(%s); b = %s\nprint(a %s b)' % (cls, a, b if case['plain'] else '%s(%s)' % (cls, b), sym)
        if case['code'] < 8:
            return head + 'a = %s; b = %s(%s)\nprint(a %s b)' % (a, cls, b, sym)
        return head + 'a = %s(%s); b = %s\na %s= b\nprint(a)' % (cls, a, b if case['plain'] else '%s(%s)' % (cls, b), sym)
    if op == 'attach':
        s = head + 'seqs = BioBasket([%s])\n' % ', '.join('BioSeq("ACGT", id=%r)' % (sid,) for sid, _ in case['seqs'])
        for n, (sid, old) in enumerate(case['seqs']):
            if old:
                s += 'seqs[%d].fts = FeatureList(%s)\n' % (n, pl(old))
        s += ('seqs.add_fts(%s)\n' if case['add'] else 'seqs.fts = %s\n') % pl(case['fs'])
        return s + 'print([list(s.fts) for s in seqs])'
    s = head + 'x = %s(%s)\n' % (cls, pl(case['xs']))
    if op == 'filter':
        return s + 'print(x.filter(inplace=%r, **%r)); print(x)' % (case['inplace'], {k: _val(v) for k, v in case['conds']})
    if op == 'sort' and case.get('via') == 'seqadd':
        return (head + 'seq = BioSeq(%r, id="s1"); seq.fts = FeatureList(%s)\nseq.add_fts(%s); print(seq.fts)'
                % (DATA, pl(case['xs'][:case['cut']]), pl(case['xs'][case['cut']:])))
    if op == 'sort':
        k = pk(case['keys'])
        return s + 'print(x.sort(%s%sreverse=%r))' % (k, ', ' if k else '', case['reverse'])
    if op == 'groupby':
        return s + 'print(x.groupby(%s))' % pk(case['keys'])
    if op in ('select', 'get'):
        t = case['t'] if isinstance(case['t'], str) else tuple(case['t']) if case.get('tform') == 'tuple' else list(case['t'])
        via = case.get('via', 'fl')
        if via == 'fl':
            return s + 'print(x.%s(%r))' % (op, t)
        if via in ('seqfts', 'index'):
            s += 'seq = BioSeq(%r, id="s1"); seq.fts = x\n' % DATA
            if via == 'index':
                return s + 'print(seq[%r], [seq[ft] for ft in seq.fts])   # must be the residues of the first feature of that type' % (t,)
            return s + 'print(seq.fts.%s(%r))' % (op, t)
        cut = case.get('cut', 0)
        s += 'a = BioSeq(%r, id="s1"); b = BioSeq(%r, id="s2"); a.fts = x[:%d]; b.fts = x[%d:]\n' % (DATA, DATA[::-1], cut, cut)
        return s + 'print(BioBasket([a, b]).fts.%s(%r))' % (op, t)
    return s + ('print(x.d)' if case.get('via') == 'd' else 'print(x.todict())')


LEVEL_TEXT = ('Machine-checked Coq theorems (52, all closed) about an executable model of sugar\'s collection helpers, for all lists: '
              'filter = List.filter of the conjunction of the conditions (order kept, receiver replaced only with inplace; aliases '
              'max/min/in/lowerin/lowereq against the operator table regenerated from the code; order of the conditions irrelevant; in / '
              'lowerin / contains = equality search in a list or tuple, containment in a str, never prefix or lower-casing of the '
              'container; a missing key and a key bound to None are indistinguishable); the key-by-key loop of stable sorts equals ONE '
              'stable insertion sort by the lexicographic order of the key tuple, hence a sorted permutation in which equal key tuples '
              'keep input order, also with reverse, and that list is UNIQUE (any sorted list whose tie classes keep their input order is '
              'it); reverse=True = reverse . stable sort . reverse, refuted to be the reversed ascending sort; callables as keys; '
              'the default orders (sequences by id; features by seqid then range) spelled out; groupby returns exactly the nested '
              'first-occurrence-ordered grouping (spec_tree), keys compared with == (1 and \'1\' differ), the groups read off in order are a permutation of the input; get/select = first/all features '
              'whose lower-cased type EQUALS the lower-cased request / is a member of the lower-cased tuple (a type contained in the '
              'request does not match), total on type-less features; todict binds each id (first-occurrence order) to its last element; '
              '&,|,-,^ with in-place and reflected forms: membership under element equality (an equivalence relation), order preserving, '
              'a&a=a, a-a=[], in-place forms leave in the receiver what the plain forms return; basket.fts= / add_fts attach by seqid: '
              'first sequence with an id wins, attached + unattachable features are a permutation of the given ones, a sequence only '
              'receives features whose seqid is its id, add_fts = stable default sort of old ++ new. '
              'Round 7: WHERE a key is looked up, per collection kind, as a decision table (place_table: metadata entry for '
              'FeatureList / BioBasket, for BioMatchList the instance attribute, else the attribute of the wrapped re.Match, else None; a '
              'callable gets the object; filter: len(obj) for the key len, else the metadata entry); whatever sits at the OTHER places changes no '
              'answer (other_place_irrelevant); groupby and sort use EXACTLY the values at the places of their keys: collections agreeing '
              'position by position on identity and on those values get the same nested grouping / the same order '
              '(groupby_reads_only_place, sort_reads_only_place, filter_reads_only_place, by induction over keys / conditions and lists); BioMatchList.groupby(name) puts under v '
              'exactly the matches whose attribute is v (matchlist_groupby_attr); a history across kinds has no state (xhist_stateless: each '
              'answer is that of the step alone, another order permutes the answers). The model is tied to /repo by '
              'differential testing of the public methods on every run, including multi-call histories on one object that probe '
              'aliasing between receiver, operands and results, and histories across BioMatchList / FeatureList / BioBasket objects in one '
              'process (same key names, every place filled with a different value, find_orfs / matchall interleaved).')
LEVEL_NOTE = ('Trusted: Coq kernel/vm_compute, the correspondence harness, CPython sorted() being a stable sort (modelled by a '
              'proven-stable insertion sort and compared on tie-heavy inputs and an exhaustive box), dict order, str.lower/split/rsplit '
              '(compared on all 256 Latin-1 code points). Modelled rather than verified: cane._keyfuncs/_groupby/_sorted/_filter, '
              'FeatureList/BioBasket get/select/todict/d/groupby/sort/filter, set operators, BioBasket.fts getter and setter, add_fts, '
              'BioSeq.fts / add_fts, Feature/BioSeq __eq__/__lt__ (MODELLED_FUNCS: every statement executed in the quick tier; the '
              'branches for a LocationTuple or a foreign object as a collection element - fts.py:101,209-210,360,370-373, '
              'seq.py:258-259 - are reached only by the mixed-kind cases and extra_checks, outside wf_C16). Callable keys: any callable is '
              'accepted by the code; the model knows len, None and the closed family the harness hands in (-len, constant, lower-cased '
              'metadata value, metadata value with default, ft.loc / ft.locs for groupby). Tested only (not expressible in the pure '
              'model): object identity / aliasing (in-place forms return the receiver, not-in-place results share no list with receiver, '
              'operands or earlier results), hash/eq consistency of Location keys under histories, sequences not concerned by '
              'basket.fts= staying untouched (metadata keys, equality with an earlier copy), the str index seq[type] picking the '
              'residues of the feature get() returns - all via the history / transport streams. Domain: values None/int/str, key values '
              'orderable, one kind of element per collection, metadata keys not shadowing mapping methods (F20, list regenerated from '
              'dir(Meta)); filter operators outside the 12 documented ones are outside. '
              'Round 7: the place a str key is looked up per collection kind (attr=\'meta\' for FeatureList / BioBasket, plain attributes - '
              'instance, then wrapped re.Match, then None - for BioMatchList; callables get the object) is in the model (place_of_key, '
              'place_of_cond, xview, x_groupby / x_sort / x_filter, run_C16_xhist) and tied by the cross-kind histories; the results of '
              'find_orfs / matchall inside those histories are checked by a Python oracle only (their operands are not known to the model). '
              'All theorems closed under the global context (no axioms).')
TECHNIQUE = 'Coq proof over an executable Gallina model + differential correspondence with /repo'
