"""C16 -- collection operations (filter, sort, groupby, get/select, todict, set operators, attaching features):
cases, implementation driver, Coq term printer, property oracle."""
import itertools, operator, json
from framework import coq_bs, coq_z, coq_N, coq_bool, coq_list

ID = 'C16'
COQ_IMPORTS = ['C16_Model']
GENERATORS = ['gen_c16_reserved']
RULE = ('random FeatureLists / BioBaskets of 0-8 elements drawn from small pools (so that equal elements, equal keys and ties are '
        'frequent; features may lack type/seqid/name/id), every documented filter operator and alias with values of matching and '
        'non-matching kinds, key specs as "a b" strings, tuples, len and None (default order) with and without reverse, nested '
        'groupby up to 3 keys, get/select with str and list arguments in mixed case, the 12 set-operator methods with plain-list '
        'and collection operands, basket.fts= / add_fts with duplicate and unknown ids; plus an exhaustive box for the multi-key '
        'sort (all lists up to length 3 (quick) / 6 (thorough) over 4 elements with 2x2 key values, both directions) and all 256 Latin-1 '
        'code points through lower() and through the key-string split(); '
        'non-trivial = distinct case whose result is neither empty nor the unchanged input')
TRUSTED = ['CPython sorted() is a stable sort (modelled by the proven-stable insertion sort of lib/C16_StableSort.v and compared on '
           'tie-heavy inputs), dict insertion order, list.__contains__, str.lower/str.split/str.rsplit, operator module',
           'modelled: cane._keyfuncs/_groupby/_sorted/_filter (cane.py:13-105); FeatureList.get/select/todict/groupby/sort/filter and '
           'the 12 set-operator methods (fts.py:466-505,632-699,778-830); the BioBasket counterparts, fts setter, add_fts '
           '(seq.py:661-770,1006-1116); Feature.__eq__/__lt__/__len__, LocationTuple.range/__lt__, BioSeq.__eq__/__lt__',
           'Location equality beyond (start, stop) (strand, defect, location meta) and LocationTuple construction are C08; '
           'Meta/Attr mapping behaviour is C18 (keys shadowing mapping methods, open finding F20, are outside wf_C16)']
ASSUMPTIONS = ['Python str restricted to Latin-1 code points; metadata values restricted to None, int, str',
               'key values of one sort key are all int or all str (Python cannot order None or mixed kinds: TypeError, outside the domain)']

TYPES = ['CDS', 'cds', 'gene', 'Gene', 'tRNA']
NAMES = ['a', 'b', 'A', 'ab']
SEQIDS = ['s1', 's2', 'S1']
IDS = ['x', 'y', 'z']
SETOPS = ['and', 'or', 'sub', 'xor', 'rand', 'ror', 'rsub', 'rxor', 'iand', 'ior', 'isub', 'ixor']
FOPS = ['lt', 'le', 'eq', 'ne', 'ge', 'gt', 'max', 'min', 'in', 'lowerin', 'lowereq', 'contains']


# ----------------------------------------------------------------------------- case generation

def g_feat(rng, full, wild=False):
    m = []
    if full or rng.random() < 0.75:
        m.append(['type', rng.choice(TYPES)])
    if full or rng.random() < 0.7:
        m.append(['seqid', rng.choice(SEQIDS)])
    if full or rng.random() < 0.55:
        m.append(['name', rng.choice(NAMES)])
    if full or rng.random() < 0.55:
        m.append(['n', rng.randrange(3)])
    if rng.random() < 0.3:
        m.append(['id', rng.choice(IDS)])
    if wild and rng.random() < 0.3:
        m.append([rng.choice(['my_key', 'k', 'Len']), rng.choice([None, 1, 'q', 'Q', -2])])
    if wild and rng.random() < 0.1:
        m = [kv for kv in m if kv[0] != 'type'] + [['type', rng.choice([None, 7])]]
    rng.shuffle(m)
    nl = 1 if rng.random() < 0.8 else 2
    locs = []
    for _ in range(nl):
        s = rng.randrange(-1, 6)
        locs.append([s, s + rng.randrange(1, 4)])
    locs.sort(key=lambda l: l[0])
    return {'f': True, 'd': '', 'locs': locs, 'm': m}


def g_seq(rng, full, wild=False):
    m = [['id', rng.choice(IDS + ['', 'X'])]]
    if full or rng.random() < 0.6:
        m.append(['name', rng.choice(NAMES)])
    if full or rng.random() < 0.6:
        m.append(['n', rng.randrange(3)])
    if full or rng.random() < 0.4:
        m.append(['type', rng.choice(TYPES)])
    if wild and rng.random() < 0.3:
        m.append([rng.choice(['my_key', 'k']), rng.choice([None, 1, 'q', 'Q'])])
    if wild and rng.random() < 0.05:
        m[0] = ['id', rng.choice([None, 3])]
    rng.shuffle(m)
    return {'f': False, 'd': ''.join(rng.choice('ACGT') for _ in range(rng.randrange(0, 5))), 'locs': [], 'm': m}


def g_list(rng, feat=None, maxn=8, full=None, wild=None, start=0):
    feat = rng.random() < 0.65 if feat is None else feat
    full = rng.random() < 0.6 if full is None else full
    wild = rng.random() < 0.25 if wild is None else wild
    g = g_feat if feat else g_seq
    pool = [g(rng, full, wild) for _ in range(rng.choice([1, 2, 3, 3, 4, 5]))]
    n = rng.choice([0, 1, 2, 2, 3, 3, 4, 5, 6, maxn])
    xs = [dict(rng.choice(pool)) for _ in range(n)]
    for i, x in enumerate(xs):
        x['_i'] = start + i
    return xs, feat


def g_key(rng, allow_default):
    r = rng.random()
    if r < 0.15:
        return {'c': 'len'}
    if r < 0.25 and allow_default:
        return None
    if r < 0.28:
        return rng.choice(['items', 'copy', '_x'])          # names shadowed by Meta methods: outside the domain (F20)
    return rng.choice(['type', 'name', 'n', 'seqid', 'id', 'name', 'n', 'k', 'len'])


def g_keys(rng, allow_default):
    r = rng.random()
    if r < 0.12:
        return {'default': True}
    if r < 0.35:
        ks = [g_key(rng, False) for _ in range(rng.choice([0, 1, 2, 2, 3]))]
        ks = [k for k in ks if isinstance(k, str)]
        return {'s': rng.choice([' ', '  ', '\t']).join(ks) + rng.choice(['', ' '])}
    if r < 0.5:
        k = g_key(rng, allow_default)
        return {'one': k} if not isinstance(k, str) else {'s': k}
    return {'t': [g_key(rng, allow_default) for _ in range(rng.choice([0, 1, 1, 2, 2, 3]))]}


def g_cond(rng, feat):
    r = rng.random()
    if r < 0.25:
        return [rng.choice(['n', 'len']) + '_' + rng.choice(['lt', 'le', 'eq', 'ne', 'ge', 'gt', 'max', 'min']), rng.randrange(0, 4)]
    if r < 0.4:
        return [rng.choice(['name', 'seqid', 'id']) + '_' + rng.choice(['lt', 'le', 'eq', 'ne', 'ge', 'gt', 'max', 'min']),
                rng.choice(NAMES + SEQIDS + IDS)]
    if r < 0.55:
        key = rng.choice(['type', 'name', 'n', 'seqid'])
        pool = {'type': TYPES, 'name': NAMES, 'n': [0, 1, 2], 'seqid': SEQIDS}[key] + [None]
        return [key + '_in', {'l': rng.sample(pool, rng.randrange(0, 3))}]
    if r < 0.62:
        return [rng.choice(['type', 'name', 'seqid']) + '_in', rng.choice(['cdsgene', 'ab', 's1s2', ''])]
    if r < 0.72:
        return ['type_lowerin', rng.choice([{'l': ['cds', 'trna']}, {'l': ['gene']}, {'l': ['CDS']}, 'cds gene', {'l': []}])]
    if r < 0.8:
        return [rng.choice(['type', 'name']) + '_lowereq', rng.choice(['cds', 'CDS', 'gene', 'a', 'ab'])]
    if r < 0.88:
        return [rng.choice(['type', 'name', 'seqid']) + '_contains', rng.choice(['s', 'a', 'S', 'e', '', 1])]
    if r < 0.94:
        return [rng.choice(['my_key', 'k', 'Len', 'n']) + '_' + rng.choice(['eq', 'ne', 'in', 'lt']), rng.choice([None, 1, 'q', {'l': [None, 1]}])]
    return [rng.choice(['n_lt', 'n', 'name_', 'n_foo', 'n_eq', '_eq', 'n__eq', 'items_eq', 'keys_ne']), rng.choice([1, 'a'])]


def g_targ(rng):
    if rng.random() < 0.55:
        return rng.choice(['cds', 'CDS', 'Gene', 'gene', 'trna', 'x', ''])
    return [rng.choice(['cds', 'CDS', 'GENE', 'tRNA', 'x']) for _ in range(rng.randrange(0, 3))]


def box_cases(maxlen):
    """exhaustive box for the multi-key sort: 4 elements with key values (name, n) in {a,b} x {0,1}"""
    pool = [{'f': True, 'd': '', 'locs': [[0, 1]], 'm': [['name', a], ['n', n]]} for a in 'ab' for n in (0, 1)]
    out = []
    for n in range(0, maxlen + 1):
        for t in itertools.product(range(4), repeat=n):
            xs = []
            for i, j in enumerate(t):
                x = dict(pool[j])
                x['_i'] = i
                xs.append(x)
            for rev in (False, True):
                out.append({'_op': 'sort', '_recv': 'fl', 'xs': xs, 'keys': {'t': ['name', 'n']}, 'reverse': rev})
    return out


def latin1_cases():
    """every Latin-1 code point through str.lower() (lowereq) and through str.split() (a key string 'name<c>n')"""
    out = []
    for c in range(256):
        ch = chr(c)
        x = {'f': True, 'd': '', 'locs': [[0, 2]], 'm': [['name', 'A' + ch], ['n', 1]], '_i': 0}
        y = {'f': True, 'd': '', 'locs': [[1, 2]], 'm': [['name', 'a'], ['n', 2]], '_i': 1}
        out.append({'_op': 'filter', '_recv': 'fl', 'inplace': False, 'xs': [x, y], 'conds': [['name_lowereq', ('A' + ch).lower()]]})
        out.append({'_op': 'groupby', '_recv': 'fl', 'xs': [dict(x), dict(y)], 'keys': {'s': 'name' + ch + 'n'}})
    return out


def gen_cases(rng, tier):
    cases = box_cases(6 if tier == 'thorough' else 3) + latin1_cases()
    n = 30000 if tier == 'thorough' else 1800
    for _ in range(n):
        r = rng.random()
        if r < 0.2:
            xs, feat = g_list(rng)
            nc = rng.choice([0, 1, 1, 1, 2, 2, 3])
            conds, seen = [], set()
            for _ in range(nc):
                c = g_cond(rng, feat)
                if c[0] not in seen:
                    seen.add(c[0])
                    conds.append(c)
            cases.append({'_op': 'filter', '_recv': 'fl' if feat else 'bb', 'inplace': rng.random() < 0.4, 'xs': xs, 'conds': conds})
        elif r < 0.42:
            xs, feat = g_list(rng, full=rng.random() < 0.8)
            cases.append({'_op': 'sort', '_recv': 'fl' if feat else 'bb', 'xs': xs, 'keys': g_keys(rng, True), 'reverse': rng.random() < 0.4})
        elif r < 0.57:
            xs, feat = g_list(rng)
            cases.append({'_op': 'groupby', '_recv': 'fl' if feat else 'bb', 'xs': xs, 'keys': g_keys(rng, rng.random() < 0.1)})
        elif r < 0.67:
            xs, _ = g_list(rng, feat=True, full=False)
            cases.append({'_op': rng.choice(['select', 'get']), '_recv': 'fl', 'xs': xs, 't': g_targ(rng)})
        elif r < 0.72:
            xs, feat = g_list(rng)
            cases.append({'_op': 'todict', '_recv': 'fl' if feat else 'bb', 'xs': xs})
        elif r < 0.9:
            feat = rng.random() < 0.6
            full = rng.random() < 0.5
            g = g_feat if feat else g_seq
            pool = [g(rng, full, False) for _ in range(rng.choice([2, 3, 4, 5]))]
            a = [dict(rng.choice(pool)) for _ in range(rng.choice([0, 1, 2, 3, 4, 6]))]
            b = [dict(rng.choice(pool)) for _ in range(rng.choice([0, 1, 2, 3, 4, 6]))]
            for i, x in enumerate(a + b):
                x['_i'] = i
            cases.append({'_op': 'setop', '_recv': 'fl' if feat else 'bb', 'code': rng.randrange(12), 'a': a, 'b': b,
                          'plain': rng.random() < 0.4})
        else:
            wild = rng.random() < 0.3
            fs, _ = g_list(rng, feat=True, full=not wild and rng.random() < 0.8, wild=False, maxn=7)
            nseq = rng.choice([0, 1, 2, 3, 4])
            seqs, k = [], len(fs)
            for _ in range(nseq):
                sid = rng.choice(SEQIDS + ['s1', 's9'] + ([None, 2] if wild else []))
                old = []
                for _ in range(rng.choice([0, 0, 1, 2])):
                    f = g_feat(rng, True)
                    if isinstance(sid, str) and rng.random() < 0.85:
                        f['m'] = [kv if kv[0] != 'seqid' else ['seqid', sid] for kv in f['m']]
                    f['_i'] = k
                    k += 1
                    old.append(f)
                seqs.append([sid, old])
            cases.append({'_op': 'attach', 'add': rng.random() < 0.5, 'seqs': seqs, 'fs': fs, 'plain': rng.random() < 0.5})
    return cases


# ----------------------------------------------------------------------------- implementation driver

def _build(e):
    from sugar import BioSeq, Feature
    from sugar.core.fts import Location
    if e['f']:
        return Feature(locs=[Location(s, t) for s, t in e['locs']], meta={k: v for k, v in e['m']})
    return BioSeq(e['d'], meta={k: v for k, v in e['m']})


def _pykey(k):
    return len if isinstance(k, dict) else k


def _pykeys(ks):
    """-> (args tuple for keys)"""
    if 'default' in ks:
        return ()
    if 's' in ks:
        return (ks['s'],)
    if 'one' in ks:
        return (_pykey(ks['one']),)
    return (tuple(_pykey(k) for k in ks['t']),)


def _val(v):
    return list(v['l']) if isinstance(v, dict) else v


def impl(case):
    from sugar import BioBasket, FeatureList
    op = case['_op']
    cls = FeatureList if case.get('_recv', 'fl') == 'fl' else BioBasket
    ident = {}

    def build_all(es):
        objs = [_build(e) for e in es]
        for e, o in zip(es, objs):
            ident[id(o)] = e['_i']
        return objs

    def ix(objs):
        return [ident[id(o)] for o in objs]
    if op == 'setop':
        a, b = build_all(case['a']), build_all(case['b'])
        keep = a + b
        code = case['code']
        fn = [operator.and_, operator.or_, operator.sub, operator.xor][code % 4]
        ifn = [operator.iand, operator.ior, operator.isub, operator.ixor][code % 4]
        if code < 4:
            A, B = cls(a), (list(b) if case['plain'] else cls(b))
            r = fn(A, B)
            assert type(r) is cls and r is not A
            assert ix(A.data) == ix(a) and ix(B if case['plain'] else B.data) == ix(b), 'operand mutated'
            return ix(r.data)
        if code < 8:
            A, B = list(a), cls(b)
            r = fn(A, B)
            assert type(r) is cls and r is not B
            assert ix(A) == ix(a) and ix(B.data) == ix(b), 'operand mutated'
            return ix(r.data)
        A, B = cls(a), (list(b) if case['plain'] else cls(b))
        A0 = A
        A = ifn(A, B)
        assert A is A0, 'in-place operator must return the receiver'
        assert ix(B if case['plain'] else B.data) == ix(b), 'operand mutated'
        return ix(A.data)
    if op == 'attach':
        from sugar import BioSeq
        fs = build_all(case['fs'])
        seqs = []
        for sid, old in case['seqs']:
            s = BioSeq('ACGT', id=sid)
            if old:
                s.fts = FeatureList(build_all(old))
            seqs.append(s)
        bk = BioBasket(seqs)
        arg = list(fs) if case['plain'] else FeatureList(fs)
        if case['add']:
            bk.add_fts(arg)
        else:
            bk.fts = arg
        return [ix(s.fts.data) for s in bk]
    objs = build_all(case['xs'])
    obj = cls(objs)
    if op == 'filter':
        r = obj.filter(inplace=case['inplace'], **{k: _val(v) for k, v in case['conds']})
        assert type(r) is cls
        assert (r is obj) == bool(case['inplace']), 'inplace flag not respected'
        return [ix(r.data), ix(obj.data)]
    if op == 'sort':
        r = obj.sort(*_pykeys(case['keys']), reverse=case['reverse'])
        assert r is obj
        return ix(obj.data)
    if op == 'groupby':
        d = obj.groupby(*_pykeys(case['keys']))

        def render(t):
            if isinstance(t, dict):
                return [[k, render(v)] for k, v in t.items()]
            assert type(t) is cls
            return ix(t.data)
        assert ix(obj.data) == ix(objs)
        return render(d)
    if op == 'select':
        r = obj.select(case['t'])
        assert type(r) is cls and ix(obj.data) == ix(objs)
        return ix(r.data)
    if op == 'get':
        r = obj.get(case['t'])
        return None if r is None else ident[id(r)]
    if op == 'todict':
        return [[k, ident[id(v)]] for k, v in obj.todict().items()]
    raise ValueError(op)


# ----------------------------------------------------------------------------- Coq terms

def t_pv(v):
    if v is None:
        return 'PNone'
    if isinstance(v, int):
        return '(PInt %s)' % coq_z(v)
    return '(PStr %s)' % coq_bs(v)


def t_meta(m):
    return coq_list(['(%s, %s)' % (coq_bs(k), t_pv(v)) for k, v in m])


def t_elem(e):
    if e['f']:
        return '(Ft %d %s %s)' % (e['_i'], coq_list(['(%d, %d)%%Z' % (s, t) for s, t in e['locs']]), t_meta(e['m']))
    return '(Sq %d %s %s)' % (e['_i'], coq_bs(e['d']), t_meta(e['m']))


def t_elems(es):
    return coq_list([t_elem(e) for e in es])


def t_key(k):
    if k is None:
        return 'KDefault'
    if isinstance(k, dict):
        return 'KLen'
    return '(KMeta %s)' % coq_bs(k)


def t_keys(ks, recv, op):
    if 'default' in ks:
        if op == 'sort':
            return '(KsOne KDefault)' if recv == 'fl' else '(KsTuple [KMeta k_id])'          # fts.py:779, seq.py:1053
        return '(KsTuple [KMeta k_seqid])' if recv == 'fl' else '(KsTuple [KMeta k_id])'     # fts.py:675, seq.py:1072
    if 's' in ks:
        return '(KsStr %s)' % coq_bs(ks['s'])
    if 'one' in ks:
        return '(KsOne %s)' % t_key(ks['one'])
    return '(KsTuple %s)' % coq_list([t_key(k) for k in ks['t']])


def t_fval(v):
    if isinstance(v, dict):
        return '(FL %s)' % coq_list([t_pv(x) for x in v['l']])
    return '(FV %s)' % t_pv(v)


def t_targ(t):
    if isinstance(t, str):
        return '(TOne %s)' % coq_bs(t)
    return '(TMany %s)' % coq_list([coq_bs(x) for x in t])


def model_term(case):
    try:
        return _model_term(case)
    except Exception:           # malformed (over-shrunk) case: outside the domain
        return 'out (VL [VB false; VNone])'


def _model_term(case):
    op = case['_op']
    if op == 'filter':
        r = 'RFilter %s %s %s' % (coq_bool(case['inplace']), t_elems(case['xs']),
                                  coq_list(['(%s, %s)' % (coq_bs(k), t_fval(v)) for k, v in case['conds']]))
    elif op == 'sort':
        r = 'RSort %s %s %s' % (t_elems(case['xs']), t_keys(case['keys'], case['_recv'], op), coq_bool(case['reverse']))
    elif op == 'groupby':
        r = 'RGroup %s %s' % (t_elems(case['xs']), t_keys(case['keys'], case['_recv'], op))
    elif op == 'select':
        r = 'RSelect %s %s' % (t_elems(case['xs']), t_targ(case['t']))
    elif op == 'get':
        r = 'RGet %s %s' % (t_elems(case['xs']), t_targ(case['t']))
    elif op == 'todict':
        r = 'RTodict %s' % t_elems(case['xs'])
    elif op == 'setop':
        r = 'RSetop %s %s %s' % (coq_N(case['code']), t_elems(case['a']), t_elems(case['b']))
    else:
        r = 'RAttach %s %s %s' % (coq_bool(case['add']),
                                  coq_list(['(%s, %s)' % (t_pv(sid), t_elems(old)) for sid, old in case['seqs']]),
                                  t_elems(case['fs']))
    return 'out (run_C16 (%s))' % r


def split_model(case, m):
    return bool(m[0]), m[1]


def agree(case, implval, modelval):
    if isinstance(implval, dict) and 'e' in implval and isinstance(modelval, dict) and 'e' in modelval:
        return implval['e'] == modelval['e']
    return implval == modelval


# ----------------------------------------------------------------------------- property oracle (independent of sugar and of the model)

def _meta(e):
    return {k: v for k, v in e['m']}


def _len(e):
    if e['f']:
        return max(t for _, t in e['locs']) - min(s for s, _ in e['locs'])
    return len(e['d'])


def _same(x, y):
    return x['f'] == y['f'] and x['d'] == y['d'] and x['locs'] == y['locs'] and _tagd(_meta(x)) == _tagd(_meta(y))


def _tag(v):
    return (type(v).__name__, v)


def _tagd(d):
    return {k: _tag(v) for k, v in d.items()}


def _isin(x, l):
    return any(_same(x, y) for y in l)


_SPEC_OPS = {'lt': operator.lt, 'le': operator.le, 'eq': operator.eq, 'ne': operator.ne, 'ge': operator.ge, 'gt': operator.gt,
             'max': operator.le, 'min': operator.ge, 'in': lambda a, b: a in b, 'lowerin': lambda a, b: a.lower() in b,
             'lowereq': lambda a, b: a.lower() == b, 'contains': lambda a, b: b in a}


def _resolve_keys(case):
    ks, recv = case['keys'], case['_recv']
    if 'default' in ks:
        if case['_op'] == 'sort':
            return [None] if recv == 'fl' else ['id']
        return ['seqid'] if recv == 'fl' else ['id']
    if 's' in ks:
        return ks['s'].split()
    if 'one' in ks:
        return [ks['one']]
    return list(ks['t'])


def _keyfn(k, xs):
    if k is None:           # documented default order: features by seqid then position; sequences by id
        if xs and xs[0]['f']:
            same = len({_tag(_meta(x).get('seqid')) for x in xs}) <= 1
            return lambda e: (0 if same else _meta(e).get('seqid'), min(s for s, _ in e['locs']), max(t for _, t in e['locs']))
        return lambda e: _meta(e).get('id', '')
    if isinstance(k, dict):
        return _len
    return lambda e: _meta(e).get(k)


def spec(case, got):
    if isinstance(got, dict) and 'e' in got:
        return 'raised %s inside the domain' % got['e']
    op = case['_op']
    if op == 'filter':
        xs = case['xs']

        def holds(e, c):
            key, kop = c[0].rsplit('_', 1)
            a = _len(e) if key == 'len' else _meta(e).get(key)
            return bool(_SPEC_OPS[kop](a, _val(c[1])))
        exp = [e['_i'] for e in xs if all(holds(e, c) for c in case['conds'])]
        if got[0] != exp:
            return 'filter returned %r, the elements satisfying all conditions are %r' % (got[0], exp)
        recv = exp if case['inplace'] else [e['_i'] for e in xs]
        if got[1] != recv:
            return 'receiver afterwards holds %r, expected %r' % (got[1], recv)
        return None
    if op == 'sort':
        xs = case['xs']
        fns = [_keyfn(k, xs) for k in _resolve_keys(case)]
        if sorted(got) != [e['_i'] for e in xs]:
            return 'sort result %r is not a permutation of the input' % (got,)
        kt = {e['_i']: tuple(f(e) for f in fns) for e in xs}
        for a, b in zip(got, got[1:]):
            if kt[a] == kt[b]:
                if a > b:
                    return 'not stable: elements %d and %d have equal keys %r but were swapped' % (b, a, kt[a])
            elif (kt[a] < kt[b]) == bool(case['reverse']):
                return 'not sorted: %r before %r (reverse=%r)' % (kt[a], kt[b], case['reverse'])
        return None
    if op == 'groupby':
        xs = case['xs']
        fns = [_keyfn(k, xs) for k in _resolve_keys(case)]

        def chk(node, es, d):
            if d == len(fns):
                if node != [e['_i'] for e in es] or not es:
                    return 'group holds %r, expected %r' % (node, [e['_i'] for e in es])
                return None
            keys = []
            for e in es:
                if _tag(fns[d](e)) not in [_tag(k) for k in keys]:
                    keys.append(fns[d](e))
            if not isinstance(node, list) or [_tag(kv[0]) for kv in node] != [_tag(k) for k in keys]:
                return 'group keys at depth %d are %r, expected %r (first-occurrence order)' % (d, [kv[0] for kv in node], keys)
            for k, sub in node:
                r = chk(sub, [e for e in es if _tag(fns[d](e)) == _tag(k)], d + 1)
                if r:
                    return r
            return None
        if not xs:
            return None if got == [] else 'groupby of an empty collection gave %r' % (got,)
        return chk(got, xs, 0)
    if op in ('select', 'get'):
        t = case['t']
        ts = [t.lower()] if isinstance(t, str) else [x.lower() for x in t]
        exp = [e['_i'] for e in case['xs'] if isinstance(_meta(e).get('type'), str) and _meta(e)['type'].lower() in ts]
        if op == 'get':
            exp = exp[0] if exp else None
        return None if got == exp else '%s gave %r, expected %r' % (op, got, exp)
    if op == 'todict':
        exp = {}
        for e in case['xs']:
            exp[_tag(_meta(e).get('id'))] = e['_i']
        g = [[_tag(k), v] for k, v in got]
        return None if g == [[k, v] for k, v in exp.items()] else 'todict gave %r' % (got,)
    if op == 'setop':
        a, b, code = case['a'], case['b'], case['code']
        if code in (4, 5, 7):          # reflected forms as coded: the collection is the receiver
            a, b = b, a
        k = code % 4
        if k == 0:
            exp = [x for x in a if _isin(x, b)]
        elif k == 1:
            exp = a + [x for x in b if not _isin(x, a)]
        elif k == 2:
            exp = [x for x in a if not _isin(x, b)]
        else:
            exp = [x for x in a + [y for y in b if not _isin(y, a)] if not (_isin(x, a) and _isin(x, b))]
        exp = [x['_i'] for x in exp]
        return None if got == exp else 'set operator %s gave %r, expected %r' % (SETOPS[code], got, exp)
    if op == 'attach':
        fs = case['fs']
        exp, used = [], []
        for sid, old in case['seqs']:
            mine = [f for f in fs if _tag(_meta(f).get('seqid')) == _tag(sid)]
            if mine and _tag(sid) not in used:
                used.append(_tag(sid))
                if case['add']:
                    allf = old + mine
                    fn = _keyfn(None, allf)
                    pos = {f['_i']: n for n, f in enumerate(allf)}
                    exp.append([f['_i'] for f in sorted(allf, key=lambda f: (fn(f), pos[f['_i']]))])
                else:
                    exp.append([f['_i'] for f in mine])
            else:
                exp.append([f['_i'] for f in old])
        return None if got == exp else 'sequences hold %r after attaching, expected %r' % (got, exp)
    return None


def nontrivial(case, got):
    if isinstance(got, dict):
        return None
    op = case['_op']
    if op == 'filter':
        return 'filter' if got[0] and len(got[0]) < len(case['xs']) else None
    if op == 'sort':
        return 'sort' if got != sorted(got) else None
    if op == 'groupby':
        return 'groupby' if len(got) > 1 else None
    if op in ('select', 'get'):
        return op if got not in ([], None) else None
    if op == 'todict':
        return 'todict' if len(got) < len(case['xs']) else None
    if op == 'setop':
        return SETOPS[case['code']] if got and case['a'] and case['b'] else None
    if op == 'attach':
        return 'attach' if any(got) else None
    return None


def histkey(case, got):
    op = case['_op']
    n = len(case.get('xs', case.get('a', case.get('fs', []))))
    hk = ['op=' + (SETOPS[case['code']] if op == 'setop' else op), 'n=' + ('0' if n == 0 else '1' if n == 1 else '2-4' if n <= 4 else '5+'),
          'recv=' + case.get('_recv', 'bb')]
    if isinstance(got, dict) and 'e' in got:
        hk.append('raises=' + got['e'])
    if op == 'filter':
        hk += ['fop=' + c[0].rsplit('_', 1)[-1] for c in case['conds']] + ['nconds=%d' % len(case['conds'])]
    if op in ('sort', 'groupby'):
        hk.append('keys=' + ('default' if 'default' in case['keys'] else 'str' if 's' in case['keys'] else 'one' if 'one' in case['keys']
                             else 'tuple%d' % len(case['keys']['t'])))
    return hk


def features(case, implval):
    return {'_op': case['_op'], 'raises': implval.get('e') if isinstance(implval, dict) else None}


def python_snippet(case):
    def pe(e):
        if e['f']:
            return 'Feature(locs=[%s], meta=%r)' % (', '.join('Location(%d, %d)' % (s, t) for s, t in e['locs']), _meta(e))
        return 'BioSeq(%r, meta=%r)' % (e['d'], _meta(e))

    def pl(es):
        return '[' + ', '.join(pe(e) for e in es) + ']'

    def pk(ks):
        if 'default' in ks:
            return ''
        if 's' in ks:
            return repr(ks['s'])
        f = lambda k: 'len' if isinstance(k, dict) else repr(k)
        if 'one' in ks:
            return f(ks['one'])
        return '(' + ''.join(f(k) + ', ' for k in ks['t']) + ')'
    cls = 'FeatureList' if case.get('_recv', 'fl') == 'fl' else 'BioBasket'
    head = 'from sugar import BioSeq, BioBasket, Feature, FeatureList; from sugar.core.fts import Location\n'
    op = case['_op']
    if op == 'setop':
        sym = ['&', '|', '-', '^'][case['code'] % 4]
        a, b = pl(case['a']), pl(case['b'])
        if case['code'] < 4:
            return head + 'a = %s(%s); b = %s\nprint(a %s b)' % (cls, a, b if case['plain'] else '%s(%s)' % (cls, b), sym)
        if case['code'] < 8:
            return head + 'a = %s; b = %s(%s)\nprint(a %s b)' % (a, cls, b, sym)
        return head + 'a = %s(%s); b = %s\na %s= b\nprint(a)' % (cls, a, b if case['plain'] else '%s(%s)' % (cls, b), sym)
    if op == 'attach':
        s = head + 'seqs = BioBasket([%s])\n' % ', '.join('BioSeq("ACGT", id=%r)' % (sid,) for sid, _ in case['seqs'])
        for n, (sid, old) in enumerate(case['seqs']):
            if old:
                s += 'seqs[%d].fts = FeatureList(%s)\n' % (n, pl(old))
        s += ('seqs.add_fts(%s)\n' if case['add'] else 'seqs.fts = %s\n') % pl(case['fs'])
        return s + 'print([list(s.fts) for s in seqs])'
    s = head + 'x = %s(%s)\n' % (cls, pl(case['xs']))
    if op == 'filter':
        return s + 'print(x.filter(inplace=%r, **%r)); print(x)' % (case['inplace'], {k: _val(v) for k, v in case['conds']})
    if op == 'sort':
        k = pk(case['keys'])
        return s + 'print(x.sort(%s%sreverse=%r))' % (k, ', ' if k else '', case['reverse'])
    if op == 'groupby':
        return s + 'print(x.groupby(%s))' % pk(case['keys'])
    if op in ('select', 'get'):
        return s + 'print(x.%s(%r))' % (op, case['t'])
    return s + 'print(x.todict())'


LEVEL_TEXT = ('Machine-checked Coq theorems about an executable model of sugar\'s collection helpers, for all lists: filter returns '
              'exactly List.filter of the conjunction of the conditions (order kept, receiver untouched unless inplace); the key-by-key '
              'loop of stable sorts equals ONE stable insertion sort by the lexicographic order on the key tuple, hence a sorted '
              'permutation in which elements with equal key tuples keep their input order (also with reverse); groupby returns exactly the '
              'nested first-occurrence-ordered grouping (spec_tree) whose leaves are the filters by key path; get/select/set operators/attach-by-seqid specifications. The model is tied to /repo by differential '
              'testing of the public methods on every run.')
LEVEL_NOTE = ('Trusted: Coq kernel/vm_compute, the correspondence harness, CPython sorted() being a stable sort (modelled by a '
              'proven-stable insertion sort and compared on tie-heavy inputs), dict order, str.lower/split/rsplit. Modelled rather than '
              'verified: cane._keyfuncs/_groupby/_sorted/_filter, FeatureList/BioBasket get/select/todict/groupby/sort/filter, set '
              'operators, fts setter/add_fts, Feature/BioSeq __eq__/__lt__. Domain: values None/int/str, key values orderable, metadata keys '
              'not shadowing mapping methods (F20). Features without a seqid are inside the domain of basket.fts= / add_fts (they stay '
              'unattached; fixed in /repo 8b1b464, witness in corpus/C16). All theorems closed under the '
              'global context (no axioms).')
TECHNIQUE = 'Coq proof over an executable Gallina model + differential correspondence with /repo'
