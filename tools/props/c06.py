"""C06 -- feature-addressed subsequences and coordinate tracking under slicing and rc:
cases, implementation driver, model terms, first-principles property oracle."""
import itertools
import json
from framework import coq_bs, coq_bool

ID = 'C06'
COQ_IMPORTS = ['C06_Model']
GENERATORS = ['gen_codes', 'gen_flags']
ALPHA = 'ACGTRYSWKMBDHVN.-'
STRANDS = '+-.?'
RULE = ('corpus (F6-F9 witnesses, empty-window witnesses) first; exhaustive box: every single-location feature [x,y) on both strands of a '
        'sequence of length <= 3 (quick) / <= 5 (thorough) x every int window and every slice window with bounds in -n-1..n+1 or None, '
        'every Location window on both strands, rc, all with update_fts; sampled two-location features x all windows of a length-4/6 sequence; '
        'a multi-location extraction stream (2-4 separated / touching / overlapping locations, all strands, filler x splitter, by Feature / own feature / '
        'type name with a later duplicate type); a gap stream (sequences with gap columns at the ends, in runs and isolated; gap strings - . -. "" N; '
        'int / slice / Location / Feature / own-feature / type-name windows in residue numbering, both strands, with and without update_fts); '
        'a history stream on ONE object (state independence): window - in-place edit (rc, reverse, complement, item assignment, the in-place str methods seq.str.upper / lower / swapcase / replace / strip / lstrip / rstrip, data '
        'assignment with the gaps moved, feature replacement) - same window again; the same window twice and with other gap / update_fts values in both '
        'orders; editing the RESULT of a window (rc with features, popping / rewriting its features, its data, its id) and repeating; windows through a '
        'Feature sharing the Location objects of an own feature followed by rc(update_fts); a fresh object colliding on id and length; in-place windows; '
        'every step is compared with the model applied to the current value and the receiver is observed after every step; '
        'a FEATURE-LIST history stream (a small history language interpreted by the real objects and by run_C06f): lookups by type name '
        '(seq[name], seq.sl(..)[name], BioBasket(objs)[name] / [:, name] / [i, name], fts.get(name | names), fts.select(name | names), BioBasket(objs).fts.get / select, indexing with a '
        'Feature taken from the list) interleaved with in-place edits of the SAME FeatureList object (sort with keys None / len / tuples and reverse=, '
        'reverse, item assignment, swap, insert, append, extend / +=, pop / del, remove, clear, seq.add_fts, changing the type or the locations of a feature) and of '
        'the sequence (rc with / without features, basket rc, reverse, complement, item assignment, fts re-assigned) on 1-3 objects of equal length with '
        'the same type names (same features shuffled / same number of features); patterns: lookup - length-preserving edit - same lookup; the same '
        'lookup on every object around an edit of one; number of features going and coming back; the type of a feature changed in place so that the answer moves; every object observed after every step; '
        'a BioBasket stream (0-7 sequences of different lengths, DNA / RNA / gapped; seqs[i], seqs[a:b:st] with any step, seqs[w], seqs[i, w], '
        'seqs[a:b:st, w] with w a type name / Feature / Location / int / slice, unsupported index shapes; sequences lacking the requested type; '
        'seqs.rc(update_fts) on the basket, on a sliced basket sharing the sequence objects and through sl(); '
        'tags (ids) of the selected sequences compared); a type-name lookup stream (families of types that are prefixes / suffixes / substrings '
        'of each other, empty and missing types, the same type twice, any letter case); size thresholds (4-10 features, 4-8 locations per '
        'feature, gapped rows up to 130 columns); RNA sequences inside the domain (residues compared up to U/T on the reverse strand); '
        'kinds of values: slice bounds and Location coordinates as numpy integers, type names as instances of a str subclass; '
        'every result of a single / basket case is edited afterwards (features popped / rewritten / mirrored, data, id) and the receiver re-observed; '
        'then seeded random cases: sequences of 0-60 residues (occasionally 300), '
        '0-3 features with 1-3 locations (strands + - . ?, random Defect bits, overlapping, touching the ends, edges shared with the window), windows int / '
        'slice (None, negative, beyond the ends, step None/1) / Location / Feature / own feature / type name (case-insensitive, missing) / unsupported object, '
        'options update_fts, splitter, filler; Feature(...) built from Location objects, from start/stop/strand keywords or from tuples; '
        '8% deliberately malformed (out-of-domain) inputs. '
        'non-trivial = distinct case whose window cuts, drops, mirrors or joins something (marker = kind/update_fts/window strand/'
        'cut-left/cut-right/dropped/multi-location/filler/splitter/gap), or a history of at least two steps (marker = the step kinds)')
TRUSTED = ['CPython str slicing, str.upper/lower, slice.indices, sorted() stability (modelled: py_slice, upper/lower on ASCII, slice_bounds, '
           'stable insertion sort; compared on every case)',
           'modelled rather than verified: BioSeq._getitem (all options: update_fts, gap, splitter, filler; inplace in histories), _slice_locs, '
           'rc(update_fts), __setitem__ (seq.py); FeatureList.get/slice/rc, Feature.__init__/rc, LocationTuple.__new__/range/_reverse, '
           'Location.__init__/_reverse, Defect._reverse, Strand._reverse (fts.py) -- see MODELLED_FUNCS',
           'residue complement: C05 model over the regenerated COMPLEMENT tables; Defect/Strand values regenerated (G_flags)',
           'object identity / aliasing is not modelled (the model is pure): state independence is decided by the history streams only',
           'CPython list methods (sort stability, insert clamping, remove by ==) and sugar.core.cane._sorted are modelled (fts_sort, list_ins, '
           'remove_first) and compared on every feature-list history']
ASSUMPTIONS = ['Python str restricted to ASCII; sequences over the 17-symbol IUPAC nucleotide alphabet plus U (case-insensitive) inside the '
               'harness domain wf_C06u; the tracking theorems are stated on the DNA domain wf_C06 (C06_wf_dna_in_rna: it lies inside), RNA by '
               'C06_rc_tracking_rna up to U/T (BioSeq.complement decides per extracted piece whether it writes U or T: a minus-strand piece of an '
               'RNA sequence that happens to contain no U is written with T; the oracle compares RNA residues up to U/T, the model exactly)',
               'feature locations and window locations lie inside [0, len] (inside [0, number of residues] when gap is given); Defect values < 256; '
               'slice step in (None, 1)',
               'update_fts with a multi-location window is rejected by design (ValueError, theorem C06_multi_update_error) and outside the domain',
               'gap x update_fts is under-specified in sugar (int/slice windows cut features at column bounds - pinned by sugar\'s own '
               'test_seqs_getitem_special -, Location-like windows at the window\'s residue numbers); both paths are modelled, compared and now '
               'characterised (C06_gap_update_slice_path, C06_gap_update_loc_path): they agree exactly on windows whose bounds are aligned '
               '(C06_gap_update_paths_agree_partial, C06_gap_update_paths_differ, C06_gap_update_paths_agree_refuted); which of the two is "right" '
               'depends on whether feature coordinates count columns or residues, which sugar does not say',
               'BioBasket forms: every sequence of the basket is a sequence of the domain and the window lies inside each of them']

MODELLED_FUNCS = {
    'sugar/core/seq.py': ['BioSeq._getitem', 'BioSeq._slice_locs', 'BioSeq.rc', 'BioSeq.__getitem__', 'BioSeq.sl', 'BioSeq.__setitem__',
                          '_Sliceable_GetItem.__init__', '_Sliceable_GetItem.__getitem__',
                          'BioBasket._getitem', 'BioBasket.__getitem__', 'BioBasket.sl', 'BioBasket.rc', 'BioSeq.add_fts',
                          '_BioSeqStr.upper', '_BioSeqStr.lower', '_BioSeqStr.swapcase', '_BioSeqStr.replace', '_BioSeqStr.strip',
                          '_BioSeqStr.lstrip', '_BioSeqStr.rstrip'],
    'sugar/core/fts.py': ['FeatureList.slice', 'FeatureList.rc', 'FeatureList.get', 'FeatureList.select', 'FeatureList.sort',
                          'Feature.__lt__', 'Feature.__eq__', 'Feature.__len__', 'LocationTuple.__lt__', 'Location.__eq__',
                          'Feature.rc', 'Feature.__init__',
                          'LocationTuple.__new__', 'LocationTuple.range', 'LocationTuple._reverse',
                          'Location.__init__', 'Location._reverse', 'Defect._reverse', 'Strand._reverse'],
}

COMP = {'A': 'T', 'C': 'G', 'G': 'C', 'T': 'A', 'R': 'Y', 'Y': 'R', 'S': 'S', 'W': 'W', 'K': 'M', 'M': 'K', 'B': 'V', 'V': 'B',
        'D': 'H', 'H': 'D', 'N': 'N', '.': '.', '-': '-', 'U': 'A'}


def _u2t(text):
    """RNA is tracked up to writing T for U (C05's sense: BioSeq.complement decides per piece whether it writes U or T)"""
    return text.replace('U', 'T')


# ----------------------------------------------------------------------------- case generation

def _seq(rng, n, kind='dna'):
    if kind == 'dna':
        al = 'ACGT'
    elif kind == 'iupac':
        al = ALPHA
    elif kind == 'lower':
        al = 'acgtACGTn'
    elif kind == 'rna':
        al = 'ACGU'
    else:
        al = 'ACDEFGHIKLMNPQRSTVWY*'
    return ''.join(rng.choice(al) for _ in range(n))


def _edge(rng, n, pts):
    """a coordinate in 0..n, biased to the ends and to the given interesting points"""
    r = rng.random()
    if r < 0.25 and pts:
        return min(max(rng.choice(pts) + rng.choice([-1, 0, 0, 1]), 0), n)
    if r < 0.4:
        return rng.choice([0, n, 1, max(n - 1, 0)])
    return rng.randint(0, n)


def _loc(rng, n, strand, pts, defect_p=0.2):
    for _ in range(20):
        a, b = _edge(rng, n, pts), _edge(rng, n, pts)
        if a != b:
            break
    else:
        a, b = 0, max(n, 1)
    a, b = min(a, b), max(a, b)
    d = 0
    if rng.random() < defect_p:
        d = rng.choice([1, 2, 3, 4, 8, 12, 16, 32, 48, 64, 128, rng.randint(0, 255)])
    return [a, b, strand, d]


def _strand(rng):
    return rng.choices(STRANDS, weights=[45, 40, 8, 7])[0]


TYPES = ['cds', 'CDS', 'gene', 'Gene', 'exon', 'tRNA', None, '']
# type names that are prefixes / suffixes / substrings of each other (lookup is by EQUALITY, case-insensitively)
TYPES_NEST = ['gene', 'pseudogene', 'RNA', 'mRNA', 'tRNA', 'ncRNA', 'exon', 'exon_junction', 'UTR', "5'UTR", 'cd', 'cds', 'CDSs', 'Gene', None, '']
NAMES_NEST = ['gene', 'PSEUDOGENE', 'rna', 'mrna', 'trna', 'ncrna', 'EXON', 'exon_junction', 'utr', "5'utr", 'cd', 'CDS', 'cdss', 'ex', 'e', 'missing']


def _fts(rng, n, pts, maxft=3, types=None):
    fts = []
    nft = rng.choice([0, 1, 1, 2, 2, 3][:maxft + 3])
    many = maxft >= 3 and rng.random() < 0.06                     # long feature lists / long location lists (size thresholds)
    if many:
        nft = rng.randint(4, 10)
    for _ in range(nft):
        s = _strand(rng)
        k = rng.choice([1, 1, 1, 2, 2, 3])
        if many and rng.random() < 0.3:
            k = rng.randint(4, 8)
        fts.append([rng.choice(types or TYPES), [_loc(rng, n, s, pts) for _ in range(k)]])
    return fts


def _bound(rng, n, pts):
    r = rng.random()
    if r < 0.15:
        return None
    if r < 0.35:
        return rng.randint(-n - 2, -1)
    if r < 0.45:
        return n + rng.randint(0, 3)
    return _edge(rng, n, pts)


def _random_case(rng, big=False):
    n = rng.choice([0, 1, 2, 3, 4, 5, 6, 7, 8, 10, 12, 20, 40, 60])
    if big and rng.random() < 0.1:
        n = 300
    r = rng.random()
    kind = 'dna' if r < 0.6 else 'iupac' if r < 0.8 else 'lower' if r < 0.9 else 'rna' if r < 0.95 else 'aa'
    data = _seq(rng, n, kind)
    pts = [rng.randint(0, n) for _ in range(3)]
    nest = rng.random() < 0.25
    fts = _fts(rng, n, pts, types=TYPES_NEST if nest else None) if n else []
    u = rng.random() < 0.6
    case = {'data': data, 'fts': fts, 'u': u, 'splitter': None, 'filler': None}
    r = rng.random()
    if n == 0:
        r = min(r, 0.39) if r > 0.1 else 0.95
    if r < 0.1:
        case['win'] = {'k': 'int', 'i': rng.randint(-n - 1, n)}
    elif r < 0.4:
        a, b = _bound(rng, n, pts), _bound(rng, n, pts)
        case['win'] = {'k': 'slice', 'a': a, 'b': b, 'step': rng.choice([None, None, 1])}
    elif r < 0.55:
        case['win'] = {'k': 'loc', 'l': _loc(rng, n, _strand(rng), pts)}
    elif r < 0.7:
        s = _strand(rng)
        k = 1 if (u and rng.random() < 0.85) else rng.choice([1, 2, 2, 3])
        case['win'] = {'k': 'feat', 'ls': [_loc(rng, n, s, pts) for _ in range(k)]}
    elif r < 0.8 and fts:
        case['win'] = {'k': 'own', 'idx': rng.randrange(len(fts))}
    elif r < 0.92:
        t = rng.choice(NAMES_NEST if nest else ['cds', 'CDS', 'Cds', 'gene', 'GENE', 'exon', 'trna', 'missing', ''])
        if nest and fts and rng.random() < 0.5:                   # the type of a LATER feature (an earlier one may contain / extend it)
            t = (fts[-1][0] or 'gene').swapcase()
        case['win'] = {'k': 'type', 'name': t}
    else:
        case['win'] = {'k': 'rc'}
    if case['win']['k'] in ('loc', 'feat', 'own', 'type') and rng.random() < 0.5:
        if rng.random() < 0.6:
            case['splitter'] = rng.choice(['|', '--', 'n', '', 'x*'])
        if rng.random() < 0.6:
            case['filler'] = rng.choice(['N', 'n', '-', 'nn', ''])
    r = rng.random()
    if r < 0.12:
        case['ctor'] = 'kw'
    elif r < 0.24:
        case['ctor'] = 'tuples'
    if rng.random() < 0.01:
        case['win'] = {'k': 'bad'}
    if case['win']['k'] in ('slice', 'loc', 'feat') and rng.random() < 0.12:
        case['coerce'] = 'np'                                     # numpy integers as bounds / coordinates
    elif case['win']['k'] == 'type' and rng.random() < 0.3:
        case['coerce'] = 'strsub'                                 # the type name is an instance of a str subclass
    # deliberately malformed inputs (outside the domain; the model must still agree on raise / no raise)
    if rng.random() < 0.08:
        m = rng.randrange(9)
        if m == 6 and fts:
            fts[0][1] = []                                        # Feature(locs=[])
        elif m == 7 and fts:
            case['ctor'] = rng.choice(['none', 'both'])
        elif m == 8 and fts:
            case['ctor'] = 'tuples'
            fts[-1][1][0][1] = fts[-1][1][0][0] - 1               # bad tuple -> TypeError
        if m == 0 and fts:
            fts[0][1][0][1] = n + rng.randint(1, 3)               # location beyond the end
        elif m == 1 and fts:
            fts[0][1][0][0] = fts[0][1][0][1]                     # start == stop
        elif m == 2 and fts:
            fts[0][1].append(_loc(rng, n, '+' if fts[0][1][0][2] != '+' else '-', pts))   # mixed strands
        elif m == 3 and case['win']['k'] == 'slice':
            case['win']['step'] = rng.choice([0, 2, -1]); case['u'] = True
        elif m == 4 and case['win']['k'] == 'loc':
            case['win']['l'][1] = n + 2
        elif m == 5 and fts:
            fts[0][1][0][0] = -1
    return case


def _gapped(rng, n, gapch='-'):
    """a sequence with gap columns at the ends, in runs and isolated; never symmetric on purpose"""
    out = []
    while len(out) < n:
        r = rng.random()
        if r < 0.25:
            out += [rng.choice(gapch)] * rng.choice([1, 1, 2, 3])
        else:
            out.append(rng.choice('ACGT' if rng.random() < 0.9 else 'RYKMN'))
    return ''.join(out[:n])


def _gap_window(rng, m, fts, u):
    """a window in residue numbering 0..m"""
    r = rng.random()
    if r < 0.12:
        return {'k': 'int', 'i': rng.randint(-m - 1, m)}
    if r < 0.37:
        return {'k': 'slice', 'a': _bound(rng, m, []), 'b': _bound(rng, m, []), 'step': None}
    if r < 0.62 or not fts:
        return {'k': 'loc', 'l': _loc(rng, m, rng.choice('+-+-.?'), [], 0)}
    if r < 0.75:
        sd = rng.choice('+-')
        return {'k': 'feat', 'ls': [_loc(rng, m, sd, [], 0) for _ in range(1 if u else rng.choice([1, 2, 3]))]}
    if r < 0.88:
        return {'k': rng.choice(['own', 'ownlocs']), 'idx': rng.randrange(len(fts))}
    return {'k': 'type', 'name': rng.choice([t for t, _ in fts if t] or ['cds']).upper()}


def _gap_case(rng):
    """one window with the gap option on a sequence that (mostly) contains gap columns"""
    n = rng.choice([3, 5, 8, 12, 20, 20, 33, 70, 130])
    gap = rng.choice(['-', '-', '-', '.', '-.', '.-', '', 'N'])
    data = _gapped(rng, n, gap if gap not in ('', 'N') else '-')
    if gap == 'N':
        data = data.replace('-', 'N')
    if rng.random() < 0.1:
        data = data.replace('T', 'U')                             # RNA alignment rows
    m = len([c for c in data if c not in gap])
    fts = _fts(rng, m, [], maxft=2) if m else []
    u = rng.random() < 0.35
    if u:
        fts = [[t, ls[:1]] if rng.random() < 0.7 else [t, ls] for t, ls in fts]
    win = _gap_window(rng, max(m, 1), fts, u)
    case = {'data': data, 'fts': fts, 'u': u, 'win': win, 'gap': gap, 'splitter': None, 'filler': None}
    if win['k'] not in ('int', 'slice') and rng.random() < 0.3:
        case['splitter'] = rng.choice([None, '|'])
        case['filler'] = rng.choice([None, 'N', '-'])
    if win['k'] in ('slice', 'loc', 'feat') and rng.random() < 0.12:
        case['coerce'] = 'np'
    elif win['k'] == 'type' and rng.random() < 0.3:
        case['coerce'] = 'strsub'
    return case


def _str_edit(rng, gap=None):
    """an in-place str method of the BioSeq.str namespace (most keep the length; replace / strip may not)"""
    r = rng.random()
    if r < 0.2:
        return {'op': 'strcase', 'm': rng.choice([0, 0, 1, 2])}
    if r < 0.75:
        old = rng.choice('ACGT' + (gap or '-'))
        new = rng.choice('ACGT' + (gap or '-')) if rng.random() < 0.8 else rng.choice(['', 'AC', 'N-'])
        return {'op': 'strreplace', 'old': old, 'new': new}
    return {'op': 'strstrip', 'side': rng.randrange(3), 'chars': rng.choice(['-', 'A', 'AC', '-.', 'ACGT', ''])}


def _history(rng):
    """several steps on ONE sequence object (state-independence stream): windows interleaved with in-place edits, the same
    window repeated, options varied in both orders, results edited afterwards, fresh objects colliding on id / length"""
    gapped = rng.random() < 0.55
    n = rng.choice([4, 6, 8, 10, 14])
    gap = rng.choice(['-', '-', '.', '-.']) if gapped else None
    data = _gapped(rng, n, gap) if gapped else _seq(rng, n, rng.choice(['dna', 'dna', 'iupac']))
    m = len([c for c in data if gap is None or c not in gap])
    fts = _fts(rng, max(m, 1), [], maxft=2) if m else []
    fts = [[t, ls[:1]] if rng.random() < 0.6 else [t, ls] for t, ls in fts]

    def win(u=None, g='same', inplace=False, mut=None):
        u = (rng.random() < 0.4) if u is None else u
        gg = gap if g == 'same' else g
        w = _gap_window(rng, max(m, 1), fts, u)
        st = {'op': 'win', 'win': w, 'u': u, 'splitter': None, 'filler': None, 'gap': gg}
        if w['k'] not in ('int', 'slice') and rng.random() < 0.25:
            st['splitter'] = rng.choice([None, '|'])
            st['filler'] = rng.choice([None, 'N'])
        if inplace:
            st['inplace'] = True
        if mut:
            st['mut'] = mut
        return st

    def edit():
        r = rng.random()
        if r < 0.3:
            return {'op': 'win', 'win': {'k': 'rc'}, 'u': (not gapped) and rng.random() < 0.5, 'splitter': None, 'filler': None, 'gap': None}
        if r < 0.45:
            return {'op': 'reverse'}
        if r < 0.52:
            return {'op': 'complement'}
        if r < 0.62:
            return _str_edit(rng, gap)
        if r < 0.8:
            return {'op': 'setitem', 'i': rng.randint(-n, n - 1), 'c': rng.choice('ACGT' + (gap or '-'))}
        if r < 0.9:
            d2 = list(data)
            rng.shuffle(d2)
            return {'op': 'setdata', 'data': ''.join(d2)}       # same length, same residues, gaps elsewhere
        return {'op': 'setfts', 'fts': [[t, ls[:1]] for t, ls in _fts(rng, max(m, 1), [], maxft=2)]}

    pat = rng.randrange(7)
    steps = []
    if pat == 0:                                                  # (c) window, length-preserving edit, same window again
        w = win()
        steps = [w, edit(), dict(w)] + ([edit(), dict(w)] if rng.random() < 0.4 else [])
    elif pat == 1:                                                # (a)/(b) same window twice, then other options, both orders
        w = win(u=False)
        w2 = dict(w, gap=(None if w['gap'] is not None else rng.choice(['-', '.'])))
        w3 = dict(w, u=True)
        steps = [w, dict(w), w2, w, w3, w2] if rng.random() < 0.5 else [w2, w3, w, w2, dict(w)]
    elif pat == 2:                                                # (d) edit the RESULT, repeat, then address the receiver's own features
        w = win(u=rng.random() < 0.7, mut=rng.choice(['rc', 'pop', 'flip', 'data']))
        w2 = dict(w)
        w2.pop('mut')
        steps = [w, w2]
        if fts:
            steps.append({'op': 'win', 'win': {'k': rng.choice(['own', 'ownlocs']), 'idx': rng.randrange(len(fts))}, 'u': False,
                          'splitter': None, 'filler': None, 'gap': gap})
    elif pat == 3:                                                # (e) windows through shared Location objects, then rc with features
        i = rng.randrange(len(fts)) if fts else 0
        o = {'op': 'win', 'win': {'k': 'ownlocs' if fts else 'rc', 'idx': i}, 'u': bool(fts) and len(fts[i][1]) == 1, 'splitter': None,
             'filler': None, 'gap': None, 'mut': rng.choice(['rc', 'flip'])}
        rcu = {'op': 'win', 'win': {'k': 'rc'}, 'u': True, 'splitter': None, 'filler': None, 'gap': None}
        steps = [o, rcu, dict(o, mut=None), win(g=None)]
        if rng.random() < 0.6:                                    # two features of the object share their Location objects
            steps = [{'op': 'share', 'idx': i}, rcu, dict(o, mut=None), dict(rcu), win(u=True, g=None)] + steps[:rng.randint(0, 2)]
    elif pat == 4:                                                # (f) a fresh object colliding on id and length
        w = win()
        d2 = list(data)
        rng.shuffle(d2)
        steps = [w, {'op': 'new', 'data': ''.join(d2), 'fts': fts if rng.random() < 0.5 else [[t, ls[:1]] for t, ls in _fts(rng, max(m, 1), [], maxft=2)]}, dict(w)]
    elif pat == 5:                                                # in-place windows
        w = win(u=False, inplace=True)
        after = {'op': 'win', 'win': {'k': 'slice', 'a': rng.choice([None, 0, 1]), 'b': rng.choice([None, -1, 2]), 'step': None},
                 'u': rng.random() < 0.3, 'splitter': None, 'filler': None, 'gap': rng.choice([gap, None])}
        steps = [win(u=False), w, after, {'op': 'win', 'win': {'k': 'rc'}, 'u': False, 'splitter': None, 'filler': None, 'gap': None}, dict(after)]
    else:                                                         # random mixture
        for _ in range(rng.randint(2, 6)):
            steps.append(win() if rng.random() < 0.6 else edit())
    return {'data': data, 'fts': fts, 'steps': steps}


FH_TYPES = [['cds', 'CDS', 'gene'], ['cds', 'gene', 'exon', 'Cds'], ['mRNA', 'RNA', 'mrna', 'tRNA'], ['gene', 'Gene', 'GENE', ''], ['cds', 'cds', None, 'gene']]


def _fhist(rng):
    """HISTORIES over the feature list: lookups by type name (seq['t'], seq.sl(..)['t'], seqs[:, 't'], seqs['t'], fts.get, fts.select,
    indexing with a Feature taken from the list) interleaved with in-place edits of the SAME FeatureList object (sort, reverse, item
    assignment, swap, insert / append / extend / pop / remove / clear, changing the type or the locations of a feature) and of the
    sequence (rc with and without features, reverse, complement, item assignment, fts re-assigned), on 1-3 objects of equal length
    carrying the same type names; every step is compared with the model on the current state and every object is observed after it"""
    nobj = rng.choice([1, 1, 2, 2, 3])
    n = rng.choice([6, 8, 10, 12, 20])
    types = rng.choice(FH_TYPES)
    tracked = rng.random() < 0.3                                  # update_fts lookups: single-location features only
    gap = '-' if rng.random() < 0.1 else None

    def mkft():
        s = _strand(rng)
        k = 1 if tracked or rng.random() < 0.6 else 2
        return [rng.choice(types), [_loc(rng, n, s, [], 0.1) for _ in range(k)]]

    def mkfts():
        fts = [mkft() for _ in range(rng.randint(2, 5))]
        if rng.random() < 0.7:                                    # unsorted on purpose: the later feature of a type lies further left
            fts.sort(key=lambda ft: -min(l[0] for l in ft[1]))
        return fts
    objs = [{'data': _seq(rng, n, 'dna'), 'fts': mkfts()}]
    for _ in range(nobj - 1):
        r = rng.random()
        fts = [[t, [list(l) for l in ls]] for t, ls in objs[0]['fts']]
        if r < 0.4:
            rng.shuffle(fts)                                      # the same features in another order
        elif r < 0.8:
            fts = mkfts()
            while len(fts) != len(objs[0]['fts']):                # the same number of features
                fts = fts[:-1] if len(fts) > len(objs[0]['fts']) else fts + [mkft()]
        d = list(objs[0]['data'])
        rng.shuffle(d)
        objs.append({'data': ''.join(d), 'fts': fts})
    pool = [t for t in types if t is not None]

    def name():
        t = rng.choice(pool + ['missing']) if rng.random() < 0.9 else ''
        return rng.choice([t, t.upper(), t.lower(), t.swapcase()])

    def names():
        return [name() for _ in range(rng.choice([0, 1, 2, 2, 3]))]

    def lookup(obj=None):
        obj = rng.randrange(nobj) if obj is None else obj
        r = rng.random()
        if r < 0.4:
            u = tracked and rng.random() < 0.5
            st = {'op': 'win', 'win': {'k': 'type', 'name': name()}, 'u': u, 'splitter': None, 'filler': None, 'gap': gap}
            if rng.random() < 0.15:
                st['splitter'] = '|'
                st['filler'] = rng.choice([None, 'N'])
            if rng.random() < 0.2:
                st['coerce'] = 'strsub'
            return {'obj': obj, 'op': 'seq', 'st': st}
        if r < 0.5:
            return {'obj': obj, 'op': 'seq', 'st': {'op': 'win', 'win': {'k': 'own', 'idx': rng.randrange(5)}, 'u': tracked and rng.random() < 0.5,
                                                    'splitter': None, 'filler': None, 'gap': gap}}
        if r < 0.62:
            return {'obj': obj, 'op': 'get', 'name': name()}
        if r < 0.68:
            return {'obj': obj, 'op': 'getany', 'names': names(), 'tuple': rng.random() < 0.5}
        if r < 0.76:
            return {'obj': obj, 'op': 'select', 'name': name()}
        if r < 0.8:
            return {'obj': obj, 'op': 'selectany', 'names': names(), 'tuple': rng.random() < 0.5}
        if r < 0.86:
            return {'obj': obj, 'op': rng.choice(['allget', 'allget', 'allselect']), 'name': name()}
        form = rng.choice(['win', 'pairS', 'pairS', 'pairI'])
        bidx = {'k': form, 'win': {'k': 'type', 'name': name()}}
        if form == 'pairI':
            bidx['i'] = rng.randint(-nobj, nobj - 1)
        if form == 'pairS':
            bidx.update(a=rng.choice([None, None, 0, 1]), b=rng.choice([None, None, -1, nobj]), step=rng.choice([None, None, 1, -1]))
        return {'obj': obj, 'op': 'basket', 'bidx': bidx, 'u': tracked and rng.random() < 0.4, 'splitter': None, 'filler': None, 'gap': gap}

    def keep_edit(obj):
        """an edit that keeps the number of features"""
        r = rng.random()
        if r < 0.3:
            keys = rng.choice([[0], [0], [0], [1], [1, 0], [0, 1], []])
            e = {'k': 'sort', 'keys': keys, 'reverse': rng.random() < 0.3, 'plain': rng.random() < 0.6}
        elif r < 0.45:
            e = {'k': 'reverse'}
        elif r < 0.6:
            e = {'k': 'setitem', 'i': rng.randint(-5, 4), 'f': mkft()}
        elif r < 0.72:
            e = {'k': 'swap', 'i': rng.randint(-4, 4), 'j': rng.randint(-4, 4)}
        elif r < 0.86:
            e = {'k': 'settype', 'i': rng.randint(-4, 4), 't': name()}
        else:
            e = {'k': 'setlocs', 'i': rng.randint(-4, 4), 'ls': mkft()[1]}
        return {'obj': obj, 'op': 'edit', 'e': e}

    def size_edit(obj):
        r = rng.random()
        if r < 0.2:
            e = {'k': 'insert', 'i': rng.randint(-6, 6), 'f': mkft()}
        elif r < 0.35:
            e = {'k': 'append', 'f': mkft()}
        elif r < 0.5:
            e = {'k': 'extend', 'fs': [mkft() for _ in range(rng.randint(0, 2))], 'via': rng.choice(['extend', 'iadd', 'iadd_fl', 'iadd_attr'])}
        elif r < 0.75:
            e = {'k': 'pop', 'i': rng.randint(-5, 4), 'via': rng.choice(['pop', 'del'])}
        elif r < 0.85:
            e = {'k': 'remove', 'i': rng.randint(-4, 4)}
        elif r < 0.95:
            e = {'k': 'addfts', 'fs': [mkft() for _ in range(rng.randint(0, 2))], 'via': rng.choice(['list', 'fl'])}
        else:
            e = {'k': 'clear'}
        return {'obj': obj, 'op': 'edit', 'e': e}

    def seq_edit(obj):
        r = rng.random()
        if r < 0.35:
            st = {'op': 'win', 'win': {'k': 'rc'}, 'u': rng.random() < 0.6, 'splitter': None, 'filler': None, 'gap': None}
        elif r < 0.5:
            st = {'op': 'reverse'}
        elif r < 0.55:
            st = {'op': 'complement'}
        elif r < 0.65:
            st = _str_edit(rng)
            if st['op'] != 'strcase' and rng.random() < 0.7:      # keep the length (the features stay inside the sequence)
                st = {'op': 'strreplace', 'old': rng.choice('ACGT'), 'new': rng.choice('ACGT')}
        elif r < 0.75:
            st = {'op': 'setitem', 'i': rng.randint(-n, n - 1), 'c': rng.choice('ACGT')}
        elif r < 0.9:
            st = {'op': 'setfts', 'fts': mkfts()}
        else:
            return {'obj': obj, 'op': 'basket', 'bidx': {'k': 'rc', 'via': rng.choice(['direct', 'slice', 'sl'])}, 'u': rng.random() < 0.7,
                    'splitter': None, 'filler': None, 'gap': None}
        return {'obj': obj, 'op': 'seq', 'st': st}

    def edit(obj):
        r = rng.random()
        return keep_edit(obj) if r < 0.6 else size_edit(obj) if r < 0.8 else seq_edit(obj)

    pat = rng.randrange(6)
    steps = []
    if pat == 5:                                                  # the TYPE of a feature changes in place (same objects, same order)
        o = rng.randrange(nobj)
        fts0 = objs[o]['fts']
        present = [t for t, _ in fts0 if t is not None]
        nm = rng.choice(present) if present and rng.random() < 0.85 else name()
        hit = [i for i, (t, _) in enumerate(fts0) if t is not None and t.lower() == nm.lower()]
        other = rng.choice([t for t in pool if t.lower() != nm.lower()] or ['other'])
        if hit and rng.random() < 0.5:                            # the answer loses the type: the next feature of the type answers
            e = {'k': 'settype', 'i': hit[0], 't': other}
        else:                                                     # an earlier feature acquires the type
            e = {'k': 'settype', 'i': rng.randrange(max(hit[0], 1)) if hit else rng.randrange(len(fts0)), 't': rng.choice([nm, nm.swapcase()])}
        lk = lookup(o)
        for d in (lk, lk.get('st', {}).get('win', {}), lk.get('bidx', {}).get('win', {})):
            if 'name' in d:
                d['name'] = nm
        steps = [lk, {'obj': o, 'op': 'edit', 'e': e}, json.loads(json.dumps(lk))]
        if rng.random() < 0.5:
            steps += [{'obj': o, 'op': 'edit', 'e': {'k': 'settype', 'i': e['i'], 't': fts0[e['i']][0] or other}}, json.loads(json.dumps(lk))]
    elif pat == 0:                                                # lookup, edit of the same list, the same lookup again (and again)
        lk = lookup()
        steps = [lk, keep_edit(lk['obj']), dict(lk)]
        for _ in range(rng.randint(0, 2)):
            steps += [edit(lk['obj']), dict(lk)]
    elif pat == 1:                                                # the same lookup on every object, an edit of one, the lookups again
        lk = lookup(0)
        every = [dict(lk, obj=k) for k in range(nobj)]
        steps = every + [edit(rng.randrange(nobj))] + every[::-1]
    elif pat == 2:                                                # the number of features goes and comes back
        lk = lookup()
        o = lk['obj']
        back = {'obj': o, 'op': 'edit', 'e': rng.choice([{'k': 'append', 'f': mkft()}, {'k': 'insert', 'i': rng.randint(-6, 6), 'f': mkft()}])}
        gone = {'obj': o, 'op': 'edit', 'e': {'k': 'pop', 'i': rng.randint(-3, 2), 'via': rng.choice(['pop', 'del'])}}
        steps = [lk] + rng.choice([[gone, back], [back, gone]]) + [dict(lk)]
    elif pat == 3:                                                # several different lookups around one edit
        o = rng.randrange(nobj)
        lks = [lookup(o) for _ in range(rng.randint(2, 3))]
        steps = lks + [keep_edit(o)] + [dict(x) for x in lks]
    else:                                                         # random mixture
        for _ in range(rng.randint(3, 9)):
            steps.append(lookup() if rng.random() < 0.55 else edit(rng.randrange(nobj)))
    return {'objs': objs, 'fsteps': steps}


TYPE_FAMILIES = [['gene', 'pseudogene'], ['RNA', 'mRNA', 'tRNA', 'ncRNA'], ['exon', 'exon_junction', 'ex'], ['UTR', "5'UTR"],
                 ['cd', 'cds', 'CDSs'], ['', 'gene', None], ['', 'e', 'exon'], ['Gene', 'GENE', 'gene ']]


def _type_case(rng):
    """type-name lookup: the FIRST feature whose type EQUALS the name, case-insensitively; earlier features carry types that
    contain / extend / are contained in the name, the empty type, no type"""
    n = rng.randint(2, 12)
    data = _seq(rng, n, rng.choice(['dna', 'dna', 'lower']))
    fam = list(rng.choice(TYPE_FAMILIES))
    if rng.random() < 0.3:
        fam.append(rng.choice(fam))                               # the same type twice: the first one wins
    fts = [[t, [_loc(rng, n, _strand(rng), [], 0)]] for t in fam]
    rng.shuffle(fts)
    name = rng.choice([t for t in fam if t is not None] + ['missing', ''])
    name = rng.choice([name, name.upper(), name.lower(), name.swapcase()])
    case = {'data': data, 'fts': fts, 'u': rng.random() < 0.4, 'splitter': None, 'filler': None, 'win': {'k': 'type', 'name': name}}
    if rng.random() < 0.15:
        case['gap'] = '-'
    if rng.random() < 0.25:
        case['coerce'] = 'strsub'
    return case


BFORMS = ['int', 'slice', 'win', 'win', 'win', 'pairI', 'pairI', 'pairS', 'pairS', 'pairS', 'pairS', 'pairS', 'pairS', 'pairbad', 'bad',
          'rc', 'rc', 'rc']


def _basket_case(rng):
    """BioBasket indexing: seqs[i], seqs[a:b:st], seqs[w], seqs[i, w], seqs[a:b:st, w] with w a type name / Feature / Location
    (int / slice as the second component too); sequences of different lengths, some lacking the requested type"""
    k = rng.choice([0, 1, 2, 3, 3, 4, 5, 7])
    gap = rng.choice([None, None, None, '-', '.-'])
    u = rng.random() < 0.3
    types = rng.choice([['cds', 'CDS', 'gene'], TYPES_NEST, TYPES])
    basket, ms = [], []
    for _ in range(k):
        n = rng.randint(3, 16)
        if gap is not None:
            data = _gapped(rng, n, gap)
        else:
            data = _seq(rng, n, rng.choice(['dna', 'dna', 'iupac', 'lower', 'rna']))
        m = len([c for c in data if gap is None or c not in gap])
        fts = _fts(rng, m, [], maxft=2, types=types) if m else []
        if u:
            fts = [[t, ls[:1]] if rng.random() < 0.9 else [t, ls] for t, ls in fts]
        basket.append({'data': data, 'fts': fts})
        ms.append(m)
    mm = max(min(ms), 1) if ms else 4
    form = rng.choice(BFORMS)
    if form == 'rc':
        # seqs.rc(update_fts=u) on the basket itself, on a sliced copy sharing the sequence objects, or sequence by sequence
        if gap is not None:
            basket = [dict(b, fts=[]) for b in basket]           # feature coordinates were drawn in residue numbers
        return {'basket': basket, 'bidx': {'k': 'rc', 'via': rng.choice(['direct', 'slice', 'sl'])}, 'u': rng.random() < 0.75, 'gap': None,
                'splitter': None, 'filler': None}
    r = rng.random()
    if form in ('pairI', 'pairS') and r < 0.25:
        win = {'k': 'int', 'i': rng.randint(-mm - 1, mm)} if r < 0.08 else \
              {'k': 'slice', 'a': _bound(rng, mm, []), 'b': _bound(rng, mm, []), 'step': None}
    elif r < 0.5:
        win = {'k': 'loc', 'l': _loc(rng, mm, rng.choice('+-+-.?'), [], 0)}
    elif r < 0.7:
        sd = rng.choice('+-')
        win = {'k': 'feat', 'ls': [_loc(rng, mm, sd, [], 0) for _ in range(1 if u else rng.choice([1, 2, 3]))]}
    elif r < 0.97:
        pool = [t for b in basket for t, _ in b['fts'] if t] or ['cds']
        win = {'k': 'type', 'name': rng.choice(pool).swapcase() if rng.random() < 0.8 else rng.choice(NAMES_NEST)}
    else:
        win = {'k': 'bad'}
    bidx = {'k': form}
    if form in ('int', 'pairI'):
        bidx['i'] = rng.randint(-k - 1, k)
    if form in ('slice', 'pairS'):
        bidx.update(a=_bound(rng, k, []), b=_bound(rng, k, []), step=rng.choice([None, None, None, 1, 2, -1, -2, 3, 0]))
    if form not in ('int', 'slice', 'bad'):
        bidx['win'] = win
    case = {'basket': basket, 'bidx': bidx, 'u': u, 'gap': gap, 'splitter': None, 'filler': None}
    if form not in ('int', 'slice', 'bad') and win['k'] in ('feat', 'type', 'loc') and rng.random() < 0.3:
        case['splitter'] = rng.choice([None, '|', ''])
        case['filler'] = rng.choice([None, 'N', '-'])
    return case


def _box_cases(nmax):
    """every single-location feature x every window, update_fts=True, on a fixed sequence of each length"""
    out = []
    for n in range(1, nmax + 1):
        data = 'ACGTRY'[:n]
        locs = [(x, y) for x in range(n) for y in range(x + 1, n + 1)]
        bounds = [None] + list(range(-n - 1, n + 2))
        for (x, y), s in itertools.product(locs, '+-'):
            fts = [['g', [[x, y, s, 0]]]]
            base = {'data': data, 'fts': fts, 'u': True, 'splitter': None, 'filler': None}
            for a, b in itertools.product(bounds, bounds):
                out.append(dict(base, win={'k': 'slice', 'a': a, 'b': b, 'step': None}))
            for i in range(-n, n):
                out.append(dict(base, win={'k': 'int', 'i': i}))
            for (wx, wy), ws in itertools.product(locs, '+-'):
                out.append(dict(base, win={'k': 'loc', 'l': [wx, wy, ws, 0]}))
            out.append(dict(base, win={'k': 'rc'}))
    return out


def gen_cases(rng, tier):
    cases = _box_cases(5 if tier == 'thorough' else 3)
    # two-location features of both strands against every slice window of a length-4 (quick) / 6 (thorough) sequence
    n = 6 if tier == 'thorough' else 4
    data = 'ACGTRY'[:n]
    locs = [(x, y) for x in range(n) for y in range(x + 1, n + 1)]
    pairs = list(itertools.combinations(locs, 2))
    wins = [(a, b) for a in range(n + 1) for b in range(a + 1, n + 1)]
    for (l1, l2), s in itertools.product(pairs, '+-'):
        if tier != 'thorough' and rng.random() > 0.12:
            continue
        for a, b in wins:
            if tier == 'thorough' and rng.random() > 0.15:
                continue
            kind = rng.choice(['slice', 'loc+', 'loc-'])
            win = ({'k': 'slice', 'a': a, 'b': b, 'step': None} if kind == 'slice'
                   else {'k': 'loc', 'l': [a, b, kind[-1], 0]})
            cases.append({'data': data, 'fts': [['g', [[l1[0], l1[1], s, 0], [l2[0], l2[1], s, 0]]]], 'u': True,
                          'splitter': None, 'filler': None, 'win': win})
    # multi-location extraction with filler / splitter (adjacent, overlapping and separated locations, all strands)
    for _ in range(6000 if tier == 'thorough' else 300):
        n = rng.randint(4, 14)
        k = rng.choice([2, 2, 3, 4, 4, 6, 8])
        if k > 4:
            n = rng.randint(2 * k, 2 * k + 10)
        data = _seq(rng, n, rng.choice(['dna', 'dna', 'iupac', 'lower', 'rna']))
        s = rng.choice('++--.?')
        cuts = sorted(rng.sample(range(n + 1), min(2 * k, n + 1)))
        ls = [[cuts[2 * j], cuts[2 * j + 1], s, 0] for j in range(len(cuts) // 2)]
        if rng.random() < 0.25 and len(ls) > 1:
            ls[1][0] = ls[0][rng.choice([0, 1])]                  # touching / overlapping
            if ls[1][0] >= ls[1][1]:
                ls[1][1] = ls[1][0] + 1
        rng.shuffle(ls)
        fts = _fts(rng, n, cuts, maxft=2)
        mode = rng.choice(['feat', 'own', 'type'])
        if mode == 'feat':
            win = {'k': 'feat', 'ls': ls}
        else:
            fts.insert(rng.randint(0, len(fts)), ['mrna', ls])
            if rng.random() < 0.5:                                # a later feature of the same type must not be picked
                fts.append([rng.choice(['mRNA', 'MRNA', 'mrna']), [_loc(rng, n, _strand(rng), cuts)]])
            win = {'k': 'type', 'name': rng.choice(['mrna', 'mRNA'])} if mode == 'type' else \
                  {'k': 'own', 'idx': [i for i, f in enumerate(fts) if f[0] == 'mrna'][0]}
        cases.append({'data': data, 'fts': fts, 'u': False, 'win': win,
                      'splitter': rng.choice([None, None, '|', '--', 'x', '']),
                      'filler': rng.choice([None, 'N', 'n', 'nn', '-', ''])})
    for _ in range(8000 if tier == 'thorough' else 500):
        cases.append(_gap_case(rng))
    for _ in range(5000 if tier == 'thorough' else 350):
        cases.append(_history(rng))
    for _ in range(8000 if tier == 'thorough' else 450):
        cases.append(_basket_case(rng))
    for _ in range(6000 if tier == 'thorough' else 400):
        cases.append(_fhist(rng))
    for _ in range(3000 if tier == 'thorough' else 250):
        cases.append(_type_case(rng))
    nrand = 40000 if tier == 'thorough' else 1600
    for _ in range(nrand):
        cases.append(_random_case(rng, big=(tier == 'thorough')))
    return cases


# ----------------------------------------------------------------------------- implementation driver

def _canon_fts(fts):
    return [[None if ft.type is None else str(ft.type), [[int(l.start), int(l.stop), str(l.strand), int(l.defect)] for l in ft.locs]]
            for ft in fts]


class _StrSub(str):
    """a str subclass (what numpy.str_ / pandas hand out): a type name is a str whatever its exact class"""


def _co(case, x):
    """coordinates as numpy integers when the case asks for it (they index and compare like ints)"""
    if x is None or case.get('coerce') != 'np':
        return x
    import numpy
    return numpy.int64(x)


CTOR_MODE = {None: 0, 'locs': 0, 'kw': 0, 'tuples': 1, 'none': 2, 'both': 2}


def _build(case):
    """BioSeq with features; case['ctor'] selects the argument form of Feature(...) (LocationTuple.__new__, fts.py:163-178)"""
    from sugar import BioSeq
    from sugar.core.fts import Feature, FeatureList, Location
    ctor = case.get('ctor')
    fts = []
    for n, (t, ls) in enumerate(case['fts']):
        if ctor == 'kw' and len(ls) == 1 and ls[0][3] == 0:
            fts.append(Feature(t, start=ls[0][0], stop=ls[0][1], strand=ls[0][2]))
        elif ctor == 'tuples':
            fts.append(Feature(t, locs=[tuple(l) for l in ls]))
        elif ctor == 'none' and n == 0:
            fts.append(Feature(t))
        elif ctor == 'both' and n == 0:
            fts.append(Feature(t, locs=[Location(*l) for l in ls], start=0, stop=1))
        else:
            fts.append(Feature(t, locs=[Location(a, b, s, d) for a, b, s, d in ls]))
    seq = BioSeq(case['data'])
    seq.fts = FeatureList(fts)
    return seq


def _window(case, seq):
    from sugar.core.fts import Feature, Location
    w = case['win']
    k = w['k']
    if k == 'int':
        return w['i']
    if k == 'slice':
        return slice(_co(case, w['a']), _co(case, w['b']), w['step'])
    if k == 'loc':
        return Location(_co(case, w['l'][0]), _co(case, w['l'][1]), *w['l'][2:])
    if k == 'feat':
        return Feature('w', locs=[Location(_co(case, l[0]), _co(case, l[1]), *l[2:]) for l in w['ls']])
    if k in ('own', 'ownlocs'):
        if not seq.fts:
            raise ValueError('no feature')
        ft = seq.fts[w['idx'] % len(seq.fts)]
        return ft if k == 'own' else Feature('w', locs=ft.locs)      # ownlocs: a new Feature sharing the Location objects
    if k == 'type':
        return _StrSub(w['name']) if case.get('coerce') == 'strsub' else w['name']
    if k == 'bad':
        return 1.5
    raise ValueError(k)


def _kw(case):
    kw = {}
    if case['u']:
        kw['update_fts'] = True
    for o in ('splitter', 'filler', 'gap'):
        if case.get(o) is not None:
            kw[o] = case[o]
    if case.get('inplace'):
        kw['inplace'] = True
    return kw


def _state(seq):
    return [str(seq), _canon_fts(seq.fts)]


def _impl_single(case):
    seq = _build(case)
    before = _state(seq)
    if case['win']['k'] == 'rc':
        res = seq.rc(update_fts=True) if case['u'] else seq.rc()
        assert res is seq, 'rc must return the receiver'
        return _state(res)
    win = _window(case, seq)
    kw = _kw(case)
    res = seq.sl(**kw)[win] if kw else seq[win]
    out = _state(res)
    assert _state(seq) == before, 'receiver was modified'
    # the result is a new object: editing it (its features, its data, its id) must not reach the receiver
    # (an int / slice result without update_fts shares its metadata with the parent by design: only its data is edited then)
    shared = (not case['u']) and case['win']['k'] in ('int', 'slice')
    seqid = seq.id
    _mutate_result(res, ('flip', 'pop', 'rc')[len(case['data']) % 3], shared)
    assert _state(seq) == before and seq.id == seqid, 'receiver shares state with the result'
    return out


def _mutate_result(res, how, shared_fts):
    """(d) of the independence stream: edit the RESULT of a not-in-place window; the receiver must not notice.
    Without update_fts an int/slice result shares its FeatureList with the parent by design: only its data is edited then."""
    from sugar.core.fts import Location
    if how == 'data' or shared_fts:
        res.data = 'N' * len(res.data)
        res.reverse()
        return
    if how == 'rc':
        res.rc(update_fts=True)
    elif how == 'pop':
        while len(res.fts):
            res.fts.pop()
    elif how == 'flip':
        for ft in res.fts:
            ft.locs = [Location(0, 1, '-', 255)]
            ft.meta.type = 'edited'
    res.meta.id = 'edited'


def _do_hstep(seq, st):
    """one step of the sequence-level history language on the object seq; returns (value, object to go on with)"""
    from sugar.core.fts import Feature, FeatureList, Location
    op = st['op']
    val = None
    if op == 'win':
        if st['win']['k'] == 'rc':
            r = seq.rc(update_fts=True) if st['u'] else seq.rc()
            assert r is seq
        else:
            win = _window(st, seq)
            kw = _kw(st)
            res = seq.sl(**kw)[win] if kw else seq[win]
            val = _state(res)
            if st.get('mut'):
                shared = (not st['u']) and st['win']['k'] in ('int', 'slice')
                _mutate_result(res, st['mut'], shared)
    elif op == 'reverse':
        assert seq.reverse() is seq
    elif op == 'complement':
        assert seq.complement() is seq
    elif op == 'setitem':
        seq[st['i']] = st['c']
    elif op == 'setdata':
        seq.data = st['data']
    elif op == 'strcase':
        assert getattr(seq.str, ('upper', 'lower', 'swapcase')[st['m']])() is seq
    elif op == 'strreplace':
        assert seq.str.replace(st['old'], st['new']) is seq
    elif op == 'strstrip':
        assert getattr(seq.str, ('strip', 'lstrip', 'rstrip')[st['side']])(st['chars']) is seq
    elif op == 'setfts':
        seq.fts = FeatureList([Feature(t, locs=[Location(*l) for l in ls]) for t, ls in st['fts']])
    elif op == 'new':
        seq = _build(st)
    elif op == 'share':
        if not seq.fts:
            raise ValueError('no feature')
        seq.fts = FeatureList(list(seq.fts) + [Feature('shared', locs=seq.fts[st['idx'] % len(seq.fts)].locs)])
    else:
        raise ValueError(op)
    return val, seq


def _impl_history(case):
    from framework import canon_exc
    seq = _build(case)
    out = []
    for st in case['steps']:
        try:
            val, seq = _do_hstep(seq, st)
        except Exception as e:                      # the history goes on; the model leaves the object unchanged too
            val = canon_exc(e)
        out.append([val, _state(seq)])
    return out


def _mkft(raw):
    from sugar.core.fts import Feature, Location
    t, ls = raw
    return Feature(t, locs=[Location(a, b, s, d) for a, b, s, d in ls])


def _do_fedit(seq, e):
    """an in-place edit of the FeatureList object seq.fts (the list object stays the same unless the variant says otherwise)"""
    from sugar.core.fts import FeatureList, Location
    fts = seq.fts
    k = e['k']
    val = None
    if k == 'sort':
        keys = [None if c == 0 else len for c in e['keys']]
        if e.get('plain') and keys == [None]:
            r = fts.sort(reverse=True) if e['reverse'] else fts.sort()
        elif e.get('plain') and len(keys) == 1:
            r = fts.sort(keys[0], reverse=e['reverse'])
        else:
            r = fts.sort(tuple(keys), reverse=e['reverse'])
        assert r is fts, 'sort must return the receiver'
    elif k == 'reverse':
        fts.reverse()
    elif k == 'setitem':
        ft = _mkft(e['f'])
        fts[e['i']] = ft
    elif k == 'insert':
        fts.insert(e['i'], _mkft(e['f']))
    elif k == 'append':
        fts.append(_mkft(e['f']))
    elif k == 'extend':
        new = [_mkft(f) for f in e['fs']]
        via = e.get('via')
        if via == 'iadd':
            fts += new
        elif via == 'iadd_fl':
            fts += FeatureList(new)
        elif via == 'iadd_attr':
            seq.fts += new
        else:
            fts.extend(new)
    elif k == 'pop':
        if e.get('via') == 'del':
            val = _canon_fts([fts[e['i']]])[0]
            del fts[e['i']]
        else:
            val = _canon_fts([fts.pop(e['i'])])[0]
    elif k == 'remove':
        fts.remove(fts[e['i']])
    elif k == 'settype':
        fts[e['i']].type = e['t']
    elif k == 'setlocs':
        new = [Location(*l) for l in e['ls']]
        fts[e['i']].locs = new
    elif k == 'swap':
        i, j = e['i'], e['j']
        fts[i], fts[j] = fts[j], fts[i]
    elif k == 'clear':
        fts.clear()
    elif k == 'addfts':
        new = [_mkft(f) for f in e['fs']]
        seq.add_fts(FeatureList(new) if e.get('via') == 'fl' else new)
    else:
        raise ValueError(k)
    if e.get('via') != 'iadd_attr' and k != 'addfts':
        assert seq.fts is fts, 'the feature list object was replaced'
    return val


def _basket_index(ix):
    form = ix['k']
    win = _window(ix, None) if 'win' in ix else None
    if form == 'int':
        return ix['i']
    if form == 'slice':
        return slice(ix['a'], ix['b'], ix['step'])
    if form == 'win':
        return win
    if form == 'pairI':
        return (ix['i'], win)
    if form == 'pairS':
        return (slice(ix['a'], ix['b'], ix['step']), win)
    if form == 'pairbad':
        return ('x', win)
    return (0, 1, 2)


def _do_fstep(objs, st):
    from sugar import BioBasket, BioSeq
    from sugar.core.fts import FeatureList
    k = st['obj'] % len(objs)
    seq = objs[k]
    op = st['op']
    if op == 'seq':
        val, seq2 = _do_hstep(seq, st['st'])
        assert seq2 is seq
        return val
    if op == 'edit':
        return _do_fedit(seq, st['e'])
    if op in ('get', 'getany'):
        arg = st['name'] if op == 'get' else (tuple(st['names']) if st.get('tuple') else list(st['names']))
        if op == 'get' and st.get('coerce') == 'strsub':
            arg = _StrSub(arg)
        r = seq.fts.get(arg)
        if r is None:
            return None
        assert any(r is ft for ft in seq.fts), 'get() must return a feature of the list'
        return _canon_fts([r])[0]
    if op in ('select', 'selectany'):
        arg = st['name'] if op == 'select' else (tuple(st['names']) if st.get('tuple') else list(st['names']))
        r = seq.fts.select(arg)
        assert isinstance(r, FeatureList) and all(any(x is ft for ft in seq.fts) for x in r), 'select() must return features of the list'
        return _canon_fts(r)
    if op in ('allget', 'allselect'):
        allfts = BioBasket(objs).fts
        assert isinstance(allfts, FeatureList)
        r = allfts.get(st['name']) if op == 'allget' else allfts.select(st['name'])
        if r is None:
            return None
        for x in ([r] if op == 'allget' else r):
            assert any(x is ft for o in objs for ft in o.fts), 'must return features of the sequences'
        return _canon_fts([r])[0] if op == 'allget' else _canon_fts(r)
    if op == 'basket':
        ix = st['bidx']
        basket = BioBasket(objs)
        if ix['k'] == 'rc':
            target = {'direct': basket, 'slice': basket[:], 'sl': basket.sl()[0:len(objs)]}[ix['via']]
            res = target.rc(update_fts=True) if st['u'] else target.rc()
            assert res is target and all(a is b for a, b in zip(basket.data, objs))
            return ['basket', [[int(sq.id), _state(sq)] for sq in basket]]
        kw = _kw(st)
        index = _basket_index(ix)
        res = basket.sl(**kw)[index] if kw else basket[index]
        if isinstance(res, BioSeq):
            return ['seq', [int(res.id), _state(res)]]
        assert isinstance(res, BioBasket), 'basket index must return a BioBasket'
        return ['basket', [[int(sq.id), _state(sq)] for sq in res]]
    raise ValueError(op)


def _impl_fhist(case):
    """histories over the feature lists of several objects: every step returns [value, [state of every object]]"""
    import warnings
    from framework import canon_exc
    objs = []
    with warnings.catch_warnings():
        warnings.simplefilter('ignore')
        for k, o in enumerate(case['objs']):
            seq = _build({'data': o['data'], 'fts': o['fts']})
            seq.id = str(k)
            objs.append(seq)
        out = []
        for st in case['fsteps']:
            try:
                val = _do_fstep(objs, st)
            except Exception as e:
                val = canon_exc(e)
            out.append([val, [_state(o) for o in objs]])
    return out


def _impl_basket(case):
    from sugar import BioBasket, BioSeq
    seqs = []
    for k, b in enumerate(case['basket']):
        seq = _build({'data': b['data'], 'fts': b['fts']})
        seq.id = str(k)
        seqs.append(seq)
    ix = case['bidx']
    form = ix['k']
    index = _basket_index(ix)
    basket = BioBasket(seqs)
    if form == 'rc':
        target = {'direct': basket, 'slice': basket[:], 'sl': basket.sl()[0:len(seqs)]}[ix['via']]
        res = target.rc(update_fts=True) if case['u'] else target.rc()
        assert res is target and list(basket.data) == seqs, 'rc must return the receiver and keep the sequences'
        return ['basket', [[int(sq.id), _state(sq)] for sq in basket]]
    before = [_state(sq) for sq in seqs]
    kw = _kw(case)
    res = basket.sl(**kw)[index] if kw else basket[index]
    if isinstance(res, BioSeq):
        out = ['seq', [int(res.id), _state(res)]]
    else:
        assert isinstance(res, BioBasket), 'basket index must return a BioBasket'
        out = ['basket', [[int(sq.id), _state(sq)] for sq in res]]
    assert [_state(sq) for sq in seqs] == before and list(basket.data) == seqs, 'receiver was modified'
    if form in ('win', 'pairI', 'pairS'):       # new sequence objects: editing them must not reach the basket's own sequences
        shared = (not case['u']) and ix['win']['k'] in ('int', 'slice')
        for sq in ([res] if isinstance(res, BioSeq) else res):
            _mutate_result(sq, ('flip', 'pop', 'rc')[len(seqs) % 3], shared)
        assert [_state(sq) for sq in seqs] == before and [sq.id for sq in seqs] == [str(k) for k in range(len(seqs))], \
            'receiver shares state with the result'
    return out


def impl(case):
    if 'basket' in case:
        return _impl_basket(case)
    if 'fsteps' in case:
        return _impl_fhist(case)
    return _impl_history(case) if 'steps' in case else _impl_single(case)


# ----------------------------------------------------------------------------- model term

def _z(n):
    return '(%d)' % n if n < 0 else '%d' % n


def _rawloc(l):
    a, b, s, d = l
    code = ord(s) if isinstance(s, str) and len(s) == 1 and ord(s) < 256 else 0
    return '(%s,%s,%d,%s)' % (_z(a), _z(b), code, _z(d))


def _optz(x):
    return 'None' if x is None else '(Some %s)' % _z(x)


def _optbs(x):
    return 'None' if x is None else '(Some %s)' % coq_bs(x)


def _win_term(case, fts):
    w = case['win']
    k = w['k']
    if k == 'int':
        return '(RInt %s)%%Z' % _z(w['i'])
    if k == 'slice':
        return '(RSlice %s %s %s)%%Z' % (_optz(w['a']), _optz(w['b']), _optz(w['step']))
    if k == 'loc':
        return '(RLoc %s%%Z)' % _rawloc(w['l'])
    if k == 'feat':
        return '(RFeat [%s]%%Z)' % '; '.join(_rawloc(l) for l in w['ls'])
    if k in ('own', 'ownlocs'):
        return '(ROwn %s%%Z)' % _z(w['idx'])
    if k == 'type':
        return '(RType %s)' % coq_bs(w['name'])
    if k == 'bad':
        return 'RBad'
    return 'RRc'


def _fts_term(fts):
    return '[%s]%%Z' % '; '.join('(%s, [%s])' % (_optbs(t), '; '.join(_rawloc(l) for l in ls)) for t, ls in fts)


def _step_term(st, fts):
    op = st['op']
    if op == 'win':
        return '(HWin %s %s %s %s %s %s)' % (_win_term(st, fts), coq_bool(st['u']), _optbs(st.get('splitter')),
                                             _optbs(st.get('filler')), _optbs(st.get('gap')), coq_bool(bool(st.get('inplace'))))
    if op == 'reverse':
        return 'HReverse'
    if op == 'complement':
        return 'HComplement'
    if op == 'setitem':
        return '(HSetItem %s%%Z %s)' % (_z(st['i']), coq_bs(st['c']))
    if op == 'setdata':
        return '(HSetData %s)' % coq_bs(st['data'])
    if op == 'strcase':
        return '(HStrCase %d%%Z)' % st['m']
    if op == 'strreplace':
        return '(HStrReplace %s %s)' % (coq_bs(st['old']), coq_bs(st['new']))
    if op == 'strstrip':
        return '(HStrStrip %d%%Z %s)' % (st['side'], coq_bs(st['chars']))
    if op == 'setfts':
        return '(HSetFts %s)' % _fts_term(st['fts'])
    if op == 'new':
        return '(HNew %s %s)' % (coq_bs(st['data']), _fts_term(st['fts']))
    if op == 'share':
        return '(HShare %d%%nat)' % st['idx']
    raise ValueError(op)


def _bidx_term(ix):
    form = ix['k']
    w = _win_term(ix, None) if 'win' in ix else None
    if form == 'int':
        return '(QInt %s)%%Z' % _z(ix['i'])
    if form == 'slice':
        return '(QSlice %s %s %s)%%Z' % (_optz(ix['a']), _optz(ix['b']), _optz(ix['step']))
    if form == 'win':
        return '(QWin %s)' % w
    if form == 'pairI':
        return '(QPairI %s%%Z %s)' % (_z(ix['i']), w)
    if form == 'pairS':
        return '(QPairS %s%%Z %s%%Z %s%%Z %s)' % (_optz(ix['a']), _optz(ix['b']), _optz(ix['step']), w)
    if form == 'pairbad':
        return '(QPairBad %s)' % w
    if form == 'rc':
        return 'QRc'
    return 'QBad'


def _ft_term(ft):
    t, ls = ft
    return '(%s, [%s])' % (_optbs(t), '; '.join(_rawloc(l) for l in ls))


def _names_term(names):
    return '[%s]' % '; '.join(coq_bs(n) for n in names)


def _fedit_term(e):
    k = e['k']
    if k == 'sort':
        return '(ESort [%s]%%Z %s)' % ('; '.join(_z(c) for c in e['keys']), coq_bool(e['reverse']))
    if k == 'reverse':
        return 'EReverse'
    if k == 'setitem':
        return '(ESetItem %s %s)%%Z' % (_z(e['i']), _ft_term(e['f']))
    if k == 'insert':
        return '(EInsert %s %s)%%Z' % (_z(e['i']), _ft_term(e['f']))
    if k == 'append':
        return '(EAppend %s)%%Z' % _ft_term(e['f'])
    if k == 'extend':
        return '(EExtend %s)' % _fts_term(e['fs'])
    if k == 'pop':
        return '(EPop %s)%%Z' % _z(e['i'])
    if k == 'remove':
        return '(ERemove %s)%%Z' % _z(e['i'])
    if k == 'settype':
        return '(ESetType %s%%Z %s)' % (_z(e['i']), coq_bs(e['t']))
    if k == 'setlocs':
        return '(ESetLocs %s [%s])%%Z' % (_z(e['i']), '; '.join(_rawloc(l) for l in e['ls']))
    if k == 'swap':
        return '(ESwap %s %s)%%Z' % (_z(e['i']), _z(e['j']))
    if k == 'clear':
        return 'EClear'
    if k == 'addfts':
        return '(EAddFts %s)' % _fts_term(e['fs'])
    raise ValueError(k)


def _fstep_term(st):
    op = st['op']
    if op == 'seq':
        t = '(FSeq %s)' % _step_term(st['st'], None)
    elif op == 'edit':
        t = '(FEdit %s)' % _fedit_term(st['e'])
    elif op == 'get':
        t = '(FGet %s)' % coq_bs(st['name'])
    elif op == 'getany':
        t = '(FGetAny %s)' % _names_term(st['names'])
    elif op == 'select':
        t = '(FSelect %s)' % coq_bs(st['name'])
    elif op == 'selectany':
        t = '(FSelectAny %s)' % _names_term(st['names'])
    elif op == 'allget':
        t = '(FAllGet %s)' % coq_bs(st['name'])
    elif op == 'allselect':
        t = '(FAllSelect %s)' % coq_bs(st['name'])
    elif op == 'basket':
        t = '(FBasket %s %s %s %s %s)' % (_bidx_term(st['bidx']), coq_bool(st['u']), _optbs(st.get('splitter')),
                                          _optbs(st.get('filler')), _optbs(st.get('gap')))
    else:
        raise ValueError(op)
    return '(%d%%nat, %s)' % (st['obj'], t)


def model_term(case):
    if 'fsteps' in case:
        return 'out (run_C06f [%s] [%s])' % (
            '; '.join('(%s, %s)' % (coq_bs(o['data']), _fts_term(o['fts'])) for o in case['objs']),
            '; '.join(_fstep_term(st) for st in case['fsteps']))
    if 'basket' in case:
        return 'out (run_C06b [%s] %s %s %s %s %s)' % (
            '; '.join('(%s, %s)' % (coq_bs(b['data']), _fts_term(b['fts'])) for b in case['basket']), _bidx_term(case['bidx']),
            coq_bool(case['u']), _optbs(case['splitter']), _optbs(case['filler']), _optbs(case.get('gap')))
    if 'steps' in case:
        return 'out (run_C06h %s %s [%s])' % (coq_bs(case['data']), _fts_term(case['fts']),
                                              '; '.join(_step_term(st, None) for st in case['steps']))
    return 'out (run_C06 %d %s %s %s %s %s %s %s)' % (CTOR_MODE[case.get('ctor')], coq_bs(case['data']), _fts_term(case['fts']), _win_term(case, case['fts']),
                                                   coq_bool(case['u']), _optbs(case['splitter']), _optbs(case['filler']),
                                                   _optbs(case.get('gap')))


def split_model(case, m):
    return bool(m[0]), m[1]


# ----------------------------------------------------------------------------- property oracle (first principles)

def _order53(ls):
    """5'->3' order of the locations of one feature"""
    if ls and ls[0][2] == '-':
        return sorted(ls, key=lambda l: -l[1])
    return sorted(ls, key=lambda l: l[0])


def _swapbits(d):
    """mirror image of a defect set: LEFT <-> RIGHT in each of the three pairs"""
    out = d & ~63
    for lo in (0, 2, 4):
        a, b = (d >> lo) & 1, (d >> (lo + 1)) & 1
        out |= (b << lo) | (a << (lo + 1))
    return out


def _window_locs(st, fts):
    """the ordered locations of a Location / Feature / own-feature / type-name window, or an exception class name"""
    w = st['win']
    k = w['k']
    if k == 'loc':
        return [w['l']]
    if k == 'feat':
        return _order53(w['ls'])
    if k in ('own', 'ownlocs'):
        return fts[w['idx'] % len(fts)][1] if fts else 'ValueError'
    for t, ls in fts:
        if t is not None and t.lower() == w['name'].lower():
            return ls
    return 'ValueError'


def _cells(st, data, fts):
    """The result as a list of cells: ('r', original column, flipped) or ('x', literal text).
    With gap=g window bounds count residues (columns not in g); a window [a, b) is the columns from residue a up to
    (excluding) residue b.  Returns (cells, flipped_window, lo, hi) or an exception class name; lo/hi are the window
    bounds in the coordinates features are expressed in (columns, or residues when gap is given)."""
    n = len(data)
    gap = st.get('gap')
    cols = list(range(n)) if gap is None else [i for i, c in enumerate(data) if c not in gap]
    m = len(cols)

    def col(r):
        return cols[r] if r < m else n
    w = st['win']
    k = w['k']
    if k == 'bad':
        return 'TypeError'
    if k == 'rc':
        return [('r', p, True) for p in reversed(range(n))], True, 0, n
    if k == 'int':
        i = w['i']
        if not -m <= i < m:
            return 'IndexError'
        return [('r', cols[i % m], False)], False, i % m, i % m + 1
    if k == 'slice':
        ra, rb, _ = slice(w['a'], w['b']).indices(m)
        # an open bound is the end of the sequence (leading / trailing gap columns included), a given bound is a residue
        ca = 0 if w['a'] is None else col(ra)
        cb = n if w['b'] is None else col(rb)
        return [('r', p, False) for p in range(ca, cb)], False, ra, max(ra, rb)
    locs = _window_locs(st, fts)
    if isinstance(locs, str):
        return locs
    cells, prev = [], None
    for l in locs:
        a, b, sd, _ = l
        if prev is not None:
            if st.get('filler') is not None:
                skipped = (prev[0] - b) if sd == '-' else (a - prev[1])
                if skipped > 0:
                    cells.append(('x', st['filler'] * skipped))
            if st.get('splitter') is not None:
                cells.append(('x', st['splitter']))
        ra, rb, _ = slice(a, b).indices(m)
        rng_ = range(col(ra), col(rb))
        cells += [('r', p, True) for p in reversed(rng_)] if sd == '-' else [('r', p, False) for p in rng_]
        prev = l
    return cells, (locs[0][2] == '-'), locs[0][0], locs[0][1]


def spec_step(state, st, got):
    """Is `got` what the property demands for window step `st` on an object in `state` = [data, features]?
    Position tracking: every residue of the result is labelled with the address it came from; a tracked location must
    cover exactly the labels of the original location that are in the window."""
    data, fts = state
    r = _cells(st, data, fts)
    if isinstance(r, str):
        return None if got == {'e': r} else 'expected %s, got %r' % (r, got)
    if isinstance(got, dict):
        return 'raised %s' % got['e']
    cells, flipped, lo, hi = r
    exp = ''.join((COMP[data[c[1]]] if c[2] else data[c[1]]) if c[0] == 'r' else c[1].upper() for c in cells)
    if got[0] != exp and not ('U' in data and _u2t(got[0]) == _u2t(exp)):
        return 'data: expected %r got %r' % (exp, got[0])
    if not st['u']:
        return None if got[1] == fts else 'features changed without update_fts: %r' % (got[1],)
    gap = st.get('gap')
    if gap is None or st['win']['k'] in ('int', 'slice'):
        # update_fts: one contiguous window, no literals; addresses are columns (with gap= too on the int / slice path:
        # sugar's own test_seqs_getitem_special pins that reading; gap x update_fts is under-specified, see LEVEL_NOTE)
        track = [c[1] for c in cells]
        lo, hi = (min(track), max(track) + 1) if track else (0, 0)
    else:                                    # Location-like windows with gap: addresses are residue numbers, gap columns carry none
        resno, k = {}, 0
        for i, ch in enumerate(data):
            if ch not in gap:
                resno[i] = k
                k += 1
        track = [resno[c[1]] for c in cells if c[1] in resno]
    expf = []
    for t, ls in fts:
        new = []
        for a, b, sd, d in ls:
            J = [j for j, p in enumerate(track) if a <= p < b]
            if not J:
                continue
            if J != list(range(J[0], J[-1] + 1)):
                return 'oracle: location not contiguous in the window'
            cutl, cutr = a < lo, b > hi
            if flipped:
                s2 = {'+': '-', '-': '+'}.get(sd, sd)
                d2 = _swapbits(d) | (1 if cutr else 0) | (2 if cutl else 0)
            else:
                s2, d2 = sd, d | (1 if cutl else 0) | (2 if cutr else 0)
            new.append([J[0], J[-1] + 1, s2, d2])
        if new:
            expf.append([t, new])
    gf = got[1]
    if len(gf) != len(expf):
        return 'features: expected %r got %r' % (expf, gf)
    for (t, new), (gt, gl) in zip(expf, gf):
        if t != gt or sorted(new) != sorted(gl):
            return 'feature %r: expected locations %r got %r' % (t, new, gl)
        keys = [-l[1] for l in gl] if gl[0][2] == '-' else [l[0] for l in gl]
        if keys != sorted(keys):
            return 'feature %r: locations not in 5\'->3\' order: %r' % (t, gl)
    return None


def _canon_raw(fts):
    return [[t, _order53(ls)] for t, ls in fts]


def _spec_hstep(state, st, val, after):
    """one step of the sequence-level language judged on the state the object was in before it: (complaint, expected state
    afterwards or None when the complaint already covers it)"""
    data, fts = state
    op = st['op']
    why = None
    exp_state = state
    if op == 'win' and st['win']['k'] == 'rc':
        why = spec_step(state, st, after)
        exp_state = None
    elif op == 'win':
        why = spec_step(state, st, val)
        if st.get('inplace') and not isinstance(val, dict):
            exp_state = [val[0], fts]
    elif op == 'reverse':
        exp_state = [data[::-1], fts]
    elif op == 'complement':
        exp_state = [''.join(COMP.get(c, c) for c in data), fts]
    elif op == 'setitem':
        i, m = st['i'], len(data)
        if -m <= i < m:
            i %= m
            exp_state = [data[:i] + st['c'] + data[i + 1:], fts]
        elif val != {'e': 'IndexError'}:
            why = 'expected IndexError, got %r' % (val,)
    elif op == 'setdata':
        exp_state = [st['data'], fts]
    elif op == 'strcase':                    # the in-place str methods: the residues change as the str method says, the features stay
        exp_state = [''.join((c.upper(), c.lower(), c.lower() if c.isupper() else c.upper())[st['m']] for c in data), fts]
    elif op == 'strreplace':
        exp_state = [''.join(st['new'] if c == st['old'] else c for c in data), fts]
    elif op == 'strstrip':
        a, b = 0, len(data)
        while st['side'] != 2 and a < b and data[a] in st['chars']:
            a += 1
        while st['side'] != 1 and a < b and data[b - 1] in st['chars']:
            b -= 1
        exp_state = [data[a:b], fts]
    elif op == 'setfts':
        exp_state = [data, _canon_raw(st['fts'])]
    elif op == 'new':
        exp_state = [st['data'].upper(), _canon_raw(st['fts'])]
    elif op == 'share':
        if fts:
            exp_state = [data, fts + [['shared', fts[st['idx'] % len(fts)][1]]]]
        elif val != {'e': 'ValueError'}:
            why = 'expected ValueError, got %r' % (val,)
    return why, exp_state


def _spec_history(case, got):
    """every step judged on the state the object was OBSERVED in before it (so one failure does not cascade)"""
    state = [case['data'].upper(), _canon_raw(case['fts'])]
    if not isinstance(got, list) or len(got) != len(case['steps']):
        return 'history: %r' % (got,)
    for n, (st, (val, after)) in enumerate(zip(case['steps'], got)):
        why, exp_state = _spec_hstep(state, st, val, after)
        if why is None and exp_state is not None and after != exp_state:
            why = 'object after the step: expected %r, observed %r' % (exp_state, after)
        if why:
            return 'step %d (%s): %s' % (n, st['op'], why)
        state = after
    return None


def _ft_range(ft):
    return (min(l[0] for l in ft[1]), max(l[1] for l in ft[1]))


def _spec_edit(fts, e, val):
    """an in-place edit of a feature list, on plain Python lists of [type, locations]: (complaint, expected list)"""
    k = e['k']
    n = len(fts)
    new, want = list(fts), None

    def idx(i):
        return i % n if -n <= i < n else None
    if k == 'sort':
        # stable; by position = (start, stop) of the whole range, or by length of the range; several keys: the first one decides first;
        # reverse=True: descending, features with equal keys keep their order
        for c in reversed(e['keys']):
            key = _ft_range if c == 0 else (lambda ft: _ft_range(ft)[1] - _ft_range(ft)[0])
            ks = sorted(set(key(ft) for ft in new), reverse=e['reverse'])
            new = [ft for kv in ks for ft in new if key(ft) == kv]
    elif k == 'reverse':
        new = new[::-1]
    elif k == 'setitem':
        i = idx(e['i'])
        if i is None:
            want = {'e': 'IndexError'}
        else:
            new[i] = [e['f'][0], _order53(e['f'][1])]
    elif k == 'insert':
        i = e['i']
        i = max(i + n, 0) if i < 0 else min(i, n)
        new = new[:i] + [[e['f'][0], _order53(e['f'][1])]] + new[i:]
    elif k == 'append':
        new = new + [[e['f'][0], _order53(e['f'][1])]]
    elif k == 'extend':
        new = new + _canon_raw(e['fs'])
    elif k == 'pop':
        i = idx(e['i'])
        if i is None:
            want = {'e': 'IndexError'}
        else:
            want = new[i]
            new = new[:i] + new[i + 1:]
    elif k == 'remove':
        i = idx(e['i'])
        if i is None:
            want = {'e': 'IndexError'}
        else:
            j = min(j for j in range(n) if new[j] == new[i])       # the first feature equal to it
            new = new[:j] + new[j + 1:]
    elif k == 'settype':
        i = idx(e['i'])
        if i is None:
            want = {'e': 'IndexError'}
        else:
            new[i] = [e['t'], new[i][1]]
    elif k == 'setlocs':
        i = idx(e['i'])
        if i is None:
            want = {'e': 'IndexError'}
        else:
            new[i] = [new[i][0], _order53(e['ls'])]
    elif k == 'swap':
        i, j = idx(e['i']), idx(e['j'])
        if i is None or j is None:
            want = {'e': 'IndexError'}
        else:
            new[i], new[j] = new[j], new[i]
    elif k == 'clear':
        new = []
    elif k == 'addfts':                      # the new features join the list, the whole list is put in position order (stable)
        new = new + _canon_raw(e['fs'])
        new = [ft for kv in sorted(set(_ft_range(ft) for ft in new)) for ft in new if _ft_range(ft) == kv]
    if val != want:
        return 'edit %s: expected %r, got %r' % (k, want, val), new
    return None, new


def _spec_fhist(case, got):
    """histories over feature lists: every lookup is judged on the states OBSERVED before it (first feature of the type in the
    list order at that time), every edit is the plain list operation, objects not addressed do not change"""
    states = [[o['data'].upper(), _canon_raw(o['fts'])] for o in case['objs']]
    if not isinstance(got, list) or len(got) != len(case['fsteps']):
        return 'history: %r' % (got,)
    for n, (st, (val, after)) in enumerate(zip(case['fsteps'], got)):
        k = st['obj'] % len(states)
        data, fts = states[k]
        op = st['op']
        exp = [list(x) for x in states]
        why = None
        if op == 'seq':
            why, e1 = _spec_hstep(states[k], st['st'], val, after[k])
            exp[k] = e1 if e1 is not None else after[k]
        elif op == 'edit':
            why, new = _spec_edit(fts, st['e'], val)
            exp[k] = [data, new]
        elif op in ('get', 'getany', 'select', 'selectany'):
            names = [st['name'].lower()] if 'name' in st else [x.lower() for x in st['names']]
            hits = [ft for ft in fts if ft[0] is not None and ft[0].lower() in names]
            want = hits if op.startswith('select') else (hits[0] if hits else None)
            if val != want:
                why = 'expected %r, got %r' % (want, val)
        elif op in ('allget', 'allselect'):      # over the features of all objects, first object first
            hits = [ft for s_ in states for ft in s_[1] if ft[0] is not None and ft[0].lower() == st['name'].lower()]
            want = hits if op == 'allselect' else (hits[0] if hits else None)
            if val != want:
                why = 'expected %r, got %r' % (want, val)
        elif op == 'basket':
            bc = {'basket': [None] * len(states), 'bidx': st['bidx'], 'u': st['u'], 'gap': st.get('gap'),
                  'splitter': st.get('splitter'), 'filler': st.get('filler')}
            why = _spec_basket(bc, val, states=states)
            if why is None and st['bidx']['k'] == 'rc':
                exp = [e[1] for e in val[1]]
        if why is None and after != exp:
            why = 'objects after the step: expected %r, observed %r' % (exp, after)
        if why:
            return 'step %d (%s on object %d): %s' % (n, op if op != 'edit' else 'edit ' + st['e']['k'], k, why)
        states = after
    return None


def _spec_basket(case, got, states=None):
    """the basket forms are the sequence-level window applied to every selected sequence, in order; the first sequence on which
    the window is an error decides the exception; the selection itself is Python list indexing"""
    ix = case['bidx']
    form = ix['k']
    k = len(case['basket'])
    if states is None:
        states = [[b['data'].upper(), _canon_raw(b['fts'])] for b in case['basket']]
    if form in ('pairbad', 'bad'):
        return None if got == {'e': 'TypeError'} else 'expected TypeError, got %r' % (got,)
    if form == 'rc':                      # every sequence reverse-complemented, its features mirrored about its own length
        if isinstance(got, dict):
            return 'raised %s' % got['e']
        if got[0] != 'basket' or [e[0] for e in got[1]] != list(range(k)):
            return 'basket after rc: %r' % (got,)
        st = {'win': {'k': 'rc'}, 'u': case['u'], 'splitter': None, 'filler': None}
        for j, (_, state) in enumerate(got[1]):
            why = spec_step(states[j], st, state)
            if why:
                return 'sequence %d of the basket (length %d): %s' % (j, len(states[j][0]), why)
        return None
    want_exc, sel, single = None, [], form in ('int', 'pairI')
    if single:
        if -k <= ix['i'] < k:
            sel = [ix['i'] % k]
        else:
            want_exc = 'IndexError'
    elif form in ('slice', 'pairS'):
        if ix['step'] == 0:
            want_exc = 'ValueError'
        else:
            sel = list(range(k))[slice(ix['a'], ix['b'], ix['step'])]
    else:
        sel = list(range(k))
    st = dict(case, win=ix['win']) if 'win' in ix else None
    if want_exc is None and st is not None:
        for j in sel:
            r = _cells(st, states[j][0], states[j][1])
            if isinstance(r, str):
                want_exc = r
                break
    if want_exc is not None:
        return None if got == {'e': want_exc} else 'expected %s, got %r' % (want_exc, got)
    if isinstance(got, dict):
        return 'raised %s' % got['e']
    if got[0] != ('seq' if single else 'basket'):
        return 'result kind %r' % (got[0],)
    elems = [got[1]] if single else got[1]
    if [e[0] for e in elems] != sel:
        return 'sequences selected: expected %r got %r' % (sel, [e[0] for e in elems])
    for j, (_, state) in zip(sel, elems):
        if st is None:
            why = None if state == states[j] else 'sequence changed: expected %r got %r' % (states[j], state)
        else:
            why = spec_step(states[j], st, state)
        if why:
            return 'sequence %d: %s' % (j, why)
    return None


def spec(case, got):
    if 'basket' in case:
        return _spec_basket(case, got)
    if 'steps' in case:
        return _spec_history(case, got)
    if 'fsteps' in case:
        return _spec_fhist(case, got)
    return spec_step([case['data'].upper(), _canon_raw(case['fts'])], case, got)


# ----------------------------------------------------------------------------- bookkeeping

def _wstrand(case):
    w = case['win']
    if w['k'] == 'loc':
        return w['l'][2]
    if w['k'] == 'feat' and w['ls']:
        return w['ls'][0][2]
    if w['k'] in ('own', 'ownlocs') and case.get('fts'):
        ls = case['fts'][w['idx'] % len(case['fts'])][1]
        return ls[0][2] if ls else '+'
    if w['k'] == 'rc':
        return '-'
    return '+'


def nontrivial(case, got):
    if 'basket' in case:
        ix = case['bidx']
        return 'basket|%s|%s|u=%d|gap=%d|n=%d|%s' % (ix['k'], ix.get('win', {}).get('k'), case['u'], case.get('gap') is not None,
                                                   min(len(case['basket']), 3), got['e'] if isinstance(got, dict) else 'ok')
    if 'fsteps' in case:
        ops = [(st['op'] if st['op'] not in ('seq', 'edit') else st['e']['k'] if st['op'] == 'edit' else
                (st['st']['op'] if st['st']['op'] != 'win' else st['st']['win']['k'] + ('u' if st['st']['u'] else ''))) for st in case['fsteps']]
        return 'fhist|%d|%s' % (len(case['objs']), ','.join(ops)) if len(ops) > 1 else None
    if 'steps' in case:
        ops = [(st['op'] if st['op'] != 'win' else st['win']['k'] + ('g' if st.get('gap') is not None else '')
                + ('u' if st['u'] else '') + ('i' if st.get('inplace') else '') + ('m' if st.get('mut') else ''))
               for st in case['steps']]
        return 'hist|' + ','.join(ops) if len(ops) > 1 else None
    if isinstance(got, dict):
        return 'raises:' + got['e'] if case['win']['k'] in ('int', 'type') else None
    k = case['win']['k']
    nloc = sum(len(ls) for _, ls in case['fts'])
    nout = sum(len(ls) for _, ls in got[1])
    flags = 0
    for _, ls in got[1]:
        for l in ls:
            flags |= l[3] & 3
    multi = k in ('feat', 'own', 'ownlocs', 'type') and (len(case['win'].get('ls', [])) > 1 or k != 'feat')
    gap = case.get('gap')
    if not case['fts'] and k in ('int', 'slice') and not case['u'] and (gap is None or not any(c in gap for c in case['data'])):
        return None
    return '%s|u=%d|ws=%s|miss=%d|dropped=%d|multi=%d|fill=%d|split=%d|gap=%d' % (
        k, case['u'], _wstrand(case), flags, int(case['u'] and nout < nloc), multi,
        case['filler'] is not None, case['splitter'] is not None,
        0 if gap is None else 2 if any(c in gap for c in case['data'].upper()) else 1)


def histkey(case, got):
    if 'basket' in case:
        ix = case['bidx']
        return ['basket', 'bidx=' + ix['k'], 'bwin=%s' % ix.get('win', {}).get('k'), 'nseqs=%d' % len(case['basket']),
                'result=' + (got['e'] if isinstance(got, dict) else 'ok')]
    if 'fsteps' in case:
        return ['fhist', 'objects=%d' % len(case['objs']), 'fsteps=%d' % len(case['fsteps'])] + sorted(set(
            'fstep=' + (st['op'] if st['op'] != 'edit' else 'edit.' + st['e']['k']) for st in case['fsteps']))
    n = len(case['data'])
    ln = 'len=' + ('0' if n == 0 else '1-6' if n <= 6 else '7-60' if n <= 60 else '61+')
    if 'steps' in case:
        return ['history', 'steps=%d' % len(case['steps']), ln] + sorted(set('step=' + st['op'] for st in case['steps']))
    return ['win=' + case['win']['k'], 'update_fts=%s' % case['u'], ln,
            'nfts=%d' % len(case['fts']), 'wstrand=' + _wstrand(case),
            'result=' + (got['e'] if isinstance(got, dict) else 'ok'),
            'opts=%s%s%s' % ('F' if case['filler'] is not None else '-', 'S' if case['splitter'] is not None else '-',
                             'G' if case.get('gap') is not None else '-')]


def features(case, got):
    if 'basket' in case:
        return {'basket': True}
    if 'steps' in case or 'fsteps' in case:
        return {'history': True}
    w = case['win']
    return {'window': w['k'], 'update_fts': case['u'], 'gap': case.get('gap') is not None,
            'raised': got['e'] if isinstance(got, dict) else None}


def python_snippet(case):
    return ('import json, sys\nsys.path.insert(0, "/verif/tools")\nfrom props import c06\n'
            'case = json.loads(%r)\n'
            '# c06.impl builds BioSeq(case["data"]) with the features of the case and applies the window '
            '(seq.sl(**options)[window]) or, for a history, every step in turn on the same object;\n'
            '# it prints [data, features] of the result (per step: [returned value, object afterwards])\n'
            'print(json.dumps(c06.impl(case)))\n' % json.dumps(case))


NO_SHRINK_KEYS = ('k', 'op', 'ctor', 'coerce', 'via', 'keys', 'plain', 'tuple')


def _valid_loc(l):
    return (isinstance(l, list) and len(l) == 4 and isinstance(l[0], int) and isinstance(l[1], int)
            and isinstance(l[2], str) and isinstance(l[3], int) and 0 <= l[3] < 256)


def _valid_fts(fts):
    return isinstance(fts, list) and all(
        isinstance(ft, list) and len(ft) == 2 and (ft[0] is None or isinstance(ft[0], str))
        and isinstance(ft[1], list) and all(_valid_loc(l) for l in ft[1]) for ft in fts)


def _valid_winstep(c):
    if not isinstance(c['u'], bool):
        return False
    for o in ('splitter', 'filler', 'gap'):
        if not (c.get(o) is None or isinstance(c[o], str)):
            return False
    w = c['win']
    k = w['k']
    if k == 'int':
        return isinstance(w['i'], int)
    if k == 'slice':
        return all(w[x] is None or isinstance(w[x], int) for x in ('a', 'b', 'step'))
    if k == 'loc':
        return _valid_loc(w['l'])
    if k == 'feat':
        return isinstance(w['ls'], list) and all(_valid_loc(l) for l in w['ls'])
    if k in ('own', 'ownlocs'):
        return isinstance(w['idx'], int) and 0 <= w['idx'] < 1000
    if k == 'type':
        return isinstance(w['name'], str)
    return k in ('rc', 'bad')


def _valid_hstep(st):
    op = st['op']
    if op == 'win':
        return _valid_winstep(st)
    if op == 'setitem':
        return isinstance(st['i'], int) and isinstance(st['c'], str)
    if op == 'setdata':
        return isinstance(st['data'], str)
    if op == 'strcase':
        return st['m'] in (0, 1, 2)
    if op == 'strreplace':
        return isinstance(st['old'], str) and len(st['old']) == 1 and isinstance(st['new'], str)
    if op == 'strstrip':
        return st['side'] in (0, 1, 2) and isinstance(st['chars'], str)
    if op == 'setfts':
        return _valid_fts(st['fts'])
    if op == 'new':
        return isinstance(st['data'], str) and _valid_fts(st['fts'])
    if op == 'share':
        return isinstance(st['idx'], int) and 0 <= st['idx'] < 1000
    return op in ('reverse', 'complement')


def _valid_fstep(st, nobj):
    if not (isinstance(st['obj'], int) and 0 <= st['obj'] < 1000):
        return False
    op = st['op']
    if op == 'seq':
        return st['st']['op'] != 'new' and _valid_hstep(st['st'])
    if op == 'edit':
        e = st['e']
        k = e['k']
        for x in ('i', 'j'):
            if x in e and not isinstance(e[x], int):
                return False
        if k == 'sort':
            return isinstance(e['keys'], list) and all(c in (0, 1) for c in e['keys']) and isinstance(e['reverse'], bool)
        if k in ('setitem', 'insert', 'append'):
            return _valid_fts([e['f']]) and (k == 'append' or 'i' in e)
        if k == 'extend':
            return _valid_fts(e['fs']) and e.get('via') in (None, 'extend', 'iadd', 'iadd_fl', 'iadd_attr')
        if k == 'addfts':
            return _valid_fts(e['fs']) and e.get('via') in (None, 'list', 'fl')
        if k in ('pop', 'remove'):
            return 'i' in e
        if k == 'settype':
            return isinstance(e['t'], str) and 'i' in e
        if k == 'setlocs':
            return isinstance(e['ls'], list) and all(_valid_loc(l) for l in e['ls']) and 'i' in e
        if k == 'swap':
            return 'i' in e and 'j' in e
        return k in ('reverse', 'clear')
    if op in ('get', 'select', 'allget', 'allselect'):
        return isinstance(st['name'], str)
    if op in ('getany', 'selectany'):
        return isinstance(st['names'], list) and all(isinstance(x, str) for x in st['names'])
    if op == 'basket':
        return valid_case({'basket': [{'data': '', 'fts': []}], 'bidx': st['bidx'], 'u': st['u'], 'gap': st.get('gap'),
                           'splitter': st.get('splitter'), 'filler': st.get('filler')})
    return False


def valid_case(c):
    """structural validity of a (shrunk) case; semantic validity is decided by wf_C06 in the model"""
    try:
        if 'fsteps' in c:
            return (isinstance(c['objs'], list) and len(c['objs']) >= 1 and
                    all(isinstance(o['data'], str) and _valid_fts(o['fts']) for o in c['objs']) and
                    all(_valid_fstep(st, len(c['objs'])) for st in c['fsteps']))
        if 'basket' in c:
            ix = c['bidx']
            if not (isinstance(c['basket'], list) and all(isinstance(b['data'], str) and _valid_fts(b['fts']) for b in c['basket'])):
                return False
            if ix['k'] not in BFORMS or not isinstance(c['u'], bool):
                return False
            if ix['k'] == 'rc':
                return ix.get('via') in ('direct', 'slice', 'sl') and c.get('gap') is None
            if any(not (c.get(o) is None or isinstance(c[o], str)) for o in ('splitter', 'filler', 'gap')):
                return False
            if ix['k'] in ('int', 'pairI') and not isinstance(ix['i'], int):
                return False
            if ix['k'] in ('slice', 'pairS') and not all(ix[x] is None or isinstance(ix[x], int) for x in ('a', 'b', 'step')):
                return False
            if ix['k'] in ('win', 'pairI', 'pairS', 'pairbad'):
                w = ix['win']
                if w['k'] in ('own', 'ownlocs', 'rc') or (ix['k'] == 'win' and w['k'] not in ('loc', 'feat', 'type')):
                    return False
                return _valid_winstep({'u': c['u'], 'win': w})
            return True
        if not isinstance(c['data'], str) or not _valid_fts(c['fts']) or c.get('ctor') not in CTOR_MODE:
            return False
        if c.get('coerce') not in (None, 'np', 'strsub'):
            return False
        if 'steps' not in c:
            return _valid_winstep(c)
        for st in c['steps']:
            op = st['op']
            if op == 'win':
                if not _valid_winstep(st):
                    return False
            elif op == 'setitem':
                if not (isinstance(st['i'], int) and isinstance(st['c'], str)):
                    return False
            elif op == 'setdata':
                if not isinstance(st['data'], str):
                    return False
            elif op == 'setfts':
                if not _valid_fts(st['fts']):
                    return False
            elif op == 'new':
                if not (isinstance(st['data'], str) and _valid_fts(st['fts'])):
                    return False
            elif op == 'share':
                if not (isinstance(st['idx'], int) and 0 <= st['idx'] < 1000):
                    return False
            elif op in ('strcase', 'strreplace', 'strstrip'):
                if not _valid_hstep(st):
                    return False
            elif op not in ('reverse', 'complement'):
                return False
        return True
    except (KeyError, TypeError, IndexError):
        return False


# ----------------------------------------------------------------------------- relational checks (no model)

def _unordered(fts):
    """the order of the locations of an unstranded feature is not part of the property (ties / mirror image)"""
    return [[t, ls if ls[0][2] in '+-' else sorted(ls)] for t, ls in fts]


def extra_checks(rng, tier, cov):
    """rc(update_fts) twice is the identity on +/- features; two nested tracked windows equal the direct window."""
    n_rc = n_nest = 0
    for _ in range(3000 if tier == 'thorough' else 300):
        n = rng.randint(1, 30)
        data = _seq(rng, n, rng.choice(['dna', 'iupac']))
        fts = [[t, [l for l in ls]] for t, ls in _fts(rng, n, [])]
        case = {'data': data, 'fts': fts, 'u': True, 'splitter': None, 'filler': None, 'win': {'k': 'rc'}}
        a = rng.randint(0, n - 1); b = rng.randint(a + 1, n)
        c = rng.randint(0, b - a - 1); d = rng.randint(c + 1, b - a)
        case2 = dict(case, win={'k': 'slice', 'a': a + c, 'b': a + d, 'step': None})
        try:
            seq = _build(case)
            before = [str(seq), _unordered(_canon_fts(seq.fts))]
            seq.rc(update_fts=True).rc(update_fts=True)
            after = [str(seq), _unordered(_canon_fts(seq.fts))]
        except Exception as e:
            before, after = None, {'e': type(e).__name__}
        n_rc += 1
        if after != before:
            yield {'case': case, 'impl': after, 'model': None, 'noshrink': True,
                   'spec': 'rc(update_fts) twice is not the identity: %r -> %r' % (before, after)}
        try:
            seq = _build(case)
            two = seq.sl(update_fts=True)[a:b].sl(update_fts=True)[c:d]
            one = seq.sl(update_fts=True)[a + c:a + d]
            r2, r1 = [str(two), _canon_fts(two.fts)], [str(one), _canon_fts(one.fts)]
        except Exception as e:
            r2, r1 = {'e': type(e).__name__}, None
        n_nest += 1
        if r1 != r2:
            yield {'case': case2, 'impl': r2, 'model': None, 'noshrink': True,
                   'spec': 'nested windows [%d:%d][%d:%d] differ from the direct window: %r vs %r' % (a, b, c, d, r2, r1)}
    cov['relational'] = {'rc_rc_identity': n_rc, 'nested_window_composition': n_nest}
    cov['exhaustive_box'] = ('all single-location features x all int/slice/Location windows x both strands, update_fts, '
                             'sequence length <= %d' % (5 if tier == 'thorough' else 3))


LEVEL_TEXT = ('Machine-checked Coq theorems (63, no axioms) about an executable model of BioSeq._getitem/_slice_locs/rc(update_fts) and '
              'FeatureList.slice/rc: extraction by Location/Feature/type name is the 5\'->3\' concatenation of the (reverse-complemented) pieces '
              'with filler/splitter (filler pads ascending plus-strand locations to the range length); under update_fts every surviving location '
              'addresses the same residues inside the window (int, every slice window, Location / single-location Feature windows on both strands), '
              'survivors are exactly the overlapping locations, MISS flags are set exactly when cut, the 5\'->3\' order is kept, rc mirrors '
              'coordinates and flips strands (DNA exactly, RNA up to U/T as in C05, unstranded features coordinate-wise); without update_fts the '
              'features are unchanged for every option; gap-aware windows are, with the gap columns removed, the plain windows of the ungapped '
              'sequence (both strands, any slice bounds incl. omitted / negative / crossing ones, int windows = the i-th residue) and the option is '
              'neutral on gap-free sequences; error clauses (IndexError, multi-location update_fts); type-name lookup is the first feature whose '
              'type equals the name case-insensitively; BioBasket forms seqs[w], seqs[i, w], seqs[a:b:st, w] are the sequence-level window mapped '
              'over the selected sequences in order (first failing sequence decides the exception); BioBasket.rc(update_fts) mirrors every sequence\'s '
              'features about that sequence\'s own length; under gap x update_fts the slice path cuts '
              'features at column bounds, the Location path at the window\'s numbers, and the two agree exactly on aligned windows. '
              'Feature-list histories (round 7): FeatureList.sort is a stable sort - a permutation, ordered by the key (position = Feature.__lt__, or len), '
              'ties keeping their order in both directions, several keys = first key decides first (C06_sort_dir_spec, C06_fts_sort_keys); fts.get is '
              'the head of fts.select, select the sub-list of matching features (C06_get_head_select); over all sequences of a basket the first sequence with a match answers (C06_get_all_objects); the type-name lookup after item assignment / '
              'delete / append / reverse / insert from the pieces of the list before the edit (C06_get_after_edit, C06_get_after_insert); after sort() it '
              'is the matching feature at the smallest position, the earliest of those before the sort (C06_get_after_sort); list_set / list_del / '
              'negative indices / remove (C06_list_edit_spec, C06_norm_idx_spec, C06_remove_first_spec); sort twice = once, seq.add_fts = stable position sort of old ++ new (C06_sort_idempotent_add_fts); which edits re-order / keep / change the number of features (C06_fedit_shape); the in-place str methods of the history language (C06_str_methods_spec); lookups leave no trace: the answers to any '
              'continuation of a history are the same with every earlier lookup removed (C06_history_lookups_transparent). '
              'The model is tied to sugar by differential testing on every run (exhaustive small box, random, gap stream, state-independence histories, '
              'feature-list histories on 1-3 objects).')
LEVEL_NOTE = ('Trusted: Coq kernel/vm_compute, translator (G_codes, G_flags), the correspondence harness, CPython str/slice/sorted. '
              'Modelled rather than verified: the functions in MODELLED_FUNCS (every statement of them is executed in the quick tier except '
              'fts.py:738,740 - FeatureList.slice defaults for start/stop None - and fts.py:640 - FeatureList.get with a list of names -, which no '
              'BioSeq window can reach (fts.get / fts.select with a list of names are reached by the feature-list histories) - and the foreign-type / '
              'different-seqid branches of the comparison methods used by sort / remove: fts.py:101, 209-210, 360, 368, 370-373). Proved vs tested: everything in LEVEL_TEXT is proved for gap=None unless gap is named; TESTED ONLY: '
              'inplace=True, state independence (caches, memos, aliasing of results and receivers: history '
              'stream and feature-list history stream run_C06f - lookups by type name interleaved with in-place edits of the FeatureList on 1-3 '
              'objects; the model is pure, so a stale answer disagrees at the first wrong step), the Feature(...) argument forms beyond Location lists (C06_run_op_modes shows they build the same model '
              'value), Strand/Defect validation, which sequences a basket slice with a step selects (list_slice is CPython\'s algorithm copied, '
              'the theorems are parametric in it), RNA residues exactly (the theorems are up to U/T), that CPython\'s sorted() / list.insert / list.remove and '
              'the str methods behind seq.str.* are the modelled functions (fts_sort = stable insertion sort, list_ins, remove_first; replace only with a '
              'one-character old string, strip only with explicit chars), the metadata part of Feature.__eq__ (the driver\'s features carry their type only). Under gap x update_fts no theorem says which '
              'of the two paths is right (sugar does not define whether feature coordinates count columns or residues); they are characterised and '
              'shown to agree exactly on aligned windows. ASCII strings; nucleotide alphabet for the rc clauses. '
              'Domain excludes update_fts with multi-location windows (ValueError by design, proved); empty slice windows are inside the domain since '
              'the fix of the former empty_window defect (/repo f654eb3; witnesses kept in the corpus). '
              'All theorems closed under the global context (no axioms).')
TECHNIQUE = 'Coq proof over a hand-written Gallina model + differential correspondence + first-principles position-tracking oracle'
