"""C06 -- feature-addressed subsequences and coordinate tracking under slicing and rc:
cases, implementation driver, model terms, first-principles property oracle."""
import itertools
import json
from framework import coq_bs, coq_bool

ID = 'C06'
COQ_IMPORTS = ['C06_Model']
GENERATORS = ['gen_codes', 'gen_flags']
ALPHA = 'ACGTRYSWKMBDHVN.-'
STRANDS = '+-.?'
RULE = ('corpus (F6-F9 witnesses, empty-window witness) first; exhaustive box: every single-location feature [x,y) on both strands of a '
        'sequence of length <= 3 (quick) / <= 5 (thorough) x every int window and every slice window with bounds in -n-1..n+1 or None, '
        'every Location window on both strands, rc, all with update_fts; sampled two-location features x all windows of a length-4/6 sequence; '
        'a multi-location extraction stream (2-4 separated / touching / overlapping locations, all strands, filler x splitter, by Feature / own feature / '
        'type name with a later duplicate type); then seeded random cases: sequences of 0-60 residues (occasionally 300), '
        '0-3 features with 1-3 locations (strands + - . ?, random Defect bits, overlapping, touching the ends, edges shared with the window), windows int / '
        'slice (None, negative, beyond the ends, step None/1) / Location / Feature / own feature / type name (case-insensitive, missing), '
        'options update_fts, splitter, filler; 6% deliberately malformed (out-of-domain) inputs. '
        'non-trivial = distinct case whose window cuts, drops, mirrors or joins something (marker = kind/update_fts/window strand/'
        'cut-left/cut-right/dropped/multi-location/filler/splitter)')
TRUSTED = ['CPython str slicing, str.upper/lower, slice.indices, sorted() stability (modelled: py_slice, upper/lower on ASCII, slice_bounds, '
           'stable insertion sort; compared on every case)',
           'modelled rather than verified: BioSeq._getitem, _slice_locs, rc(update_fts) (seq.py:347-355,407-483); FeatureList.get/slice/rc, '
           'Feature.rc, LocationTuple.__new__/range/_reverse, Location.__init__/_reverse, Defect._reverse, Strand._reverse (fts.py)',
           'residue complement: C05 model over the regenerated COMPLEMENT tables; Defect/Strand values regenerated (G_flags)']
ASSUMPTIONS = ['Python str restricted to ASCII; sequences over the 17-symbol IUPAC nucleotide alphabet (case-insensitive) inside the domain',
               'feature locations and window locations lie inside [0, len]; Defect values < 256; gap=None, inplace=False; slice step in (None, 1)',
               'update_fts with a multi-location window is rejected by design (ValueError) and outside the domain']

COMP = {'A': 'T', 'C': 'G', 'G': 'C', 'T': 'A', 'R': 'Y', 'Y': 'R', 'S': 'S', 'W': 'W', 'K': 'M', 'M': 'K', 'B': 'V', 'V': 'B',
        'D': 'H', 'H': 'D', 'N': 'N', '.': '.', '-': '-'}


# ----------------------------------------------------------------------------- case generation

def _seq(rng, n, kind='dna'):
    if kind == 'dna':
        al = 'ACGT'
    elif kind == 'iupac':
        al = ALPHA
    elif kind == 'lower':
        al = 'acgtACGTn'
    elif kind == 'rna':
        al = 'ACGU'
    else:
        al = 'ACDEFGHIKLMNPQRSTVWY*'
    return ''.join(rng.choice(al) for _ in range(n))


def _edge(rng, n, pts):
    """a coordinate in 0..n, biased to the ends and to the given interesting points"""
    r = rng.random()
    if r < 0.25 and pts:
        return min(max(rng.choice(pts) + rng.choice([-1, 0, 0, 1]), 0), n)
    if r < 0.4:
        return rng.choice([0, n, 1, max(n - 1, 0)])
    return rng.randint(0, n)


def _loc(rng, n, strand, pts, defect_p=0.2):
    for _ in range(20):
        a, b = _edge(rng, n, pts), _edge(rng, n, pts)
        if a != b:
            break
    else:
        a, b = 0, max(n, 1)
    a, b = min(a, b), max(a, b)
    d = 0
    if rng.random() < defect_p:
        d = rng.choice([1, 2, 3, 4, 8, 12, 16, 32, 48, 64, 128, rng.randint(0, 255)])
    return [a, b, strand, d]


def _strand(rng):
    return rng.choices(STRANDS, weights=[45, 40, 8, 7])[0]


TYPES = ['cds', 'CDS', 'gene', 'Gene', 'exon', 'tRNA', None, '']


def _fts(rng, n, pts, maxft=3):
    fts = []
    for _ in range(rng.choice([0, 1, 1, 2, 2, 3][:maxft + 3])):
        s = _strand(rng)
        k = rng.choice([1, 1, 1, 2, 2, 3])
        fts.append([rng.choice(TYPES), [_loc(rng, n, s, pts) for _ in range(k)]])
    return fts


def _bound(rng, n, pts):
    r = rng.random()
    if r < 0.15:
        return None
    if r < 0.35:
        return rng.randint(-n - 2, -1)
    if r < 0.45:
        return n + rng.randint(0, 3)
    return _edge(rng, n, pts)


def _random_case(rng, big=False):
    n = rng.choice([0, 1, 2, 3, 4, 5, 6, 7, 8, 10, 12, 20, 40, 60])
    if big and rng.random() < 0.1:
        n = 300
    r = rng.random()
    kind = 'dna' if r < 0.6 else 'iupac' if r < 0.8 else 'lower' if r < 0.9 else 'rna' if r < 0.95 else 'aa'
    data = _seq(rng, n, kind)
    pts = [rng.randint(0, n) for _ in range(3)]
    fts = _fts(rng, n, pts) if n else []
    u = rng.random() < 0.6
    case = {'data': data, 'fts': fts, 'u': u, 'splitter': None, 'filler': None}
    r = rng.random()
    if n == 0:
        r = min(r, 0.39) if r > 0.1 else 0.95
    if r < 0.1:
        case['win'] = {'k': 'int', 'i': rng.randint(-n - 1, n)}
    elif r < 0.4:
        a, b = _bound(rng, n, pts), _bound(rng, n, pts)
        case['win'] = {'k': 'slice', 'a': a, 'b': b, 'step': rng.choice([None, None, 1])}
    elif r < 0.55:
        case['win'] = {'k': 'loc', 'l': _loc(rng, n, _strand(rng), pts)}
    elif r < 0.7:
        s = _strand(rng)
        k = 1 if (u and rng.random() < 0.85) else rng.choice([1, 2, 2, 3])
        case['win'] = {'k': 'feat', 'ls': [_loc(rng, n, s, pts) for _ in range(k)]}
    elif r < 0.8 and fts:
        case['win'] = {'k': 'own', 'idx': rng.randrange(len(fts))}
    elif r < 0.92:
        t = rng.choice(['cds', 'CDS', 'Cds', 'gene', 'GENE', 'exon', 'trna', 'missing', ''])
        case['win'] = {'k': 'type', 'name': t}
    else:
        case['win'] = {'k': 'rc'}
    if case['win']['k'] in ('loc', 'feat', 'own', 'type') and rng.random() < 0.5:
        if rng.random() < 0.6:
            case['splitter'] = rng.choice(['|', '--', 'n', '', 'x*'])
        if rng.random() < 0.6:
            case['filler'] = rng.choice(['N', 'n', '-', 'nn', ''])
    # deliberately malformed inputs (outside the domain; the model must still agree on raise / no raise)
    if rng.random() < 0.06:
        m = rng.randrange(6)
        if m == 0 and fts:
            fts[0][1][0][1] = n + rng.randint(1, 3)               # location beyond the end
        elif m == 1 and fts:
            fts[0][1][0][0] = fts[0][1][0][1]                     # start == stop
        elif m == 2 and fts:
            fts[0][1].append(_loc(rng, n, '+' if fts[0][1][0][2] != '+' else '-', pts))   # mixed strands
        elif m == 3 and case['win']['k'] == 'slice':
            case['win']['step'] = rng.choice([0, 2, -1]); case['u'] = True
        elif m == 4 and case['win']['k'] == 'loc':
            case['win']['l'][1] = n + 2
        elif m == 5 and fts:
            fts[0][1][0][0] = -1
    return case


def _box_cases(nmax):
    """every single-location feature x every window, update_fts=True, on a fixed sequence of each length"""
    out = []
    for n in range(1, nmax + 1):
        data = 'ACGTRY'[:n]
        locs = [(x, y) for x in range(n) for y in range(x + 1, n + 1)]
        bounds = [None] + list(range(-n - 1, n + 2))
        for (x, y), s in itertools.product(locs, '+-'):
            fts = [['g', [[x, y, s, 0]]]]
            base = {'data': data, 'fts': fts, 'u': True, 'splitter': None, 'filler': None}
            for a, b in itertools.product(bounds, bounds):
                out.append(dict(base, win={'k': 'slice', 'a': a, 'b': b, 'step': None}))
            for i in range(-n, n):
                out.append(dict(base, win={'k': 'int', 'i': i}))
            for (wx, wy), ws in itertools.product(locs, '+-'):
                out.append(dict(base, win={'k': 'loc', 'l': [wx, wy, ws, 0]}))
            out.append(dict(base, win={'k': 'rc'}))
    return out


def gen_cases(rng, tier):
    cases = _box_cases(5 if tier == 'thorough' else 3)
    # two-location features of both strands against every slice window of a length-4 (quick) / 6 (thorough) sequence
    n = 6 if tier == 'thorough' else 4
    data = 'ACGTRY'[:n]
    locs = [(x, y) for x in range(n) for y in range(x + 1, n + 1)]
    pairs = list(itertools.combinations(locs, 2))
    wins = [(a, b) for a in range(n + 1) for b in range(a + 1, n + 1)]
    for (l1, l2), s in itertools.product(pairs, '+-'):
        if tier != 'thorough' and rng.random() > 0.12:
            continue
        for a, b in wins:
            if tier == 'thorough' and rng.random() > 0.15:
                continue
            kind = rng.choice(['slice', 'loc+', 'loc-'])
            win = ({'k': 'slice', 'a': a, 'b': b, 'step': None} if kind == 'slice'
                   else {'k': 'loc', 'l': [a, b, kind[-1], 0]})
            cases.append({'data': data, 'fts': [['g', [[l1[0], l1[1], s, 0], [l2[0], l2[1], s, 0]]]], 'u': True,
                          'splitter': None, 'filler': None, 'win': win})
    # multi-location extraction with filler / splitter (adjacent, overlapping and separated locations, all strands)
    for _ in range(6000 if tier == 'thorough' else 300):
        n = rng.randint(4, 14)
        data = _seq(rng, n, rng.choice(['dna', 'dna', 'iupac', 'lower']))
        s = rng.choice('++--.?')
        k = rng.choice([2, 2, 3, 4])
        cuts = sorted(rng.sample(range(n + 1), min(2 * k, n + 1)))
        ls = [[cuts[2 * j], cuts[2 * j + 1], s, 0] for j in range(len(cuts) // 2)]
        if rng.random() < 0.25 and len(ls) > 1:
            ls[1][0] = ls[0][rng.choice([0, 1])]                  # touching / overlapping
            if ls[1][0] >= ls[1][1]:
                ls[1][1] = ls[1][0] + 1
        rng.shuffle(ls)
        fts = _fts(rng, n, cuts, maxft=2)
        mode = rng.choice(['feat', 'own', 'type'])
        if mode == 'feat':
            win = {'k': 'feat', 'ls': ls}
        else:
            fts.insert(rng.randint(0, len(fts)), ['mrna', ls])
            if rng.random() < 0.5:                                # a later feature of the same type must not be picked
                fts.append([rng.choice(['mRNA', 'MRNA', 'mrna']), [_loc(rng, n, _strand(rng), cuts)]])
            win = {'k': 'type', 'name': rng.choice(['mrna', 'mRNA'])} if mode == 'type' else \
                  {'k': 'own', 'idx': [i for i, f in enumerate(fts) if f[0] == 'mrna'][0]}
        cases.append({'data': data, 'fts': fts, 'u': False, 'win': win,
                      'splitter': rng.choice([None, None, '|', '--', 'x', '']),
                      'filler': rng.choice([None, 'N', 'n', 'nn', '-', ''])})
    nrand = 40000 if tier == 'thorough' else 1600
    for _ in range(nrand):
        cases.append(_random_case(rng, big=(tier == 'thorough')))
    return cases


# ----------------------------------------------------------------------------- implementation driver

def _canon_fts(fts):
    return [[ft.type, [[l.start, l.stop, str(l.strand), int(l.defect)] for l in ft.locs]] for ft in fts]


def _build(case):
    from sugar import BioSeq
    from sugar.core.fts import Feature, FeatureList, Location
    fts = [Feature(t, locs=[Location(a, b, s, d) for a, b, s, d in ls]) for t, ls in case['fts']]
    seq = BioSeq(case['data'])
    seq.fts = FeatureList(fts)
    return seq


def _window(case, seq):
    from sugar.core.fts import Feature, Location
    w = case['win']
    k = w['k']
    if k == 'int':
        return w['i']
    if k == 'slice':
        return slice(w['a'], w['b'], w['step'])
    if k == 'loc':
        return Location(*w['l'])
    if k == 'feat':
        return Feature('w', locs=[Location(*l) for l in w['ls']])
    if k == 'own':
        if not seq.fts:
            raise ValueError('no feature')
        return seq.fts[w['idx'] % len(seq.fts)]
    if k == 'type':
        return w['name']
    raise ValueError(k)


def impl(case):
    seq = _build(case)
    before = [str(seq), _canon_fts(seq.fts)]
    if case['win']['k'] == 'rc':
        res = seq.rc(update_fts=True) if case['u'] else seq.rc()
        assert res is seq, 'rc must return the receiver'
        return [str(res), _canon_fts(res.fts)]
    win = _window(case, seq)
    kw = {}
    if case['u']:
        kw['update_fts'] = True
    if case['splitter'] is not None:
        kw['splitter'] = case['splitter']
    if case['filler'] is not None:
        kw['filler'] = case['filler']
    res = seq.sl(**kw)[win] if kw else seq[win]
    out = [str(res), _canon_fts(res.fts)]
    assert [str(seq), _canon_fts(seq.fts)] == before, 'receiver was modified'
    return out


# ----------------------------------------------------------------------------- model term

def _z(n):
    return '(%d)' % n if n < 0 else '%d' % n


def _rawloc(l):
    a, b, s, d = l
    code = ord(s) if isinstance(s, str) and len(s) == 1 and ord(s) < 256 else 0
    return '(%s,%s,%d,%s)' % (_z(a), _z(b), code, _z(d))


def _optz(x):
    return 'None' if x is None else '(Some %s)' % _z(x)


def _optbs(x):
    return 'None' if x is None else '(Some %s)' % coq_bs(x)


def _win_term(case):
    w = case['win']
    k = w['k']
    if k == 'int':
        return '(RInt %s)%%Z' % _z(w['i'])
    if k == 'slice':
        return '(RSlice %s %s %s)%%Z' % (_optz(w['a']), _optz(w['b']), _optz(w['step']))
    if k == 'loc':
        return '(RLoc %s%%Z)' % _rawloc(w['l'])
    if k == 'feat':
        return '(RFeat [%s]%%Z)' % '; '.join(_rawloc(l) for l in w['ls'])
    if k == 'own':
        fts = case['fts']
        ls = fts[w['idx'] % len(fts)][1] if fts else []
        return '(RFeat [%s]%%Z)' % '; '.join(_rawloc(l) for l in ls)
    if k == 'type':
        return '(RType %s)' % coq_bs(w['name'])
    return 'RRc'


def model_term(case):
    fts = '[%s]%%Z' % '; '.join('(%s, [%s])' % (_optbs(t), '; '.join(_rawloc(l) for l in ls)) for t, ls in case['fts'])
    return 'out (run_C06 %s %s %s %s %s %s)' % (coq_bs(case['data']), fts, _win_term(case), coq_bool(case['u']),
                                                _optbs(case['splitter']), _optbs(case['filler']))


def split_model(case, m):
    return bool(m[0]), m[1]


# ----------------------------------------------------------------------------- property oracle (first principles)

def _order53(ls):
    """5'->3' order of the locations of one feature"""
    if ls and ls[0][2] == '-':
        return sorted(ls, key=lambda l: -l[1])
    return sorted(ls, key=lambda l: l[0])


def _swapbits(d):
    """mirror image of a defect set: LEFT <-> RIGHT in each of the three pairs"""
    out = d & ~63
    for lo in (0, 2, 4):
        a, b = (d >> lo) & 1, (d >> (lo + 1)) & 1
        out |= (b << lo) | (a << (lo + 1))
    return out


def _cells(case, data, fts):
    """The result as a list of cells: ('r', original position, flipped) or ('x', literal text).
    Returns (cells, flipped_window) or an exception class name."""
    n = len(data)
    w = case['win']
    k = w['k']
    if k == 'rc':
        return [('r', p, True) for p in reversed(range(n))], True
    if k == 'int':
        i = w['i']
        if not -n <= i < n:
            return 'IndexError'
        return [('r', i % n, False)], False
    if k == 'slice':
        return [('r', p, False) for p in range(n)[w['a']:w['b']]], False
    if k == 'loc':
        locs = [w['l']]
    elif k == 'feat':
        locs = _order53(w['ls'])
    elif k == 'own':
        locs = fts[w['idx'] % len(fts)][1] if fts else None
        if locs is None:
            return 'ValueError'
    else:
        locs = None
        for t, ls in fts:
            if t is not None and t.lower() == w['name'].lower():
                locs = ls
                break
        if locs is None:
            return 'ValueError'
    cells, prev = [], None
    for l in locs:
        a, b, s, _ = l
        if prev is not None:
            if case['filler'] is not None:
                skipped = (prev[0] - b) if s == '-' else (a - prev[1])
                if skipped > 0:
                    cells.append(('x', case['filler'] * skipped))
            if case['splitter'] is not None:
                cells.append(('x', case['splitter']))
        rng_ = range(a, b)
        cells += [('r', p, True) for p in reversed(rng_)] if s == '-' else [('r', p, False) for p in rng_]
        prev = l
    return cells, (locs[0][2] == '-')


def spec(case, got):
    """Is `got` what the property demands?  Position tracking: every residue of the result is labelled with the position
    it came from; a tracked location must cover exactly the labels of the original location that are in the window."""
    data = case['data'].upper()
    fts = [[t, _order53(ls)] for t, ls in case['fts']]
    r = _cells(case, data, fts)
    if isinstance(r, str):
        return None if got == {'e': r} else 'expected %s, got %r' % (r, got)
    if isinstance(got, dict):
        return 'raised %s' % got['e']
    cells, flipped = r
    exp = ''.join((COMP[data[c[1]]] if c[2] else data[c[1]]) if c[0] == 'r' else c[1].upper() for c in cells)
    if got[0] != exp:
        return 'data: expected %r got %r' % (exp, got[0])
    if not case['u']:
        return None if got[1] == fts else 'features changed without update_fts: %r' % (got[1],)
    pos = [c[1] for c in cells]            # update_fts: one contiguous window, no literals
    lo, hi = (min(pos), max(pos) + 1) if pos else (0, 0)
    expf = []
    for t, ls in fts:
        new = []
        for a, b, s, d in ls:
            J = [j for j, p in enumerate(pos) if a <= p < b]
            if not J:
                continue
            if J != list(range(J[0], J[-1] + 1)):
                return 'oracle: location not contiguous in the window'
            cutl, cutr = a < lo, b > hi
            if flipped:
                s2 = {'+': '-', '-': '+'}.get(s, s)
                d2 = _swapbits(d) | (1 if cutr else 0) | (2 if cutl else 0)
            else:
                s2, d2 = s, d | (1 if cutl else 0) | (2 if cutr else 0)
            new.append([J[0], J[-1] + 1, s2, d2])
        if new:
            expf.append([t, new])
    gf = got[1]
    if len(gf) != len(expf):
        return 'features: expected %r got %r' % (expf, gf)
    for (t, new), (gt, gl) in zip(expf, gf):
        if t != gt or sorted(new) != sorted(gl):
            return 'feature %r: expected locations %r got %r' % (t, new, gl)
        keys = [-l[1] for l in gl] if gl[0][2] == '-' else [l[0] for l in gl]
        if keys != sorted(keys):
            return 'feature %r: locations not in 5\'->3\' order: %r' % (t, gl)
    return None


# ----------------------------------------------------------------------------- bookkeeping

def _wstrand(case):
    w = case['win']
    if w['k'] == 'loc':
        return w['l'][2]
    if w['k'] == 'feat' and w['ls']:
        return w['ls'][0][2]
    if w['k'] == 'own' and case['fts']:
        return case['fts'][w['idx'] % len(case['fts'])][1][0][2]
    if w['k'] == 'rc':
        return '-'
    return '+'


def nontrivial(case, got):
    if isinstance(got, dict):
        return 'raises:' + got['e'] if case['win']['k'] in ('int', 'type') else None
    k = case['win']['k']
    nloc = sum(len(ls) for _, ls in case['fts'])
    nout = sum(len(ls) for _, ls in got[1])
    flags = 0
    for _, ls in got[1]:
        for l in ls:
            flags |= l[3] & 3
    multi = k in ('feat', 'own', 'type') and (len(case['win'].get('ls', [])) > 1 or k != 'feat')
    if not case['fts'] and k in ('int', 'slice') and not case['u']:
        return None
    return '%s|u=%d|ws=%s|miss=%d|dropped=%d|multi=%d|fill=%d|split=%d' % (
        k, case['u'], _wstrand(case), flags, int(case['u'] and nout < nloc), multi,
        case['filler'] is not None, case['splitter'] is not None)


def histkey(case, got):
    n = len(case['data'])
    return ['win=' + case['win']['k'], 'update_fts=%s' % case['u'],
            'len=' + ('0' if n == 0 else '1-6' if n <= 6 else '7-60' if n <= 60 else '61+'),
            'nfts=%d' % len(case['fts']), 'wstrand=' + _wstrand(case),
            'result=' + (got['e'] if isinstance(got, dict) else 'ok'),
            'opts=%s%s' % ('F' if case['filler'] is not None else '-', 'S' if case['splitter'] is not None else '-')]


def features(case, got):
    w = case['win']
    return {'window': w['k'], 'update_fts': case['u'], 'raised': got['e'] if isinstance(got, dict) else None}


def python_snippet(case):
    return ('import json\nfrom sugar import BioSeq\nfrom sugar.core.fts import Feature, FeatureList, Location\n'
            'case = json.loads(%r)\n'
            'seq = BioSeq(case["data"])\n'
            'seq.fts = FeatureList([Feature(t, locs=[Location(*l) for l in ls]) for t, ls in case["fts"]])\n'
            'w = case["win"]; k = w["k"]\n'
            'kw = {n: case[n] for n in ("splitter", "filler") if case[n] is not None}\n'
            'if case["u"]: kw["update_fts"] = True\n'
            'if k == "rc": res = seq.rc(update_fts=case["u"])\n'
            'else:\n'
            '    win = (w["i"] if k == "int" else slice(w["a"], w["b"], w["step"]) if k == "slice" else Location(*w["l"]) if k == "loc"\n'
            '           else Feature("w", locs=[Location(*l) for l in w["ls"]]) if k == "feat" else seq.fts[w["idx"] %% len(seq.fts)] if k == "own" else w["name"])\n'
            '    res = seq.sl(**kw)[win]\n'
            'print(str(res), [(f.type, [(l.start, l.stop, str(l.strand), int(l.defect)) for l in f.locs]) for f in res.fts])\n'
            % json.dumps(case))


NO_SHRINK_KEYS = ('k',)


def _valid_loc(l):
    return (isinstance(l, list) and len(l) == 4 and isinstance(l[0], int) and isinstance(l[1], int)
            and isinstance(l[2], str) and isinstance(l[3], int) and 0 <= l[3] < 256)


def valid_case(c):
    """structural validity of a (shrunk) case; semantic validity is decided by wf_C06 in the model"""
    try:
        if not isinstance(c['data'], str) or not isinstance(c['u'], bool):
            return False
        for ft in c['fts']:
            if not (isinstance(ft, list) and len(ft) == 2 and (ft[0] is None or isinstance(ft[0], str))
                    and isinstance(ft[1], list) and all(_valid_loc(l) for l in ft[1])):
                return False
        for o in ('splitter', 'filler'):
            if not (c[o] is None or isinstance(c[o], str)):
                return False
        w = c['win']
        k = w['k']
        if k == 'int':
            return isinstance(w['i'], int)
        if k == 'slice':
            return all(w[x] is None or isinstance(w[x], int) for x in ('a', 'b', 'step'))
        if k == 'loc':
            return _valid_loc(w['l'])
        if k == 'feat':
            return isinstance(w['ls'], list) and all(_valid_loc(l) for l in w['ls'])
        if k == 'own':
            return isinstance(w['idx'], int) and w['idx'] >= 0
        if k == 'type':
            return isinstance(w['name'], str)
        return k == 'rc'
    except (KeyError, TypeError, IndexError):
        return False


# ----------------------------------------------------------------------------- relational checks (no model)

def _unordered(fts):
    """the order of the locations of an unstranded feature is not part of the property (ties / mirror image)"""
    return [[t, ls if ls[0][2] in '+-' else sorted(ls)] for t, ls in fts]


def extra_checks(rng, tier, cov):
    """rc(update_fts) twice is the identity on +/- features; two nested tracked windows equal the direct window."""
    n_rc = n_nest = 0
    for _ in range(3000 if tier == 'thorough' else 300):
        n = rng.randint(1, 30)
        data = _seq(rng, n, rng.choice(['dna', 'iupac']))
        fts = [[t, [l for l in ls]] for t, ls in _fts(rng, n, [])]
        case = {'data': data, 'fts': fts, 'u': True, 'splitter': None, 'filler': None, 'win': {'k': 'rc'}}
        a = rng.randint(0, n - 1); b = rng.randint(a + 1, n)
        c = rng.randint(0, b - a - 1); d = rng.randint(c + 1, b - a)
        case2 = dict(case, win={'k': 'slice', 'a': a + c, 'b': a + d, 'step': None})
        try:
            seq = _build(case)
            before = [str(seq), _unordered(_canon_fts(seq.fts))]
            seq.rc(update_fts=True).rc(update_fts=True)
            after = [str(seq), _unordered(_canon_fts(seq.fts))]
        except Exception as e:
            before, after = None, {'e': type(e).__name__}
        n_rc += 1
        if after != before:
            yield {'case': case, 'impl': after, 'model': None, 'noshrink': True,
                   'spec': 'rc(update_fts) twice is not the identity: %r -> %r' % (before, after)}
        try:
            seq = _build(case)
            two = seq.sl(update_fts=True)[a:b].sl(update_fts=True)[c:d]
            one = seq.sl(update_fts=True)[a + c:a + d]
            r2, r1 = [str(two), _canon_fts(two.fts)], [str(one), _canon_fts(one.fts)]
        except Exception as e:
            r2, r1 = {'e': type(e).__name__}, None
        n_nest += 1
        if r1 != r2:
            yield {'case': case2, 'impl': r2, 'model': None, 'noshrink': True,
                   'spec': 'nested windows [%d:%d][%d:%d] differ from the direct window: %r vs %r' % (a, b, c, d, r2, r1)}
    cov['relational'] = {'rc_rc_identity': n_rc, 'nested_window_composition': n_nest}
    cov['exhaustive_box'] = ('all single-location features x all int/slice/Location windows x both strands, update_fts, '
                             'sequence length <= %d' % (5 if tier == 'thorough' else 3))


LEVEL_TEXT = ('Machine-checked Coq theorems about an executable model of BioSeq._getitem/_slice_locs/rc(update_fts) and '
              'FeatureList.slice/rc: extraction by Location/Feature/type name is the 5\'->3\' concatenation of the (reverse-complemented) pieces '
              'with filler/splitter; under update_fts every surviving location addresses the same residues inside the window, survivors are '
              'exactly the overlapping locations, MISS flags are set exactly when cut, rc mirrors coordinates and flips strands; without update_fts '
              'the features are unchanged. The model is tied to sugar by differential testing on every run (exhaustive small box + random).')
LEVEL_NOTE = ('Trusted: Coq kernel/vm_compute, translator (G_codes, G_flags), the correspondence harness, CPython str/slice/sorted. '
              'Modelled rather than verified: the listed methods of seq.py/fts.py; gap=None, inplace=False, step in (None,1); ASCII strings; '
              'nucleotide alphabet for the rc clauses. Domain excludes update_fts with multi-location windows (ValueError by design); empty slice windows are inside the domain since the fix of the '
              'former empty_window defect (fixed in /repo f654eb3; witnesses kept in the corpus). '
              'All theorems closed under the global context (no axioms).')
TECHNIQUE = 'Coq proof over a hand-written Gallina model + differential correspondence + first-principles position-tracking oracle'
