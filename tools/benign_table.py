#!/venv/bin/python
"""Print a markdown table of benign/<name>/{meta,result*}.json (used for DESIGN.md section 12)."""
import os, json, glob
ROOT = os.path.dirname(os.path.dirname(os.path.abspath(__file__)))
print('| rewrite | written for | what was rewritten | files | checks run against it (all must stay green) |')
print('|---|---|---|---|---|')
for d in sorted(glob.glob(os.path.join(ROOT, 'benign', '*'))):
    m = json.load(open(os.path.join(d, 'meta.json')))
    res = []
    for r in sorted(glob.glob(os.path.join(d, 'result*.json'))):
        j = json.load(open(r))
        ok = j.get('patch_applies') and j.get('check_exit') == 0 and not j.get('violation_line')
        res.append('%s %s' % (j.get('property'), 'green' if ok else 'ALARM'))
    what = (m.get('what_changed') or '').replace('\n', ' ').replace('|', '/')
    what = what[:170] + ('...' if len(what) > 170 else '')
    print('| %s | %s | %s | %s | %s%s |' % (os.path.basename(d), m.get('property'), what, ', '.join(os.path.basename(f) for f in m.get('files_touched') or []),
                                       ', '.join(res), (' ' + m['history']) if m.get('history') else ''))
