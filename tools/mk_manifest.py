#!/venv/bin/python
"""Regenerate MANIFEST.json from the property modules in tools/props/ (run after adding a property).
usage: mk_manifest.py [--only Cxx]   (--only: refresh that property's entry, keep every other entry as committed: the texts of
other properties' modules may describe work in progress whose Coq files are not committed yet)"""
import os, sys, json, importlib
ROOT = os.path.dirname(os.path.dirname(os.path.abspath(__file__)))
sys.path.insert(0, os.path.join(ROOT, 'tools'))
props = [json.loads(l)['id'] for l in open(os.path.join(ROOT, 'properties.jsonl'))]
checks, na = [], []
only = sys.argv[sys.argv.index('--only') + 1] if '--only' in sys.argv else None
old = {}
if only:
    try:
        old = {c['property_id']: c for c in json.load(open(os.path.join(ROOT, 'MANIFEST.json')))['checks']}
    except Exception:
        old = {}
registered = open(os.path.join(ROOT, 'tools', 'registered.txt')).read().split()
for p in props:
    f = os.path.join(ROOT, 'tools', 'props', p.lower() + '.py')
    if p not in registered or not (os.path.exists(f) and os.path.exists(os.path.join(ROOT, 'coq', 'props', p + '_Props.v'))):
        na.append({'property_id': p, 'reason': 'check not built yet (see DESIGN.md section 10 build order); the technique applies, nothing is claimed until the theorems and the correspondence exist'})
        continue
    if only and p != only and p in old:
        checks.append(old[p])
        continue
    m = importlib.import_module('props.' + p.lower())
    checks.append({
        'property_id': p,
        'quick_cmd': './check %s --tier quick' % p,
        'thorough_cmd': './check %s --tier thorough' % p,
        'evidence_file': 'evidence/%s.json' % p,
        'replay_cmd_template': './check %s --replay {path}' % p,
        'engine': 'coq-proof+correspondence',
        'level_claimed': {'category': 'proof', 'text': m.LEVEL_TEXT, 'design_ref': getattr(m, 'DESIGN_REF', 'DESIGN.md section 7, ' + p)},
        'level_note': m.LEVEL_NOTE,
        'technique': getattr(m, 'TECHNIQUE', 'Coq 8.16 theorems over a Gallina model; model tied to /repo by regenerated tables and a differential correspondence check (vm_compute vs CPython)'),
    })
man = {
    'version': 1,
    'setup_cmd': './check --setup',
    'hooks': {'guard': 'SUGAR_VERIF', 'enable': 'no source hooks are needed: the harness replaces module attributes (clock, sleep, HTTP layer) at run time; SUGAR_VERIF=1 is exported by ./check but read by nothing in /repo',
              'baseline_off_cmd': 'cd /repo && /venv/bin/python -m pytest -ra -q -p no:cacheprovider --timeout=900 --continue-on-collection-errors',
              'source_commits': [], 'add_only': True},
    'engines': [{'name': 'coq-proof+correspondence', 'path': 'check', 'serves_properties': [c['property_id'] for c in checks],
                 'kind_free_text': 'Coq 8.16.1 proofs (coq/props/*_Props.v) over Gallina models (coq/model), tables regenerated from /repo by tools/gen_data.py, models run against /repo by tools/framework.py (cases_*.v + vm_compute vs CPython), property-level Python oracles for the counterexample search'}],
    'checks': checks,
    'notes': 'See DESIGN.md. Genuine defects repaired in /repo are listed in known_findings.json (status fixed) with their fix: commits; open findings are reported as KNOWN-FINDING lines.',
    'not_applicable': na,
}
json.dump(man, open(os.path.join(ROOT, 'MANIFEST.json'), 'w'), indent=1)
print('checks:', [c['property_id'] for c in checks], 'not yet:', [n['property_id'] for n in na])
