"""Shared machinery of the sugar verification checks (see DESIGN.md sections 2-4).

One run of `check <ID> --tier T`:
  1. regenerate coq/gen/*.v from /repo (tools/gen_data.py)            -> tie (translator)
  2. build coq/props/<ID>_Props.vo with make (full .vo)                  -> proof obligations
  3. hygiene gate over coq/ (no Admitted/Axiom/...)
  4. correspondence: same cases through /repo implementation and the Gallina model
     (cases_*.v shards evaluated by coqc/vm_compute)                     -> tie (correspondence)
  5. decide; on red: search for a failing input with the property-level oracle, shrink, replay
  6. evidence/<ID>.json
"""
import os, sys, re, json, time, random, hashlib, subprocess, signal, traceback, importlib, fcntl
from concurrent.futures import ThreadPoolExecutor

ROOT = os.path.dirname(os.path.dirname(os.path.abspath(__file__)))
COQ = os.path.join(ROOT, 'coq')
BUILD = os.path.join(ROOT, 'build')
REPO = os.environ.get('SUGAR_REPO', '/repo')
NPROC = min(16, os.cpu_count() or 4)

# ----------------------------------------------------------------------------- Coq term printers

_SAFE = set(range(32, 127)) - {ord('"')}


def cbytes(s):
    if isinstance(s, str):
        s = s.encode('latin-1')
    return s


def coq_bs(s):
    """Coq term of type [str] (list byte) for a Python str/bytes (Latin-1)."""
    b = cbytes(s)
    if all(c in _SAFE for c in b):
        return '(bs "%s"%%bs)' % b.decode('latin-1')
    return '(unhex (bs "%s"%%bs))' % b.hex()


def coq_z(n):
    return '(%d)%%Z' % n


def coq_nat(n):
    assert 0 <= n < 5000, n
    return '%d%%nat' % n


def coq_N(n):
    return '%d%%N' % n


def coq_bool(b):
    return 'true' if b else 'false'


def coq_list(items):
    return '[' + '; '.join(items) + ']'


def coq_opt(x, f=lambda t: t):
    return 'None' if x is None else '(Some %s)' % f(x)


def coq_pair(*xs):
    return '(' + ', '.join(xs) + ')'


# ----------------------------------------------------------------------------- model output parser

_OUT_RE = re.compile(r'=\s*"((?:[^"]|"")*)"%bs', re.S)


def _dehex(v):
    if isinstance(v, str):
        return bytes.fromhex(v).decode('latin-1')
    if isinstance(v, list):
        return [_dehex(x) for x in v]
    if isinstance(v, dict):
        return {'e': bytes.fromhex(v['e']).decode('latin-1')}
    return v


def parse_outputs(text):
    res = []
    for m in _OUT_RE.finditer(text):
        t = m.group(1).replace('""', '"').replace("'", '"')
        t = re.sub(r'\s+', '', t)
        res.append(_dehex(json.loads(t)))
    return res


# ----------------------------------------------------------------------------- running coqc

def sh(cmd, timeout=900, cwd=None):
    t0 = time.time()
    try:
        p = subprocess.run(cmd, shell=True, cwd=cwd, capture_output=True, text=True, timeout=timeout,
                           errors='replace')
        return p.returncode, p.stdout + p.stderr, time.time() - t0
    except subprocess.TimeoutExpired as e:
        return 124, 'TIMEOUT after %ss: %s' % (timeout, cmd), time.time() - t0


def run_model(prop_id, imports, terms, tag='cases', shard=400, timeout=900):
    """Evaluate Coq terms of type bstr by vm_compute; returns list of parsed values (None where missing)."""
    if not terms:
        return [], []
    # spread the work over the cores: between 50 and `shard` cases per coqc
    shard = max(50, min(shard, -(-len(terms) // NPROC)))
    d = os.path.join(BUILD, 'cases', '%s_%s_%d' % (prop_id, tag, os.getpid()))
    os.makedirs(d, exist_ok=True)
    files = []
    for k in range(0, len(terms), shard):
        fn = os.path.join(d, 'cases_%s_%d.v' % (prop_id, k // shard))
        with open(fn, 'w') as f:
            f.write('From Coq Require Import List ZArith NArith Bool.\nFrom Coq.Strings Require Import Byte.\n'
                    'Import ListNotations.\nFrom SV Require Import Text.\n')
            for imp in imports:
                f.write('From SV Require Import %s.\n' % imp)
            f.write('Set Printing Width 10000000.\nSet Printing Depth 10000000.\n')
            for t in terms[k:k + shard]:
                f.write('Eval vm_compute in (%s).\n' % t)
        files.append((fn, len(terms[k:k + shard])))

    def one(a):
        fn, n = a
        rc, outp, _ = sh('ulimit -s unlimited; timeout %d coqc -R %s SV -o %s %s' %
                         (timeout, COQ, fn[:-2] + '.vo', fn), timeout=timeout + 30)
        vals = parse_outputs(outp)
        if rc != 0 or len(vals) != n:
            return [None] * n, (fn, rc, outp[-3000:])
        return vals, None

    out, errs = [], []
    with ThreadPoolExecutor(NPROC) as ex:
        for vals, err in ex.map(one, files):
            out.extend(vals)
            if err:
                errs.append(err)
    if not errs:
        subprocess.run(['rm', '-rf', d])
    return out, errs


# ----------------------------------------------------------------------------- build

class Lock:
    def __enter__(self):
        os.makedirs(BUILD, exist_ok=True)
        self.f = open(os.path.join(BUILD, '.lock'), 'w')
        fcntl.flock(self.f, fcntl.LOCK_EX)
        return self

    def __exit__(self, *a):
        fcntl.flock(self.f, fcntl.LOCK_UN)
        self.f.close()


def write_if_changed(path, content):
    try:
        if open(path).read() == content:
            return False
    except FileNotFoundError:
        pass
    os.makedirs(os.path.dirname(path), exist_ok=True)
    with open(path + '.tmp', 'w') as f:
        f.write(content)
    os.replace(path + '.tmp', path)
    return True


def refresh_makefile():
    vs = []
    for sub in ('lib', 'gen', 'model', 'proof', 'props'):
        d = os.path.join(COQ, sub)
        if os.path.isdir(d):
            vs += sorted(os.path.join(sub, f) for f in os.listdir(d) if f.endswith('.v'))
    proj = '-R . SV\n' + '\n'.join(vs) + '\n'
    changed = write_if_changed(os.path.join(COQ, '_CoqProject'), proj)
    if changed or not os.path.exists(os.path.join(COQ, 'Makefile.coq')):
        rc, out, _ = sh('coq_makefile -f _CoqProject -o Makefile.coq', cwd=COQ)
        if rc != 0:
            raise RuntimeError('coq_makefile failed: ' + out)


def regenerate(names=()):
    """Run the translator (all generators, or only the named ones). Returns (ok, message)."""
    rc, out, _ = sh('PYTHONPATH=%s PYTHONHASHSEED=0 %s %s %s' % (REPO, sys.executable, os.path.join(ROOT, 'tools', 'gen_data.py'),
                                                                ' '.join(names)), timeout=600)
    return rc == 0, out[-4000:]


def build_targets(targets, timeout=1500):
    refresh_makefile()
    rc, out, wall = sh('timeout %d make -f Makefile.coq -j%d %s' % (timeout, NPROC, ' '.join(targets)), timeout=timeout + 30,
                       cwd=COQ)
    return rc == 0, out, wall


_ERR_RE = re.compile(r'File "\./([^"]+)", line (\d+), characters')


def first_error(log):
    m = _ERR_RE.search(log)
    if not m:
        return None
    i = log.find(m.group(0))
    return {'file': m.group(1), 'line': int(m.group(2)), 'text': log[i:i + 1500]}


_THM_RE = re.compile(r'^\s*(Theorem|Example)\s+([A-Za-z0-9_\']+)', re.M)


def theorems_in(vfile):
    src = open(vfile).read()
    return [(m.group(2), m.group(1), src.count('\n', 0, m.start()) + 1) for m in _THM_RE.finditer(src)]


def print_assumptions(prop_id):
    """Re-run coqc on the props file to capture Print Assumptions output."""
    vf = os.path.join(COQ, 'props', '%s_Props.v' % prop_id)
    outdir = os.path.join(BUILD, 'pa')
    os.makedirs(outdir, exist_ok=True)
    rc, out, wall = sh('timeout 600 coqc -R %s SV -o %s %s' % (COQ, os.path.join(outdir, '%s_Props.vo' % prop_id), vf), timeout=630)
    names = [m.group(1) for m in re.finditer(r'^\s*Print Assumptions\s+([A-Za-z0-9_\'.]+)\s*\.', open(vf).read(), re.M)]
    # split output into blocks: "Closed under the global context" or "Axioms:\n..."
    blocks = re.findall(r'(Closed under the global context|Axioms:\n(?:.+\n?)+?(?=\n(?:Closed|Axioms:)|\Z))', out)
    res = {}
    for i, n in enumerate(names):
        res[n] = blocks[i].strip() if i < len(blocks) else '?'
    return rc == 0, res, out, wall


HYG_RE = re.compile(r'\b(Admitted|admit|Axiom|Axioms|Parameter|Parameters|Conjecture|Admit Obligations|bypass_check|'
                    r'Unset\s+Guard\s+Checking|Unset\s+Positivity\s+Checking|Unset\s+Universe\s+Checking|'
                    r'type-in-type|impredicative-set)\b')


def strip_comments(src):
    out, depth, i = [], 0, 0
    while i < len(src):
        if src.startswith('(*', i):
            depth += 1
            i += 2
        elif src.startswith('*)', i) and depth:
            depth -= 1
            i += 2
        else:
            if depth == 0:
                out.append(src[i])
            elif src[i] == '\n':
                out.append('\n')
            i += 1
    return ''.join(out)


def closure(vfile):
    """.v files under coq/ that vfile transitively Requires (by module base name)."""
    index = {}
    for dp, _, fs in os.walk(COQ):
        for f in fs:
            if f.endswith('.v'):
                index[f[:-2]] = os.path.join(dp, f)
    seen, todo = {}, [vfile]
    while todo:
        p = todo.pop()
        if p in seen or not os.path.exists(p):
            continue
        seen[p] = True
        src = strip_comments(open(p).read())
        for m in re.finditer(r'(?:From\s+SV\s+)?Require\s+(?:Import\s+|Export\s+)?([^.]*(?:\.[A-Za-z_][^.]*)*)\.', src):
            for nm in m.group(1).split():
                base = nm.split('.')[-1]
                if base in index:
                    todo.append(index[base])
    return sorted(seen)


def hygiene(files=None):
    hits = []
    if files is None:
        files = []
        for dp, _, fs in os.walk(COQ):
            files += [os.path.join(dp, f) for f in fs if f.endswith('.v')]
    for p in files:
        if True:
            src = strip_comments(open(p).read())
            src_nostr = re.sub(r'"(?:[^"]|"")*"', '""', src)
            depth = 0
            for ln, line in enumerate(src_nostr.split('\n'), 1):
                if HYG_RE.search(line):
                    hits.append('%s:%d: %s' % (os.path.relpath(p, ROOT), ln, line.strip()[:100]))
                if re.match(r'\s*(Section|Module\s+Type)\s', line):
                    depth += 1
                if re.match(r'\s*End\s', line) and depth:
                    depth -= 1
                if depth == 0 and re.match(r'\s*(Variable|Variables|Hypothesis|Hypotheses|Context)\b', line):
                    hits.append('%s:%d: %s outside Section' % (os.path.relpath(p, ROOT), ln, line.strip()[:80]))
            if os.sep + 'props' + os.sep in p:
                body = re.sub(r'\s+', ' ', src)
                for sent in re.split(r'\.\s', body):
                    s = sent.strip()
                    if not s:
                        continue
                    if not re.match(r'(From|Require|Import|Export|Theorem|Example|Proof|exact|Qed|Print Assumptions|Open Scope|Local Open Scope|Set Printing)', s):
                        hits.append('%s: props file contains non-statement sentence: %s' % (os.path.relpath(p, ROOT), s[:80]))
    return hits


# ----------------------------------------------------------------------------- implementation side

class ImplTimeout(Exception):
    pass


def _alarm(signum, frame):
    raise ImplTimeout()


def canon_exc(e):
    for k in ('ValueError', 'TypeError', 'KeyError', 'IndexError', 'AttributeError', 'AssertionError',
              'FileNotFoundError', 'NotImplementedError', 'ZeroDivisionError'):
        if type(e).__name__ == k:
            return {'e': k}
    if isinstance(e, ImplTimeout):
        return {'e': 'Timeout'}
    if isinstance(e, Warning):
        return {'e': 'Warning'}
    return {'e': type(e).__name__}


def run_impl(fn, case, tmo=10.0):
    signal.signal(signal.SIGALRM, _alarm)
    signal.setitimer(signal.ITIMER_REAL, tmo)
    try:
        return fn(case)
    except ImplTimeout as e:
        return canon_exc(e)
    except Exception as e:
        return canon_exc(e)
    finally:
        signal.setitimer(signal.ITIMER_REAL, 0)


def jcanon(v):
    """JSON-normal form (tuples -> lists, bytes -> latin-1 str)."""
    if isinstance(v, (list, tuple)):
        return [jcanon(x) for x in v]
    if isinstance(v, dict):
        return {str(k): jcanon(x) for k, x in v.items()}
    if isinstance(v, bytes):
        return v.decode('latin-1')
    return v


# ----------------------------------------------------------------------------- generic shrinker

NO_SHRINK_KEYS = {'kind', 'op', 'ops', 'm', 'fmt', 'mode', 'method', 'call', 'type', 'strand', 'rf', 'tag'}


def shrink_candidates(case, keep=NO_SHRINK_KEYS):
    """Yield structurally smaller variants of a JSON-like case (values under the keys in `keep` are left alone)."""
    def rec(v):
        if isinstance(v, list):
            for i in range(len(v)):
                yield v[:i] + v[i + 1:]
            if len(v) > 3:
                yield v[:len(v) // 2]
                yield v[len(v) // 2:]
            for i, x in enumerate(v):
                for y in rec(x):
                    yield v[:i] + [y] + v[i + 1:]
        elif isinstance(v, dict):
            for k in v:
                if k.startswith('_') or k in keep:
                    continue
                for y in rec(v[k]):
                    d = dict(v)
                    d[k] = y
                    yield d
        elif isinstance(v, str):
            if len(v) > 0:
                if len(v) > 3:
                    yield v[:len(v) // 2]
                    yield v[len(v) // 2:]
                for i in range(min(len(v), 40)):
                    yield v[:i] + v[i + 1:]
        elif isinstance(v, bool):
            return
        elif isinstance(v, int):
            if v != 0:
                yield 0
                if abs(v) > 1:
                    yield v // 2
                    yield v - (1 if v > 0 else -1)
    seen = set()
    for c in rec(case):
        k = json.dumps(c, sort_keys=True)
        if k not in seen:
            seen.add(k)
            yield c


def shrink(case, still_fails, rounds=12, width=150, keep=NO_SHRINK_KEYS, valid=None):
    """still_fails: list[case] -> list[bool] (batch)."""
    cur = case
    for _ in range(rounds):
        cands = []
        for c in shrink_candidates(cur, keep):
            if valid is not None:
                try:
                    if not valid(c):
                        continue
                except Exception:
                    continue
            cands.append(c)
            if len(cands) >= width:
                break
        if not cands:
            break
        flags = still_fails(cands)
        nxt = None
        for c, f in zip(cands, flags):
            if f:
                nxt = c
                break
        if nxt is None:
            break
        cur = nxt
    return cur


# ----------------------------------------------------------------------------- the check driver

def _safe(f):
    try:
        return f()
    except Exception:
        return None


def anchored_files(prop_id):
    for l in open(os.path.join(ROOT, 'properties.jsonl')):
        d = json.loads(l)
        if d['id'] == prop_id:
            return [f for f in d['anchors']['files'] if f.endswith('.py')]
    return []


class SourceCoverage:
    """statement coverage of the anchored source files while the implementation side of the correspondence runs
    (a measured indication of how much of the modelled code the generated cases reach; reported in the evidence)"""
    def __init__(self, prop_id):
        self.files = [os.path.join(REPO, f) for f in anchored_files(prop_id)]
        self.cov = None
        self.funcs = None
        if os.environ.get('SV_NO_COVERAGE') or not self.files:
            return
        try:
            os.environ.setdefault('COVERAGE_CORE', 'sysmon')
            import coverage
            self.cov = coverage.Coverage(data_file=None, include=self.files, branch=False, config_file=False)
        except Exception:
            self.cov = None

    def __enter__(self):
        if self.cov:
            self.cov.start()
        return self

    def __exit__(self, *a):
        if self.cov:
            self.cov.stop()

    def report(self):
        if not self.cov:
            return None
        out = {}
        for f in self.files:
            try:
                _, stmts, _, missing, _ = self.cov.analysis2(f)
            except Exception:
                continue
            n = len(stmts)
            rel = os.path.relpath(f, REPO)
            out[rel] = {'statements': n, 'executed': n - len(missing),
                        'percent': round(100.0 * (n - len(missing)) / n, 1) if n else 100.0}
            # per modelled function (module attribute MODELLED_FUNCS = {file: [qualified names]})
            want = (self.funcs or {}).get(rel)
            if want:
                import ast
                tree = ast.parse(open(f).read())
                spans = {}

                def walk(node, prefix):
                    for ch in ast.iter_child_nodes(node):
                        if isinstance(ch, (ast.FunctionDef, ast.AsyncFunctionDef, ast.ClassDef)):
                            q = prefix + ch.name
                            spans[q] = (ch.lineno, ch.end_lineno)
                            walk(ch, q + '.')
                walk(tree, '')
                fn = {}
                for q in want:
                    if q not in spans:
                        fn[q] = 'NOT FOUND IN SOURCE'
                        continue
                    a, b = spans[q]
                    st = [x for x in stmts if a <= x <= b]
                    ms = [x for x in missing if a <= x <= b]
                    fn[q] = {'statements': len(st), 'executed': len(st) - len(ms), 'missing_lines': ms[:25]}
                out[rel]['modelled_functions'] = fn
        return out


def modelled_fingerprints(mod):
    """sha1 of the normalised AST of every function named in MODELLED_FUNCS (informational: tells a reader of the evidence
    which modelled functions changed textually since tools/fingerprints.json was last refreshed; never a verdict)"""
    import ast
    out = {}
    for rel, names in (getattr(mod, 'MODELLED_FUNCS', None) or {}).items():
        f = os.path.join(REPO, rel)
        try:
            tree = ast.parse(open(f).read())
        except Exception:
            continue
        spans = {}

        def walk(node, prefix):
            for ch in ast.iter_child_nodes(node):
                if isinstance(ch, (ast.FunctionDef, ast.AsyncFunctionDef, ast.ClassDef)):
                    spans[prefix + ch.name] = ch
                    walk(ch, prefix + ch.name + '.')
        walk(tree, '')
        for q in names:
            if q in spans:
                out['%s::%s' % (rel, q)] = hashlib.sha1(ast.dump(spans[q], include_attributes=False).encode()).hexdigest()[:16]
            else:
                out['%s::%s' % (rel, q)] = 'missing'
    return out


def load_known():
    p = os.path.join(ROOT, 'known_findings.json')
    if os.path.exists(p):
        return json.load(open(p))
    return []


class Result:
    def __init__(self):
        self.violations = []   # dicts
        self.known = []        # strings
        self.notes = []


def write_replay(prop_id, payload):
    os.makedirs(os.path.join(ROOT, 'replays'), exist_ok=True)
    h = hashlib.sha1(json.dumps(payload, sort_keys=True, default=str).encode()).hexdigest()[:12]
    p = os.path.join(ROOT, 'replays', '%s-%s.json' % (prop_id, h))
    with open(p, 'w') as f:
        json.dump(payload, f, indent=1, default=str)
    return p


def load_prop(prop_id):
    sys.path.insert(0, os.path.join(ROOT, 'tools'))
    return importlib.import_module('props.' + prop_id.lower())


def matches_known(mod, entry, case, implval):
    if entry.get('status') != 'open':
        return False
    feats = mod.features(case, implval) if hasattr(mod, 'features') else {}
    m = entry.get('match', {})
    return bool(m) and all(feats.get(k) == v for k, v in m.items())


def evaluate_cases(mod, cases, tag='cases', srccov=None):
    """Returns list of records {case, impl, model, wf}. model None where Coq evaluation failed."""
    if srccov is not None:
        with srccov:
            impl = [jcanon(run_impl(mod.impl, c)) for c in cases]
    else:
        impl = [jcanon(run_impl(mod.impl, c)) for c in cases]
    terms = [mod.model_term(c) for c in cases]
    mvals, errs = run_model(mod.ID, mod.COQ_IMPORTS, terms, tag=tag)
    recs = []
    for c, i, m in zip(cases, impl, mvals):
        wf = True
        mv = m
        if m is not None and hasattr(mod, 'split_model'):
            wf, mv = mod.split_model(c, m)
        elif m is None and hasattr(mod, 'split_model'):
            wf = False      # domain membership is decided by the model; unknown when the evaluation failed
        recs.append({'case': c, 'impl': i, 'model': mv, 'wf': wf, 'evaluated': m is not None})
    return recs, errs


def agree(mod, r):
    if hasattr(mod, 'agree'):
        return mod.agree(r['case'], r['impl'], r['model'])
    return r['impl'] == r['model']


def main_check(prop_id, tier, seed, replay=None):
    t0 = time.time()
    mod = load_prop(prop_id)
    res = Result()
    cov = {}
    known = [e for e in load_known() if e.get('property') == prop_id]
    broken = []          # names of obligations / ties that no longer check

    # 1. translator
    with Lock():
        ok, msg = regenerate(getattr(mod, 'GENERATORS', ['gen_codes']))
        if not ok:
            broken.append('translator tools/gen_data.py: cannot represent the source: ' + msg[-600:])
        # 2. build
        target = 'props/%s_Props.vo' % prop_id
        extra = getattr(mod, 'EXTRA_TARGETS', [])
        bok, blog, bwall = build_targets([target] + extra)
    thms = theorems_in(os.path.join(COQ, 'props', '%s_Props.v' % prop_id))
    for t in extra:
        thms += theorems_in(os.path.join(COQ, t[:-1]))
    n_obl = len([t for t in thms if t[1] == 'Theorem'])
    discharged = n_obl
    model_built = True
    if not bok:
        fe = first_error(blog) or {'file': '?', 'line': 0, 'text': blog[-1500:]}
        broken.append('coq build failed at %s:%d: %s' % (fe['file'], fe['line'], fe['text'][:700]))
        discharged = 0
        # is the model itself still compiled?
        mok, _, _ = build_targets(['model/%s_Model.vo' % prop_id])
        model_built = mok
    # Print Assumptions
    axioms = {}
    if bok:
        pok, axioms, paout, _ = print_assumptions(prop_id)
        bad = {k: v for k, v in axioms.items() if not v.startswith('Closed') and not getattr(mod, 'ALLOWED_AXIOMS', None)}
        if not pok:
            broken.append('Print Assumptions pass failed')
        for k, v in axioms.items():
            if v.startswith('Closed'):
                continue
            allowed = getattr(mod, 'ALLOWED_AXIOMS', [])
            names = re.findall(r'^([A-Za-z0-9_.\']+)\s*:', v, re.M)
            for nm in names:
                if nm.split('.')[-1] not in allowed:
                    broken.append('theorem %s depends on undeclared axiom %s' % (k, nm))
    # 3. hygiene
    hy = hygiene(closure(os.path.join(COQ, 'props', '%s_Props.v' % prop_id)))
    if hy:
        broken.append('proof base compromised: ' + '; '.join(hy[:5]))

    # thorough tier: independent re-check of the compiled closure with coqchk
    coqchk_out = None
    if tier == 'thorough' and bok and not os.environ.get('SV_NO_COQCHK') and getattr(mod, 'COQCHK', True):
        rc, cout, cw = sh('timeout 1500 coqchk -silent -o -R %s SV SV.props.%s_Props' % (COQ, prop_id), timeout=1530)
        coqchk_out = cout[-2500:]
        if rc not in (0, 124):
            broken.append('coqchk failed: ' + cout[-800:])
        cov['coqchk'] = {'rc': rc, 'wall_s': round(cw, 1), 'completed': rc == 0, 'output_tail': coqchk_out}
    elif tier == 'thorough':
        cov['coqchk'] = {'completed': False, 'reason': getattr(mod, 'COQCHK_NOTE', 'skipped (SV_NO_COQCHK or build red)')}

    # 4. cases
    gen_error = None
    rng = random.Random(seed)
    corpus = []
    cdir = os.path.join(ROOT, 'corpus', prop_id)
    if os.path.isdir(cdir):
        for f in sorted(os.listdir(cdir)):
            if f.endswith('.json'):
                d = json.load(open(os.path.join(cdir, f)))
                corpus += d if isinstance(d, list) else [d]
    if replay:
        rp = json.load(open(replay))
        cases = [rp['case']] if 'case' in rp else []
    else:
        # generators may build their inputs with the implementation itself (writers, constructors): when the tree under
        # test is broken there, that is a finding to report, not a reason to crash
        try:
            gen = list(mod.gen_cases(rng, tier))
        except Exception:
            gen_error = traceback.format_exc()
            gen = []
        cases = corpus + gen
    recs, errs = ([], [])
    srccov = SourceCoverage(prop_id)
    srccov.funcs = getattr(mod, 'MODELLED_FUNCS', None)
    if model_built:
        recs, errs = evaluate_cases(mod, cases, srccov=srccov)
        if any('inconsistent assumptions' in e[2] or 'Compiled library' in e[2] for e in errs):
            # another check rebuilt a shared library between our build and our evaluation (concurrent runs): rebuild, retry once
            with Lock():
                build_targets([target] + extra)
            recs, errs = evaluate_cases(mod, cases)
        for fn, rc, outp in errs:
            broken.append('model evaluation failed (%s rc=%s): %s' % (os.path.basename(fn), rc, outp[-500:]))
    else:
        recs = [{'case': c, 'impl': jcanon(run_impl(mod.impl, c)), 'model': None, 'wf': True, 'evaluated': False} for c in cases]

    # 5. decide
    disagreements, spec_fail, nontriv, in_domain, drift = [], [], set(), 0, 0
    hist = {}
    for r in recs:
        c = r['case']
        if r['wf']:
            in_domain += 1
            if r['evaluated'] and not agree(mod, r):
                disagreements.append(r)
            try:
                sp = mod.spec(c, r['impl']) if hasattr(mod, 'spec') else None
            except Exception as e:      # the oracle met a value of a shape no correct implementation returns
                sp = 'oracle could not evaluate the result (%s: %s)' % (type(e).__name__, str(e)[:200])
            if sp:
                r['spec'] = sp
                spec_fail.append(r)
            try:
                mk = mod.nontrivial(c, r['impl']) if hasattr(mod, 'nontrivial') else json.dumps(c, sort_keys=True)
            except Exception:
                mk = None
            if mk is not None:
                nontriv.add(json.dumps([mk, c], sort_keys=True, default=str))
        else:
            if r['evaluated'] and not agree(mod, r):
                drift += 1
        if hasattr(mod, 'histkey'):
            try:
                hk = mod.histkey(c, r['impl'])
            except Exception:
                hk = 'histkey-error'
            for k in (hk if isinstance(hk, list) else [hk]):
                hist[k] = hist.get(k, 0) + 1
    # extra relational checks (no model needed)
    relshape = {'impl': None, 'model': None, 'wf': True, 'evaluated': False, 'noshrink': True, 'relational': True}
    if hasattr(mod, 'extra_checks'):
      with srccov:
        try:
            for v in mod.extra_checks(rng, tier, cov):
                spec_fail.append(dict(relshape, **v))
        except Exception:
            tb = traceback.format_exc()
            spec_fail.append(dict(relshape, case={'_relational_check_error': tb[-3000:]},
                                  spec='a relational check raised while driving the implementation: ' + tb.strip().split('\n')[-1][:300]))
    if gen_error:
        spec_fail.append(dict(relshape, case={'_generator_error': gen_error[-3000:]},
                              spec='the case generator builds its inputs with the implementation, which raised: '
                                   + gen_error.strip().split('\n')[-1][:300]))

    def is_known(r):
        for e in known:
            if matches_known(mod, e, r['case'], r['impl']):
                return e
        return None

    failing = []           # (record, why)
    for r in spec_fail:
        failing.append((r, 'property oracle: ' + str(r.get('spec'))))
    seen_ids = set(id(r) for r in spec_fail)
    unexplained = []
    for r in disagreements:
        if id(r) in seen_ids:
            continue
        # model and implementation differ and the python oracle has no complaint: the model-side result is the
        # specification (the theorems are about it), so the differing case is reported as the failing input when the
        # build is green; otherwise it only names the correspondence.
        if bok and not getattr(mod, 'DISAGREEMENT_IS_TIE_ONLY', False):
            failing.append((r, 'implementation differs from the proved model'))
        else:
            unexplained.append(r)

    # a theorem / tie is red but no sampled case fails: let the property module search its space directly
    # (implementation + property oracle only; no model needed)
    if (broken or unexplained) and not failing and hasattr(mod, 'search_cases'):
        extra = list(mod.search_cases(broken, rng))
        cov['search_cases'] = len(extra)
        for c in extra:
            iv = jcanon(run_impl(mod.impl, c))
            sp = mod.spec(c, iv)
            if sp:
                failing.append(({'case': c, 'impl': iv, 'model': None, 'wf': True, 'evaluated': False, 'spec': sp, 'noshrink': True},
                                'property oracle (directed search): ' + str(sp)))
                break

    known_hit = {}
    real = []
    for r, why in failing:
        e = is_known(r)
        if e is not None:
            known_hit[e['what']] = e
        else:
            real.append((r, why))
    for e in known:
        if e.get('status') == 'open' and e.get('always_report'):
            known_hit[e['what']] = e
    for w in known_hit:
        print('KNOWN-FINDING: property=%s %s' % (prop_id, w))

    exit_code = 0
    if real:
        r, why = real[0]

        def still(cands):
            rs, _ = evaluate_cases(mod, cands, tag='shrink')
            out = []
            for x in rs:
                if not x['wf'] or is_known(x):
                    out.append(False)
                    continue
                sp = mod.spec(x['case'], x['impl']) if hasattr(mod, 'spec') else None
                out.append(bool(sp) or (x['evaluated'] and not agree(mod, x)))
            return out
        small = r['case']
        try:
            if not r.get('noshrink') and model_built and not getattr(mod, 'NO_SHRINK', False):
                def valid(c):
                    if hasattr(mod, 'valid_case') and not mod.valid_case(c):
                        return False
                    mod.model_term(c)
                    return True
                small = shrink(r['case'], still, keep=NO_SHRINK_KEYS | set(getattr(mod, 'NO_SHRINK_KEYS', ())), valid=valid)
        except Exception:
            traceback.print_exc()
        rs, _ = evaluate_cases(mod, [small], tag='final') if (model_built and not r.get('noshrink')) else ([r], [])
        fr = rs[0]
        payload = {'property': prop_id, 'kind': 'failing-input', 'case': fr['case'], 'observed': fr['impl'],
                   'expected_model': fr.get('model'), 'why': why if (fr.get('relational') or not hasattr(mod, 'spec') or not mod.spec(fr['case'], fr['impl'])) else 'property oracle: ' + str(mod.spec(fr['case'], fr['impl'])), 'original_case': r['case'],
                   'broken': broken + ['correspondence %s' % prop_id], 'seed': seed, 'tier': tier,
                   'python': _safe(lambda: mod.python_snippet(fr['case'])) if hasattr(mod, 'python_snippet') else None,
                   'other_failing_cases': len(real) - 1}
        p = write_replay(prop_id, payload)
        print('VIOLATION property=%s replay=%s' % (prop_id, p))
        exit_code = 1
    elif broken or unexplained:
        names = list(broken)
        if unexplained:
            names.append('correspondence %s: %d in-domain cases differ, e.g. %s' %
                         (prop_id, len(unexplained), json.dumps(unexplained[0], default=str)[:600]))
        payload = {'property': prop_id, 'kind': 'unproven', 'broken': names, 'seed': seed, 'tier': tier,
                   'note': 'no concrete failing input found among %d cases; the named theorem / tie no longer checks' % len(recs)}
        p = write_replay(prop_id, payload)
        print('VIOLATION property=%s replay=%s no-failing-input-found' % (prop_id, p))
        exit_code = 1

    # 6. evidence
    samples = [{'case': r['case'], 'impl': r['impl']} for r in recs[:2] + recs[len(corpus):len(corpus) + 3]][:5]
    coverage = {
        'obligations': max(n_obl, 1), 'discharged': discharged if n_obl else (1 if bok else 0),
        'checker_cmd': 'cd /verif/coq && make -f Makefile.coq -j%d props/%s_Props.vo && coqc -R . SV props/%s_Props.v' % (NPROC, prop_id, prop_id),
        'trusted_base': getattr(mod, 'TRUSTED', []) + [
            'Coq 8.16.1 kernel + vm_compute (no native_compute)',
            'tools/gen_data.py translator; tools/framework.py correspondence harness (differential testing, not proof)',
            'axioms reported by Print Assumptions: ' + json.dumps(axioms)],
        'theorems': [t[0] for t in thms if t[1] == 'Theorem'],
        'examples': [t[0] for t in thms if t[1] == 'Example'],
        'evaluations': len(recs), 'in_domain': in_domain, 'out_of_domain_drift': drift,
        'distinct_nontrivial': len(nontriv),
        'rule': getattr(mod, 'RULE', 'cases generated from VERIF_SEED; non-trivial = distinct case exercising a non-default branch marker'),
        'samples': samples, 'histogram': hist, 'corpus_cases': len(corpus),
        'disagreements': len(disagreements), 'oracle_failures': len(spec_fail),
        'known_findings_reported': sorted(known_hit), 'build_wall_s': round(bwall, 1),
        'exhaustive': bool(cov.get('exhaustive', False)),
    }
    coverage.update({k: v for k, v in cov.items() if k != 'exhaustive'})
    fp = modelled_fingerprints(mod)
    if fp:
        try:
            ref = json.load(open(os.path.join(ROOT, 'tools', 'fingerprints.json'))).get(prop_id, {})
        except Exception:
            ref = {}
        coverage['modelled_functions'] = len(fp)
        coverage['modelled_functions_changed_since_fingerprint'] = sorted(k for k, v in fp.items() if ref.get(k) != v)
    sc = srccov.report()
    if sc:
        coverage['anchored_source_statement_coverage'] = sc
    ev = {'property_id': prop_id, 'tier': tier, 'seed': seed, 'level': 'proof', 'coverage': coverage,
          'assumptions': getattr(mod, 'ASSUMPTIONS', []), 'wall_s': round(time.time() - t0, 2),
          'violations': 0 if exit_code == 0 else max(1, len(real))}
    # evidence is only ever written for runs against /repo itself; runs against another tree (mutation testing) go to build/
    evdir = os.path.join(ROOT, 'evidence') if os.path.realpath(REPO) == '/repo' else os.path.join(BUILD, 'evidence-other-tree')
    os.makedirs(evdir, exist_ok=True)
    with open(os.path.join(evdir, '%s.json' % prop_id), 'w') as f:
        json.dump(ev, f, indent=1, default=str)
    print('%s tier=%s seed=%d obligations=%d/%d cases=%d in_domain=%d nontrivial=%d disagreements=%d oracle_failures=%d wall=%.1fs -> %s'
          % (prop_id, tier, seed, coverage['discharged'], coverage['obligations'], len(recs), in_domain, len(nontriv),
             len(disagreements), len(spec_fail), time.time() - t0, 'OK' if exit_code == 0 else 'VIOLATION'))
    return exit_code
