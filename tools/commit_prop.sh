#!/bin/bash
# usage: commit_prop.sh Cxx "message"  -- register a property check and commit exactly its files (checkpoint).
# Safe to call concurrently from several builders: serialised by a lock; only Cxx's MANIFEST entry is refreshed.
set -e
cd /verif
P=$1; p=$(echo $P | tr 'A-Z' 'a-z')
mkdir -p build
exec 9> build/.commit.lock
flock 9
grep -qw $P tools/registered.txt || sed -i "s/$/ $P/" tools/registered.txt
/venv/bin/python tools/mk_manifest.py --only $P > /dev/null
git add tools/registered.txt MANIFEST.json
for f in coq/model/${P}_*.v coq/proof/${P}_*.v coq/props/${P}_*.v coq/lib/${P}_*.v tools/props/$p.py tools/gens/$p.py tools/gens/${p}_*.py corpus/$P evidence/$P.json; do
  [ -e $f ] && git add $f
done
git commit -qm "${2:-$P: check registered}" && git log --oneline | head -1
