#!/venv/bin/python
"""Run the checks against the seeded breaking changes in /verif/seeded/<name>/ (patch.diff, demo.py, meta.json).

For each one: scratch worktree of /repo HEAD under /tmp, apply the patch, confirm the repository tests still pass and the
demonstration fails, run `SUGAR_REPO=<worktree> ./check <property>` (and any extra properties named on the command line),
record the outcome in seeded/<name>/result.json, remove the worktree.

usage: tools/run_seeded.py [name ...] [--tier quick|thorough] [--no-tests] [--as Cxx] [--benign]
(--benign: run on /verif/benign/<name>/ instead - rewrites that keep the property; expected outcome caught=False, check exit 0)
"""
import os, sys, json, subprocess, shutil, re, time
ROOT = os.path.dirname(os.path.dirname(os.path.abspath(__file__)))
SEEDED = os.path.join(ROOT, 'benign' if '--benign' in sys.argv else 'seeded')   # --benign: behaviour-preserving rewrites, the checks must stay green


def sh(cmd, **kw):
    p = subprocess.run(cmd, shell=True, capture_output=True, text=True, **kw)
    return p.returncode, p.stdout + p.stderr


def main():
    args = [a for a in sys.argv[1:] if not a.startswith('--')]
    if '--as' in sys.argv:
        args = [a for a in args if a != sys.argv[sys.argv.index('--as') + 1]]
    tier = 'quick'
    if '--tier' in sys.argv:
        tier = sys.argv[sys.argv.index('--tier') + 1]
        args = [a for a in args if a != tier]
    names = args or sorted(os.listdir(SEEDED))
    summary = []
    for name in names:
        d = os.path.join(SEEDED, name)
        if not os.path.exists(os.path.join(d, 'patch.diff')):
            continue
        meta = json.load(open(os.path.join(d, 'meta.json')))
        prop = meta['property']
        if '--as' in sys.argv:      # run another property's check against this change (cross-property detection)
            prop = sys.argv[sys.argv.index('--as') + 1]
        wt = '/tmp/seedrun-%s-%d' % (name, os.getpid())
        sh('git -C /repo worktree add -q %s HEAD' % wt)
        res = {'name': name, 'property': prop, 'tier': tier}
        try:
            rc, out = sh('git -C %s apply %s' % (wt, os.path.join(d, 'patch.diff')))
            if rc != 0:      # the tree has moved on since the change was written (later fix: commits): try a 3-way merge
                rc, out = sh('git -C %s apply -3 %s' % (wt, os.path.join(d, 'patch.diff')))
                res['applied_3way'] = rc == 0
            res['patch_applies'] = rc == 0
            if rc != 0:
                res['error'] = out[-500:]
            else:
                if '--no-tests' not in sys.argv:
                    rc, out = sh('cd %s && PYTHONPATH=%s /venv/bin/python -m pytest -q -p no:cacheprovider --timeout=900 '
                                 '--continue-on-collection-errors sugar/tests 2>&1 | tail -1' % (wt, wt))
                    res['tests'] = out.strip()
                if os.path.exists(os.path.join(d, 'demo.py')):
                    rc, out = sh('cd %s && PYTHONPATH=%s /venv/bin/python -W ignore %s' % (wt, wt, os.path.join(d, 'demo.py')))
                    res['demo_fails_with_patch'] = rc != 0
                t0 = time.time()
                rc, out = sh('cd %s && SUGAR_REPO=%s ./check %s --tier %s' % (ROOT, wt, prop, tier))
                res['check_exit'] = rc
                res['check_wall_s'] = round(time.time() - t0, 1)
                m = re.search(r'^VIOLATION .*$', out, re.M)
                res['violation_line'] = m.group(0) if m else None
                res['caught'] = bool(m) and rc == 1
                if m:
                    rp = re.search(r'replay=(\S+)', m.group(0))
                    if rp and os.path.exists(rp.group(1)):
                        r = json.load(open(rp.group(1)))
                        res['replay_kind'] = r.get('kind')
                        res['replay_case'] = r.get('case')
                        res['replay_why'] = r.get('why') or r.get('broken')
                res['summary_line'] = out.strip().split('\n')[-1][:300]
        finally:
            sh('git -C /repo worktree remove --force %s' % wt)
        json.dump(res, open(os.path.join(d, 'result.json' if '--as' not in sys.argv else 'result_%s.json' % prop), 'w'), indent=1, default=str)
        summary.append(res)
        print('%-28s %s caught=%s kind=%s demo_fails=%s tests=%s' % (name, prop, res.get('caught'), res.get('replay_kind'),
                                                                     res.get('demo_fails_with_patch'), res.get('tests')))
    # the plain tree must be green again afterwards (also regenerates coq/gen from /repo)
    for prop in ([] if '--no-final' in sys.argv else sorted({r['property'] for r in summary})):
        rc, out = sh('cd %s && ./check %s --tier quick' % (ROOT, prop))
        print('unchanged tree: %s exit=%d' % (prop, rc))


if __name__ == '__main__':
    main()
