#!/venv/bin/python
"""Import seeded changes written by sub-agents: /tmp/seed6/<ID>/out/<k>/ -> /verif/seeded/<ID>-<base+k>/.
usage: tools/import_seeds.py <srcroot> <base> [ID ...]     (e.g. /tmp/seed6 15 C01 C05)"""
import os, sys, shutil, json
ROOT = os.path.dirname(os.path.dirname(os.path.abspath(__file__)))
src, base = sys.argv[1], int(sys.argv[2])
ids = sys.argv[3:] or sorted(os.listdir(src))
for pid in ids:
    for k in (1, 2, 3):
        d = os.path.join(src, pid, 'out', str(k))
        if not os.path.exists(os.path.join(d, 'patch.diff')):
            continue
        dst = os.path.join(ROOT, 'seeded', '%s-%d' % (pid, base + k))
        os.makedirs(dst, exist_ok=True)
        for f in ('patch.diff', 'demo.py', 'meta.json'):
            if os.path.exists(os.path.join(d, f)):
                shutil.copy(os.path.join(d, f), os.path.join(dst, f))
        m = json.load(open(os.path.join(dst, 'meta.json')))
        m['property'] = pid
        m['wave'] = int(os.environ.get('SEED_WAVE', '6'))
        json.dump(m, open(os.path.join(dst, 'meta.json'), 'w'), indent=1)
        print('imported', dst)
