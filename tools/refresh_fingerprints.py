#!/venv/bin/python
"""Record the AST fingerprints of all MODELLED_FUNCS of all registered properties in tools/fingerprints.json.
Run (and commit) after the models have been validated against the current /repo, i.e. when all checks are green."""
import os, sys, json
ROOT = os.path.dirname(os.path.dirname(os.path.abspath(__file__)))
sys.path.insert(0, os.path.join(ROOT, 'tools'))
os.environ.setdefault('PYTHONPATH', '/repo')
import framework as F
out = {}
for p in open(os.path.join(ROOT, 'tools', 'registered.txt')).read().split():
    out[p] = F.modelled_fingerprints(F.load_prop(p))
json.dump(out, open(os.path.join(ROOT, 'tools', 'fingerprints.json'), 'w'), indent=1, sort_keys=True)
print({k: len(v) for k, v in out.items()})
