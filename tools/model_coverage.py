#!/venv/bin/python
"""Which functions of /repo/sugar are inside some property's Coq model?  Reads MODELLED_FUNCS of every tools/props/cXX.py and
the AST of every non-test module of sugar/, prints one line per function: file, qualified name, statements, properties modelling it.
usage: tools/model_coverage.py [--missing] [--md]"""
import os, sys, ast, importlib, json
ROOT = os.path.dirname(os.path.dirname(os.path.abspath(__file__)))
sys.path.insert(0, os.path.join(ROOT, 'tools'))
REPO = os.environ.get('SUGAR_REPO', '/repo')
sys.path.insert(0, REPO)
owners = {}
for l in open(os.path.join(ROOT, 'properties.jsonl')):
    pid = json.loads(l)['id']
    try:
        m = importlib.import_module('props.' + pid.lower())
    except Exception as e:
        print('cannot import', pid, e, file=sys.stderr)
        continue
    for f, names in getattr(m, 'MODELLED_FUNCS', {}).items():
        for n in names:
            owners.setdefault((f, n), []).append(pid)
rows = []
for dp, dn, fn in os.walk(os.path.join(REPO, 'sugar')):
    if 'tests' in dp.split(os.sep):
        continue
    for f in sorted(fn):
        if not f.endswith('.py'):
            continue
        path = os.path.join(dp, f)
        rel = os.path.relpath(path, REPO)
        tree = ast.parse(open(path).read())

        def walk(node, prefix):
            for ch in node.body:
                if isinstance(ch, (ast.FunctionDef, ast.AsyncFunctionDef)):
                    q = prefix + ch.name
                    n = sum(isinstance(x, ast.stmt) for x in ast.walk(ch)) - 1
                    rows.append((rel, q, n, owners.get((rel, q), [])))
                    walk(ch, q + '.')
                elif isinstance(ch, ast.ClassDef):
                    walk(ch, prefix + ch.name + '.')
        walk(tree, '')
unknown = [k for k in owners if not any(r[0] == k[0] and r[1] == k[1] for r in rows)]
tot = sum(r[2] for r in rows)
cov = sum(r[2] for r in rows if r[3])
if '--md' in sys.argv:
    byfile = {}
    for r in rows:
        a = byfile.setdefault(r[0], [0, 0, 0, 0])
        a[0] += 1; a[1] += bool(r[3]); a[2] += r[2]; a[3] += r[2] if r[3] else 0
    print('| file | functions | in a model | statements | statements of modelled functions |')
    print('|---|---|---|---|---|')
    for f in sorted(byfile):
        a = byfile[f]
        print('| `%s` | %d | %d | %d | %d |' % (f, a[0], a[1], a[2], a[3]))
    print('| **total** | %d | %d | %d | %d |' % (len(rows), sum(bool(r[3]) for r in rows), tot, cov))
else:
    for r in rows:
        if '--missing' in sys.argv and r[3]:
            continue
        print('%-34s %-46s %4d  %s' % (r[0], r[1], r[2], ' '.join(r[3]) or '-'))
    print('functions: %d, modelled by some property: %d; statements in function bodies: %d, of modelled functions: %d (%.0f %%)'
          % (len(rows), sum(bool(r[3]) for r in rows), tot, cov, 100.0 * cov / max(tot, 1)))
if unknown:
    print('MODELLED_FUNCS entries that name no function of the tree:', unknown, file=sys.stderr)
