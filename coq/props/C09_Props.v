(* C09 -- FASTA index returns exactly the indexed (sub)sequences. Only statements here; proofs in proof/C09_*.v. *)
From Coq Require Import List Arith ZArith NArith Bool.
From Coq.Strings Require Import Byte.
Import ListNotations.
From SV Require Import Text C09_Model C09_Lemmas C09_Extract C09_Record C09_Box C09_Unterm.

(* P0 (DESIGN appendix A): for every line width, newline sequence and residue string, stripping the newline bytes from the bytes
   [off i, off j) of the wrapped text, off x = x + (x / w) * |nl| (fastaindex.py:118,132), gives s[i:j] *)
Theorem C09_slice_through_wrap : forall (isnl : byte -> bool) (nl : str) (w : nat),
  0 < w -> forallb isnl nl = true ->
  forall (s : str) (i j : nat), i <= j -> j <= length s -> forallb (fun c => negb (isnl c)) s = true ->
  filter (fun c => negb (isnl c))
         (firstn (off nl w j - off nl w i) (skipn (off nl w i) (wrap_from nl w 0 s)))
  = firstn (j - i) (skipn i s).
Proof. exact slice_through_wrap. Qed.
Print Assumptions C09_slice_through_wrap.

(* P0: dbm values survive _pack/_unpack for file numbers and line lengths below 65536 and any offset *)
Theorem C09_pack_unpack : forall fn ll st : N, (fn < 65536)%N -> (ll < 65536)%N ->
  exists b, pack fn ll st = Some b /\ unpack b = (fn, ll, st).
Proof. exact pack_unpack. Qed.
Print Assumptions C09_pack_unpack.

(* F15 (open finding), the refuted half: a line length of 65536 or more cannot be packed (OverflowError in dbm mode) *)
Theorem C09_pack_overflow_refuted : forall fn ll st : N, (65536 <= ll)%N -> pack fn ll st = None.
Proof. exact pack_overflow. Qed.
Print Assumptions C09_pack_overflow_refuted.

(* P0 extract_record: a well-formed record anywhere in a file, followed by nothing or by the next record, with the entry
   (line length, offset) the scanner stores for it: the header query returns the header line, the whole-record query the
   record text, a range query the header line followed by bytes whose non-newline content is s[i:j] -- the end clipped to
   the record, the empty string for a start at or beyond the end. *)
Theorem C09_extract_record : forall mode crlf (r : arec) (pre post : str),
  wf_rec mode (length (nl_of crlf)) r = true ->
  (post = [] \/ exists p, post = GT :: p) ->
  let nl := nl_of crlf in
  let f := pre ++ render_rec nl r ++ post in
  let ll := if length (rseq r) <=? rw r then 0 else rw r + length nl in
  extract f ll (length pre) QHeader = Ok (header_line nl r)
  /\ extract f ll (length pre) QFull = Ok (render_rec nl r)
  /\ forall oi oj : option nat,
       (match oi, oj with Some i, Some j => i <= j | _, _ => True end) ->
       exists data,
         extract f ll (length pre) (QRange (option_map Z.of_nat oi) (option_map Z.of_nat oj)) = Ok (header_line nl r ++ data)
         /\ filter nonnl data
            = (let i := match oi with Some i => i | None => 0 end in
               match oj with Some j => firstn (j - i) (skipn i (rseq r)) | None => skipn i (rseq r) end).
Proof. exact extract_record. Qed.
Print Assumptions C09_extract_record.

(* the same for any byte region W of a record whose newline-free content is s (covers a last record without final newline:
   W ++ tl is the terminated body), in terms of the compensation function of the code *)
Theorem C09_extract_range_region : forall pre hrest nl W post : str,
  nl = [LF] \/ nl = [CR; LF] ->
  forallb nonnl hrest = true -> forallb notGT W = true ->
  (post = [] \/ exists p, post = GT :: p) ->
  forall (s tl : str) (linelen : nat),
  filter nonnl tl = [] -> filter nonnl W = s -> (linelen = 0 \/ length nl < linelen) ->
  (forall x, x <= length s -> filter nonnl (firstn (cmp nl linelen x) (W ++ tl)) = firstn x s) ->
  forall oi oj : option nat,
  (match oi, oj with Some i, Some j => i <= j | _, _ => True end) ->
  exists data,
    extract (file pre hrest nl W post) linelen (start pre) (QRange (option_map Z.of_nat oi) (option_map Z.of_nat oj))
      = Ok (hl hrest nl ++ data)
    /\ filter nonnl data = slice s oi oj.
Proof. exact extract_range. Qed.
Print Assumptions C09_extract_range_region.

(* the last record of a file WITHOUT final newline (render_file crlf false = preceding records ++ the last record minus its
   last line terminator, first conjunct): range queries on it return the header line plus bytes whose newline-free content
   is s[i:j], for a non-empty sequence.  (A last record with an empty sequence and no newline after its header is covered by
   the enumerated box and the correspondence only.) *)
Theorem C09_extract_range_unterminated : forall mode crlf (rs : list arec) (r : arec) (oi oj : option nat),
  wf_rec mode (length (nl_of crlf)) r = true -> rseq r <> [] ->
  (match oi, oj with Some i, Some j => i <= j | _, _ => True end) ->
  let nl := nl_of crlf in
  let rr := render_rec nl r in
  let pre := render_recs nl rs in
  let f := pre ++ firstn (length rr - length nl) rr in
  let ll := if length (rseq r) <=? rw r then 0 else rw r + length nl in
  render_file crlf false (rs ++ [r]) = f
  /\ exists data,
    extract f ll (length pre) (QRange (option_map Z.of_nat oi) (option_map Z.of_nat oj)) = Ok (header_line nl r ++ data)
    /\ filter nonnl data
       = (let i := match oi with Some i => i | None => 0 end in
          match oj with Some j => firstn (j - i) (skipn i (rseq r)) | None => skipn i (rseq r) end).
Proof. exact (fun mode crlf rs r oi oj Hwf Hne Hij => conj (render_file_unterminated crlf rs r) (extract_range_unterminated mode crlf r (render_recs (nl_of crlf) rs) oi oj Hwf Hne Hij)). Qed.
Print Assumptions C09_extract_range_unterminated.

(* file numbers: every entry of the index built from the registered files (in REGISTRATION order, file numbers counted from 0)
   carries the position of the very file whose scan produced it, so FastaIndex._search, which opens files[fn] of the same
   list (fastaindex.py:294), reads the offsets in the right file.  (That a reopened index reads the same list back from its
   header is not modelled; it is checked by the correspondence with files registered against the order of their names.) *)
Theorem C09_scan_files_registered : forall (reg : list str) es, scan_files reg 0 = Ok es ->
  forall e, In e es ->
  exists f es', nth_error reg (e_fn e) = Some f /\ scan_file f (e_fn e) = Ok es' /\ In e es'.
Proof. exact (fun reg es H e He => match scan_files_registered reg 0 es H e He with conj _ (ex_intro _ f (ex_intro _ es' (conj N R))) => ex_intro _ f (ex_intro _ es' (conj (eq_ind _ (fun n => nth_error reg n = Some f) N _ (PeanoNat.Nat.sub_0_r (e_fn e))) R)) end). Qed.
Print Assumptions C09_scan_files_registered.

(* P1 scan_index + index_get_spec, bounded: for every file of the box (width 1-5, 0-11 residues, LF/CRLF, with/without final
   newline, record alone/first/middle/last: 960 files) the scanner yields exactly one entry per record with the offsets and
   line lengths assumed by C09_extract_record, and get on the resulting index returns upper(s[i:j]) for every range
   0 <= i < j <= n+3, every open start/end and the whole record, in both modes.  By complete enumeration (vm_compute);
   the unbounded scan_index statement is not proved (checked by the correspondence only). *)
Theorem C09_index_get_box : forall c, In c box_cfgs -> cfg_ok MODE_BINARY c = true /\ cfg_ok MODE_DB c = true.
Proof. exact index_get_box. Qed.
Print Assumptions C09_index_get_box.

Example C09_box_size : length box_cfgs = 960.
Proof. exact box_size. Qed.

(* non-vacuity: a CRLF record of 12 residues at width 5 between two other records; the range 3..8 crosses a line break,
   9..30 is clipped, 20..30 starts beyond the end *)
Example C09_witness :
  let r := ARec (bs "a"%bs) (bs " d"%bs) (bs "ACGTACGTACGT"%bs) 5 in
  let f := [FAbs true true [ARec (bs "p"%bs) [] (bs "TT"%bs) 3; r; ARec (bs "q"%bs) [] (bs "GGGG"%bs) 2]] in
  wf_rec MODE_DB 2 r = true
  /\ wf_C09 MODE_DB 0 true [0] f [Query 0 (bs "a"%bs) (Some (Some 3%Z, Some 8%Z))] = true
  /\ out (run_C09 MODE_DB 0 true [0] f [Query 0 (bs "a"%bs) (Some (Some 3%Z, Some 8%Z)); Query 0 (bs "a"%bs) (Some (Some 9%Z, Some 30%Z));
                                     Query 0 (bs "a"%bs) (Some (Some 20%Z, Some 30%Z))])
     = out (VL [VB true; VL [VL [VI 44; VI 3386509425]];
                VL [VI 3; VL [VL [VS (bs "a"%bs); VS (bs "a d"%bs); VS (bs "TACGT"%bs)];
                              VL [VS (bs "a"%bs); VS (bs "a d"%bs); VS (bs "CGT"%bs)];
                              VL [VS (bs "a"%bs); VS (bs "a d"%bs); VS []]]]]).
Proof. exact witness_run. Qed.
