(* C09 -- FASTA index returns exactly the indexed (sub)sequences. Only statements here; proofs in proof/C09_*.v. *)
From Coq Require Import List Arith ZArith NArith Bool Sorted Permutation.
From Coq.Strings Require Import Byte.
Import ListNotations.
From SV Require Import Text C09_Model C09_Lemmas C09_Extract C09_Record C09_Box C09_Unterm C09_Scan C09_Parse C09_Get C09_GetAll C09_Header C09_Read C09_Store C09_Sort C09_Layout C09_Hist C09_Agree C09_Iter.

(* P0 (DESIGN appendix A): for every line width, newline sequence and residue string, stripping the newline bytes from the bytes
   [off i, off j) of the wrapped text, off x = x + (x / w) * |nl| (fastaindex.py:118,132), gives s[i:j] *)
Theorem C09_slice_through_wrap : forall (isnl : byte -> bool) (nl : str) (w : nat),
  0 < w -> forallb isnl nl = true ->
  forall (s : str) (i j : nat), i <= j -> j <= length s -> forallb (fun c => negb (isnl c)) s = true ->
  filter (fun c => negb (isnl c))
         (firstn (off nl w j - off nl w i) (skipn (off nl w i) (wrap_from nl w 0 s)))
  = firstn (j - i) (skipn i s).
Proof. exact slice_through_wrap. Qed.
Print Assumptions C09_slice_through_wrap.

(* P0: dbm values survive _pack/_unpack for file numbers and line lengths below 65536 and any offset *)
Theorem C09_pack_unpack : forall fn ll st : N, (fn < 65536)%N -> (ll < 65536)%N ->
  exists b, pack fn ll st = Some b /\ unpack b = (fn, ll, st).
Proof. exact pack_unpack. Qed.
Print Assumptions C09_pack_unpack.

(* F15 (open finding), the refuted half: a line length of 65536 or more cannot be packed (OverflowError in dbm mode) *)
Theorem C09_pack_overflow_refuted : forall fn ll st : N, (65536 <= ll)%N -> pack fn ll st = None.
Proof. exact pack_overflow. Qed.
Print Assumptions C09_pack_overflow_refuted.

(* P0 extract_record: a well-formed record anywhere in a file, followed by nothing or by the next record, with the entry
   (line length, offset) the scanner stores for it: the header query returns the header line, the whole-record query the
   record text, a range query the header line followed by bytes whose non-newline content is s[i:j] -- the end clipped to
   the record, the empty string for a start at or beyond the end. *)
Theorem C09_extract_record : forall mode crlf (r : arec) (pre post : str),
  wf_rec mode (length (nl_of crlf)) r = true ->
  (post = [] \/ exists p, post = GT :: p) ->
  let nl := nl_of crlf in
  let f := pre ++ render_rec nl r ++ post in
  let ll := if length (rseq r) <=? rw r then 0 else rw r + length nl in
  extract f ll (length pre) QHeader = Ok (header_line nl r)
  /\ extract f ll (length pre) QFull = Ok (render_rec nl r)
  /\ forall oi oj : option nat,
       (match oi, oj with Some i, Some j => i <= j | _, _ => True end) ->
       exists data,
         extract f ll (length pre) (QRange (option_map Z.of_nat oi) (option_map Z.of_nat oj)) = Ok (header_line nl r ++ data)
         /\ filter nonnl data
            = (let i := match oi with Some i => i | None => 0 end in
               match oj with Some j => firstn (j - i) (skipn i (rseq r)) | None => skipn i (rseq r) end).
Proof. exact extract_record. Qed.
Print Assumptions C09_extract_record.

(* the same for any byte region W of a record whose newline-free content is s (covers a last record without final newline:
   W ++ tl is the terminated body), in terms of the compensation function of the code *)
Theorem C09_extract_range_region : forall pre hrest nl W post : str,
  nl = [LF] \/ nl = [CR; LF] ->
  forallb nonnl hrest = true -> forallb notGT W = true ->
  (post = [] \/ exists p, post = GT :: p) ->
  forall (s tl : str) (linelen : nat),
  filter nonnl tl = [] -> filter nonnl W = s -> (linelen = 0 \/ length nl < linelen) ->
  (forall x, x <= length s -> filter nonnl (firstn (cmp nl linelen x) (W ++ tl)) = firstn x s) ->
  forall oi oj : option nat,
  (match oi, oj with Some i, Some j => i <= j | _, _ => True end) ->
  exists data,
    extract (file pre hrest nl W post) linelen (start pre) (QRange (option_map Z.of_nat oi) (option_map Z.of_nat oj))
      = Ok (hl hrest nl ++ data)
    /\ filter nonnl data = slice s oi oj.
Proof. exact extract_range. Qed.
Print Assumptions C09_extract_range_region.

(* the last record of a file WITHOUT final newline (render_file crlf false = preceding records ++ the last record minus its
   last line terminator, first conjunct): range queries on it return the header line plus bytes whose newline-free content
   is s[i:j], for a non-empty sequence.  (A last record with an empty sequence and no newline after its header is covered by
   the enumerated box and the correspondence only.) *)
Theorem C09_extract_range_unterminated : forall mode crlf (rs : list arec) (r : arec) (oi oj : option nat),
  wf_rec mode (length (nl_of crlf)) r = true -> rseq r <> [] ->
  (match oi, oj with Some i, Some j => i <= j | _, _ => True end) ->
  let nl := nl_of crlf in
  let rr := render_rec nl r in
  let pre := render_recs nl rs in
  let f := pre ++ firstn (length rr - length nl) rr in
  let ll := if length (rseq r) <=? rw r then 0 else rw r + length nl in
  render_file crlf false (rs ++ [r]) = f
  /\ exists data,
    extract f ll (length pre) (QRange (option_map Z.of_nat oi) (option_map Z.of_nat oj)) = Ok (header_line nl r ++ data)
    /\ filter nonnl data
       = (let i := match oi with Some i => i | None => 0 end in
          match oj with Some j => firstn (j - i) (skipn i (rseq r)) | None => skipn i (rseq r) end).
Proof. exact (fun mode crlf rs r oi oj Hwf Hne Hij => conj (render_file_unterminated crlf rs r) (extract_range_unterminated mode crlf r (render_recs (nl_of crlf) rs) oi oj Hwf Hne Hij)). Qed.
Print Assumptions C09_extract_range_unterminated.

(* file numbers: every entry of the index built from the registered files (in REGISTRATION order, file numbers counted from 0)
   carries the position of the very file whose scan produced it, so FastaIndex._search, which opens files[fn] of the same
   list (fastaindex.py:294), reads the offsets in the right file.  (That a reopened index reads the same list back from its
   header is not modelled; it is checked by the correspondence with files registered against the order of their names.) *)
Theorem C09_scan_files_registered : forall (reg : list str) es, scan_files reg 0 = Ok es ->
  forall e, In e es ->
  exists f es', nth_error reg (e_fn e) = Some f /\ scan_file f (e_fn e) = Ok es' /\ In e es'.
Proof. exact (fun reg es H e He => match scan_files_registered reg 0 es H e He with conj _ (ex_intro _ f (ex_intro _ es' (conj N R))) => ex_intro _ f (ex_intro _ es' (conj (eq_ind _ (fun n => nth_error reg n = Some f) N _ (PeanoNat.Nat.sub_0_r (e_fn e))) R)) end). Qed.
Print Assumptions C09_scan_files_registered.

(* P1 scan_index + index_get_spec, bounded: for every file of the box (width 1-5, 0-11 residues, LF/CRLF, with/without final
   newline, record alone/first/middle/last: 960 files) the scanner yields exactly one entry per record with the offsets and
   line lengths assumed by C09_extract_record, and get on the resulting index returns upper(s[i:j]) for every range
   0 <= i < j <= n+3, every open start/end and the whole record, in both modes.  By complete enumeration (vm_compute);
   the unbounded scan_index statement is not proved (checked by the correspondence only). *)
Theorem C09_index_get_box : forall c, In c box_cfgs -> cfg_ok MODE_BINARY c = true /\ cfg_ok MODE_DB c = true.
Proof. exact index_get_box. Qed.
Print Assumptions C09_index_get_box.

Example C09_box_size : length box_cfgs = 960.
Proof. exact box_size. Qed.

(* P1 scan_index, UNBOUNDED: for every non-empty list of well-formed records (any widths, sequence lengths incl. empty, LF or
   CRLF) rendered with a final newline, the scanner yields exactly one entry per record: its id, the file number, the byte
   offset of its '>' and the line length C09_extract_record assumes (0 unless the residues continue after the first line) *)
Theorem C09_scan_index : forall mode crlf (rs : list arec) (fn : nat),
  rs <> [] -> Forall (fun r => wf_rec mode (length (nl_of crlf)) r = true) rs ->
  scan_file (render_file crlf true rs) fn = Ok (expected_from (nl_of crlf) fn 0 rs).
Proof. exact scan_index. Qed.
Print Assumptions C09_scan_index.

(* the same for a file WITHOUT final newline, including a last record that is only a header without newline *)
Theorem C09_scan_index_unterminated : forall mode crlf (init : list arec) (r : arec) (fn : nat),
  Forall (fun r => wf_rec mode (length (nl_of crlf)) r = true) (init ++ [r]) ->
  scan_file (render_file crlf false (init ++ [r])) fn = Ok (expected_from (nl_of crlf) fn 0 (init ++ [r])).
Proof. exact scan_index_unterminated. Qed.
Print Assumptions C09_scan_index_unterminated.

(* the remaining unterminated case: a last record with an empty sequence whose header has no newline; the scanner stores
   (id, 0, offset) for it and every query returns the header and no residues *)
Theorem C09_degenerate_last_record : forall (pre hrest id : str),
  forallb nonnl hrest = true -> forallb notGT hrest = true -> first_word hrest = Some id ->
  (forall fn, scan_step (pre ++ GT :: hrest) fn (length pre) = Ok (Entry id fn 0 (length pre), None))
  /\ forall q : qkind,
       (match q with QRange (Some i) _ => (0 <= i)%Z | _ => True end) ->
       (match q with QRange _ (Some j) => (0 <= j)%Z | _ => True end) ->
       extract (pre ++ GT :: hrest) 0 (length pre) q = Ok (GT :: hrest).
Proof. exact (fun pre hrest id H1 H2 H3 => conj (scan_step_degenerate pre hrest id H1 H3) (extract_degenerate pre hrest H1 H2)). Qed.
Print Assumptions C09_degenerate_last_record.

(* the FASTA reader on the extracted text, UNBOUNDED: a header line of a well-formed record followed by any bytes made of
   residues and line terminators (a CR only directly before LF or at the very end) parses to the record id, the stripped
   header and the upper-cased residues *)
Theorem C09_parse_extracted : forall mode crlf (r : arec) (data : str),
  wf_rec mode (length (nl_of crlf)) r = true -> forallb datab data = true -> cr_ok data = true ->
  parse_get (header_line (nl_of crlf) r ++ data)
  = Ok (Some (rid r), strip_ws (rid r ++ rdesc r ++ nl_of crlf), upper (filter nonnl data)).
Proof. exact parse_extracted. Qed.
Print Assumptions C09_parse_extracted.

(* FastaIndex.get on a record = extraction composed with the reader: the whole-record query gives (id, header, upper(s)),
   every range query (id, header, upper(s[i:j])) with Python's clipping *)
Theorem C09_get_record : forall mode crlf (r : arec) (pre post : str),
  wf_rec mode (length (nl_of crlf)) r = true ->
  (post = [] \/ exists p, post = GT :: p) ->
  let nl := nl_of crlf in
  let f := pre ++ render_rec nl r ++ post in
  let ll := linelen_of crlf r in
  (exists txt, extract f ll (length pre) QFull = Ok txt
               /\ parse_get txt = Ok (Some (rid r), hdr crlf r, upper (rseq r)))
  /\ forall oi oj : option nat,
       (match oi, oj with Some i, Some j => i <= j | _, _ => True end) ->
       exists txt, extract f ll (length pre) (QRange (option_map Z.of_nat oi) (option_map Z.of_nat oj)) = Ok txt
                   /\ parse_get txt = Ok (Some (rid r), hdr crlf r, upper (sl (rseq r) oi oj)).
Proof. exact get_record. Qed.
Print Assumptions C09_get_record.

(* P1 index_get_spec, UNBOUNDED end to end on the model: any set of well-formed files (registration order = list order, every
   file with final newline, any number of records, widths, LF/CRLF per file), ids distinct over the set; binary mode, or dbm
   mode with fewer than 65536 files.  The index is what the scanner yields; len(index) is the number of records; for every
   record of every file get_fastaheader returns its header line, get_fasta its text, get (id, header, upper(s)) and
   get (id, i, j) (id, header, upper(s[i:j])) with Python's clipping -- identically in both modes. *)
Theorem C09_index_get_spec : forall mode (fs : list afile),
  (mode = MODE_BINARY \/ (mode = MODE_DB /\ (N.of_nat (length fs) < 65536)%N)) ->
  Forall (wf_afile mode) fs -> NoDup (all_ids fs) ->
  let reg := map afile_bytes fs in
  let es := entries_from 0 fs in
  scan_files reg 0 = Ok es
  /\ distinct_ids es [] = length (all_ids fs)
  /\ forall k crlf rs1 r rs2, nth_error fs k = Some (crlf, rs1 ++ r :: rs2) ->
     let nl := nl_of crlf in
     (forall rng, answer mode reg es (Query 2 (rid r) rng) = VS (header_line nl r))
     /\ answer mode reg es (Query 1 (rid r) None) = VS (render_rec nl r)
     /\ answer mode reg es (Query 0 (rid r) None) = VL [VS (rid r); VS (hdr crlf r); VS (upper (rseq r))]
     /\ forall oi oj : option nat,
          (match oi, oj with Some i, Some j => i <= j | None, None => False | _, _ => True end) ->
          answer mode reg es (Query 0 (rid r) (Some (option_map Z.of_nat oi, option_map Z.of_nat oj)))
          = VL [VS (rid r); VS (hdr crlf r); VS (upper (sl (rseq r) oi oj))].
Proof. exact index_get_spec. Qed.
Print Assumptions C09_index_get_spec.

Example C09_index_get_spec_witness :
  Forall (wf_afile MODE_DB) ex_files /\ NoDup (all_ids ex_files) /\ (N.of_nat (length ex_files) < 65536)%N.
Proof. exact ex_files_ok. Qed.

(* the binary-search and the dbm back end return identical answers: for EVERY query (any api, any range, also malformed ones)
   on an id of the index, whenever file numbers and line lengths fit the two-byte dbm fields (the stores themselves are
   trusted; reopening is not modelled) *)
Theorem C09_modes_agree : forall (files : list str) (es : list entry) (q : query),
  (forall e, In e es -> (N.of_nat (e_fn e) < 65536)%N /\ (N.of_nat (e_linelen e) < 65536)%N) ->
  lookup (q_id q) es None <> None ->
  answer MODE_BINARY files es q = answer MODE_DB files es q.
Proof. exact modes_agree. Qed.
Print Assumptions C09_modes_agree.

(* get on the last record (non-empty sequence) of a file without final newline: header, whole record and ranges *)
Theorem C09_get_record_unterminated : forall mode crlf (r : arec) (pre : str),
  wf_rec mode (length (nl_of crlf)) r = true -> rseq r <> [] ->
  let nl := nl_of crlf in
  let rr := render_rec nl r in
  let U := firstn (length rr - length nl) rr in
  let f := pre ++ U in
  let ll := linelen_of crlf r in
  extract f ll (length pre) QHeader = Ok (header_line nl r)
  /\ (exists txt, extract f ll (length pre) QFull = Ok txt /\ txt = U
                  /\ parse_get txt = Ok (Some (rid r), hdr crlf r, upper (rseq r)))
  /\ forall oi oj : option nat,
       (match oi, oj with Some i, Some j => i <= j | _, _ => True end) ->
       exists txt, extract f ll (length pre) (QRange (option_map Z.of_nat oi) (option_map Z.of_nat oj)) = Ok txt
                   /\ parse_get txt = Ok (Some (rid r), hdr crlf r, upper (sl (rseq r) oi oj)).
Proof. exact get_record_unterminated. Qed.
Print Assumptions C09_get_record_unterminated.

(* index_get_spec for BOTH values of the trailing-newline flag, any number of files: rtext is the record as it stands in the
   file (the last record of a file without final newline lacks its last line terminator), rhline its first line *)
Theorem C09_index_get_spec_all : forall mode (fs : list gfile),
  (mode = MODE_BINARY \/ (mode = MODE_DB /\ (N.of_nat (length fs) < 65536)%N)) ->
  Forall (wf_gfile mode) fs -> NoDup (all_ids (map g_strip fs)) ->
  let reg := map gfile_bytes fs in
  let es := entries_from 0 (map g_strip fs) in
  scan_files reg 0 = Ok es
  /\ distinct_ids es [] = length (all_ids (map g_strip fs))
  /\ forall k crlf final rs1 r rs2, nth_error fs k = Some (crlf, final, rs1 ++ r :: rs2) ->
     (forall rng, answer mode reg es (Query 2 (rid r) rng) = VS (rhline crlf final rs2 r))
     /\ answer mode reg es (Query 1 (rid r) None) = VS (rtext crlf final rs2 r)
     /\ answer mode reg es (Query 0 (rid r) None) = VL [VS (rid r); VS (hdr crlf r); VS (upper (rseq r))]
     /\ forall oi oj : option nat,
          (match oi, oj with Some i, Some j => i <= j | None, None => False | _, _ => True end) ->
          answer mode reg es (Query 0 (rid r) (Some (option_map Z.of_nat oi, option_map Z.of_nat oj)))
          = VL [VS (rid r); VS (hdr crlf r); VS (upper (sl (rseq r) oi oj))].
Proof. exact index_get_spec_all. Qed.
Print Assumptions C09_index_get_spec_all.

(* "reading the file": the whole-file FASTA reader on a rendered file (either newline style, with or without final newline)
   yields the records in order as (id, stripped header, upper-cased residues) *)
Theorem C09_read_file : forall mode crlf final (rs : list arec),
  Forall (fun r => wf_rec mode (length (nl_of crlf)) r = true) rs ->
  read_fasta (render_file crlf final rs) = Ok (map (fun r => (Some (rid r), hdr crlf r, upper (rseq r))) rs).
Proof. exact read_file. Qed.
Print Assumptions C09_read_file.

(* "the index returns the same sequence as reading the file and slicing [i:j]", on the model: for every record of every file
   the reader yields an element (id, h, d) at the record's position, get returns it, and get (id, i, j) returns d[i:j] *)
Theorem C09_index_equals_read : forall mode (fs : list gfile),
  (mode = MODE_BINARY \/ (mode = MODE_DB /\ (N.of_nat (length fs) < 65536)%N)) ->
  Forall (wf_gfile mode) fs -> NoDup (all_ids (map g_strip fs)) ->
  forall k f rs1 r rs2, nth_error fs k = Some f -> g_recs f = rs1 ++ r :: rs2 ->
  exists recs h d,
    read_fasta (gfile_bytes f) = Ok recs /\ nth_error recs (length rs1) = Some (Some (rid r), h, d)
    /\ answer mode (map gfile_bytes fs) (entries_from 0 (map g_strip fs)) (Query 0 (rid r) None) = VL [VS (rid r); VS h; VS d]
    /\ forall oi oj : option nat,
         (match oi, oj with Some i, Some j => i <= j | None, None => False | _, _ => True end) ->
         answer mode (map gfile_bytes fs) (entries_from 0 (map g_strip fs))
                (Query 0 (rid r) (Some (option_map Z.of_nat oi, option_map Z.of_nat oj)))
         = VL [VS (rid r); VS h; VS (sl d oi oj)].
Proof. exact index_equals_read. Qed.
Print Assumptions C09_index_equals_read.

(* "also after the index is reopened": the header that add() writes (path, file names in REGISTRATION order; binary mode pads
   the path and prefixes the version line) parsed by _read_header gives back the same path and the same file list in the same
   order, in both modes -- so a reopened index resolves file numbers in the list they were assigned in.  (A header that
   lists the files in another order, seeded change C09-1, violates exactly this.)  The record store itself is trusted. *)
Theorem C09_header_roundtrip : forall mode headerstart path files,
  wf_header mode headerstart path files = true ->
  read_header mode (stored_header mode headerstart path files) = Some (path, files).
Proof. exact header_roundtrip. Qed.
Print Assumptions C09_header_roundtrip.

Example C09_header_witness :
  wf_header MODE_BINARY (bs "SugarFASTAindex v0.1.0, sugar v0.4.1"%bs ++ [LF]) (bs "{dbpath}/"%bs) [bs "zebra.fasta"%bs; bs "apple 2.fa"%bs] = true.
Proof. exact eq_refl. Qed.

(* non-vacuity: a CRLF record of 12 residues at width 5 between two other records; the range 3..8 crosses a line break,
   9..30 is clipped, 20..30 starts beyond the end *)
Example C09_witness :
  let r := ARec (bs "a"%bs) (bs " d"%bs) (bs "ACGTACGTACGT"%bs) 5 in
  let f := [FAbs true true [ARec (bs "p"%bs) [] (bs "TT"%bs) 3; r; ARec (bs "q"%bs) [] (bs "GGGG"%bs) 2]] in
  wf_rec MODE_DB 2 r = true
  /\ wf_C09 MODE_DB 0 true [0] f [Query 0 (bs "a"%bs) (Some (Some 3%Z, Some 8%Z))] = true
  /\ out (run_C09 MODE_DB 0 true [0] f [Query 0 (bs "a"%bs) (Some (Some 3%Z, Some 8%Z)); Query 0 (bs "a"%bs) (Some (Some 9%Z, Some 30%Z));
                                     Query 0 (bs "a"%bs) (Some (Some 20%Z, Some 30%Z))])
     = out (VL [VB true; VL [VL [VI 44; VI 3386509425; VL [VL [VS (bs "p"%bs); VS (bs "p"%bs); VS (bs "TT"%bs)]; VL [VS (bs "a"%bs); VS (bs "a d"%bs); VS (bs "ACGTACGTACGT"%bs)]; VL [VS (bs "q"%bs); VS (bs "q"%bs); VS (bs "GGGG"%bs)]]]];
                VL [VI 3; VL [VL [VS (bs "a"%bs); VS (bs "a d"%bs); VS (bs "TACGT"%bs)];
                              VL [VS (bs "a"%bs); VS (bs "a d"%bs); VS (bs "CGT"%bs)];
                              VL [VS (bs "a"%bs); VS (bs "a d"%bs); VS []]]]]).
Proof. exact witness_run. Qed.

(* ===================================================================== round 7: the index FILE as state (model/C09_Store.v) *)

(* the order of the binary search file records (Python tuple comparison: id bytes, then file number, line length, offset) is a
   total order: reflexive, antisymmetric, transitive, total *)
Theorem C09_record_order : (forall a, entry_le a a) /\ (forall a b, entry_le a b -> entry_le b a -> a = b)
  /\ (forall a b c, entry_le a b -> entry_le b c -> entry_le a c) /\ (forall a b, entry_le a b \/ entry_le b a).
Proof. exact (conj entry_le_refl (conj entry_le_antisym (conj entry_le_trans (fun a b => match entry_leb a b as x return entry_leb a b = x -> _ with true => fun E => or_introl E | false => fun E => or_intror (entry_le_total a b E) end eq_refl)))). Qed.
Print Assumptions C09_record_order.

(* sorted(data) in BinarySearchFile.write: the result is sorted and a permutation of the records written, and it is THE sorted
   permutation -- any list that is sorted and a permutation of the data equals it (so the model's insertion sort stands for
   whatever algorithm sorted() uses) *)
Theorem C09_sorted_records : forall data : list entry,
  StronglySorted entry_le (sort_e data) /\ Permutation (sort_e data) data
  /\ forall recs, StronglySorted entry_le recs -> Permutation recs data -> recs = sort_e data.
Proof. exact (fun data => conj (sort_sorted data) (conj (sort_perm data) (sorted_records data))). Qed.
Print Assumptions C09_sorted_records.

(* _binarysearch(f, x, hi): for EVERY key function that is sorted (non-strictly) on 0..n-1 and every x it terminates with the
   lower bound: the k <= n such that exactly the keys before k are smaller than x.  Unbounded in n. *)
Theorem C09_bsearch_lower_bound : forall (key : nat -> str) (n : nat) (x : str),
  (forall i j, i <= j -> j < n -> str_le (key i) (key j)) ->
  exists k, bsearch key x n = Some k /\ k <= n
            /\ (forall i, i < k -> str_cmp (key i) x = Lt) /\ (forall i, k <= i -> i < n -> str_cmp (key i) x <> Lt).
Proof. exact bsearch_lower_bound_gen. Qed.
Print Assumptions C09_bsearch_lower_bound.

(* BinarySearchFile.search/get (FastaIndex._search in binary mode): on every sorted record list, of any length, the lookup of a
   non-empty id returns the FIRST record of the file with that id if there is one and raises ValueError otherwise *)
Theorem C09_bsf_get_first : forall recs id, StronglySorted entry_le recs -> id <> [] ->
  bsf_get recs id = match find (fun e => str_eqb (e_id e) id) recs with
                    | Some e => Ok e
                    | None => Err (bs "ValueError"%bs)
                    end.
Proof. exact bsf_get_first. Qed.
Print Assumptions C09_bsf_get_first.

(* found iff present; not found (ValueError) iff absent *)
Theorem C09_bsf_get_iff : forall recs id, StronglySorted entry_le recs -> id <> [] ->
  ((exists e, In e recs /\ e_id e = id) <-> exists e, bsf_get recs id = Ok e)
  /\ ((forall e, In e recs -> e_id e <> id) <-> bsf_get recs id = Err (bs "ValueError"%bs)).
Proof. exact bsf_get_iff. Qed.
Print Assumptions C09_bsf_get_iff.

(* several records with the same id (a file added again): the least one in the tuple order is returned *)
Theorem C09_bsf_get_min : forall recs id e, StronglySorted entry_le recs -> id <> [] -> bsf_get recs id = Ok e ->
  In e recs /\ e_id e = id /\ forall e', In e' recs -> e_id e' = id -> entry_le e e'.
Proof. exact bsf_get_min. Qed.
Print Assumptions C09_bsf_get_min.

(* non-vacuity: ids that are prefixes of each other, upper case before lower case, a duplicate id *)
Example C09_store_witness :
  let data := [Entry (bs "b"%bs) 0 0 9; Entry (bs "ab"%bs) 1 4 0; Entry (bs "a"%bs) 0 4 20; Entry (bs "B"%bs) 2 0 0; Entry (bs "ab"%bs) 0 7 3] in
  sort_e data = [Entry (bs "B"%bs) 2 0 0; Entry (bs "a"%bs) 0 4 20; Entry (bs "ab"%bs) 0 7 3; Entry (bs "ab"%bs) 1 4 0; Entry (bs "b"%bs) 0 0 9]
  /\ bsf_get (sort_e data) (bs "ab"%bs) = Ok (Entry (bs "ab"%bs) 0 7 3)
  /\ bsf_get (sort_e data) (bs "aa"%bs) = Err (bs "ValueError"%bs).
Proof. exact (conj eq_refl (conj eq_refl eq_refl)). Qed.

(* ---------------------------------------------------------------------- histories: FastaIndex as a state machine.
   env = the FASTA files (relative name, abstract well-formed file); an operation is add(files, force) / reopen / get / len /
   files; the state holds the object fields path and files, the binary index file (header + sorted records) and the dbm.
   Hypotheses of the three theorems: mode is binary or dbm, file names distinct and well-formed (no comma, line feed, outer
   white space; ASCII), files well-formed for the mode, the index path well-formed. *)

(* the invariant holds after EVERY history (induction over the operations): path unchanged, registered files duplicate-free
   and among the given files; the binary file's header is the header of exactly the registered list, its records are sorted
   and each one was produced by the scan of the file registered under its file number (prov); every dbm value is the
   _pack of such a record stored under its id, and the dbm header is that of the registered list *)
Theorem C09_hist_invariant : forall mode hs path (env : list (str * gfile)),
  (mode = MODE_BINARY \/ mode = MODE_DB) -> NoDup (map fst env) ->
  Forall (fun nf => wf_gfile mode (snd nf)) env -> Forall (fun nf => name_ok (fst nf) = true) env ->
  wf_header mode hs path [] = true ->
  forall ops, inv mode path env (fst (run_ops mode hs (benv env) (init_state path) ops)).
Proof. exact (fun mode hs path env Hm Hnd Hwf Hn Hp ops => hist_invariant mode hs path env Hm Hnd Hwf Hn Hp ops _ (inv_init mode path env)). Qed.
Print Assumptions C09_hist_invariant.

(* "also after the index is reopened": after every history, opening the index again (path and file list parsed back from the
   stored header) gives exactly the same state -- hence the same answer to every later operation *)
Theorem C09_reopen_same : forall mode hs path (env : list (str * gfile)),
  (mode = MODE_BINARY \/ mode = MODE_DB) -> NoDup (map fst env) ->
  Forall (fun nf => wf_gfile mode (snd nf)) env -> Forall (fun nf => name_ok (fst nf) = true) env ->
  wf_header mode hs path [] = true ->
  forall ops, let s := fst (run_ops mode hs (benv env) (init_state path) ops) in
  fst (step mode hs (benv env) s OReopen) = s.
Proof. exact (fun mode hs path env Hm Hnd Hwf Hn Hp ops => reopen_same mode hs path env Hm Hwf Hn Hp _ (hist_invariant mode hs path env Hm Hnd Hwf Hn Hp ops _ (inv_init mode path env))). Qed.
Print Assumptions C09_reopen_same.

(* end to end over histories, both back ends: after ANY sequence of add (any files, any order, force or not, the same file
   again) / reopen / get / len operations, whatever id the index finds (binary search in the sorted records, or the dbm key)
   answers get_fastaheader / get_fasta / get / get(id, i, j) with the header line, the text, the upper-cased residues and
   the slice s[i:j] (Python clipping) of the record with that id in the file registered under the stored file number *)
Theorem C09_hist_get_sound : forall mode hs path (env : list (str * gfile)),
  (mode = MODE_BINARY \/ mode = MODE_DB) -> NoDup (map fst env) ->
  Forall (fun nf => wf_gfile mode (snd nf)) env -> Forall (fun nf => name_ok (fst nf) = true) env ->
  wf_header mode hs path [] = true -> (N.of_nat (length env) < 65536)%N ->
  forall ops id fn ll st,
  let s := fst (run_ops mode hs (benv env) (init_state path) ops) in
  id <> [] -> id <> HEADER_KEY -> lookup_entry mode s id = Ok (fn, ll, st) ->
  exists nm crlf final rs1 r rs2,
    nth_error (st_files s) fn = Some nm /\ In (nm, (crlf, final, rs1 ++ r :: rs2)) env /\ rid r = id
    /\ (forall rng, snd (step mode hs (benv env) s (OGet (Query 2 id rng))) = VS (rhline crlf final rs2 r))
    /\ snd (step mode hs (benv env) s (OGet (Query 1 id None))) = VS (rtext crlf final rs2 r)
    /\ snd (step mode hs (benv env) s (OGet (Query 0 id None))) = VL [VS id; VS (hdr crlf r); VS (upper (rseq r))]
    /\ forall oi oj : option nat,
         (match oi, oj with Some i, Some j => i <= j | None, None => False | _, _ => True end) ->
         snd (step mode hs (benv env) s (OGet (Query 0 id (Some (option_map Z.of_nat oi, option_map Z.of_nat oj)))))
         = VL [VS id; VS (hdr crlf r); VS (upper (sl (rseq r) oi oj))].
Proof. exact hist_get_sound. Qed.
Print Assumptions C09_hist_get_sound.

Example C09_hist_witness : forall mode, mode = MODE_BINARY \/ mode = MODE_DB ->
  NoDup (map fst ex_env) /\ Forall (fun nf => wf_gfile mode (snd nf)) ex_env
  /\ Forall (fun nf => name_ok (fst nf) = true) ex_env /\ wf_header mode ex_hs (bs "{dbpath}/"%bs) [] = true
  /\ (N.of_nat (length ex_env) < 65536)%N
  /\ lookup_entry mode (fst (run_ops mode ex_hs (benv ex_env) (init_state (bs "{dbpath}/"%bs)) [OAdd [1] false; OAdd [0] true; OReopen]))
                  (bs "B"%bs) = Ok (0, 4, 10).
Proof. exact hist_witness. Qed.

(* ---------------------------------------------------------------------- byte layouts *)

(* F15 exactly: _pack/_unpack round-trip iff file number and line length are below 65536 (any offset) *)
Theorem C09_pack_iff : forall fn ll st : N,
  (exists b, pack fn ll st = Some b /\ unpack b = (fn, ll, st)) <-> (fn < 65536 /\ ll < 65536)%N.
Proof. exact pack_iff. Qed.
Print Assumptions C09_pack_iff.

(* ... and the dbm store hands a record back unchanged in exactly that case, raising OverflowError otherwise *)
Theorem C09_stored_db_iff : forall e : entry,
  (stored MODE_DB e = Ok (e_fn e, e_linelen e, e_start e) <-> (N.of_nat (e_fn e) < 65536 /\ N.of_nat (e_linelen e) < 65536)%N)
  /\ (stored MODE_DB e = Err (bs "OverflowError"%bs) <-> (65536 <= N.of_nat (e_fn e) \/ 65536 <= N.of_nat (e_linelen e))%N).
Proof. exact stored_db_iff. Qed.
Print Assumptions C09_stored_db_iff.

(* one fixed-width record of the binary search file: id left-justified with blanks, three big-endian integers; any column
   widths that fit the record (fits), any id without blanks: the encoding has the record size and decodes to the record *)
Theorem C09_record_roundtrip : forall (sz : sizes) (e : entry), fits sz e -> no_byte SP (e_id e) = true ->
  exists b, enc_rec sz e = Some b /\ length b = recsize sz /\ dec_rec sz b = e.
Proof. exact record_roundtrip. Qed.
Print Assumptions C09_record_roundtrip.

(* the whole index file: for any header and any records (ids without blanks, not empty) the bytes write() produces --
   magic, the two offsets, header, field table, sorted fixed-width records with the column widths write() computes -- parse
   back: read_header() gives the header, read() the sorted records; whenever offsets and widths fit their two-byte fields *)
Theorem C09_file_roundtrip : forall (hdr : str) (data : list entry),
  (N.of_nat (length hdr) + 22 < 65536)%N -> sizes_small (bsf_sizes data) ->
  Forall (fun e => no_byte SP (e_id e) = true /\ e_id e <> []) data ->
  exists f, bsf_file hdr data = Some f /\ bsf_parse f = Some (hdr, bsf_sizes data, sort_e data).
Proof. exact file_roundtrip. Qed.
Print Assumptions C09_file_roundtrip.

(* reopening at the byte level for every state a history can reach (inv: C09_hist_invariant): the index file parses back to
   exactly the stored header and the records of the state *)
Theorem C09_hist_file_roundtrip : forall mode hs path (env : list (str * gfile)) s h recs,
  Forall (fun nf => wf_gfile mode (snd nf)) env -> inv mode path env s -> st_bin s = Some (h, recs) ->
  (N.of_nat (length (hs ++ h)) + 22 < 65536)%N -> sizes_small (bsf_sizes recs) ->
  exists f, bsf_file (hs ++ h) recs = Some f /\ bsf_parse f = Some (hs ++ h, bsf_sizes recs, recs).
Proof. exact hist_file_roundtrip. Qed.
Print Assumptions C09_hist_file_roundtrip.

Example C09_layout_witness :
  let data := [Entry (bs "b"%bs) 0 0 300; Entry (bs "ab"%bs) 1 4000 0; Entry (bs "a"%bs) 0 4 20] in
  (N.of_nat (length ex_hs) + 22 < 65536)%N /\ sizes_small (bsf_sizes data) /\ bsf_sizes data = (2, 1, 2, 2)
  /\ Forall (fun e => no_byte SP (e_id e) = true /\ e_id e <> []) data
  /\ option_map (@length byte) (bsf_file ex_hs data) = Some (8 + length ex_hs + 14 + 3 * 7).
Proof. exact layout_witness. Qed.

(* ---------------------------------------------------------------------- histories, with ids distinct over the file set *)

(* completeness: once an add call naming file k has been accepted (existing files; binary: the index is empty or force is
   given, and with force the index file exists), every record of file k is found -- for ever after, whatever operations
   follow (further add calls, refused ones, the same file again, reopening); with C09_hist_get_sound: and answered correctly *)
Theorem C09_hist_get_complete : forall mode hs path (env : list (str * gfile)),
  (mode = MODE_BINARY \/ mode = MODE_DB) -> NoDup (map fst env) ->
  Forall (fun nf => wf_gfile mode (snd nf)) env -> Forall (fun nf => name_ok (fst nf) = true) env ->
  wf_header mode hs path [] = true -> (N.of_nat (length env) < 65536)%N ->
  NoDup (concat (map (fun nf => map rid (g_recs (snd nf))) env)) ->
  forall ops1 ks force ops2 k nm f r,
  let s1 := fst (run_ops mode hs (benv env) (init_state path) ops1) in
  (forall k', In k' ks -> k' < length env) -> refused mode s1 force = false -> missing mode s1 force = false ->
  In k ks -> nth_error env k = Some (nm, f) -> In r (g_recs f) ->
  let s := fst (run_ops mode hs (benv env) (init_state path) (ops1 ++ OAdd ks force :: ops2)) in
  exists fn ll st, lookup_entry mode s (rid r) = Ok (fn, ll, st).
Proof. exact hist_get_complete. Qed.
Print Assumptions C09_hist_get_complete.

(* "the binary-search and dbm back ends return identical answers, also after the index is reopened": the same history run on
   a binary index and on a dbm index (both: every add call is one the binary index accepts; reopen operations included):
   the registered files are equal, an id is found by one back end iff it is found by the other, with the same file number,
   line length and offset, and every query on it gets the same answer *)
Theorem C09_hist_modes_agree : forall hs path (env : list (str * gfile)),
  NoDup (map fst env) -> Forall (fun nf => wf_gfile MODE_DB (snd nf)) env -> Forall (fun nf => name_ok (fst nf) = true) env ->
  wf_header MODE_BINARY hs path [] = true -> (N.of_nat (length env) < 65536)%N ->
  NoDup (concat (map (fun nf => map rid (g_recs (snd nf))) env)) ->
  forall sb sd id, both hs path env sb sd -> id <> [] -> id <> HEADER_KEY ->
  st_files sb = st_files sd
  /\ (forall x, lookup_entry MODE_BINARY sb id = Ok x <-> lookup_entry MODE_DB sd id = Ok x)
  /\ forall q x, q_id q = id -> lookup_entry MODE_BINARY sb id = Ok x ->
       snd (step MODE_BINARY hs (benv env) sb (OGet q)) = snd (step MODE_DB hs (benv env) sd (OGet q)).
Proof. exact (fun hs path env H1 H2 H3 H4 H5 H6 sb sd id B N1 N2 => conj (proj1 (proj2 (proj2 (both_agree hs path env H1 H2 H3 H4 H5 H6 sb sd B)))) (hist_modes_agree hs path env H1 H2 H3 H4 H5 H6 sb sd id B N1 N2)). Qed.
Print Assumptions C09_hist_modes_agree.

(* non-vacuity of [both]: add, add with force, reopen on both back ends *)
Example C09_both_witness :
  both ex_hs (bs "{dbpath}/"%bs) ex_env
       (fst (run_ops MODE_BINARY ex_hs (benv ex_env) (init_state (bs "{dbpath}/"%bs)) [OAdd [1] false; OAdd [0] true; OReopen]))
       (fst (run_ops MODE_DB ex_hs (benv ex_env) (init_state (bs "{dbpath}/"%bs)) [OAdd [1] false; OAdd [0] true; OReopen]))
  /\ NoDup (concat (map (fun nf => map rid (g_recs (snd nf))) ex_env)).
Proof. exact both_witness. Qed.

(* "whole-record, header-only and range queries agree; a too-large end is clipped to the record": after every history, for
   every id the index finds, in either mode: the header-only answer is the first line of the whole-record text; that text
   parses (FASTA reader) to exactly what get(id) returns; get(id, i, j) is the slice [i:j] of the residues get(id) returns,
   with the same id and header; an end at or beyond the record length gives the same as an open end; (0, len) is the whole *)
Theorem C09_hist_queries_agree : forall mode hs path (env : list (str * gfile)),
  (mode = MODE_BINARY \/ mode = MODE_DB) -> NoDup (map fst env) ->
  Forall (fun nf => wf_gfile mode (snd nf)) env -> Forall (fun nf => name_ok (fst nf) = true) env ->
  wf_header mode hs path [] = true -> (N.of_nat (length env) < 65536)%N ->
  forall ops id fn ll st,
  let s := fst (run_ops mode hs (benv env) (init_state path) ops) in
  id <> [] -> id <> HEADER_KEY -> lookup_entry mode s id = Ok (fn, ll, st) ->
  exists hline rest h d,
    (forall rng, snd (step mode hs (benv env) s (OGet (Query 2 id rng))) = VS hline)
    /\ snd (step mode hs (benv env) s (OGet (Query 1 id None))) = VS (hline ++ rest)
    /\ parse_get (hline ++ rest) = Ok (Some id, h, d)
    /\ snd (step mode hs (benv env) s (OGet (Query 0 id None))) = VL [VS id; VS h; VS d]
    /\ (forall oi oj : option nat,
         (match oi, oj with Some i, Some j => i <= j | None, None => False | _, _ => True end) ->
         snd (step mode hs (benv env) s (OGet (Query 0 id (Some (option_map Z.of_nat oi, option_map Z.of_nat oj)))))
         = VL [VS id; VS h; VS (sl d oi oj)])
    /\ (forall oi j, length d <= j -> sl d oi (Some j) = sl d oi None)
    /\ sl d (Some 0) (Some (length d)) = d.
Proof. exact hist_queries_agree. Qed.
Print Assumptions C09_hist_queries_agree.

(* len(FastaIndex): after every history both back ends accept (with at least one accepted add call), the dbm index reports
   the number of distinct records it holds (Ld duplicate-free), the binary index the number of records in its file; both
   hold the same records, so the two numbers are equal whenever the binary file holds no record twice (no file added again) *)
Theorem C09_hist_len : forall hs path (env : list (str * gfile)),
  NoDup (map fst env) -> Forall (fun nf => wf_gfile MODE_DB (snd nf)) env -> Forall (fun nf => name_ok (fst nf) = true) env ->
  wf_header MODE_BINARY hs path [] = true -> (N.of_nat (length env) < 65536)%N ->
  NoDup (concat (map (fun nf => map rid (g_recs (snd nf))) env)) ->
  forall sb sd, both hs path env sb sd -> st_db sd <> [] ->
  exists Lb Ld,
    snd (step MODE_BINARY hs (benv env) sb OLen) = VI (Z.of_nat (length Lb))
    /\ snd (step MODE_DB hs (benv env) sd OLen) = VI (Z.of_nat (length Ld))
    /\ (forall e, In e Lb <-> has MODE_BINARY sb e) /\ (forall e, In e Ld <-> has MODE_DB sd e) /\ NoDup Ld
    /\ (forall e, In e Lb <-> In e Ld) /\ (NoDup Lb -> length Lb = length Ld).
Proof. exact hist_len. Qed.
Print Assumptions C09_hist_len.

(* ---------------------------------------------------------------------- iter results *)

(* FastaIndex.iter / iter_fasta / iter_fastaheader (and get / get_fasta / get_fastaheader built on them) with a list of plain
   ids and (id, i, j) triples: for every list that is not the three-item list with a triple in the middle, the call yields the
   answers of the single queries in order when all succeed, and otherwise ends with the exception of the first failing item
   (what each single answer is: C09_hist_get_sound) *)
Theorem C09_iter_spec : forall mode hs env s api items, quirk items = false ->
  let single it := snd (step mode hs env s (OGet (item_query api it))) in
  (forallb (fun it => negb (is_err (single it))) items = true -> iter_answers mode hs env s api items = VL (map single items))
  /\ (forall pre it post k, items = pre ++ it :: post -> forallb (fun x => negb (is_err (single x))) pre = true ->
        single it = VE k -> iter_answers mode hs env s api items = VE k).
Proof. exact iter_spec. Qed.
Print Assumptions C09_iter_spec.

(* ... and a list of exactly three items with a triple in the middle is taken by _search for ONE (id, start, stop) query whose
   start is a tuple (fastaindex.py:279-281): after the lookup of the first id the header-only form answers with that header
   line alone, the other forms end in TypeError *)
Theorem C09_iter_quirk : forall mode hs env s api a id i j c,
  iter_answers mode hs env s api [QId a; QTriple id i j; c]
  = match snd (step mode hs env s (OGet (Query api a None))) with
    | VE k => VE k
    | v => if N.eqb api 2 then VL [v] else VE (bs "TypeError"%bs)
    end.
Proof. exact iter_quirk. Qed.
Print Assumptions C09_iter_quirk.
