(* C08 -- Location and feature geometry: slicing, mirroring and ordering are exact.
   Only statements here; proofs are in proof/C08_Lemmas.v, C08_Geom.v, C08_Depth.v, C08_Compose.v and C08_Operands.v. *)
From Coq Require Import List ZArith NArith Bool Permutation.
From Coq.Strings Require Import Byte.
Import ListNotations.
From SV Require Import Text G_flags C08_Model C08_Lemmas C08_Geom C08_Depth C08_Compose C08_Operands.
Local Open Scope Z_scope.

(* the regenerated flag values are what the hand-written model assumes: '+' and '-' are the stranded members,
   the eight Defect members are eight distinct single bits filling 0..255 *)
Theorem C08_flags_pins :
  S_FORWARD = cPlus /\ S_REVERSE = cMinus /\ S_NONE <> S_UNKNOWN /\ is_strand cPlus = true /\ is_strand cMinus = true /\
  strand_reverse S_NONE = S_NONE /\ strand_reverse S_UNKNOWN = S_UNKNOWN /\
  forallb (fun p => Nat.eqb (popcount (snd p)) 1) defect_members = true /\
  length defect_members = 8%nat /\ all_flags = 255%N /\
  defect_members = [(bs "MISS_LEFT"%bs, D_MISS_LEFT); (bs "MISS_RIGHT"%bs, D_MISS_RIGHT);
                    (bs "BEYOND_LEFT"%bs, D_BEYOND_LEFT); (bs "BEYOND_RIGHT"%bs, D_BEYOND_RIGHT);
                    (bs "UNKNOWN_LEFT"%bs, D_UNKNOWN_LEFT); (bs "UNKNOWN_RIGHT"%bs, D_UNKNOWN_RIGHT);
                    (bs "BETWEEN_CONSECUTIVE"%bs, D_BETWEEN_CONSECUTIVE); (bs "UNKNOWN_SINGLE_BETWEEN"%bs, D_UNKNOWN_SINGLE_BETWEEN)].
Proof. exact flags_pins. Qed.
Print Assumptions C08_flags_pins.

(* Strand._reverse swaps forward and reverse, fixes the unstranded members, is an involution *)
Theorem C08_strand_reverse : forall c, is_strand c = true ->
  is_strand (strand_reverse c) = true /\ strand_reverse (strand_reverse c) = c /\
  (c = S_FORWARD -> strand_reverse c = S_REVERSE) /\ (c = S_REVERSE -> strand_reverse c = S_FORWARD) /\
  (c <> S_FORWARD -> c <> S_REVERSE -> strand_reverse c = c).
Proof. exact strand_reverse_full. Qed.
Print Assumptions C08_strand_reverse.

(* Defect._reverse on each of the 256 bit sets: involution, swaps the three left/right pairs, keeps the other bits *)
Theorem C08_defect_reverse : forall d, (d < 256)%N ->
  defect_reverse (defect_reverse d) = d /\
  has_flag (defect_reverse d) D_MISS_LEFT = has_flag d D_MISS_RIGHT /\
  has_flag (defect_reverse d) D_MISS_RIGHT = has_flag d D_MISS_LEFT /\
  has_flag (defect_reverse d) D_BEYOND_LEFT = has_flag d D_BEYOND_RIGHT /\
  has_flag (defect_reverse d) D_BEYOND_RIGHT = has_flag d D_BEYOND_LEFT /\
  has_flag (defect_reverse d) D_UNKNOWN_LEFT = has_flag d D_UNKNOWN_RIGHT /\
  has_flag (defect_reverse d) D_UNKNOWN_RIGHT = has_flag d D_UNKNOWN_LEFT /\
  N.land (defect_reverse d) rest_mask = N.land d rest_mask /\
  (defect_reverse d < 256)%N.
Proof. exact defect_reverse_spec. Qed.
Print Assumptions C08_defect_reverse.

(* ... and on an arbitrary bit set (IntFlag keeps unknown bits): involution, acts on the low eight bits as in the table,
   leaves every higher bit alone, swaps the three left/right pairs *)
Theorem C08_defect_reverse_all : forall d,
  defect_reverse (defect_reverse d) = d /\
  N.land (defect_reverse d) 255 = defect_reverse (N.land d 255) /\
  N.shiftr (defect_reverse d) 8 = N.shiftr d 8 /\
  has_flag (defect_reverse d) D_MISS_LEFT = has_flag d D_MISS_RIGHT /\
  has_flag (defect_reverse d) D_MISS_RIGHT = has_flag d D_MISS_LEFT /\
  has_flag (defect_reverse d) D_BEYOND_LEFT = has_flag d D_BEYOND_RIGHT /\
  has_flag (defect_reverse d) D_BEYOND_RIGHT = has_flag d D_BEYOND_LEFT /\
  has_flag (defect_reverse d) D_UNKNOWN_LEFT = has_flag d D_UNKNOWN_RIGHT /\
  has_flag (defect_reverse d) D_UNKNOWN_RIGHT = has_flag d D_UNKNOWN_LEFT.
Proof. exact defect_reverse_all. Qed.
Print Assumptions C08_defect_reverse_all.

(* Location(start, stop, strand, ...) is rejected exactly for start >= stop or a strand that is not a Strand member *)
Theorem C08_location_constructor : forall a b s d m,
  (mk_location a b s d m = None <-> (a >= b \/ is_strand s = false)) /\
  (forall l, mk_location a b s d m = Some l -> l = mkLoc a b s d m /\ loc_ok l = true).
Proof. exact location_constructor. Qed.
Print Assumptions C08_location_constructor.

(* ---- slicing ---- *)
(* one location [x,y), any window [a,b) (also empty or inverted), shift r: kept iff the two intervals share a position,
   which for a non-empty window is x<b and y>a and never happens for b <= a; a kept location is the clipped location *)
Theorem C08_slice_loc_exact : forall a b r l, loc_ok l = true ->
  slice_loc a b r l = (if overlaps_win a b l then Keep (clip a b r l) else Drop) /\
  (overlaps_win a b l = true <-> exists p, lstart l <= p < lstop l /\ a <= p < b) /\
  (a < b -> (overlaps_win a b l = true <-> lstart l < b /\ lstop l > a)) /\
  (b <= a -> overlaps_win a b l = false).
Proof. exact slice_loc_full. Qed.
Print Assumptions C08_slice_loc_exact.

(* the clipped location: [max a x - r, min b y - r), same strand and metadata; MISS_LEFT is set iff it was set or the
   left side was cut (x < a), MISS_RIGHT iff it was set or y > b; every other bit is unchanged *)
Theorem C08_clip_spec : forall a b r l,
  let l' := clip a b r l in
  lstart l' = Z.max a (lstart l) - r /\ lstop l' = Z.min b (lstop l) - r /\ lstrand l' = lstrand l /\ lmeta l' = lmeta l /\
  has_flag (ldefect l') D_MISS_LEFT = has_flag (ldefect l) D_MISS_LEFT || (lstart l <? a) /\
  has_flag (ldefect l') D_MISS_RIGHT = has_flag (ldefect l) D_MISS_RIGHT || (lstop l >? b) /\
  (forall k, N.land D_MISS_LEFT k = 0%N -> N.land D_MISS_RIGHT k = 0%N -> N.land (ldefect l') k = N.land (ldefect l) k).
Proof. exact clip_spec. Qed.
Print Assumptions C08_clip_spec.

(* FeatureList.slice(start, stop, rel) on features satisfying the invariant, for every window (None = +-sys.maxsize):
   the result is, in the original order, each feature that has an overlapping location, with exactly its overlapping
   locations clipped, in their original order; the result satisfies the invariant again; an empty or inverted window
   yields the empty list *)
Theorem C08_slice_exact : forall start stop rel fts,
  let a := bound start (- maxsize) in let b := bound stop maxsize in
  wf_fts fts = true ->
  slice start stop rel fts = Some (spec_slice a b rel fts) /\ wf_fts (spec_slice a b rel fts) = true /\
  (b <= a -> spec_slice a b rel fts = []).
Proof. exact slice_exact. Qed.
Print Assumptions C08_slice_exact.

(* reading of spec_slice: a feature contributes at most one feature; it is kept iff some location overlaps the window;
   the kept feature has the same metadata and the clipped overlapping locations *)
Theorem C08_slice_feature_kept : forall a b r f, wf_ft f = true ->
  (length (spec_slice_ft a b r f) <= 1)%nat /\
  (spec_slice_ft a b r f <> [] <-> exists l, In l (flocs f) /\ overlaps_win a b l = true) /\
  (forall g, In g (spec_slice_ft a b r f) ->
     fmeta g = fmeta f /\ flocs g = map (clip a b r) (filter (overlaps_win a b) (flocs f))).
Proof. exact slice_feature_kept. Qed.
Print Assumptions C08_slice_feature_kept.

(* identity for the unbounded window (coordinates inside |x| < 2^62) *)
Theorem C08_slice_unbounded_id : forall fts, wf_fts fts = true -> coords_in B62 fts = true ->
  slice None None 0 fts = Some fts.
Proof. exact slice_unbounded_id. Qed.
Print Assumptions C08_slice_unbounded_id.

(* an open right side behaves like any bound at or beyond every stop (symmetric statement for the left side by clip_smaller_a) *)
Theorem C08_slice_open_side : forall a b b' r fts, wf_fts fts = true ->
  (forall f l, In f fts -> In l (flocs f) -> lstop l <= b /\ lstop l <= b') -> spec_slice a b r fts = spec_slice a b' r fts.
Proof. exact slice_open_side. Qed.
Print Assumptions C08_slice_open_side.

Theorem C08_slice_open_left : forall a a' b r fts, wf_fts fts = true ->
  (forall f l, In f fts -> In l (flocs f) -> a <= lstart l /\ a' <= lstart l) -> spec_slice a b r fts = spec_slice a' b r fts.
Proof. exact slice_open_left. Qed.
Print Assumptions C08_slice_open_left.

(* empty or inverted windows: nothing is kept and nothing is raised, for arbitrary feature lists (F26 repaired) *)
Theorem C08_slice_empty_window : forall a b r fts, b <= a -> fts_slice a b r fts = Some [].
Proof. exact fts_slice_empty_window. Qed.
Print Assumptions C08_slice_empty_window.

(* ---- mirroring ---- *)
(* Location._reverse maps [x,y) to [L-y, L-x), swaps strand and defect sides, keeps the metadata, is an involution *)
Theorem C08_mirror_loc : forall L l, loc_ok l = true ->
  loc_reverse L l = Some (mirror L l) /\
  lstart (mirror L l) = L - lstop l /\ lstop (mirror L l) = L - lstart l /\
  lstrand (mirror L l) = strand_reverse (lstrand l) /\ ldefect (mirror L l) = defect_reverse (ldefect l) /\
  lmeta (mirror L l) = lmeta l /\ mirror L (mirror L l) = l.
Proof. exact mirror_loc. Qed.
Print Assumptions C08_mirror_loc.

(* Feature.rc: the mirrored locations in 5'->3' order of the new strand; on '+'/'-' features no location moves *)
Theorem C08_mirror_spec : forall L f, wf_ft f = true ->
  feature_rc L f = Some (spec_rc_ft L f) /\ wf_ft (spec_rc_ft L f) = true /\
  fmeta (spec_rc_ft L f) = fmeta f /\
  Permutation (flocs (spec_rc_ft L f)) (map (mirror L) (flocs f)) /\
  (stranded (flocs f) = true -> flocs (spec_rc_ft L f) = map (mirror L) (flocs f)).
Proof. exact mirror_feature. Qed.
Print Assumptions C08_mirror_spec.

Theorem C08_mirror_list : forall L fts, wf_fts fts = true ->
  fts_rc L fts = Some (map (spec_rc_ft L) fts) /\ wf_fts (map (spec_rc_ft L) fts) = true.
Proof. exact fts_rc_exact. Qed.
Print Assumptions C08_mirror_list.

(* rc is its own inverse: for every stranded feature, and for unstranded ones outside the tie region (guard tie_ok) *)
Theorem C08_mirror_involutive_partial : forall L f g,
  wf_ft f = true -> tie_ok (flocs f) = true -> feature_rc L f = Some g -> feature_rc L g = Some f.
Proof. exact feature_rc_invol. Qed.
Print Assumptions C08_mirror_involutive_partial.

Theorem C08_mirror_list_involutive_partial : forall L fts g,
  wf_fts fts = true -> forallb rc_safe fts = true -> fts_rc L fts = Some g -> fts_rc L g = Some fts.
Proof. exact fts_rc_invol. Qed.
Print Assumptions C08_mirror_list_involutive_partial.

(* the guard cannot be dropped: an unstranded feature with locations [0,1) and [0,2) comes back reordered
   (open finding F31 rc_tie_order) *)
Theorem C08_mirror_involutive_refuted :
  wf_ft tie_witness = true /\ tie_ok (flocs tie_witness) = false /\
  exists g h, feature_rc 10 tie_witness = Some g /\ feature_rc 10 g = Some h /\ h <> tie_witness.
Proof. exact mirror_involutive_refuted. Qed.
Print Assumptions C08_mirror_involutive_refuted.

(* tie_ok is the weakest guard: mirroring twice restores a feature if and only if tie_ok holds ... *)
Theorem C08_mirror_involutive_iff : forall L f g, wf_ft f = true -> feature_rc L f = Some g ->
  (feature_rc L g = Some f <-> tie_ok (flocs f) = true).
Proof. exact feature_rc_invol_iff. Qed.
Print Assumptions C08_mirror_involutive_iff.

(* ... the failing region is exactly: unstranded, two neighbouring locations with the same start and increasing stop ... *)
Theorem C08_tie_region_iff : forall t, inv_locs t = true -> stranded t = false ->
  (tie_ok t = false <-> exists l1 x y l2, t = l1 ++ x :: y :: l2 /\ lstart x = lstart y /\ lstop x < lstop y).
Proof. exact tie_region_iff. Qed.
Print Assumptions C08_tie_region_iff.

(* ... and even there only the order changes: coordinates, strands, defects and metadata of every location come back *)
Theorem C08_mirror_twice_permutation : forall L t, Permutation (spec_rc_locs L (spec_rc_locs L t)) t.
Proof. exact spec_rc_twice_perm. Qed.
Print Assumptions C08_mirror_twice_permutation.

(* ---- the LocationTuple invariant ---- *)
(* constructor: result is a permutation of the argument satisfying the invariant, and a fixpoint of the constructor;
   it rejects exactly the empty list and mixed strands *)
Theorem C08_loctuple_constructor : forall ls t, Forall (fun l => loc_ok l = true) ls -> mk_loctuple ls = Some t ->
  Permutation ls t /\ inv_locs t = true /\ mk_loctuple t = Some t.
Proof. exact loctuple_constructor. Qed.
Print Assumptions C08_loctuple_constructor.

Theorem C08_loctuple_rejects : forall ls,
  mk_loctuple ls = None <-> ls = [] \/ exists l l', In l ls /\ In l' ls /\ lstrand l <> lstrand l'.
Proof. exact loctuple_rejects. Qed.
Print Assumptions C08_loctuple_rejects.

(* what the invariant says *)
Theorem C08_invariant_meaning : forall t, inv_locs t = true ->
  t <> [] /\
  (forall l, In l t -> lstart l < lstop l /\ is_strand (lstrand l) = true) /\
  (exists s, (forall l, In l t -> lstrand l = s) /\
     (s = cMinus -> sorted_by ge_stop t = true) /\ (s <> cMinus -> sorted_by le_start t = true)).
Proof. exact inv_locs_meaning. Qed.
Print Assumptions C08_invariant_meaning.

Theorem C08_sorted_meaning :
  (forall t, sorted_by le_start t = true -> forall i j d, (i < j < length t)%nat -> lstart (nth i t d) <= lstart (nth j t d)) /\
  (forall t, sorted_by ge_stop t = true -> forall i j d, (i < j < length t)%nat -> lstop (nth j t d) <= lstop (nth i t d)).
Proof. exact sorted_meaning. Qed.
Print Assumptions C08_sorted_meaning.

(* invariant over arbitrary histories: whatever list of features is built by the constructors and then transformed by any
   sequence of slice / FeatureList.rc / Feature.rc / locs-setter operations, every feature satisfies the invariant *)
Theorem C08_loctuple_invariant : forall fs ops st st' ok,
  build fs = Some st -> snd (run_ops ops st ok) = Some st' -> wf_fts st' = true.
Proof. exact history_invariant. Qed.
Print Assumptions C08_loctuple_invariant.

(* inside the domain predicate used by the correspondence (op_ok) slice and rc never raise *)
Theorem C08_in_domain_total : forall o st, wf_fts st = true -> op_ok o st = true ->
  match o with OSetLocs _ _ => True | _ => apply_op o st <> None end.
Proof. exact apply_op_total. Qed.
Print Assumptions C08_in_domain_total.

(* FeatureList.loc_range is (least start, greatest stop) over all locations, (maxsize, -maxsize) when there is none *)
Theorem C08_loc_range_spec : forall fts,
  (all_locs fts = [] -> loc_range fts = (maxsize, - maxsize)) /\
  (all_locs fts <> [] -> (forall l, In l (all_locs fts) -> - maxsize <= lstart l /\ lstop l <= maxsize /\ lstart l < lstop l) ->
     (forall l, In l (all_locs fts) -> fst (loc_range fts) <= lstart l /\ lstop l <= snd (loc_range fts)) /\
     (exists l, In l (all_locs fts) /\ lstart l = fst (loc_range fts)) /\
     (exists l, In l (all_locs fts) /\ lstop l = snd (loc_range fts))).
Proof. exact loc_range_spec. Qed.
Print Assumptions C08_loc_range_spec.

(* ---- comparisons ---- *)
Theorem C08_range_spec : forall t, t <> [] ->
  (forall l, In l t -> fst (range t) <= lstart l /\ lstop l <= snd (range t)) /\
  (exists l, In l t /\ lstart l = fst (range t)) /\ (exists l, In l t /\ lstop l = snd (range t)).
Proof. exact range_spec. Qed.
Print Assumptions C08_range_spec.

(* < is the strict lexicographic order on ranges, <= adds equality of ranges, > and >= are the converses; trichotomy *)
Theorem C08_cmp_consistent : forall t u,
  lt_lt t u = ranges_lt (range t) (range u) /\
  lt_le t u = (ranges_lt (range t) (range u) || ranges_eq (range t) (range u)) /\
  lt_gt t u = lt_lt u t /\ lt_ge t u = lt_le u t /\
  (lt_lt t u = true <-> (fst (range t) < fst (range u) \/ (fst (range t) = fst (range u) /\ snd (range t) < snd (range u)))) /\
  (lt_le t u = true <-> (lt_lt t u = true \/ range t = range u)) /\
  ((lt_lt t u = true /\ range t <> range u /\ lt_gt t u = false) \/
   (lt_lt t u = false /\ range t = range u /\ lt_gt t u = false) \/
   (lt_lt t u = false /\ range t <> range u /\ lt_gt t u = true)).
Proof. exact cmp_consistent. Qed.
Print Assumptions C08_cmp_consistent.

Theorem C08_cmp_transitive : forall t u v, lt_lt t u = true -> lt_lt u v = true -> lt_lt t v = true.
Proof. exact cmp_transitive. Qed.
Print Assumptions C08_cmp_transitive.

(* overlaps is symmetric and means that the covered ranges share a position *)
Theorem C08_overlaps_consistent : forall t u, inv_locs t = true -> inv_locs u = true ->
  lt_overlaps t u = lt_overlaps u t /\
  (lt_overlaps t u = true <-> exists p, fst (range t) <= p < snd (range t) /\ fst (range u) <= p < snd (range u)).
Proof. exact overlaps_consistent. Qed.
Print Assumptions C08_overlaps_consistent.

(* FeatureList.sort() (default ordering): a permutation of the features in which no feature lies strictly behind its
   successor with respect to LocationTuple.__lt__, i.e. the lexicographic order of the covered ranges (ahead, for
   reverse=True); a list already in order is returned unchanged (ties keep their order) *)
Theorem C08_sort_spec : forall rev l,
  Permutation (sort_fts rev l) l /\ ordered_fts rev (sort_fts rev l) = true /\
  (forall x y, ft_before rev x y = (if rev then ranges_lt (range (flocs x)) (range (flocs y))
                                    else ranges_lt (range (flocs y)) (range (flocs x)))).
Proof. exact sort_fts_spec. Qed.
Print Assumptions C08_sort_spec.

Theorem C08_sort_fixpoint : forall rev l, ordered_fts rev l = true -> sort_fts rev l = l.
Proof. exact sort_fts_id. Qed.
Print Assumptions C08_sort_fixpoint.

(* ---- composition laws (round 6; all windows, all integers, no box) ---- *)
(* one location: clipping twice is clipping once with the intersected window (the second window is read in the coordinates
   of the first result, i.e. shifted by r1) and the summed shift; a location survives both cuts iff it overlaps that window *)
Theorem C08_clip_clip : forall a1 b1 r1 a2 b2 r2 l,
  clip a2 b2 r2 (clip a1 b1 r1 l) = clip (win_lo a1 a2 r1) (win_hi b1 b2 r1) (r1 + r2) l /\
  overlaps_win a1 b1 l && overlaps_win a2 b2 (clip a1 b1 r1 l) = overlaps_win (win_lo a1 a2 r1) (win_hi b1 b2 r1) l /\
  win_lo a1 a2 r1 = Z.max a1 (a2 + r1) /\ win_hi b1 b2 r1 = Z.min b1 (b2 + r1).
Proof. exact (fun a1 b1 r1 a2 b2 r2 l => conj (clip_clip a1 b1 r1 a2 b2 r2 l) (conj (overlaps_clip a1 b1 r1 a2 b2 l) (conj eq_refl eq_refl))). Qed.
Print Assumptions C08_clip_clip.

(* the declarative slice composes, for arbitrary lists (no hypothesis) ... *)
Theorem C08_slice_slice_spec : forall a1 b1 r1 a2 b2 r2 fts,
  spec_slice a2 b2 r2 (spec_slice a1 b1 r1 fts) = spec_slice (win_lo a1 a2 r1) (win_hi b1 b2 r1) (r1 + r2) fts.
Proof. exact spec_slice_twice. Qed.
Print Assumptions C08_slice_slice_spec.

(* ... and so does FeatureList.slice: fts.slice(s1, e1, rel=r1).slice(s2, e2, rel=r2) is the single call
   fts.slice(max(s1, s2 + r1), min(e1, e2 + r1), rel=r1 + r2), open sides standing for -+sys.maxsize *)
Theorem C08_slice_slice : forall s1 e1 r1 s2 e2 r2 fts k, wf_fts fts = true ->
  slice s1 e1 r1 fts = Some k ->
  slice s2 e2 r2 k =
  slice (Some (win_lo (bound s1 (- maxsize)) (bound s2 (- maxsize)) r1)) (Some (win_hi (bound e1 maxsize) (bound e2 maxsize) r1)) (r1 + r2) fts.
Proof. exact slice_slice. Qed.
Print Assumptions C08_slice_slice.

(* Defect._reverse is a permutation of bit positions (0<->1, 2<->3, 4<->5, the rest fixed), hence commutes with | *)
Theorem C08_defect_reverse_bits : forall d p q i,
  N.testbit (defect_reverse d) i = N.testbit d (swapbit i) /\
  defect_reverse (N.lor p q) = N.lor (defect_reverse p) (defect_reverse q) /\
  swapbit i = (if (i <? 6)%N then N.lxor i 1 else i).
Proof. exact (fun d p q i => conj (testbit_defect_reverse d i) (conj (defect_reverse_lor p q) eq_refl)). Qed.
Print Assumptions C08_defect_reverse_bits.

(* one location: mirroring the clipped location = clipping the mirrored location with the mirrored window *)
Theorem C08_mirror_clip : forall L L' a b r l,
  mirror L' (clip a b r l) = clip (L - b) (L - a) (L - L' - r) (mirror L l) /\
  overlaps_win (L - b) (L - a) (mirror L l) = overlaps_win a b l.
Proof. exact (fun L L' a b r l => conj (mirror_clip L L' a b r l) (overlaps_mirror L a b l)). Qed.
Print Assumptions C08_mirror_clip.

(* stranded features: fts.slice(s, e, rel=r).rc(L') = fts.rc(L).slice(L - e, L - s, rel=L - L' - r); with r = s and L' = e - s
   this is "cut the piece, then mirror it on its own length" = "mirror the sequence, then cut the mirrored piece" *)
Theorem C08_rc_slice_commute : forall L L' s e r fts k, wf_fts fts = true -> forallb ft_stranded fts = true ->
  slice s e r fts = Some k ->
  exists m, fts_rc L fts = Some m /\
    fts_rc L' k = slice (Some (L - bound e maxsize)) (Some (L - bound s (- maxsize))) (L - L' - r) m.
Proof. exact rc_slice_commute_model. Qed.
Print Assumptions C08_rc_slice_commute.

(* features of any strand: both routes give the same features with the same locations, up to the order of locations *)
Theorem C08_rc_slice_commute_perm : forall L L' a b r fts,
  Forall2 (fun g h => fmeta g = fmeta h /\ Permutation (flocs g) (flocs h))
          (map (spec_rc_ft L') (spec_slice a b r fts))
          (spec_slice (L - b) (L - a) (L - L' - r) (map (spec_rc_ft L) fts)).
Proof. exact rc_slice_commute_perm. Qed.
Print Assumptions C08_rc_slice_commute_perm.

(* exactness cannot be claimed without strand: clipping creates a tie on one route only (same root as F31) *)
Theorem C08_rc_slice_commute_refuted :
  wf_ft commute_witness = true /\ ft_stranded commute_witness = false /\
  map (spec_rc_ft 4) (spec_slice 0 4 0 [commute_witness]) <> spec_slice (10 - 4) (10 - 0) (10 - 4 - 0) (map (spec_rc_ft 10) [commute_witness]).
Proof. exact rc_slice_commute_refuted. Qed.
Print Assumptions C08_rc_slice_commute_refuted.

(* ---- operand types of <, <=, >, >= and overlaps() (round 6) ---- *)
(* a comparison answers exactly for the combinations of the table cmp_accepts; an operand that is neither a LocationTuple
   nor a Feature is always a TypeError (also a plain tuple, the base class, on either side) *)
Theorem C08_cmp_operands : forall o x y,
  ((exists b, py_cmp o x y = CVal b) <-> cmp_accepts o x y = true) /\
  (locs_of x = None \/ locs_of y = None -> py_cmp o x y = CRaise).
Proof. exact (fun o x y => conj (cmp_table o x y) (cmp_foreign o x y)). Qed.
Print Assumptions C08_cmp_operands.

(* every answer that is not decided by two different seqids is the comparison of the covered ranges *)
Theorem C08_cmp_operands_value : forall o x y b, py_cmp o x y = CVal b -> seqids_decide x y = false ->
  exists t u, locs_of x = Some t /\ locs_of y = Some u /\ b = tuple_cmp o t u.
Proof. exact cmp_value. Qed.
Print Assumptions C08_cmp_operands_value.

(* Feature < Feature looks at the seqids first; None against a seqid is a TypeError *)
Theorem C08_cmp_seqid_first : forall p q t u, p <> q ->
  py_cmp CLt (OpFeat (Some p) t) (OpFeat (Some q) u) = CVal (str_ltb p q) /\
  py_cmp CGt (OpFeat (Some p) t) (OpFeat (Some q) u) = CVal (str_ltb q p) /\
  py_cmp CLt (OpFeat None t) (OpFeat (Some q) u) = CRaise /\ py_cmp CLt (OpFeat (Some p) t) (OpFeat None u) = CRaise.
Proof. exact cmp_seqid_first. Qed.
Print Assumptions C08_cmp_seqid_first.

(* the order of seqids is a strict total order *)
Theorem C08_seqid_order : forall s t u,
  str_ltb s s = false /\ (str_ltb s t = true -> str_ltb t u = true -> str_ltb s u = true) /\
  ((str_ltb s t = true /\ s <> t /\ str_ltb t s = false) \/ (str_ltb s t = false /\ s = t /\ str_ltb t s = false) \/
   (str_ltb s t = false /\ s <> t /\ str_ltb t s = true)).
Proof. exact (fun s t u => conj (str_ltb_irrefl s) (conj (str_ltb_trans s t u) (str_ltb_trichotomy s t))). Qed.
Print Assumptions C08_seqid_order.

(* overlaps(): accepted receiver/argument combinations, value = intersection of the covered ranges, agreement of both directions *)
Theorem C08_overlaps_operands : forall x y,
  (forall b, overlaps_call x y = Some (CVal b) ->
     exists t u, locs_of x = Some t /\ locs_of y = Some u /\ b = lt_overlaps t u /\
                 match x, y with OpTuple _, OpFeat _ _ => False | _, _ => True end) /\
  (forall t u, locs_of x = Some t -> locs_of y = Some u ->
     match x, y with OpTuple _, OpFeat _ _ => overlaps_call x y = Some CRaise | _, _ => overlaps_call x y = Some (CVal (lt_overlaps t u)) end) /\
  (locs_of x <> None -> locs_of y = None -> overlaps_call x y = Some CRaise) /\
  (forall b b', overlaps_call x y = Some (CVal b) -> overlaps_call y x = Some (CVal b') -> b = b').
Proof. exact overlaps_table. Qed.
Print Assumptions C08_overlaps_operands.

(* ---- Location(start, stop): which values are taken (round 6) ---- *)
(* accepted iff both arguments are numbers with start < stop (int, bool, numpy integer, float alike); None is a TypeError *)
Theorem C08_location_args : forall a b,
  (forall x y, location_args a b = LAccept x y <-> twice a = Some x /\ twice b = Some y /\ x < y) /\
  (location_args a b = LTypeError <-> a = KNone \/ b = KNone) /\
  (location_args a b = LValueError <-> exists x y, twice a = Some x /\ twice b = Some y /\ x >= y).
Proof. exact location_args_spec. Qed.
Print Assumptions C08_location_args.

(* integer-valued arguments of every kind are accepted exactly when the integer constructor of the model accepts them *)
Theorem C08_location_args_int : forall a b za zb s d m, int_value a = Some za -> int_value b = Some zb -> is_strand s = true ->
  twice a = Some (2 * za) /\ twice b = Some (2 * zb) /\
  (location_args a b = LAccept (2 * za) (2 * zb) <-> mk_location za zb s d m = Some (mkLoc za zb s d m)) /\
  (location_args a b = LValueError <-> mk_location za zb s d m = None).
Proof. exact location_args_int. Qed.
Print Assumptions C08_location_args_int.

(* ---- non-vacuity: concrete inputs meeting the hypotheses ---- *)
(* a minus-strand feature with three locations, one of them cut on each side by the window [3,12), shifted by 3 *)
Example C08_witness_slice :
  wf_fts [ex_feature] = true /\ coords_in B62 [ex_feature] = true /\
  spec_slice 3 12 3 [ex_feature] = ex_sliced /\
  slice (Some 3) (Some 12) 3 [ex_feature] = Some ex_sliced /\ slice None None 0 [ex_feature] = Some [ex_feature].
Proof. exact ex_slice_ok. Qed.
Example C08_witness_mirror :
  wf_ft ex_feature = true /\ rc_safe ex_feature = true /\ rc_safe ex_unstranded = true /\ wf_ft ex_unstranded = true /\
  feature_rc 20 ex_feature = Some ex_mirrored /\ feature_rc 20 ex_mirrored = Some ex_feature /\
  build ex_raw = Some [ex_feature] /\ inv_locs (flocs ex_feature) = true.
Proof. exact ex_mirror_ok. Qed.
(* round 6: a stranded feature cut twice / cut and mirrored (non-empty results), an accepted mixed comparison, typed coordinates *)
Example C08_witness_round6 :
  wf_fts [ex_feature] = true /\ forallb ft_stranded [ex_feature] = true /\
  slice (Some 3) (Some 12) 3 [ex_feature] = Some ex_sliced /\
  slice (Some 1) (Some 5) 1 ex_sliced = slice (Some (win_lo 3 1 3)) (Some (win_hi 12 5 3)) (3 + 1) [ex_feature] /\
  slice (Some 1) (Some 5) 1 ex_sliced <> Some [] /\
  (exists m, fts_rc 20 [ex_feature] = Some m /\ fts_rc 9 ex_sliced = slice (Some (20 - 12)) (Some (20 - 3)) (20 - 9 - 3) m /\ fts_rc 9 ex_sliced <> Some []) /\
  cmp_accepts CLt (OpFeat None (flocs ex_feature)) (OpTuple (flocs ex_feature)) = true /\
  py_cmp CGt (OpFeat (Some [x61]) (flocs ex_feature)) (OpFeat (Some [x62]) (flocs ex_feature)) = CVal false /\
  location_args (KBool false) (KHalf 3) = LAccept 0 3 /\ int_value (KHalf 4) = Some 2.
Proof. exact ex_round6_ok. Qed.
