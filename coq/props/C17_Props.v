(* C17 -- Bundled genetic-code tables are complete and internally consistent. Statements only. *)
From Coq Require Import List NArith Bool.
From Coq.Strings Require Import Byte.
Import ListNotations.
From SV Require Import Text G_codes C05_Model Codes_Lemmas C17_Model G_gc_ids G_gc_prt G_gc_all C17_Lemmas.
Open Scope N_scope.

(* the set of shipped table ids is the set defined by NCBI's gc.prt *)
Theorem C17_ids : (forall t, In t all_tables -> exists v, lookup_prt (t_key t) prt_tables = Some v) /\
  (forall i, In i (map fst prt_tables) -> In i (map t_key all_tables)) /\ length all_tables = length prt_tables
  /\ map t_key all_tables = json_ids.
Proof. exact ids_spec. Qed.
Print Assumptions C17_ids.

(* for every shipped table and every one of the 15^3 IUPAC codons: entry iff all expansions share one amino acid (and then
   that amino acid); starts/stops are exactly the codons flagged M / * by NCBI; the ambiguous sets contain exactly the
   ambiguous codons with at least one start / stop expansion; each unambiguous codon is listed in the inverse table *)
Theorem C17_tables_match_ncbi : forall t, In t all_tables ->
  exists name aa sc, lookup_prt (t_id t) prt_tables = Some (name, aa, sc) /\ t_key t = t_id t /\
  forall c, c < 3375 ->
    lookupNb c (t_tt t) = allsame (map (aa_at aa) (expand c)) /\
    memN c (t_astops t) = (negb (unamb c) && existsb (is_stop_ix sc) (expand c)) /\
    memN c (t_astarts t) = (negb (unamb c) && existsb (is_start_ix sc) (expand c)) /\
    memN c (t_stops t) = (unamb c && existsb (is_stop_ix sc) (expand c)) /\
    memN c (t_starts t) = (unamb c && existsb (is_start_ix sc) (expand c)) /\
    ttinv_fwd_ok aa t c = true.
Proof. exact table_spec. Qed.
Print Assumptions C17_tables_match_ncbi.

(* the inverse table lists only unambiguous codons translating to its key *)
Theorem C17_ttinv_sound : forall t, In t all_tables ->
  exists name aa sc, lookup_prt (t_id t) prt_tables = Some (name, aa, sc) /\
  forall a cs, In (a, cs) (t_ttinv t) -> cs <> [] /\
    forall c, In c cs -> c < 3375 /\ unamb c = true /\ exists i, expand c = [i] /\ aa_at aa i = a.
Proof. exact ttinv_entries. Qed.
Print Assumptions C17_ttinv_sound.

(* the IUPAC expansion used above is what sugar.data.CODES says *)
Theorem C17_codes_are_iupac : map fst CODES = alphabet /\
  forall c, In c alphabet -> exists l, lookupB c CODES = Some l /\ set_eqb l (iupac c) = true.
Proof. exact (conj codes_keys codes_are_iupac). Qed.
Print Assumptions C17_codes_are_iupac.

Example C17_witness : In G_gcrec_1.rec all_tables /\ expand 737 = [11; 15] /\ lookupNb 737 (t_tt G_gcrec_1.rec) = None
  /\ memN 737 (t_astops G_gcrec_1.rec) = true.
Proof. exact (conj (or_introl eq_refl) (conj eq_refl (conj eq_refl eq_refl))). Qed.
