(* C17 -- Bundled genetic-code tables are complete and internally consistent. Statements only. *)
From Coq Require Import List ZArith NArith Bool.
From Coq.Strings Require Import Byte.
Import ListNotations.
From SV Require Import Text G_codes C05_Model Codes_Lemmas C17_Model G_gc_ids G_gc_prt G_gc_all C17_Lemmas.
From SV Require Import C17_Gcode C17_GcodeLemmas.
From SV Require Import C17_Convert C17_GenSpec C17_ConvSpec C17_ConvLemmas G_gc_prt_text G_gc_conv_all C17_ConvTables C17_ConvPipeline.
Open Scope N_scope.

(* the set of shipped table ids is the set defined by NCBI's gc.prt *)
Theorem C17_ids : (forall t, In t all_tables -> exists v, lookup_prt (t_key t) prt_tables = Some v) /\
  (forall i, In i (map fst prt_tables) -> In i (map t_key all_tables)) /\ length all_tables = length prt_tables
  /\ map t_key all_tables = json_ids.
Proof. exact ids_spec. Qed.
Print Assumptions C17_ids.

(* for every shipped table and every one of the 15^3 IUPAC codons: entry iff all expansions share one amino acid (and then
   that amino acid); starts/stops are exactly the codons flagged M / * by NCBI; the ambiguous sets contain exactly the
   ambiguous codons with at least one start / stop expansion; each unambiguous codon is listed in the inverse table *)
Theorem C17_tables_match_ncbi : forall t, In t all_tables ->
  exists name aa sc, lookup_prt (t_id t) prt_tables = Some (name, aa, sc) /\ t_key t = t_id t /\
  forall c, c < 3375 ->
    lookupNb c (t_tt t) = allsame (map (aa_at aa) (expand c)) /\
    memN c (t_astops t) = (negb (unamb c) && existsb (is_stop_ix sc) (expand c)) /\
    memN c (t_astarts t) = (negb (unamb c) && existsb (is_start_ix sc) (expand c)) /\
    memN c (t_stops t) = (unamb c && existsb (is_stop_ix sc) (expand c)) /\
    memN c (t_starts t) = (unamb c && existsb (is_start_ix sc) (expand c)) /\
    ttinv_fwd_ok aa t c = true.
Proof. exact table_spec. Qed.
Print Assumptions C17_tables_match_ncbi.

(* the inverse table lists only unambiguous codons translating to its key *)
Theorem C17_ttinv_sound : forall t, In t all_tables ->
  exists name aa sc, lookup_prt (t_id t) prt_tables = Some (name, aa, sc) /\
  forall a cs, In (a, cs) (t_ttinv t) -> cs <> [] /\
    forall c, In c cs -> c < 3375 /\ unamb c = true /\ exists i, expand c = [i] /\ aa_at aa i = a.
Proof. exact ttinv_entries. Qed.
Print Assumptions C17_ttinv_sound.

(* the IUPAC expansion used above is what sugar.data.CODES says *)
Theorem C17_codes_are_iupac : map fst CODES = alphabet /\
  forall c, In c alphabet -> exists l, lookupB c CODES = Some l /\ set_eqb l (iupac c) = true.
Proof. exact (conj codes_keys codes_are_iupac). Qed.
Print Assumptions C17_codes_are_iupac.

Example C17_witness : In G_gcrec_1.rec all_tables /\ expand 737 = [11; 15] /\ lookupNb 737 (t_tt G_gcrec_1.rec) = None
  /\ memN 737 (t_astops G_gcrec_1.rec) = true.
Proof. exact (conj (or_introl eq_refl) (conj eq_refl (conj eq_refl eq_refl))). Qed.

(* ---------------------------------------------------------------- the generator convert.py (gc.prt -> gc.json) *)

(* finite, one instance per shipped table: the Gallina model of convert.py, run inside Coq on the text of gc.prt and on
   sugar.data.CODES, calls generate_gc for exactly the ids of gc.json in the order of gc.json, and the n-th call returns
   the n-th table of gc.json (fields whose order the script fixes compared in order, the set-iteration ones as sets) *)
Theorem C17_convert_reproduces_json : forall n t aa sc,
  nth_error all_tables n = Some t -> nth_error all_lines n = Some (aa, sc) ->
  exists es en g, emitted (lines_of prt_text []) st0 = inr es /\ map e_id es = json_ids /\
    nth_error es n = Some en /\ e_id en = t_key t /\ generate_gc CODES en = inr g /\ gc_json_eqb g t aa sc = true.
Proof. exact convert_tables. Qed.
Print Assumptions C17_convert_reproduces_json.

(* the script as a whole (parsing loop + 27 generate_gc calls + gcs[id_] = ...): run inside Coq on the text of gc.prt with
   sugar.data.CODES it raises nothing and yields an object with the keys of gc.json in the order of gc.json, and under
   every key the table of gc.json *)
Theorem C17_convert_whole : exists gcs, convert CODES prt_text = inr gcs /\ map fst gcs = json_ids /\
  forall n t aa sc, nth_error all_tables n = Some t -> nth_error all_lines n = Some (aa, sc) ->
    exists g, nth_error gcs n = Some (t_key t, g) /\ gc_json_eqb g t aa sc = true.
Proof. exact convert_whole. Qed.
Print Assumptions C17_convert_whole.

(* unbounded, for ANY ncbieaa / sncbieaa lines of at least 64 characters (any base table) and any alphabet whose
   expansions are base codons: generate_gc raises nothing; starts / stops / ttinv / astarts / astops are the functions
   of the 64 base entries characterised below; tt answers, for every string c: the base entry if c is a base codon,
   else the common amino acid of all expansions if c is a codon over the alphabet, else nothing *)
Theorem C17_generate_gc_spec : forall codes ac id_ name aas sc,
  conv_codes_ok codes ac = true -> (64 <= length aas)%nat -> (64 <= length sc)%nat ->
  exists tt',
    generate_gc_ac codes ac id_ name aas sc
    = inr {| g_id := id_; g_name := name; g_aa := aas; g_sc := sc; g_tt := tt'; g_ttinv := ttinv_of (base_tt aas);
             g_starts := flagged x4d sc; g_astarts := amb_marked codes ac (base_tt aas) (flagged x4d sc);
             g_stops := flagged x2a sc; g_astops := amb_marked codes ac (base_tt aas) (flagged x2a sc) |}
    /\ forall c, lookupS c tt' = match lookupS c (base_tt aas) with
                                 | Some a => Some a
                                 | None => if memS c (product3 ac) then amb_val codes (base_tt aas) c else None
                                 end.
Proof. exact gen_spec. Qed.
Print Assumptions C17_generate_gc_spec.

(* a line shorter than 64 characters: IndexError (aas[i] / special_codons[i]) *)
Theorem C17_generate_gc_index_error : forall codes ac id_ name aas sc,
  (length aas < 64)%nat \/ (length sc < 64)%nat -> generate_gc_ac codes ac id_ name aas sc = inl (bs "IndexError"%bs).
Proof. exact gen_index_error. Qed.
Print Assumptions C17_generate_gc_index_error.

(* the property's clause: an entry iff all expansions encode the same amino acid, and then that amino acid *)
Theorem C17_entry_iff_expansions_agree : forall codes base c a,
  forallb (fun e => memkey e base) (expand3 codes c) = true ->
  (amb_val codes base c = Some a <->
   expand3 codes c <> [] /\ forall e, In e (expand3 codes c) -> lookupS e base = Some a).
Proof. exact amb_val_iff. Qed.
Print Assumptions C17_entry_iff_expansions_agree.

(* the 64 base entries: codon number i of product('TCAG', repeat=3) gets character i of the ncbieaa line *)
Theorem C17_base_entries : forall aas c a,
  lookupS c (base_tt aas) = Some a <-> exists i, nth_error base_codons i = Some c /\ a = nth i aas x3f.
Proof. exact base_tt_lookup. Qed.
Print Assumptions C17_base_entries.

(* starts / stops: exactly the base codons whose character of the sncbieaa line is M / * *)
Theorem C17_starts_stops : forall f sc c,
  In c (flagged f sc) <-> exists i, nth_error base_codons i = Some c /\ nth i sc x3f = f.
Proof. exact flagged_In. Qed.
Print Assumptions C17_starts_stops.

(* astarts / astops: exactly the codons over the alphabet that are no base codon and have >= 1 start / stop expansion *)
Theorem C17_ambiguous_sets : forall codes ac tt marked c,
  In c (amb_marked codes ac tt marked)
  <-> In c (product3 ac) /\ memkey c tt = false /\ exists e, In e (expand3 codes c) /\ In e marked.
Proof. exact amb_marked_In. Qed.
Print Assumptions C17_ambiguous_sets.

(* ttinv: one row per amino acid that occurs, listing exactly the (unambiguous) codons with that amino acid, in order *)
Theorem C17_ttinv_rows : forall tt a,
  row a (ttinv_of tt) = map fst (filter (fun kv : str * byte => byte_eqb (snd kv) a) tt).
Proof. exact ttinv_row. Qed.
Print Assumptions C17_ttinv_rows.
Theorem C17_ttinv_keys : forall tt, NoDup (map fst (ttinv_of tt)) /\
  forall a, In a (map fst (ttinv_of tt)) <-> exists k, In (k, a) tt.
Proof. exact ttinv_keys. Qed.
Print Assumptions C17_ttinv_keys.

(* sugar.data.CODES (regenerated) satisfies the side condition: the 27 shipped tables are instances *)
Theorem C17_codes_instance : conv_codes_ok CODES (all_codes CODES) = true.
Proof. exact codes_instance. Qed.
Print Assumptions C17_codes_instance.

Example C17_gen_witness :
  conv_codes_ok w_codes (all_codes w_codes) = true /\ (64 <= length w_aas)%nat /\ (64 <= length w_sc)%nat /\
  exists g, generate_gc_ac w_codes (all_codes w_codes) 1%N (bs "W"%bs) w_aas w_sc = inr g /\
    lookupS (bs "CTR"%bs) (g_tt g) = Some x4c /\ lookupS (bs "TAR"%bs) (g_tt g) = Some x2a /\
    lookupS (bs "TRA"%bs) (g_tt g) = Some x2a /\ lookupS (bs "ATR"%bs) (g_tt g) = None /\
    g_astops g = [bs "TAR"%bs; bs "TGR"%bs; bs "TRA"%bs; bs "TRG"%bs; bs "TRR"%bs] /\
    g_astarts g = [bs "ATR"%bs; bs "RTG"%bs; bs "RTR"%bs] /\
    row x2a (g_ttinv g) = [bs "TAA"%bs; bs "TAG"%bs; bs "TGA"%bs].
Proof. exact gen_witness. Qed.

(* ---------------------------------------------------------------- the loader gcode() and its cache *)

(* READ stability: once a call has returned an object, the same call returns the same object again after any sequence
   of other calls (hits, loads, failing calls) - the cache only grows. What this cannot show: that nobody mutated the
   object in between (aliases of a shared mutable Attr); that is tested by the history stream only. *)
Theorem C17_gcode_reads_stable : forall ids ch n c o, snd (gcode_step ids ch n c) = inr o ->
  forall cs m m', snd (gcode_step ids (fst (gcode_run ids (fst (gcode_step ids ch n c)) m cs)) m' c) = inr o.
Proof. exact read_stable. Qed.
Print Assumptions C17_gcode_reads_stable.

(* from the empty cache, every call that returns an object returns a shipped table whose id is the requested one
   (as a number: 1, 1.0, True - or as its decimal spelling); in particular a hit through == never gives another table *)
Theorem C17_gcode_returns_requested : forall ids cs k c o,
  nth_error cs k = Some c -> nth_error (snd (gcode_run ids [] 0 cs)) k = Some (inr o) ->
  In (snd o) ids /\ requested (arg c) (snd o).
Proof. exact (fun ids cs => run_results ids cs [] 0%nat (cache_inv_nil ids)). Qed.
Print Assumptions C17_gcode_returns_requested.

Theorem C17_gcode_unhashable : forall ids ch n c, arg c = KList -> gcode_step ids ch n c = (ch, inl (bs "TypeError"%bs)).
Proof. exact step_unhashable. Qed.
Print Assumptions C17_gcode_unhashable.

(* exceptions are not cached; an unknown id (7, 'Standard', '01', None) on a cache without an equal key is a KeyError *)
Theorem C17_gcode_error_keeps_cache : forall ids ch n c e,
  snd (gcode_step ids ch n c) = inl e -> fst (gcode_step ids ch n c) = ch.
Proof. exact step_error_keeps. Qed.
Print Assumptions C17_gcode_error_keeps_cache.
Theorem C17_gcode_unknown_id : forall ids ch n c, is_klist (arg c) = false -> load ids (arg c) = None ->
  find (fun e => ckey_eqb c (fst e)) ch = None -> gcode_step ids ch n c = (ch, inl (bs "KeyError"%bs)).
Proof. exact step_unknown. Qed.
Print Assumptions C17_gcode_unknown_id.

(* gcode(tt=1.0) raises KeyError on a fresh cache but returns table 1 once gcode(tt=1) was called (wrapped keys compare
   with ==); gcode(1.0) never hits (a positional int is stored unwrapped); gcode(), gcode(1), gcode(tt=1), gcode('1')
   are four different objects *)
Example C17_gcode_witness :
  snd (gcode_run [1%N; 2%N] [] 0
        [ {| c_form := FKw; c_key := KFloat 1%Z |}; {| c_form := FKw; c_key := KInt 1%Z |}; {| c_form := FKw; c_key := KFloat 1%Z |};
          {| c_form := FPos; c_key := KInt 1%Z |}; {| c_form := FPos; c_key := KFloat 1%Z |}; {| c_form := FDefault; c_key := KNone |};
          {| c_form := FPos; c_key := KStr (bs "1"%bs) |}; {| c_form := FPos; c_key := KStr (bs "Standard"%bs) |};
          {| c_form := FPos; c_key := KList |}; {| c_form := FPos; c_key := KInt 1%Z |} ])
  = [ inl (bs "KeyError"%bs); inr (1%nat, 1%N); inr (1%nat, 1%N); inr (3%nat, 1%N); inl (bs "KeyError"%bs); inr (5%nat, 1%N);
      inr (6%nat, 1%N); inl (bs "KeyError"%bs); inl (bs "TypeError"%bs); inr (3%nat, 1%N) ].
Proof. exact gcode_witness. Qed.
