(* C04 -- BioSeq behaves like its residue string; BioBasket like a list of them.
   Only statements here; proofs are in lib/C04_PySlice.v and proof/C04_Lemmas.v. *)
From Coq Require Import List ZArith Bool QArith.
From Coq.Strings Require Import Byte.
Import ListNotations.
From SV Require Import Text C04_PySlice C04_Model C04_Lemmas C04_Str C04_Store C04_Str7 C04_Gap7 C04_GapRev.
Local Open Scope Z_scope.

(* ---- pyslice_spec: CPython slice normalisation, for every list, every bound in Z or None ---- *)

(* a contiguous slice is firstn/skipn of the clamped normalised bounds *)
Theorem C04_pyslice_contig : forall (A : Type) (l : list A) (s : pyslice), contiguous s = true ->
  getslice l s = Ok (firstn (Z.to_nat (hi_of (Z.of_nat (length l)) (sl_stop s) - lo_of (Z.of_nat (length l)) (sl_start s)))
                            (skipn (Z.to_nat (lo_of (Z.of_nat (length l)) (sl_start s))) l)).
Proof. exact (fun A l s H => getslice_contig l s H). Qed.
Print Assumptions C04_pyslice_contig.

(* every step <> 0: the result has slicelength elements and r[k] = l[start + k*step] *)
Theorem C04_pyslice_any_step : forall (A : Type) (l : list A) (s : pyslice) start stop step n,
  slice_indices (Z.of_nat (length l)) s = Some (start, stop, step, n) ->
  exists r, getslice l s = Ok r /\ Z.of_nat (length r) = n /\
    forall k, Z.of_nat k < n -> nth_error r k = nth_error l (Z.to_nat (start + Z.of_nat k * step)).
Proof. exact (fun A l s => getslice_spec l s). Qed.
Print Assumptions C04_pyslice_any_step.

(* ValueError exactly for step 0 *)
Theorem C04_pyslice_step0 : forall (A : Type) (l : list A) s,
  (sl_step s = Some 0 -> getslice l s = Err ValueError) /\ (sl_step s <> Some 0 -> exists r, getslice l s = Ok r).
Proof. exact (fun A l s => conj (fun H => match s as s0 return sl_step s0 = Some 0 -> getslice l s0 = Err ValueError with
  mkslice a b c => fun H => eq_ind_r (fun c => getslice l (mkslice a b c) = Err ValueError) (getslice_step0 l a b) H end H)
  (getslice_total l s)). Qed.
Print Assumptions C04_pyslice_step0.

(* int index: in range, negative-index law, IndexError outside *)
Theorem C04_getitem_law : forall (A : Type) (l : list A) i,
  (0 <= i < Z.of_nat (length l) -> getitem l i = match nth_error l (Z.to_nat i) with Some x => Ok x | None => Err IndexError end) /\
  (- Z.of_nat (length l) <= i < 0 -> getitem l i = getitem l (i + Z.of_nat (length l))) /\
  (i < - Z.of_nat (length l) \/ Z.of_nat (length l) <= i -> getitem l i = Err IndexError).
Proof. exact (fun A l i => getitem_spec l i). Qed.
Print Assumptions C04_getitem_law.

Theorem C04_getitem_total : forall (A : Type) (l : list A) i,
  - Z.of_nat (length l) <= i < Z.of_nat (length l) -> exists x, getitem l i = Ok x.
Proof. exact (fun A l i => getitem_in_range l i). Qed.
Print Assumptions C04_getitem_total.

(* s[i] is the one-element slice s[i:i+1] *)
Theorem C04_getitem_unit_slice : forall (A : Type) (l : list A) i x, getitem l i = Ok x -> i <> -1 ->
  getslice l (mkslice (Some i) (Some (i + 1)) None) = Ok [x].
Proof. exact (fun A l i x => getitem_slice l i x). Qed.
Print Assumptions C04_getitem_unit_slice.

(* empty slices, s[:] = s, s[:k] + s[k:] = s, s[::-1] = reversed *)
Theorem C04_pyslice_algebra : forall (A : Type) (l : list A),
  (forall a b, hi_of (Z.of_nat (length l)) b <= lo_of (Z.of_nat (length l)) a -> getslice l (mkslice a b None) = Ok []) /\
  getslice l (mkslice None None None) = Ok l /\
  (forall k, exists r1 r2, getslice l (mkslice None (Some k) None) = Ok r1 /\
                           getslice l (mkslice (Some k) None None) = Ok r2 /\ r1 ++ r2 = l) /\
  getslice l (mkslice None None (Some (-1))) = Ok (rev l).
Proof. exact (fun A l => conj (fun a b => getslice_empty l a b eq_refl)
  (conj (getslice_full l) (conj (getslice_split l) (getslice_reverse l)))). Qed.
Print Assumptions C04_pyslice_algebra.

(* ---- bioseq_like_str ---- *)

(* seq[idx] is str indexing of the residue string; the id is kept; same exceptions *)
Theorem C04_bioseq_like_str : forall s ix, no_lower (data s) = true ->
  seq_getitem None s ix = match pyget (data s) ix with Ok d => Ok (mkseq d (sid s)) | Err e => Err e end.
Proof. exact seq_getitem_like_str. Qed.
Print Assumptions C04_bioseq_like_str.

(* without the hypothesis the constructor upper-cases the slice; constructed sequences satisfy the hypothesis *)
Theorem C04_bioseq_constructor : forall d i s ix,
  no_lower (data (new_seq d i)) = true /\ (no_lower d = true -> data (new_seq d i) = d) /\
  seq_getitem None s ix = match pyget (data s) ix with Ok r => Ok (mkseq (py_upper r) (sid s)) | Err e => Err e end.
Proof. exact (fun d i s ix => conj (new_seq_no_lower d i) (conj (py_upper_id d) (seq_getitem_general s ix))). Qed.
Print Assumptions C04_bioseq_constructor.

Theorem C04_len_eq : forall s t, seq_len s = Z.of_nat (length (data s)) /\ (seq_eq_str s t = true <-> data s = t).
Proof. exact (fun s t => conj (seq_len_spec s) (seq_eq_str_spec s t)). Qed.
Print Assumptions C04_len_eq.

(* == against any Python object: true exactly for a str with the same characters (case-sensitive); None, numbers,
   tuples, lists, bytes, object() compare unequal; basket `in`, count, index, == [..] follow *)
Theorem C04_eq_str_iff : forall s o b os,
  (seq_eq_val s o = true <-> o = VS (data s)) /\
  (basket_contains b o = true <-> exists s', In s' b /\ o = VS (data s')) /\
  basket_count b o = length (filter (fun s' => seq_eq_val s' o) b) /\
  (basket_eq_list b os = true <-> os = map (fun s' => VS (data s')) b) /\
  match basket_index b o 0 with
  | Some i => exists b1 s' b2, b = b1 ++ s' :: b2 /\ i = 0 + Z.of_nat (length b1) /\ o = VS (data s') /\
                               forall x, In x b1 -> seq_eq_val x o = false
  | None => basket_contains b o = false
  end.
Proof. exact (fun s o b os => conj (seq_eq_val_iff s o) (conj (basket_contains_iff b o) (conj eq_refl
  (conj (basket_eq_list_iff b os) (basket_index_spec o b 0))))). Qed.
Print Assumptions C04_eq_str_iff.

Theorem C04_eq_bioseq : forall s t, seq_eq_seq s t = true <-> s = t.
Proof. exact seq_eq_seq_spec. Qed.
Print Assumptions C04_eq_bioseq.

(* +, right +, += are str concatenation on residue strings without lower case; += never normalises *)
Theorem C04_concat : forall s t, no_lower (data s) = true -> no_lower t = true ->
  seq_add s t = mkseq (data s ++ t) (sid s) /\ seq_radd s t = mkseq (t ++ data s) (sid s) /\
  seq_iadd s t = mkseq (data s ++ t) (sid s).
Proof. exact (fun s t H1 H2 => conj (proj2 (seq_add_spec s t) H1 H2) (conj (proj2 (seq_radd_spec s t) H1 H2) (seq_iadd_spec s t))). Qed.
Print Assumptions C04_concat.

(* item assignment: list(data)[i] = v; ''.join *)
Theorem C04_setitem_int : forall s i v,
  match getitem (data s) i with
  | Ok x => exists d1 d2, data s = d1 ++ x :: d2 /\
            Z.of_nat (length d1) = (if i <? 0 then i + Z.of_nat (length (data s)) else i) /\
            seq_setitem s (IInt i) v = Ok (mkseq (d1 ++ v ++ d2) (sid s))
  | Err e => seq_setitem s (IInt i) v = Err e
  end.
Proof. exact seq_setitem_int. Qed.
Print Assumptions C04_setitem_int.

Theorem C04_setitem_slice : forall s sl v, contiguous sl = true ->
  seq_setitem s (ISlice sl) v =
    Ok (mkseq (firstn (Z.to_nat (lo_of (Z.of_nat (length (data s))) (sl_start sl))) (data s) ++ v ++
               skipn (Z.to_nat (Z.max (hi_of (Z.of_nat (length (data s))) (sl_stop sl))
                                      (lo_of (Z.of_nat (length (data s))) (sl_start sl)))) (data s)) (sid s)).
Proof. exact seq_setitem_slice. Qed.
Print Assumptions C04_setitem_slice.

(* seq[a:b:c] = v is list assignment on the residues followed by ''.join, for EVERY slice *)
Theorem C04_setitem_is_list_assign : forall s sl v,
  seq_setitem s (ISlice sl) v = match setslice (data s) sl v with Ok r => Ok (set_data s r) | Err e => Err e end.
Proof. exact seq_setitem_is_list_assign. Qed.
Print Assumptions C04_setitem_is_list_assign.

(* extended slices (step <> 1): ValueError unless len(v) = slicelength; else v[k] lands at start + k*step, rest kept *)
Theorem C04_setitem_extended : forall s sl v start stop step n,
  slice_indices (Z.of_nat (length (data s))) sl = Some (start, stop, step, n) -> step <> 1 ->
  (Z.of_nat (length v) <> n -> seq_setitem s (ISlice sl) v = Err ValueError) /\
  (Z.of_nat (length v) = n -> exists r, seq_setitem s (ISlice sl) v = Ok (mkseq r (sid s)) /\ length r = length (data s) /\
     (forall k, (k < length v)%nat -> nth_error r (Z.to_nat (start + Z.of_nat k * step)) = nth_error v k) /\
     (forall p, (forall k, (k < length v)%nat -> p <> Z.to_nat (start + Z.of_nat k * step)) -> nth_error r p = nth_error (data s) p)).
Proof. exact seq_setitem_extended. Qed.
Print Assumptions C04_setitem_extended.

(* ---- str_namespace_parametric: for every wrapped method whatsoever ---- *)
Theorem C04_str_namespace_parametric : forall (Arg R : Type) (m_t : str -> Arg -> str) (m_q : str -> Arg -> R) s b a,
  data (str_transform Arg m_t s a) = m_t (data s) a /\ sid (str_transform Arg m_t s a) = sid s /\
  str_query Arg R m_q s a = m_q (data s) a /\
  map data (basket_str_transform Arg m_t b a) = map (fun s => m_t (data s) a) b /\
  map sid (basket_str_transform Arg m_t b a) = map sid b /\
  basket_str_query Arg R m_q b a = map (fun s => m_q (data s) a) b.
Proof. exact (fun Arg R m_t m_q s b a =>
  conj (proj1 (str_transform_spec Arg m_t s a)) (conj (proj2 (str_transform_spec Arg m_t s a))
  (conj (str_query_spec Arg R m_q s a)
  (conj (proj1 (basket_str_transform_spec Arg m_t b a)) (conj (proj1 (proj2 (basket_str_transform_spec Arg m_t b a)))
  (basket_str_query_spec Arg R m_q b a)))))). Qed.
Print Assumptions C04_str_namespace_parametric.

(* ---- gap_slice: every start/stop in Z or None, contiguous ---- *)
Theorem C04_gap_slice : forall g s sl, contiguous sl = true -> no_lower (data s) = true ->
  exists r, seq_getitem (Some g) s (ISlice sl) = Ok (mkseq r (sid s)) /\
            pyget (degap g (data s)) (ISlice sl) = Ok (degap g r) /\
            exists lo n, r = firstn n (skipn lo (data s)).
Proof. exact seq_getitem_gap_slice. Qed.
Print Assumptions C04_gap_slice.

Theorem C04_gap_index : forall g s i,
  seq_getitem (Some g) s (IInt i) =
  match getitem (degap g (data s)) i with Ok x => Ok (new_seq [x] (sid s)) | Err e => Err e end.
Proof. exact seq_getitem_gap_int. Qed.
Print Assumptions C04_gap_index.

(* ---- basket_two_axis ---- *)
Theorem C04_basket_two_axis : forall gap b i sl j,
  basket_get_int b i = getitem b i /\ basket_get_slice b sl = getslice b sl /\
  basket_get_ij gap b i j = match basket_get_int b i with Ok s => seq_getitem gap s j | Err e => Err e end /\
  basket_get_slj gap b sl j =
    match basket_get_slice b sl with Ok ss => mapM (fun s => seq_getitem gap s j) ss | Err e => Err e end /\
  (forall r, basket_get_slj gap b sl j = Ok r ->
     exists ss, basket_get_slice b sl = Ok ss /\ Forall2 (fun s y => seq_getitem gap s j = Ok y) ss r).
Proof. exact (fun gap b i sl j => conj eq_refl (conj eq_refl (conj (basket_get_ij_spec gap b i j)
  (conj (basket_get_slj_spec gap b sl j) (basket_get_slj_elements gap b sl j))))). Qed.
Print Assumptions C04_basket_two_axis.

(* seqs[:, j] = x assigns on every sequence (first error wins) *)
Theorem C04_basket_assign_all : forall b j v,
  basket_set_slj b (mkslice None None None) j v = mapM (fun s => seq_setitem s j v) b /\
  (forall r, mapM (fun s => seq_setitem s j v) b = Ok r -> Forall2 (fun s y => seq_setitem s j v = Ok y) b r).
Proof. exact (fun b j v => conj (basket_set_all b j v) (mapM_Forall2 _ b)). Qed.
Print Assumptions C04_basket_assign_all.

(* seqs[i, j] = x is item/slice assignment on sequence i; the others are untouched; IndexError of the first axis
   exactly when list indexing raises it, then the errors of the assignment on the sequence *)
Theorem C04_basket_assign_int_axis : forall b i j v,
  match getitem b i with
  | Err e => basket_set_ij b i j v = Err e
  | Ok s => match seq_setitem s j v with
            | Err e => basket_set_ij b i j v = Err e
            | Ok s' => exists b1 b2, b = b1 ++ s :: b2 /\
                         Z.of_nat (length b1) = (if i <? 0 then i + Z.of_nat (length b) else i) /\
                         basket_set_ij b i j v = Ok (b1 ++ s' :: b2)
            end
  end.
Proof. exact basket_set_ij_spec. Qed.
Print Assumptions C04_basket_assign_int_axis.

(* seqs[a:b, j] = x (contiguous first axis, every bound): assigns on exactly the selected sequences seqs[a:b] *)
Theorem C04_basket_assign_slice : forall b sl j v, contiguous sl = true ->
  getslice b sl = Ok (firstn (Z.to_nat (hi_of (Z.of_nat (length b)) (sl_stop sl) - lo_of (Z.of_nat (length b)) (sl_start sl)))
                             (skipn (Z.to_nat (lo_of (Z.of_nat (length b)) (sl_start sl))) b)) /\
  basket_set_slj b sl j v =
  match mapM (fun s => seq_setitem s j v)
             (firstn (Z.to_nat (hi_of (Z.of_nat (length b)) (sl_stop sl) - lo_of (Z.of_nat (length b)) (sl_start sl)))
                     (skipn (Z.to_nat (lo_of (Z.of_nat (length b)) (sl_start sl))) b)) with
  | Ok r => Ok (firstn (Z.to_nat (lo_of (Z.of_nat (length b)) (sl_start sl))) b ++ r ++
                skipn (Z.to_nat (hi_of (Z.of_nat (length b)) (sl_stop sl) - lo_of (Z.of_nat (length b)) (sl_start sl)))
                      (skipn (Z.to_nat (lo_of (Z.of_nat (length b)) (sl_start sl))) b))
  | Err e => Err e
  end.
Proof. exact basket_set_slj_contig. Qed.
Print Assumptions C04_basket_assign_slice.

(* seqs[a:b:c, j] = x for EVERY first-axis slice: the positions are those of seqs[a:b:c]; exactly they are assigned *)
Theorem C04_basket_assign_any_slice : forall b sl j v r, basket_set_slj b sl j v = Ok r ->
  exists ps, getslice (seq 0 (length b)) sl = Ok ps /\
    getslice b sl = Ok (map (fun p => nth p b (mkseq [] [])) ps) /\
    length r = length b /\
    (forall p, In p ps -> exists s s', nth_error b p = Some s /\ seq_setitem s j v = Ok s' /\ nth_error r p = Some s') /\
    (forall p, ~ In p ps -> nth_error r p = nth_error b p).
Proof. exact basket_set_slj_any. Qed.
Print Assumptions C04_basket_assign_any_slice.

(* the history variant that keeps earlier assignments when a later sequence raises agrees with it *)
Theorem C04_basket_assign_partial_update : forall j v ps b,
  upd_positions b ps j v = match upd_positions_st b ps j v with (b', None) => Ok b' | (_, Some e) => Err e end.
Proof. exact upd_positions_st_agree. Qed.
Print Assumptions C04_basket_assign_partial_update.

(* seqs[i] = x: list item assignment of a new, constructor-normalised sequence *)
Theorem C04_basket_set_item : forall b i v,
  match getitem b i with
  | Ok s => exists b1 b2, b = b1 ++ s :: b2 /\
            Z.of_nat (length b1) = (if i <? 0 then i + Z.of_nat (length b) else i) /\
            basket_set_int b i v = Ok (b1 ++ new_seq v [] :: b2)
  | Err e => basket_set_int b i v = Err e
  end.
Proof. exact basket_set_int_spec. Qed.
Print Assumptions C04_basket_set_item.

(* seqs[a:b] = xs splices; seqs[a:b:c] = xs needs matching sizes *)
Theorem C04_basket_set_items : forall b sl vs,
  (contiguous sl = true ->
   basket_set_slice b sl vs =
     Ok (firstn (Z.to_nat (lo_of (Z.of_nat (length b)) (sl_start sl))) b ++ map (fun v => new_seq v []) vs ++
         skipn (Z.to_nat (Z.max (hi_of (Z.of_nat (length b)) (sl_stop sl)) (lo_of (Z.of_nat (length b)) (sl_start sl)))) b)) /\
  (forall start stop step n, slice_indices (Z.of_nat (length b)) sl = Some (start, stop, step, n) -> step <> 1 ->
   (Z.of_nat (length vs) <> n -> basket_set_slice b sl vs = Err ValueError) /\
   (Z.of_nat (length vs) = n -> exists r, basket_set_slice b sl vs = Ok r /\ length r = length b /\
      (forall k, (k < length vs)%nat ->
         nth_error r (Z.to_nat (start + Z.of_nat k * step)) = option_map (fun v => new_seq v []) (nth_error vs k)) /\
      (forall p, (forall k, (k < length vs)%nat -> p <> Z.to_nat (start + Z.of_nat k * step)) -> nth_error r p = nth_error b p))).
Proof. exact (fun b sl vs => conj (basket_set_slice_contig b sl vs) (basket_set_slice_extended b sl vs)). Qed.
Print Assumptions C04_basket_set_items.

(* ---- counts ---- *)
Theorem C04_counts : forall b, b <> [] ->
  exists k, countall b = Ok k /\ (forall c, k c = count c (concat (map data b))) /\
            counter_total k = length (concat (map data b)) /\
            (forall c, In (c, k c) (counter_items k) <-> k c <> 0%nat).
Proof. exact (fun b H => match countall_spec b H with
  ex_intro _ k (conj H1 H2) => ex_intro _ k (conj H1 (conj H2 (countall_total b k H1))) end). Qed.
Print Assumptions C04_counts.

Theorem C04_gc : forall s,
  fst (gc_counts s) = (count "G"%byte s + count "C"%byte s)%nat /\
  snd (gc_counts s) = (fst (gc_counts s) + (count "A"%byte s + count "T"%byte s + count "U"%byte s))%nat /\
  (snd (gc_counts s) <= length s)%nat.
Proof. exact gc_counts_spec. Qed.
Print Assumptions C04_gc.

(* probabilities (countall(rtype='prob')) and GC content as exact rationals *)
Theorem C04_probabilities : forall b k, countall b = Ok k -> (0 < length (concat (map data b)))%nat ->
  (forall c, (prob_of k c == Z.of_nat (count c (concat (map data b))) # Pos.of_nat (length (concat (map data b))))%Q) /\
  (fold_right Qplus 0 (map (prob_of k) all_bytes) == 1)%Q.
Proof. exact prob_spec. Qed.
Print Assumptions C04_probabilities.

Theorem C04_gc_fraction : forall s,
  ((count "G"%byte s + count "C"%byte s + (count "A"%byte s + count "T"%byte s + count "U"%byte s) = 0)%nat ->
     (gc_fraction s == 0)%Q) /\
  ((0 < count "G"%byte s + count "C"%byte s + (count "A"%byte s + count "T"%byte s + count "U"%byte s))%nat ->
     (gc_fraction s == Z.of_nat (count "G"%byte s + count "C"%byte s) #
        Pos.of_nat (count "G"%byte s + count "C"%byte s + (count "A"%byte s + count "T"%byte s + count "U"%byte s)))%Q) /\
  (0 <= gc_fraction s <= 1)%Q.
Proof. exact gc_fraction_spec. Qed.
Print Assumptions C04_gc_fraction.

(* ==== round 6: the .str methods with pure list semantics, as list functions ==== *)

(* lower / upper / swapcase on ASCII: pointwise maps, lengths kept, swapcase an involution, fixed points of islower/isupper *)
Theorem C04_str_case : forall s,
  length (py_lower s) = length s /\ length (py_swapcase s) = length s /\
  py_swapcase (py_swapcase s) = s /\ py_lower (py_lower s) = py_lower s /\ py_upper (py_lower s) = py_upper s /\
  py_lower (py_upper s) = py_lower s /\ py_lower (py_swapcase s) = py_lower s /\
  (py_islower s = true -> py_lower s = s) /\ (py_isupper s = true -> py_upper s = s) /\
  py_isupper s && py_islower s = false /\
  (forall i, nth_error (py_lower s) i = option_map ascii_lower (nth_error s i)) /\
  (forall i, nth_error (py_swapcase s) i = option_map ascii_swap (nth_error s i)) /\
  (forall c, ascii_swap c = if is_upper c then ascii_lower c else if is_lower c then ascii_upper c else c).
Proof. exact str_case_spec. Qed.
Print Assumptions C04_str_case.

(* the start/end arguments of count, find, index, startswith, ... select the Python slice s[a:b] *)
Theorem C04_str_window : forall s a b,
  window s None None = Some (0, s) /\
  (forall st w, window s a b = Some (st, w) ->
     getslice s (mkslice a b None) = Ok w /\ 0 <= st /\ st + Z.of_nat (length w) <= Z.of_nat (length s) /\
     st = adj_start (Z.of_nat (length s)) a) /\
  (window s a b = None -> adj_end (Z.of_nat (length s)) b < adj_start (Z.of_nat (length s)) a).
Proof. exact (fun s a b => conj (window_full s) (conj (fun st w => window_is_slice s a b st w) (window_none s a b))). Qed.
Print Assumptions C04_str_window.

(* find / rfind: the least / greatest offset of the window at which sub starts, plus the window start; -1 iff none *)
Theorem C04_str_find : forall s sub a b,
  match window s a b with
  | None => py_find s sub a b = -1 /\ py_rfind s sub a b = -1
  | Some (st, w) =>
      (py_find s sub a b = -1 /\ py_rfind s sub a b = -1 /\
       forall j, (j <= length w)%nat -> prefixb sub (skipn j w) = false) \/
      (exists i k, py_find s sub a b = st + Z.of_nat i /\ py_rfind s sub a b = st + Z.of_nat k /\ (i <= k <= length w)%nat /\
         prefixb sub (skipn i w) = true /\ prefixb sub (skipn k w) = true /\
         (forall j, (j < i)%nat -> prefixb sub (skipn j w) = false) /\
         (forall j, (k < j <= length w)%nat -> prefixb sub (skipn j w) = false))
  end.
Proof. exact py_find_spec. Qed.
Print Assumptions C04_str_find.

Theorem C04_str_prefix : forall p w, (prefixb p w = true <-> exists t, w = p ++ t) /\
  (prefixb (rev p) (rev w) = true <-> exists t, w = t ++ p).
Proof. exact (fun p w => conj (prefixb_iff p w) (suffix_iff p w)). Qed.
Print Assumptions C04_str_prefix.

(* index / rindex: find / rfind with ValueError for -1 *)
Theorem C04_str_index : forall s sub a b,
  (py_find s sub a b = -1 -> py_index s sub a b = Err ValueError) /\
  (0 <= py_find s sub a b -> py_index s sub a b = Ok (py_find s sub a b)) /\
  (py_rfind s sub a b = -1 -> py_rindex s sub a b = Err ValueError) /\
  (0 <= py_rfind s sub a b -> py_rindex s sub a b = Ok (py_rfind s sub a b)) /\
  (-1 <= py_find s sub a b) /\ (-1 <= py_rfind s sub a b).
Proof. exact py_index_spec. Qed.
Print Assumptions C04_str_index.

(* count: one letter = the letter count used by gc/countall; '' = len + 1; 0 exactly when find gives -1 *)
Theorem C04_str_count : forall s sub a b c,
  py_count s [c] None None = Z.of_nat (count c s) /\
  py_count s [] None None = Z.of_nat (length s) + 1 /\
  (sub <> [] -> (py_count s sub None None = 0 <-> py_find s sub None None = -1)) /\
  0 <= py_count s sub a b.
Proof. exact (fun s sub a b c => conj (py_count_char s c) (conj (py_count_empty s) (conj (py_count_zero_iff s sub) (py_count_nonneg s sub a b)))). Qed.
Print Assumptions C04_str_count.

(* replace: one letter for one letter is a map; the length law; nothing to replace / count 0: unchanged *)
Theorem C04_str_replace : forall s old new cnt a b,
  py_replace s [a] [b] None = map (fun c => if byte_eqb a c then b else c) s /\
  py_replace s [a] new None = flat_map (fun c => if byte_eqb a c then new else [c]) s /\
  (old <> [] -> Z.of_nat (length (py_replace s old new None)) =
                Z.of_nat (length s) + py_count s old None None * (Z.of_nat (length new) - Z.of_nat (length old))) /\
  (old <> [] -> py_find s old None None = -1 -> py_replace s old new cnt = s) /\
  py_replace s old new (Some 0) = s.
Proof. exact (fun s old new cnt a b => conj (py_replace_char s a b) (conj (replace_in_char a new s)
  (conj (py_replace_length s old new) (conj (py_replace_absent s old new cnt) (replace_lim0 old new s))))). Qed.
Print Assumptions C04_str_replace.

(* lstrip / rstrip / strip: the longest prefix / suffix of characters of the set is removed, nothing else *)
Theorem C04_str_strip : forall s cs,
  (exists l, s = l ++ py_lstrip s cs /\ forallb (strip_set cs) l = true /\
     match py_lstrip s cs with [] => True | c :: _ => strip_set cs c = false end) /\
  (exists t, s = py_rstrip s cs ++ t /\ forallb (strip_set cs) t = true /\
     match rev (py_rstrip s cs) with [] => True | c :: _ => strip_set cs c = false end) /\
  (exists l t, s = l ++ py_strip s cs ++ t /\ forallb (strip_set cs) l = true /\ forallb (strip_set cs) t = true /\
     match py_strip s cs with [] => True | c :: _ => strip_set cs c = false end /\
     match rev (py_strip s cs) with [] => True | c :: _ => strip_set cs c = false end).
Proof. exact strip_spec. Qed.
Print Assumptions C04_str_strip.

(* ljust / rjust / center: padding on the right / left / both sides (sides differ by at most one), length max(w, len) *)
Theorem C04_str_just : forall s w f,
  py_ljust s w f = s ++ repeat (fill_of f) (Z.to_nat (w - Z.of_nat (length s))) /\
  py_rjust s w f = repeat (fill_of f) (Z.to_nat (w - Z.of_nat (length s))) ++ s /\
  (exists l r, py_center s w f = repeat (fill_of f) (Z.to_nat l) ++ s ++ repeat (fill_of f) (Z.to_nat r) /\
     0 <= l /\ 0 <= r /\ l + r = Z.max (w - Z.of_nat (length s)) 0 /\ -1 <= l - r <= 1 /\
     (Z.even (w - Z.of_nat (length s)) = true -> l = r)) /\
  Z.of_nat (length (py_ljust s w f)) = Z.max w (Z.of_nat (length s)) /\
  Z.of_nat (length (py_rjust s w f)) = Z.max w (Z.of_nat (length s)) /\
  Z.of_nat (length (py_center s w f)) = Z.max w (Z.of_nat (length s)).
Proof. exact just_spec. Qed.
Print Assumptions C04_str_just.

(* startswith / endswith on the window *)
Theorem C04_str_tailmatch : forall s p a b,
  match window s a b with
  | None => py_startswith s p a b = false /\ py_endswith s p a b = false
  | Some (_, w) => (py_startswith s p a b = true <-> exists t, w = p ++ t) /\
                   (py_endswith s p a b = true <-> exists t, w = t ++ p)
  end.
Proof. exact tailmatch_spec. Qed.
Print Assumptions C04_str_tailmatch.

(* BioSeq.gc computes its five counts through self.str.count: the same numbers as the letter counts *)
Theorem C04_gc_through_str : forall s,
  seq_gc_counts s = (Z.of_nat (fst (gc_counts (data s))), Z.of_nat (snd (gc_counts (data s)))).
Proof. exact seq_gc_counts_spec. Qed.
Print Assumptions C04_gc_through_str.

(* ==== round 6: every modelled edit / query of a BioSeq is the str operation on its residue string ==== *)
Theorem C04_edit_like_str : forall e s,
  seq_edit e s = match str_edit e (data s) with Ok d => Ok (mkseq d (sid s)) | Err x => Err x end.
Proof. exact seq_edit_is_str_edit. Qed.
Print Assumptions C04_edit_like_str.

Theorem C04_query_like_str : forall q s, seq_query q s = str_query_run q (data s).
Proof. exact seq_query_is_str_query. Qed.
Print Assumptions C04_query_like_str.

(* basket-level edits (seqs[:, j] = x, seqs.str.m(...)): the edit on every residue string, in order, ids kept *)
Theorem C04_basket_edit : forall e b,
  map data (fst (edit_all e b)) = fst (str_edit_all e (map data b)) /\
  map sid (fst (edit_all e b)) = map sid b /\
  snd (edit_all e b) = snd (str_edit_all e (map data b)) /\
  length (fst (edit_all e b)) = length b /\
  (forall r, mapM (str_edit e) (map data b) = Ok r -> str_edit_all e (map data b) = (r, None)).
Proof. exact (fun e b => match edit_all_spec e b with conj H1 (conj H2 (conj H3 H4)) =>
  conj H1 (conj H2 (conj H3 (conj H4 (str_edit_all_ok e (map data b))))) end). Qed.
Print Assumptions C04_basket_edit.

(* one step of a history over an object store *)
Theorem C04_store_step : forall st h k q,
  map data (fst (dstep_run st h)) = strs_step (map data st) h /\
  map sid (fst (dstep_run st h)) = ids_step_d (map data st) (map sid st) h /\
  (length st <= length (fst (dstep_run st h)))%nat /\
  dstep_run st (DQuery k q) =
    (st, match nth_error (map data st) k with Some d => str_query_run q d | None => show_exc IndexError end).
Proof. exact (fun st h k q => conj (dstep_data st h) (conj (dstep_ids st h) (conj (dstep_length st h) (dstep_query st k q)))). Qed.
Print Assumptions C04_store_step.

(* HISTORY THEOREM: after any list of modelled operations (edits, queries, duplications, basket-level edits) the
   residue strings of all objects are the fold of the corresponding str / list operations; ids follow duplication *)
Theorem C04_store_history : forall hs st,
  map data (store_final st hs) = fold_left strs_step hs (map data st) /\
  (map data (store_final st hs), map sid (store_final st hs)) = fold_left pair_step hs (map data st, map sid st) /\
  (length st <= length (store_final st hs))%nat.
Proof. exact store_history. Qed.
Print Assumptions C04_store_history.

(* what is recorded at step n is the step result on the store reached by the first n steps *)
Theorem C04_store_run : forall hs st n h, length (store_run st hs) = length hs /\
  (nth_error hs n = Some h ->
   nth_error (store_run st hs) n =
   Some (let p := dstep_run (store_final st (firstn n hs)) h in VL [snd p; show_basket (fst p)])).
Proof. exact (fun hs st n h => conj (store_run_length hs st) (store_run_nth hs st n h)). Qed.
Print Assumptions C04_store_run.

(* an object keeps its value through every history that does not address it *)
Theorem C04_store_frame : forall hs st j, (forall h, In h hs -> edits h j = false) -> (j < length st)%nat ->
  nth_error (store_final st hs) j = nth_error st j.
Proof. exact store_frame. Qed.
Print Assumptions C04_store_frame.

(* duplicates are independent values *)
Theorem C04_dup_independent : forall st k s hs, nth_error st k = Some s ->
  ((forall h, In h hs -> edits h (length st) = false) ->
     nth_error (store_final st (DDup k :: hs)) (length st) = Some s) /\
  ((forall h, In h hs -> edits h k = false) ->
     nth_error (store_final st (DDup k :: hs)) k = Some s).
Proof. exact dup_independent. Qed.
Print Assumptions C04_dup_independent.

Theorem C04_store_eq : forall st k j s t, nth_error st k = Some s -> nth_error st j = Some t ->
  dstep_run st (DEqObj k j) = (st, VB (str_eqb (data s) (data t) && str_eqb (sid s) (sid t))).
Proof. exact dstep_eqobj. Qed.
Print Assumptions C04_store_eq.

(* letter counts over the objects of the store after a history: counts of the concatenated str history *)
Theorem C04_store_countall : forall st hs, store_final st hs <> [] ->
  exists k, snd (dstep_run (store_final st hs) DCountall) = show_counter k /\
    forall c, k c = count c (concat (fold_left strs_step hs (map data st))).
Proof. exact store_countall. Qed.
Print Assumptions C04_store_countall.

Theorem C04_store_probabilities : forall st hs k, countall (store_final st hs) = Ok k ->
  (0 < length (concat (fold_left strs_step hs (map data st))))%nat ->
  (forall c, (prob_of k c == Z.of_nat (count c (concat (fold_left strs_step hs (map data st)))) #
                             Pos.of_nat (length (concat (fold_left strs_step hs (map data st)))))%Q) /\
  (fold_right Qplus 0%Q (map (prob_of k) all_bytes) == 1)%Q.
Proof. exact store_probabilities. Qed.
Print Assumptions C04_store_probabilities.

(* seq['type']: the FIRST feature whose type EQUALS the name up to ASCII case (same length, never a proper
   substring) decides; its residues are the (gap-aware) str slice; ValueError when there is none *)
Theorem C04_ft_first_exact : forall gap s fts name,
  match ft_get fts name with
  | Some (a, b) =>
      (exists pre t post, fts = pre ++ (Some t, (a, b)) :: post /\ lower_eq t name = true /\ length t = length name /\
         forall x, In x pre -> match fst x with None => True | Some t' => lower_eq t' name = false end) /\
      seq_getitem_type gap s fts name =
        match seq_getitem gap s (ISlice (mkslice (Some a) (Some b) None)) with Ok r => Ok r | Err e => Err e end
  | None => (forall x, In x fts -> match fst x with None => True | Some t' => lower_eq t' name = false end) /\
            seq_getitem_type gap s fts name = Err ValueError
  end /\ (forall t, lower_eq t name = true <-> py_lower t = py_lower name).
Proof. exact (fun gap s fts name => conj
  (match ft_get fts name as o return
     match o with Some loc => exists pre t post, fts = pre ++ (Some t, loc) :: post /\ lower_eq t name = true /\
                    forall x, In x pre -> match fst x with None => True | Some t' => lower_eq t' name = false end
               | None => forall x, In x fts -> match fst x with None => True | Some t' => lower_eq t' name = false end end ->
     match o with
     | None => seq_getitem_type gap s fts name = Err ValueError
     | Some (a, b) => seq_getitem_type gap s fts name =
         match seq_getitem gap s (ISlice (mkslice (Some a) (Some b) None)) with Ok r => Ok r | Err e => Err e end
     end ->
     match o with
     | Some (a, b) =>
        (exists pre t post, fts = pre ++ (Some t, (a, b)) :: post /\ lower_eq t name = true /\ length t = length name /\
           forall x, In x pre -> match fst x with None => True | Some t' => lower_eq t' name = false end) /\
        seq_getitem_type gap s fts name =
          match seq_getitem gap s (ISlice (mkslice (Some a) (Some b) None)) with Ok r => Ok r | Err e => Err e end
     | None => (forall x, In x fts -> match fst x with None => True | Some t' => lower_eq t' name = false end) /\
               seq_getitem_type gap s fts name = Err ValueError
     end
   with
   | Some (a, b) => fun H1 H2 => conj (match H1 with ex_intro _ pre (ex_intro _ t (ex_intro _ post (conj Ha (conj Hb Hc)))) =>
        ex_intro _ pre (ex_intro _ t (ex_intro _ post (conj Ha (conj Hb (conj (lower_eq_length t name Hb) Hc))))) end) H2
   | None => fun H1 H2 => conj H1 H2
   end (ft_get_spec name fts) (seq_getitem_type_spec gap s fts name))
  (fun t => lower_eq_iff t name)). Qed.
Print Assumptions C04_ft_first_exact.

(* ==== round 7 ==== *)
(* LOWER CASE AND THE CONSTRUCTOR: every subscript (plain or gap-aware, int or slice, any step) of a sequence that may
   hold lower case is the same subscript of its residue string, upper-cased by the constructor, with the id kept *)
Theorem C04_slice_through_constructor : forall gap s ix,
  seq_getitem gap s ix = match str_getitem gap (data s) ix with Ok r => Ok (mkseq (py_upper r) (sid s)) | Err e => Err e end.
Proof. exact seq_getitem_is_str_getitem. Qed.
Print Assumptions C04_slice_through_constructor.

(* the slicing step of the object-store histories: answer and appended object *)
Theorem C04_store_slice : forall st k gap ix s, nth_error st k = Some s ->
  dstep_run st (DSlice k gap ix) =
  match str_getitem gap (data s) ix with
  | Ok r => (st ++ [mkseq (py_upper r) (sid s)], show_seq (mkseq (py_upper r) (sid s)))
  | Err x => (st, show_exc x)
  end.
Proof. exact dstep_slice. Qed.
Print Assumptions C04_store_slice.

(* + and right-+ in the object-store histories: a new object, upper-cased as a whole by the constructor (+= is an edit
   and keeps the case: C04_edit_like_str) *)
Theorem C04_store_concat : forall st k t s, nth_error st k = Some s ->
  dstep_run st (DAdd k t) = (st ++ [mkseq (py_upper (data s ++ t)) (sid s)], show_seq (mkseq (py_upper (data s ++ t)) (sid s))) /\
  dstep_run st (DRadd k t) = (st ++ [mkseq (py_upper (t ++ data s)) (sid s)], show_seq (mkseq (py_upper (t ++ data s)) (sid s))).
Proof. exact dstep_add. Qed.
Print Assumptions C04_store_concat.

(* ---- round 7: the remaining methods of the namespace as list functions ---- *)
(* removeprefix / removesuffix cut exactly one leading / trailing copy, and nothing otherwise *)
Theorem C04_str_remove_affix : forall s p,
  ((forall t, s = p ++ t -> py_removeprefix s p = t) /\
   (prefixb p s = false -> py_removeprefix s p = s) /\
   (exists t, s = (if prefixb p s then p else []) ++ t /\ py_removeprefix s p = t)) /\
  ((forall t, s = t ++ p -> py_removesuffix s p = t) /\
   (prefixb (rev p) (rev s) = false -> py_removesuffix s p = s) /\
   (exists t, s = t ++ (if prefixb (rev p) (rev s) then p else []) /\ py_removesuffix s p = t)).
Proof. exact (fun s p => conj (removeprefix_spec s p) (removesuffix_spec s p)). Qed.
Print Assumptions C04_str_remove_affix.

(* isalpha: non-empty and letters only; isascii; on letters-only strings isupper / islower are fixpoints of upper / lower *)
Theorem C04_str_predicates : forall s,
  (py_isalpha s = true <-> s <> [] /\ forall c, In c s -> is_alpha c = true) /\
  (py_isascii s = true <-> forall c, In c s -> is_ascii c = true) /\
  (py_isalpha s = true -> py_isascii s = true /\ (py_isupper s = true <-> py_upper s = s) /\ (py_islower s = true <-> py_lower s = s)).
Proof. exact isalpha_spec. Qed.
Print Assumptions C04_str_predicates.

(* split / rsplit with a separator, every maxsplit: joining the pieces with the separator gives the string back,
   there is at least one piece and at most maxsplit + 1; an empty separator is a ValueError *)
Theorem C04_str_split_sep : forall s sep ms,
  (sep <> [] ->
   (exists l, py_split s (Some sep) ms = Ok l /\ join sep l = s /\ l <> [] /\
              (forall k, lim_of ms = Some k -> (length l <= S k)%nat)) /\
   (exists l, py_rsplit s (Some sep) ms = Ok l /\ join sep l = s /\ l <> [] /\
              (forall k, lim_of ms = Some k -> (length l <= S k)%nat))) /\
  py_split s (Some []) ms = Err ValueError /\ py_rsplit s (Some []) ms = Err ValueError.
Proof. exact (fun s sep ms => conj (fun H => conj (py_split_sep_spec s sep ms H) (py_rsplit_sep_spec s sep ms H)) (py_split_empty_sep s ms)). Qed.
Print Assumptions C04_str_split_sep.

(* split() on white space: the pieces are non-empty, free of white space, and together all other characters in order *)
Theorem C04_str_split_ws : forall s,
  (exists l, py_split s None None = Ok l /\ concat l = filter nonws s /\
             Forall (fun p => p <> [] /\ forallb nonws p = true) l) /\
  (exists l, py_rsplit s None None = Ok l /\ concat l = filter nonws s /\
             Forall (fun p => p <> [] /\ forallb nonws p = true) l).
Proof. exact (fun s => conj (py_split_ws_spec s) (py_rsplit_ws_spec s)). Qed.
Print Assumptions C04_str_split_ws.

(* the number of pieces of split(sep, maxsplit) is min(count(sep), maxsplit) + 1: split and count see the same
   leftmost non-overlapping occurrences *)
Theorem C04_str_split_count : forall s sep ms, sep <> [] ->
  exists l, py_split s (Some sep) ms = Ok l /\
    Z.of_nat (length l) = match lim_of ms with
                          | None => py_count s sep None None + 1
                          | Some k => Z.min (py_count s sep None None) (Z.of_nat k) + 1
                          end.
Proof. exact py_split_count. Qed.
Print Assumptions C04_str_split_count.

(* splitlines: with keepends the lines concatenate to the string; without, no line holds a line break and together
   they are all other characters in order *)
Theorem C04_str_splitlines : forall s,
  concat (py_splitlines s true) = s /\
  Forall (fun p => forallb nonlb p = true) (py_splitlines s false) /\
  concat (py_splitlines s false) = filter nonlb s.
Proof. exact py_splitlines_spec. Qed.
Print Assumptions C04_str_splitlines.

(* maketrans(x, y, z) + translate: ValueError iff the lengths differ; z deletes; other characters are kept; the LAST
   occurrence of a character in x decides (dict assignment overwrites) *)
Theorem C04_str_maketrans : forall x y z,
  (length x <> length y -> py_maketrans x y z = Err ValueError) /\
  (length x = length y -> exists t, py_maketrans x y z = Ok t /\
     (forall c, In c z -> translate_tbl [c] t = []) /\
     (forall c, ~ In c z -> ~ In c x -> translate_tbl [c] t = [c]) /\
     (forall c b x1 x2 y1 y2, ~ In c z -> x = x1 ++ c :: x2 -> y = y1 ++ b :: y2 -> length x1 = length y1 -> ~ In c x2 ->
        translate_tbl [c] t = [b])) /\
  (forall t a b, translate_tbl (a ++ b) t = translate_tbl a t ++ translate_tbl b t).
Proof. exact (fun x y z => conj (proj1 (maketrans_spec x y z)) (conj (proj2 (maketrans_spec x y z)) (fun t a b => translate_tbl_app t a b))). Qed.
Print Assumptions C04_str_maketrans.

Theorem C04_str_tailmatch_tuple : forall s ps a b,
  (py_startswith_any s ps a b = true <-> exists p, In p ps /\ py_startswith s p a b = true) /\
  (py_endswith_any s ps a b = true <-> exists p, In p ps /\ py_endswith s p a b = true).
Proof. exact tailmatch_any_spec. Qed.
Print Assumptions C04_str_tailmatch_tuple.

(* ---- round 7: gap-aware subscripts with ANY step, as the code is ---- *)
(* start and stop (residue numbers) are replaced by columns, the step is applied to columns; the constructor upper-cases *)
Theorem C04_gap_any_step_as_is : forall g s sl ng len i,
  seq_getitem (Some g) s (ISlice sl) =
  match getslice (data s) (mkslice (adj (nogaps g (data s)) (Z.of_nat (length (data s))) (sl_start sl))
                                   (adj (nogaps g (data s)) (Z.of_nat (length (data s))) (sl_stop sl)) (sl_step sl)) with
  | Ok d => Ok (mkseq (py_upper d) (sid s))
  | Err e => Err e
  end /\
  adj ng len None = None /\
  (0 <= i < Z.of_nat (length ng) -> adj ng len (Some i) = Some (nth (Z.to_nat i) ng len)) /\
  (Z.of_nat (length ng) <= i -> adj ng len (Some i) = Some len) /\
  (- Z.of_nat (length ng) <= i < 0 -> adj ng len (Some i) = Some (nth (Z.to_nat (i + Z.of_nat (length ng))) ng len)) /\
  (i < - Z.of_nat (length ng) -> adj ng len (Some i) = Some (nth O ng len)).
Proof. exact (fun g s sl ng len i => conj (gap_any_step_as_is g s sl) (adj_cases ng len i)). Qed.
Print Assumptions C04_gap_any_step_as_is.

(* "same residues as slicing the degapped string" survives for the whole sequence reversed ... *)
Theorem C04_gap_reverse_whole : forall g s,
  seq_getitem (Some g) s (ISlice (mkslice None None (Some (-1)))) = Ok (mkseq (py_upper (rev (data s))) (sid s)) /\
  degap g (rev (data s)) = rev (degap g (data s)) /\
  pyget (degap g (data s)) (ISlice (mkslice None None (Some (-1)))) = Ok (degap g (rev (data s))).
Proof. exact gap_reverse_whole. Qed.
Print Assumptions C04_gap_reverse_whole.

(* ... and is REFUTED in general: 'A-CG'.sl(gap='-')[::2] = 'AC' (degapped: 'ACG'[::2] = 'AG'), and without any gap
   'ACG'.sl(gap='-')[:-100:-1] = 'GC' ('ACG'[:-100:-1] = 'GCA') *)
Theorem C04_gap_step_refuted :
  ~ gap_slice_same_residues (bs "-"%bs) (mkseq (bs "A-CG"%bs) (bs "x"%bs)) (mkslice None None (Some 2)) /\
  ~ gap_slice_same_residues (bs "-"%bs) (mkseq (bs "ACG"%bs) (bs "x"%bs)) (mkslice None (Some (-100)) (Some (-1))).
Proof. exact gap_step_refuted. Qed.
Print Assumptions C04_gap_step_refuted.

(* ... and for sequences WITHOUT gap characters and any step > 0 the gap-aware subscript is the plain one (the second
   witness above shows that this stops at negative steps) *)
Theorem C04_gap_free_positive_step : forall g s sl, (forall c, In c (data s) -> in_gap g c = false) ->
  match sl_step sl with None => True | Some k => 0 < k end ->
  seq_getitem (Some g) s (ISlice sl) = seq_getitem None s (ISlice sl).
Proof. exact gap_free_positive_step. Qed.
Print Assumptions C04_gap_free_positive_step.

(* the same for EVERY step (0: ValueError on both sides; negative: as long as no bound lies below -len, where adj
   clamps to the first residue - the second witness of C04_gap_step_refuted) *)
Theorem C04_gap_free_any_step : forall g s sl, (forall c, In c (data s) -> in_gap g c = false) ->
  bound_ok (Z.of_nat (length (data s))) (sl_step sl) (sl_start sl) ->
  bound_ok (Z.of_nat (length (data s))) (sl_step sl) (sl_stop sl) ->
  seq_getitem (Some g) s (ISlice sl) = seq_getitem None s (ISlice sl).
Proof. exact gap_free_any_step. Qed.
Print Assumptions C04_gap_free_any_step.

(* GAP-AWARE REVERSED SLICES (step -1), any gaps, every start / stop that is None or not below -(number of residues):
   "selects the same residues as slicing the degapped string" SURVIVES - the result is the reversed run of columns
   between the two residues, its residues are degapped[a:b:-1] *)
Theorem C04_gap_reverse_slice : forall g s a b,
  rev_bound_ok (Z.of_nat (length (degap g (data s)))) a -> rev_bound_ok (Z.of_nat (length (degap g (data s)))) b ->
  no_lower (data s) = true ->
  exists r, seq_getitem (Some g) s (ISlice (mkslice a b (Some (-1)))) = Ok (mkseq r (sid s)) /\
            pyget (degap g (data s)) (ISlice (mkslice a b (Some (-1)))) = Ok (degap g r).
Proof. exact seq_gap_reverse_slice. Qed.
Print Assumptions C04_gap_reverse_slice.

(* subscripts commute with upper(): the subscript of a sequence holding lower case is the str subscript of the
   upper-cased residue string, i.e. what the sequence constructed from the same residues gives *)
Theorem C04_slice_lower_is_slice_of_upper : forall s ix,
  seq_getitem None s ix = match pyget (py_upper (data s)) ix with Ok r => Ok (mkseq r (sid s)) | Err e => Err e end /\
  seq_getitem None s ix = seq_getitem None (new_seq (data s) (sid s)) ix.
Proof. exact slice_lower_is_slice_of_upper. Qed.
Print Assumptions C04_slice_lower_is_slice_of_upper.

(* ---- non-vacuity ---- *)
Example C04_witness_slice : getslice (bs "A-CG--T"%bs) (mkslice (Some (-5)) (Some 9) None) = Ok (bs "CG--T"%bs) /\
  getslice (bs "ACGTN"%bs) (mkslice (Some 9) (Some (-9)) (Some (-2))) = Ok (bs "NGA"%bs) /\
  slice_indices 5 (mkslice (Some 9) (Some (-9)) (Some (-2))) = Some (4, -1, -2, 3).
Proof. exact (conj eq_refl (conj eq_refl eq_refl)). Qed.

Example C04_witness_gap : no_lower (bs "A-CG--T"%bs) = true /\
  seq_getitem (Some (bs "-"%bs)) (mkseq (bs "A-CG--T"%bs) (bs "x"%bs)) (ISlice (mkslice (Some 1) (Some 3) None))
    = Ok (mkseq (bs "CG--"%bs) (bs "x"%bs)) /\
  seq_getitem (Some (bs "-"%bs)) (mkseq (bs "A-CG--T"%bs) (bs "x"%bs)) (ISlice (mkslice (Some 4) None None))
    = Ok (mkseq [] (bs "x"%bs)) /\
  seq_getitem (Some (bs "-"%bs)) (mkseq (bs "A-CG--T"%bs) (bs "x"%bs)) (IInt 4) = Err IndexError.
Proof. exact (conj eq_refl (conj eq_refl (conj eq_refl eq_refl))). Qed.

Example C04_witness_basket :
  basket_set_slj (mk_basket [bs "ACGT"%bs; bs "GGTA"%bs]) (mkslice None None None) (IInt 1) (bs "x"%bs)
  = Ok [mkseq (bs "AxGT"%bs) (bs "s0"%bs); mkseq (bs "GxTA"%bs) (bs "s1"%bs)] /\
  basket_set_ij (mk_basket [bs "ACGT"%bs; bs "GGTA"%bs]) (-1) (ISlice (mkslice (Some 1) (Some 3) None)) (bs "N"%bs)
  = Ok [mkseq (bs "ACGT"%bs) (bs "s0"%bs); mkseq (bs "GNA"%bs) (bs "s1"%bs)] /\
  basket_set_ij (mk_basket [bs "ACGT"%bs]) 1 (IInt 0) (bs "N"%bs) = Err IndexError.
Proof. exact (conj eq_refl (conj eq_refl eq_refl)). Qed.

Example C04_witness_eq :
  seq_eq_val (new_seq (bs "META"%bs) []) (VS (bs "META"%bs)) = true /\
  seq_eq_val (new_seq (bs "META"%bs) []) (VS (bs "meta"%bs)) = false /\
  seq_eq_val (new_seq (bs "meta"%bs) []) (VS (bs "meta"%bs)) = false /\
  seq_eq_val (new_seq (bs "META"%bs) []) VNone = false /\ seq_eq_val (new_seq (bs "4"%bs) []) (VI 4) = false /\
  basket_index (mk_basket [bs "ACGT"%bs; bs "META"%bs]) (VS (bs "META"%bs)) 0 = Some 1 /\
  basket_index (mk_basket [bs "ACGT"%bs; bs "META"%bs]) (VS (bs "meta"%bs)) 0 = None.
Proof. exact (conj eq_refl (conj eq_refl (conj eq_refl (conj eq_refl (conj eq_refl (conj eq_refl eq_refl)))))). Qed.

Example C04_witness_extended :
  slice_indices 6 (mkslice (Some 5) None (Some (-2))) = Some (5, -1, -2, 3) /\
  seq_setitem (mkseq (bs "ACGTNN"%bs) (bs "x"%bs)) (ISlice (mkslice (Some 5) None (Some (-2)))) (bs "123"%bs)
    = Ok (mkseq (bs "A3G2N1"%bs) (bs "x"%bs)) /\
  seq_setitem (mkseq (bs "ACGTNN"%bs) (bs "x"%bs)) (ISlice (mkslice (Some 5) None (Some (-2)))) (bs "12"%bs) = Err ValueError /\
  basket_set_slj (mk_basket [bs "AC"%bs; bs "GG"%bs; bs "TT"%bs]) (mkslice None None (Some 2)) (IInt 0) (bs "x"%bs)
    = Ok [mkseq (bs "xC"%bs) (bs "s0"%bs); mkseq (bs "GG"%bs) (bs "s1"%bs); mkseq (bs "xT"%bs) (bs "s2"%bs)] /\
  (gc_fraction (bs "GGCA-N"%bs) == 3 # 4)%Q.
Proof. exact (conj eq_refl (conj eq_refl (conj eq_refl (conj eq_refl eq_refl)))). Qed.

(* round 6 *)
Example C04_witness_str :
  py_find (bs "ACgttGCA"%bs) (bs "G"%bs) None None = 5 /\ py_rfind (bs "ACGTACGT"%bs) (bs "T"%bs) (Some (-5)) (Some (-1)) = 3 /\
  py_count (bs "AAAA"%bs) (bs "AA"%bs) None None = 2 /\ py_count (bs "AAAA"%bs) [] (Some 1) None = 4 /\
  py_index (bs "ACGT"%bs) (bs "GG"%bs) None None = Err ValueError /\
  py_find (bs "abc"%bs) [] (Some 4) None = -1 /\
  py_replace (bs "ACGTACGA"%bs) (bs "AC"%bs) [] (Some 2) = bs "GTGA"%bs /\
  py_replace (bs "AAAA"%bs) [] (bs "-"%bs) (Some 2) = bs "-A-AAA"%bs /\
  py_center (bs "AC"%bs) 5 (Some "-"%byte) = bs "--AC-"%bs /\ py_center (bs "ACG"%bs) 6 (Some "-"%byte) = bs "-ACG--"%bs /\
  py_strip (bs "-.AC.-"%bs) (Some (bs ".-"%bs)) = bs "AC"%bs /\ py_swapcase (bs "ACgt-"%bs) = bs "acGT-"%bs /\
  py_endswith (bs "ACGT"%bs) (bs "CG"%bs) (Some 0) (Some 3) = true /\ py_islower (bs "acg-"%bs) = true.
Proof. exact (conj eq_refl (conj eq_refl (conj eq_refl (conj eq_refl (conj eq_refl (conj eq_refl (conj eq_refl (conj eq_refl (conj eq_refl (conj eq_refl (conj eq_refl (conj eq_refl (conj eq_refl (eq_refl)))))))))))))). Qed.

Example C04_witness_store :
  (* lower case written by item assignment; duplicate; edit the duplicate; the source is untouched *)
  store_final (mk_store [bs "ACGTTGCA"%bs])
    [DEdit 0 (ESet (ISlice (mkslice (Some 2) (Some 5) None)) (bs "gtt"%bs)); DDup 0;
     DEdit 1 (EReplace (bs "G"%bs) (bs "N"%bs) None); DEdit 1 ESwapcase]
  = [mkseq (bs "ACgttGCA"%bs) (bs "o0"%bs); mkseq (bs "acGTTnca"%bs) (bs "o0"%bs)] /\
  snd (dstep_run [mkseq (bs "ACgttGCA"%bs) (bs "o0"%bs)] (DQuery 0 (QCount (bs "g"%bs) None None))) = VI 1 /\
  snd (dstep_run [mkseq (bs "ACgttGCA"%bs) (bs "o0"%bs)] (DQuery 0 QGc)) = VL [VI 3; VI 5] /\
  edits (DEdit 1 ESwapcase) 0 = false.
Proof. exact (conj eq_refl (conj eq_refl (conj eq_refl (eq_refl)))). Qed.

Example C04_witness_ft :
  ft_get [(Some (bs "gene"%bs), (0, 18)); (None, (3, 5)); (Some (bs "pseudogene"%bs), (4, 10)); (Some (bs "RNA"%bs), (1, 5));
          (Some (bs "mRNA"%bs), (12, 20))] (bs "PseudoGene"%bs) = Some (4, 10) /\
  ft_get [(Some (bs "RNA"%bs), (1, 5)); (Some (bs "mRNA"%bs), (12, 20))] (bs "mrna"%bs) = Some (12, 20) /\
  ft_get [(Some (bs "RNA"%bs), (1, 5)); (Some [], (2, 4))] (bs "tRNA"%bs) = None /\
  seq_getitem_type None (mk false (bs "ACGTTGCAAGGCTTAACCGG"%bs))
    [(Some (bs "gene"%bs), (0, 18)); (Some (bs "pseudogene"%bs), (4, 10))] (bs "pseudogene"%bs)
  = Ok (mkseq (bs "TGCAAG"%bs) (bs "x"%bs)).
Proof. exact (conj eq_refl (conj eq_refl (conj eq_refl (eq_refl)))). Qed.

(* round 7 *)
Example C04_witness_str7 :
  py_split (bs " a  b c "%bs) None (Some 1) = Ok [bs "a"%bs; bs "b c "%bs] /\
  py_rsplit (bs " a  b c "%bs) None (Some 1) = Ok [bs " a  b"%bs; bs "c"%bs] /\
  py_split (bs "AAA"%bs) (Some (bs "AA"%bs)) None = Ok [[]; bs "A"%bs] /\
  py_rsplit (bs "AAA"%bs) (Some (bs "AA"%bs)) None = Ok [bs "A"%bs; []] /\
  py_split (bs "A-C-G"%bs) (Some (bs "-"%bs)) (Some 1) = Ok [bs "A"%bs; bs "C-G"%bs] /\
  py_split [] None None = Ok [] /\ py_split [] (Some (bs "-"%bs)) None = Ok [[]] /\
  py_splitlines [x41; x0d; x0a; x43; x0a; x0d; x47; x0a] false = [bs "A"%bs; bs "C"%bs; []; bs "G"%bs] /\
  py_splitlines [x41; x0d; x0a; x43] true = [[x41; x0d; x0a]; bs "C"%bs] /\
  py_removeprefix (bs "ACAC"%bs) (bs "AC"%bs) = bs "AC"%bs /\ py_removesuffix (bs "ACGT"%bs) (bs "T"%bs) = bs "ACG"%bs /\
  py_removesuffix (bs "ACGT"%bs) (bs "A"%bs) = bs "ACGT"%bs /\
  py_isalpha (bs "ACgt"%bs) = true /\ py_isalpha (bs "AC-"%bs) = false /\ py_isalpha [] = false /\ py_isascii [] = true /\
  str_edit (ETransMk (bs "AAC"%bs) (bs "xyz"%bs) (bs "G"%bs)) (bs "ACGT"%bs) = Ok (bs "yzT"%bs) /\
  str_edit (ETransMk (bs "A"%bs) (bs "xy"%bs) []) (bs "ACGT"%bs) = Err ValueError.
Proof. exact (conj eq_refl (conj eq_refl (conj eq_refl (conj eq_refl (conj eq_refl (conj eq_refl (conj eq_refl (conj eq_refl (conj eq_refl (conj eq_refl (conj eq_refl (conj eq_refl (conj eq_refl (conj eq_refl (conj eq_refl (conj eq_refl (conj eq_refl eq_refl))))))))))))))))). Qed.

Example C04_witness_slice7 :
  (* a sequence holding lower case: its slice comes back upper-cased; gap-aware with step 2 counts columns *)
  seq_getitem None (mkseq (bs "ACgtT"%bs) (bs "x"%bs)) (ISlice (mkslice (Some 1) (Some 4) None)) = Ok (mkseq (bs "CGT"%bs) (bs "x"%bs)) /\
  seq_getitem (Some (bs "-"%bs)) (mkseq (bs "A-CG"%bs) (bs "x"%bs)) (ISlice (mkslice None None (Some 2))) = Ok (mkseq (bs "AC"%bs) (bs "x"%bs)) /\
  pyget (degap (bs "-"%bs) (bs "A-CG"%bs)) (ISlice (mkslice None None (Some 2))) = Ok (bs "AG"%bs) /\
  store_final (mk_store [bs "ACGT"%bs]) [DEdit 0 ELower; DSlice 0 None (ISlice (mkslice (Some 1) None None)); DSliceIn 0 None (IInt 0)]
  = [mkseq (bs "A"%bs) (bs "o0"%bs); mkseq (bs "CGT"%bs) (bs "o0"%bs); mkseq (bs "A"%bs) (bs "o0"%bs)].
Proof. exact (conj eq_refl (conj eq_refl (conj eq_refl eq_refl))). Qed.

Example C04_witness_gap_reverse :
  rev_bound_ok 3 (Some 1) /\ rev_bound_ok 3 (Some (-3)) /\ bound_ok 4 (Some (-2)) (Some (-4)) /\
  seq_getitem (Some (bs "-"%bs)) (mkseq (bs "A--C-G-"%bs) (bs "x"%bs)) (ISlice (mkslice (Some 1) (Some (-3)) (Some (-1))))
    = Ok (mkseq (bs "C--"%bs) (bs "x"%bs)) /\
  pyget (bs "ACG"%bs) (ISlice (mkslice (Some 1) (Some (-3)) (Some (-1)))) = Ok (bs "C"%bs).
Proof. exact (conj (proj1 (Z.leb_le (-3) 1) eq_refl) (conj (proj1 (Z.leb_le (-3) (-3)) eq_refl) (conj (or_intror (proj1 (Z.leb_le (-4) (-4)) eq_refl)) (conj eq_refl eq_refl)))). Qed.
