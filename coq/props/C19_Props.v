(* C19 -- Entrez client stays within the request rate and reuses its file cache. Statements only. *)
From Coq Require Import List ZArith Bool NArith.
Import ListNotations.
From SV Require Import Text G_entrez C19_Model C19_Lemmas C19_Rate2.
Open Scope Z_scope.

(* for every call history (arrival gaps, sleep overshoots, request durations all arbitrary non-negative): the request N
   places earlier was recorded at least one window before; N = 3 or 10, window = _seconds, from the regenerated constants *)
Theorem C19_rate_limit : forall api cs, Forall call_ok cs ->
  spaced (limit api) window (hist (run (limit api) window cs)).
Proof. exact shipped_rate_limit. Qed.
Print Assumptions C19_rate_limit.

(* hence every half-open window of one second contains at most N request starts *)
Theorem C19_window_limit : forall api cs x, Forall call_ok cs ->
  (count_in_window window x (hist (run (limit api) window cs)) <= limit api)%nat.
Proof. exact shipped_window_limit. Qed.
Print Assumptions C19_window_limit.

(* sleep is called only when N requests are on record and the oldest of them is younger than the window *)
Theorem C19_no_needless_sleep : forall api d t e, snd (wait (limit api) window d t e) <> 0 ->
  (limit api <= length d)%nat /\ exists prev rest, d = prev :: rest /\ t - prev < window.
Proof. exact shipped_no_needless_sleep. Qed.
Print Assumptions C19_no_needless_sleep.

(* ... and when it is called in a reachable state the window is not free: the N most recent requests all started less
   than one window before the caller's arrival, so starting at once would put N + 1 starts into one window *)
Theorem C19_sleep_means_window_full : forall api cs c, Forall call_ok cs -> call_ok c ->
  let s := run (limit api) window cs in let t := now s + gap c in
  snd (wait (limit api) window (dq s) t (eps c)) <> 0 ->
  (limit api <= length (filter (fun x => (t - window <? x)%Z) (firstn (limit api) (hist s))))%nat
  /\ length (firstn (limit api) (hist s)) = limit api.
Proof. exact shipped_sleep_means_window_full. Qed.
Print Assumptions C19_sleep_means_window_full.

(* cache decision: a request is issued iff no cache path, no file, empty file, or overwrite *)
Theorem C19_request_iff : forall f c,
  fst (snd (fetch f c)) = true <->
  (f_path c = None \/ exists p, f_path c = Some p /\
     (fs_get (fkey c p) f = None \/ (exists v, fs_get (fkey c p) f = Some v /\ length v = 0%nat) \/ f_overwrite c = true)).
Proof. exact request_iff. Qed.
Print Assumptions C19_request_iff.

Theorem C19_cache_hit : forall f c p v, f_path c = Some p -> fs_get (fkey c p) f = Some v -> v <> [] ->
  f_overwrite c = false -> fetch f c = (f, (false, v)).
Proof. exact cache_hit. Qed.
Print Assumptions C19_cache_hit.

Theorem C19_fetch_request : forall f c, fst (snd (fetch f c)) = true ->
  snd (snd (fetch f c)) = f_payload c /\
  forall p, f_path c = Some p -> fs_get (fkey c p) (fst (fetch f c)) = Some (f_payload c).
Proof. exact fetch_request. Qed.
Print Assumptions C19_fetch_request.

(* at most one request per (path, id, extension) in any history, unless overwrite is set or the payload was empty;
   the server may answer differently at different times (f_payload is per call) *)
Theorem C19_cache_once : forall f pre c p mid c2 p2,
  f_path c = Some p -> f_payload c <> [] -> Forall (pay_ok (fkey c p)) mid ->
  f_path c2 = Some p2 -> fkey c2 p2 = fkey c p -> f_overwrite c2 = false ->
  let f' := fst (fetch_all (fst (fetch (fst (fetch_all f pre)) c)) mid) in
  exists v, fetch f' c2 = (f', (false, v)) /\ v <> [].
Proof. exact cache_once. Qed.
Print Assumptions C19_cache_once.

(* ... in particular for a server whose answer depends on the id only *)
Theorem C19_cache_once_const : forall (server : N -> str) f pre c p mid c2 p2,
  Forall (fun x => f_payload x = server (f_id x)) (c :: mid) ->
  f_path c = Some p -> server (f_id c) <> [] ->
  f_path c2 = Some p2 -> fkey c2 p2 = fkey c p -> f_overwrite c2 = false ->
  let f' := fst (fetch_all (fst (fetch (fst (fetch_all f pre)) c)) mid) in
  exists v, fetch f' c2 = (f', (false, v)) /\ v <> [].
Proof. exact cache_once_const. Qed.
Print Assumptions C19_cache_once_const.

(* ---- round 7: the limit is chosen per call (client.api_key may change between calls) ---- *)
(* ANY history, the key free to change at every call: no half-open one-second window [x, x + W), x any integer tick (hence any
   real x: the starts are integer ticks), contains more than the larger limit of request starts; failed requests count as starts *)
Theorem C19_window_limit_any_key : forall cs x, Forall (fun kc => call_ok (snd kc)) cs ->
  (count_in_window window x (hist (run2 cs)) <= limit true)%nat.
Proof. exact window_limit_mixed. Qed.
Print Assumptions C19_window_limit_any_key.

(* a key added later: the keyless requests (a prefix) obey the small limit, the whole history the large one *)
Theorem C19_key_added_later : forall a b x, Forall call_ok a -> Forall call_ok b ->
  let h1 := hist (run2 (map (pair false) a)) in
  let h := hist (run2 (map (pair false) a ++ map (pair true) b)) in
  (count_in_window window x h1 <= limit false)%nat /\ (count_in_window window x h <= limit true)%nat /\
  exists new, h = new ++ h1 /\ length new = length b.
Proof. exact key_added_later. Qed.
Print Assumptions C19_key_added_later.

(* a key REMOVED from a client that has used it: the deque never shrinks, and more than the keyless limit of keyless requests
   start within one window (PENDING FIX keyswitch) *)
Theorem C19_key_removed_refuted :
  exists pre post x, forallb call_okb (pre ++ post) = true /\
    let h := hist (run2 (map (pair true) pre ++ map (pair false) post)) in
    (limit false <? count_in_window window x (firstn (length post) h))%nat = true.
Proof. exact key_removed_refuted. Qed.
Print Assumptions C19_key_removed_refuted.

(* sleep is called exactly when the popleft branch is taken and the popped stamp is younger than the window (any state) *)
Theorem C19_wait_sleeps_iff : forall N W d t e, 0 <= e ->
  (snd (wait N W d t e) <> 0 <-> (N <= length d)%nat /\ exists prev rest, d = prev :: rest /\ t - prev < W).
Proof. exact wait_sleeps_iff. Qed.
Print Assumptions C19_wait_sleeps_iff.

(* "never sleeps when the window is free" as an iff: in a reachable state the client sleeps exactly when N requests started
   within the last second before the caller's arrival (starting at once would make N + 1 starts in one window) *)
Theorem C19_sleep_iff_window_full : forall api cs c, Forall call_ok cs -> call_ok c ->
  let s := run (limit api) window cs in let t := now s + gap c in
  snd (wait (limit api) window (dq s) t (eps c)) <> 0 <->
  (limit api <= length (filter (fun x => (t - window <? x)%Z) (hist s)))%nat.
Proof. exact shipped_sleep_iff_window_full. Qed.
Print Assumptions C19_sleep_iff_window_full.

(* non-vacuity: a history that switches the key on and off *)
Example C19_witness_keys :
  let cs := [(false, c0); (true, c0); (true, c0); (true, c0); (false, c0); (false, c0)] in
  Forall (fun kc => call_ok (snd kc)) cs /\ rev (hist (run2 cs)) = [0; 0; 0; 0; 1024; 1024].
Proof. exact witness_keys. Qed.

(* non-vacuity: a burst of five immediate calls without API key; the 4th must wait a full window *)
Example C19_witness :
  let cs := map mk_call [(0, 0, 0); (0, 0, 0); (0, 0, 0); (0, 0, 0); (0, 0, 0)] in
  forallb call_okb cs = true /\ rev (hist (run (limit false) window cs)) = [0; 0; 0; 1024; 1024].
Proof. exact (conj eq_refl eq_refl). Qed.
