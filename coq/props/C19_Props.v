(* C19 -- Entrez client stays within the request rate and reuses its file cache. Statements only. *)
From Coq Require Import List ZArith Bool NArith.
Import ListNotations.
From SV Require Import Text G_entrez C19_Model C19_Lemmas C19_Rate2 C19_Client.
Open Scope Z_scope.

(* for every call history (arrival gaps, sleep overshoots, request durations all arbitrary non-negative): the request N
   places earlier was recorded at least one window before; N = 3 or 10, window = _seconds, from the regenerated constants *)
Theorem C19_rate_limit : forall api cs, Forall call_ok cs ->
  spaced (limit api) window (hist (run (limit api) window cs)).
Proof. exact shipped_rate_limit. Qed.
Print Assumptions C19_rate_limit.

(* hence every half-open window of one second contains at most N request starts *)
Theorem C19_window_limit : forall api cs x, Forall call_ok cs ->
  (count_in_window window x (hist (run (limit api) window cs)) <= limit api)%nat.
Proof. exact shipped_window_limit. Qed.
Print Assumptions C19_window_limit.

(* sleep is called only when N requests are on record and the oldest of them is younger than the window *)
Theorem C19_no_needless_sleep : forall api d t e, snd (wait (limit api) window d t e) <> 0 ->
  (limit api <= length d)%nat /\ exists prev rest, d = prev :: rest /\ t - prev < window.
Proof. exact shipped_no_needless_sleep. Qed.
Print Assumptions C19_no_needless_sleep.

(* ... and when it is called in a reachable state the window is not free: the N most recent requests all started less
   than one window before the caller's arrival, so starting at once would put N + 1 starts into one window *)
Theorem C19_sleep_means_window_full : forall api cs c, Forall call_ok cs -> call_ok c ->
  let s := run (limit api) window cs in let t := now s + gap c in
  snd (wait (limit api) window (dq s) t (eps c)) <> 0 ->
  (limit api <= length (filter (fun x => (t - window <? x)%Z) (firstn (limit api) (hist s))))%nat
  /\ length (firstn (limit api) (hist s)) = limit api.
Proof. exact shipped_sleep_means_window_full. Qed.
Print Assumptions C19_sleep_means_window_full.

(* cache decision: a request is issued iff no cache path, no file, empty file, or overwrite *)
Theorem C19_request_iff : forall f c,
  fst (snd (fetch f c)) = true <->
  (f_path c = None \/ exists p, f_path c = Some p /\
     (fs_get (fkey c p) f = None \/ (exists v, fs_get (fkey c p) f = Some v /\ length v = 0%nat) \/ f_overwrite c = true)).
Proof. exact request_iff. Qed.
Print Assumptions C19_request_iff.

Theorem C19_cache_hit : forall f c p v, f_path c = Some p -> fs_get (fkey c p) f = Some v -> v <> [] ->
  f_overwrite c = false -> fetch f c = (f, (false, v)).
Proof. exact cache_hit. Qed.
Print Assumptions C19_cache_hit.

Theorem C19_fetch_request : forall f c, fst (snd (fetch f c)) = true ->
  snd (snd (fetch f c)) = f_payload c /\
  forall p, f_path c = Some p -> fs_get (fkey c p) (fst (fetch f c)) = Some (f_payload c).
Proof. exact fetch_request. Qed.
Print Assumptions C19_fetch_request.

(* at most one request per (path, id, extension) in any history, unless overwrite is set or the payload was empty;
   the server may answer differently at different times (f_payload is per call) *)
Theorem C19_cache_once : forall f pre c p mid c2 p2,
  f_path c = Some p -> f_payload c <> [] -> Forall (pay_ok (fkey c p)) mid ->
  f_path c2 = Some p2 -> fkey c2 p2 = fkey c p -> f_overwrite c2 = false ->
  let f' := fst (fetch_all (fst (fetch (fst (fetch_all f pre)) c)) mid) in
  exists v, fetch f' c2 = (f', (false, v)) /\ v <> [].
Proof. exact cache_once. Qed.
Print Assumptions C19_cache_once.

(* ... in particular for a server whose answer depends on the id only *)
Theorem C19_cache_once_const : forall (server : N -> str) f pre c p mid c2 p2,
  Forall (fun x => f_payload x = server (f_id x)) (c :: mid) ->
  f_path c = Some p -> server (f_id c) <> [] ->
  f_path c2 = Some p2 -> fkey c2 p2 = fkey c p -> f_overwrite c2 = false ->
  let f' := fst (fetch_all (fst (fetch (fst (fetch_all f pre)) c)) mid) in
  exists v, fetch f' c2 = (f', (false, v)) /\ v <> [].
Proof. exact cache_once_const. Qed.
Print Assumptions C19_cache_once_const.

(* ---- round 7: the limit is chosen per call (client.api_key may change between calls); wait_before_request since fix a09a4a0 ---- *)
(* with one key setting the code (runF: trim the record to the last N stamps, then wait) is the one-limit machine of the theorems above *)
Theorem C19_const_key_is_run : forall key cs, Forall call_ok cs -> runF (map (pair key) cs) = run (limit key) window cs.
Proof. exact runF_const. Qed.
Print Assumptions C19_const_key_is_run.

Theorem C19_trim_noop_when_fits : forall N W s c, (length (dq s) <= N)%nat -> stepF N W s c = step N W s c.
Proof. exact stepF_same. Qed.
Print Assumptions C19_trim_noop_when_fits.

(* ANY history of key switches: every request starts at least one window after the request N places before it, N being the limit
   in force for THAT request (3 without key, 10 with) *)
Theorem C19_rate_limit_current_key : forall pre kc, Forall (fun x => call_ok (snd x)) (pre ++ [kc]) ->
  let h := hist (runF (pre ++ [kc])) in
  forall b, nth_error h (limit (fst kc)) = Some b -> hd 0 h - b >= window.
Proof. exact repaired_rate_limit. Qed.
Print Assumptions C19_rate_limit_current_key.

(* ... hence the window statement when the key changes inside a window: at the moment a request starts, every half-open
   one-second window [x, x + W) (x any tick) that contains this start holds at most N starts so far, N the limit of THIS request's
   key. So a window whose last request is keyless holds at most 3 starts in all, no window holds 4 keyless starts (the 4th
   would be the last of a window with 4), and a window may hold up to 10 only if its last request carries the key *)
Theorem C19_window_limit_current_key : forall pre kc x, Forall (fun c => call_ok (snd c)) (pre ++ [kc]) ->
  let h := hist (runF (pre ++ [kc])) in
  in_window window x (hd 0 h) = true -> (count_in_window window x h <= limit (fst kc))%nat.
Proof. exact window_limit_current_key. Qed.
Print Assumptions C19_window_limit_current_key.

(* ... and for a complete history: never more than the larger limit in any window; failed requests count as starts *)
Theorem C19_window_limit_any_key : forall cs x, Forall (fun kc => call_ok (snd kc)) cs ->
  (count_in_window window x (hist (runF cs)) <= limit true)%nat.
Proof. exact window_limit_any_key_F. Qed.
Print Assumptions C19_window_limit_any_key.

(* starts paired with the key setting of their request (khist): in ANY history of key switches no half-open one-second window
   holds more than 3 starts of keyless requests, whatever keyed requests lie in between *)
Theorem C19_keyless_window_limit : forall cs x, Forall (fun kc => call_ok (snd kc)) cs ->
  (keyless_in_window x (khist init cs) <= limit false)%nat.
Proof. exact keyless_window_limit. Qed.
Print Assumptions C19_keyless_window_limit.

(* the history that defeated the code before the fix (F53: ten keyed requests, key removed, ten keyless calls one second later -
   all ten started at once) is limited to three per second *)
Theorem C19_key_removed_limited :
  rev (hist (runF (map (pair true) (repeat c0 10) ++ map (pair false) ({| gap := 1024; eps := 0; dur := 0 |} :: repeat c0 9))))
  = repeat 0 10 ++ [1024; 1024; 1024; 2048; 2048; 2048; 3072; 3072; 3072; 4096].
Proof. exact repaired_key_removed. Qed.
Print Assumptions C19_key_removed_limited.

(* sleep is called exactly when the popleft branch is taken and the popped stamp is younger than the window (any state) *)
Theorem C19_wait_sleeps_iff : forall N W d t e, 0 <= e ->
  (snd (wait N W d t e) <> 0 <-> (N <= length d)%nat /\ exists prev rest, d = prev :: rest /\ t - prev < W).
Proof. exact wait_sleeps_iff. Qed.
Print Assumptions C19_wait_sleeps_iff.

(* "never sleeps when the window is free" as an iff: in a reachable state the client sleeps exactly when N requests started
   within the last second before the caller's arrival (starting at once would make N + 1 starts in one window) *)
Theorem C19_sleep_iff_window_full : forall api cs c, Forall call_ok cs -> call_ok c ->
  let s := run (limit api) window cs in let t := now s + gap c in
  snd (wait (limit api) window (dq s) t (eps c)) <> 0 <->
  (limit api <= length (filter (fun x => (t - window <? x)%Z) (hist s)))%nat.
Proof. exact shipped_sleep_iff_window_full. Qed.
Print Assumptions C19_sleep_iff_window_full.

(* non-vacuity: a history that switches the key on and off *)
Example C19_witness_keys :
  let cs := [(false, c0); (true, c0); (true, c0); (true, c0); (false, c0); (false, c0)] in
  Forall (fun kc => call_ok (snd kc)) cs /\ rev (hist (runF cs)) = [0; 0; 0; 0; 1024; 1024].
Proof. exact witness_keys_F. Qed.

(* ---- round 7: the whole client (run_C19_client): fetch_seq decision table, histories, reader oracle, file names ---- *)
(* complete decision table of fetch_seq for one id: what is requested, written, returned and recorded, for every combination of
   cache name (None / Some), file state, overwrite and outcome of the HTTP layer (answer / exception) *)
Theorem C19_fetch_decision_table : forall s o id a,
  let fn := cache_name o id in let need := need_request (c_fs s) fn (o_ow o) in
  let s' := fst (fetch_one s o id a) in let e := snd (fetch_one s o id a) in
  e_req e = need /\ e_name e = fn /\ e_ow e = o_ow o /\ e_ans e = a_ans a /\ e_key e = o_key o /\
  c_fs s' = (if need then match a_ans a, fn with Ans pl, Some n => fs2_set n pl (c_fs s) | _, _ => c_fs s end else c_fs s) /\
  e_res e = (if need then match a_ans a with
                          | Fail h => RExc h
                          | Ans pl => match fn with None => RHandle pl | Some n => RName n end
                          end
             else match fn with Some n => RName n | None => RHandle [] end) /\
  (need = false -> s' = s) /\
  (need = true -> let c := {| gap := c_pend s; eps := a_eps a; dur := a_dur a |} in
       c_rate s' = stepF (limit (o_key o)) window (c_rate s) c /\ c_pend s' = 0 /\ c_calls s' = (o_key o, c) :: c_calls s /\
       e_start e = hd 0 (hist (c_rate s')) /\ e_slept e = hd 0 (slept (c_rate s'))).
Proof. exact fetch_one_table. Qed.
Print Assumptions C19_fetch_decision_table.

Theorem C19_need_request_iff : forall f fn ow,
  need_request f fn ow = true <->
  (fn = None \/ exists n, fn = Some n /\ (fs2_get n f = None \/ fs2_get n f = Some [] \/ ow = true)).
Proof. exact need_request_iff. Qed.
Print Assumptions C19_need_request_iff.

(* which directory: a non-empty path= wins, else client.path (None: no cache; '': the working directory) *)
Theorem C19_eff_path_table : forall o,
  eff_path o = match o_path o with Some (c :: r) => Some (c :: r) | _ => o_self o end /\
  forall id, (cache_name o id = None <-> eff_path o = None).
Proof. exact (fun o => conj (eff_path_table o) (cache_name_none o)). Qed.
Print Assumptions C19_eff_path_table.

(* cache_once at full strength: ANY history of public calls from ANY state - the number of requests for file n is bounded by
   (1 unless a non-empty file was there) + (calls on n with overwrite) + (requests for n that failed or were answered empty) *)
Theorem C19_cache_request_bound : forall n ops s,
  let es := concat (snd (do_ops s ops)) in
  (cnt (is_req n) es <= phi n (c_fs s) + cnt (is_ow n) es + cnt (is_bad n) es)%nat.
Proof. exact cache_request_bound. Qed.
Print Assumptions C19_cache_request_bound.

Theorem C19_cache_once_history : forall n ops s,
  let es := concat (snd (do_ops s ops)) in
  cnt (is_ow n) es = 0%nat -> cnt (is_bad n) es = 0%nat ->
  (cnt (is_req n) es <= 1)%nat /\ (good2 n (c_fs s) = true -> cnt (is_req n) es = 0%nat).
Proof. exact cache_once_history. Qed.
Print Assumptions C19_cache_once_history.

(* after any history the file holds the answer to the last successful request for it (or what it held before) *)
Theorem C19_file_is_last_answer : forall n ops s,
  let r := do_ops s ops in
  fs2_get n (c_fs (fst r)) = fold_left (fun c e => upd n e c) (concat (snd r)) (fs2_get n (c_fs s)).
Proof. exact file_is_last_answer. Qed.
Print Assumptions C19_file_is_last_answer.

(* fetch_basket / get_basket: one fetch_seq per id occurrence in list order until the first exception; duplicates are not merged *)
Theorem C19_basket_shape : forall o ids env s,
  let es := snd (fetch_list s o ids env) in
  (length es <= length ids)%nat /\
  (forallb (fun e => negb (is_exc (e_res e))) es = true -> length es = length ids) /\
  map e_name es = firstn (length es) (map (cache_name o) ids).
Proof. exact fetch_list_shape. Qed.
Print Assumptions C19_basket_shape.

Theorem C19_basket_nocache_requests_all : forall o, eff_path o = None -> forall ids env s,
  forallb e_req (snd (fetch_list s o ids env)) = true.
Proof. exact fetch_list_nocache. Qed.
Print Assumptions C19_basket_nocache_requests_all.

(* the reader is an oracle (any function read : text -> records): a call that requests and is answered pl returns the first record
   of read(pl) whether or not there is a cache directory; a call that finds the file returns the first record of read(content) *)
Theorem C19_get_requested : forall (R : Type) (read : str -> option (list R)) s o id a pl, a_ans a = Ans pl ->
  need_request (c_fs s) (cache_name o id) (o_ow o) = true ->
  get_seq_result R read (c_fs (fst (fetch_one s o id a))) (snd (fetch_one s o id a)).(e_res) = first_of R (read pl).
Proof. exact get_requested. Qed.
Print Assumptions C19_get_requested.

Theorem C19_get_cached : forall (R : Type) (read : str -> option (list R)) s o id a n v,
  cache_name o id = Some n -> fs2_get n (c_fs s) = Some v -> v <> [] -> o_ow o = false ->
  fetch_one s o id a = (s, snd (fetch_one s o id a)) /\ (snd (fetch_one s o id a)).(e_req) = false /\
  get_seq_result R read (c_fs s) (snd (fetch_one s o id a)).(e_res) = first_of R (read v).
Proof. exact get_cached. Qed.
Print Assumptions C19_get_cached.

Theorem C19_get_basket_reads_in_order : forall (R : Type) (read : str -> option (list R)) f rs, read_all R read f rs =
  fold_right (fun r acc => match delivered f r with
                           | Some c => match read c, acc with Some x, Some y => Some (x ++ y) | _, _ => None end
                           | None => None end) (Some []) rs.
Proof. exact read_all_spec. Qed.
Print Assumptions C19_get_basket_reads_in_order.

(* file names: id.ext is injective for extensions without a dot, and not otherwise; ids without slash stay in the directory *)
Theorem C19_basename_inj : forall i e i' e', has_byte dot e = false -> has_byte dot e' = false ->
  basename i e = basename i' e' -> i = i' /\ e = e'.
Proof. exact basename_inj. Qed.
Print Assumptions C19_basename_inj.

Theorem C19_basename_collision : exists i e i' e', (i, e) <> (i', e') /\ basename i e = basename i' e'.
Proof. exact basename_collision. Qed.
Print Assumptions C19_basename_collision.

Theorem C19_fname_in_dir : forall p i e, has_byte slash i = false ->
  fname p i e = if (Nat.eqb (length p) 0) || ends_with_slash p then p ++ basename i e else p ++ slash :: basename i e.
Proof. exact fname_in_dir. Qed.
Print Assumptions C19_fname_in_dir.

Theorem C19_fname_inj : forall p i e i' e', has_byte slash i = false -> has_byte slash i' = false ->
  has_byte dot e = false -> has_byte dot e' = false -> fname p i e = fname p i' e' -> i = i' /\ e = e'.
Proof. exact fname_inj. Qed.
Print Assumptions C19_fname_inj.

Theorem C19_fname_absolute_id : forall p i e, starts_with_slash i = true -> fname p i e = basename i e.
Proof. exact fname_absolute_id. Qed.
Print Assumptions C19_fname_absolute_id.

Example C19_witness_client :
  forallb op_okb [w_op; w_op] = true /\
  map (map e_req) (snd (do_ops (cl_init []) [w_op; w_op])) = [[true]; [false]] /\
  cnt (is_req (bs "R/p0/AB0001.1.fasta"%bs)) (concat (snd (do_ops (cl_init []) [w_op; w_op]))) = 1%nat.
Proof. exact witness_client. Qed.

(* the requests of the whole client are a limiter history: any history of public calls (cache hits in between, failing requests,
   key switches) has no one-second window with more than the larger limit of starts; with one key setting, that setting's limit *)
Theorem C19_client_window_limit : forall f ops x, forallb op_okb ops = true ->
  (count_in_window window x (hist (c_rate (fst (do_ops (cl_init f) ops)))) <= limit true)%nat.
Proof. exact client_window_limit. Qed.
Print Assumptions C19_client_window_limit.

Theorem C19_client_window_limit_const : forall key f ops x, forallb op_okb ops = true -> Forall (fun o => o_key o = key) ops ->
  (count_in_window window x (hist (c_rate (fst (do_ops (cl_init f) ops)))) <= limit key)%nat.
Proof. exact client_window_limit_const. Qed.
Print Assumptions C19_client_window_limit_const.

(* the observable itself: the start times reported by the events of a history (failed requests included), oldest first, are the
   limiter's record, so no half-open one-second window holds more than the limit of them *)
Theorem C19_client_starts : forall f ops,
  let r := do_ops (cl_init f) ops in starts_of (concat (snd r)) = rev (hist (c_rate (fst r))).
Proof. exact client_starts. Qed.
Print Assumptions C19_client_starts.

Theorem C19_client_starts_window : forall f ops x, forallb op_okb ops = true ->
  (count_in_window window x (starts_of (concat (snd (do_ops (cl_init f) ops)))) <= limit true)%nat.
Proof. exact client_starts_window. Qed.
Print Assumptions C19_client_starts_window.

Theorem C19_client_starts_window_const : forall key f ops x, forallb op_okb ops = true -> Forall (fun o => o_key o = key) ops ->
  (count_in_window window x (starts_of (concat (snd (do_ops (cl_init f) ops)))) <= limit key)%nat.
Proof. exact client_starts_window_const. Qed.
Print Assumptions C19_client_starts_window_const.

(* a request of the client sleeps iff, after trimming the record to the last N stamps (N the limit of this call's key), there are
   N of them and the oldest is younger than the window; a cache hit never sleeps and leaves the client untouched *)
Theorem C19_client_sleep_iff : forall s o id a, 0 <= a_eps a ->
  need_request (c_fs s) (cache_name o id) (o_ow o) = true ->
  let e := snd (fetch_one s o id a) in let t := now (c_rate s) + c_pend s in
  let d := dq (trim (limit (o_key o)) (c_rate s)) in
  e_slept e <> 0 <-> (limit (o_key o) <= length d)%nat /\ exists prev rest, d = prev :: rest /\ t - prev < window.
Proof. exact client_sleep_iff. Qed.
Print Assumptions C19_client_sleep_iff.

Theorem C19_cache_hit_no_sleep : forall s o id a, need_request (c_fs s) (cache_name o id) (o_ow o) = false ->
  fst (fetch_one s o id a) = s /\ e_req (snd (fetch_one s o id a)) = false /\ e_slept (snd (fetch_one s o id a)) = 0.
Proof. exact cache_hit_no_sleep. Qed.
Print Assumptions C19_cache_hit_no_sleep.

(* non-vacuity: a burst of five immediate calls without API key; the 4th must wait a full window *)
Example C19_witness :
  let cs := map mk_call [(0, 0, 0); (0, 0, 0); (0, 0, 0); (0, 0, 0); (0, 0, 0)] in
  forallb call_okb cs = true /\ rev (hist (run (limit false) window cs)) = [0; 0; 0; 1024; 1024].
Proof. exact (conj eq_refl eq_refl). Qed.
