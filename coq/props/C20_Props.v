(* C20 -- Substitution matrices are loaded exactly and are symmetric.
   Only statements here; proofs are in proof/C20_Finite.v (complete enumeration over the regenerated files),
   proof/C20_Render.v (text layer on rendered files), proof/C20_Num.v (number literals) and proof/C20_Lemmas.v. *)
From Coq Require Import List Bool ZArith.
From Coq.Strings Require Import Byte.
Import ListNotations.
From SV Require Import Text G_submat_index C20_Model C20_Finite C20_Render C20_Num C20_Lemmas C20_Round7.

(* every bundled file is inside the domain, parses, and its name is its own upper-case form *)
Theorem C20_bundled_wf : forall name raw, In (name, raw) submat_files ->
  wf_content raw = true /\ upper name = name /\ exists m, parse raw = Some m.
Proof. exact bundled_wf. Qed.
Print Assumptions C20_bundled_wf.

(* all bundled files x all cells: the cell under row letter r and the j-th header letter is the j-th number word
   of r's line (positional reading of the raw bytes, independent of the parser's zip/dict building) *)
Theorem C20_bundled_cells : forall name raw m, In (name, raw) submat_files -> parse raw = Some m ->
  forall line r vs, In line (data_lines raw) -> split_ws line = r :: vs ->
  forall j c tok, nth_error (header_of raw) j = Some c -> nth_error vs j = Some tok ->
  exists v, parse_num (existsb has_dot vs) tok = Some v /\ cell m r c = Some v.
Proof. exact bundled_cells. Qed.
Print Assumptions C20_bundled_cells.

(* no row or column is dropped or invented: rows are the first words of the data lines, in order and pairwise
   different; row r has exactly the first min(#header, #values) header letters as columns *)
Theorem C20_bundled_shape : forall name raw m, In (name, raw) submat_files -> parse raw = Some m ->
  map fst m = map first_word (data_lines raw) /\ NoDup (map fst m) /\ NoDup (header_of raw) /\
  forall line r vs, In line (data_lines raw) -> split_ws line = r :: vs ->
    vs <> [] /\ exists rw, dict_get r m = Some rw /\ map fst rw = firstn (length vs) (header_of raw).
Proof. exact bundled_shape. Qed.
Print Assumptions C20_bundled_shape.

(* every bundled matrix is symmetric wherever both entries exist *)
Theorem C20_bundled_symmetric : forall name raw m, In (name, raw) submat_files -> parse raw = Some m ->
  forall a b va vb, cell m a b = Some va -> cell m b a = Some vb ->
  num_val_eqb va vb = true /\ (forall x y, va = NInt x -> vb = NInt y -> x = y).
Proof. exact bundled_symmetric. Qed.
Print Assumptions C20_bundled_symmetric.

(* any upper/lower-case spelling s of a bundled name nm resolves to nm's file *)
Theorem C20_name_any_spelling : forall nm raw s, In (nm, raw) submat_files -> upper s = upper nm ->
  resolve false s = RFile raw.
Proof. exact resolve_spelling. Qed.
Print Assumptions C20_name_any_spelling.

Theorem C20_name_case_insensitive : forall b s1 s2, upper s1 = upper s2 -> resolve b s1 = resolve b s2.
Proof. exact resolve_case_insensitive. Qed.
Print Assumptions C20_name_case_insensitive.

(* a name is reported missing exactly when its upper-case form is not the name of a bundled matrix
   (README entries of the directory, '', '.', paths are missing names too) *)
Theorem C20_name_missing : forall name, resolve false name = RMissing <-> ~ In (upper name) submat_names.
Proof. exact resolve_missing. Qed.
Print Assumptions C20_name_missing.

(* the FileNotFoundError text ends with the ', '-joined list and so contains every available name *)
Theorem C20_fnf_lists_all : forall name,
  (exists p, fnf_message name = p ++ available) /\
  forall nm, In nm submat_names -> exists p q, fnf_message name = p ++ nm ++ q.
Proof. exact fnf_lists_all. Qed.
Print Assumptions C20_fnf_lists_all.

(* user-supplied files, unbounded: for EVERY content in the domain the parser result is the positional reading *)
Theorem C20_parse_positional : forall raw m, wf_content raw = true -> parse raw = Some m ->
  forall line r vs, In line (data_lines raw) -> split_ws line = r :: vs ->
  forall j c tok, nth_error (header_of raw) j = Some c -> nth_error vs j = Some tok ->
  exists v, parse_num (existsb has_dot vs) tok = Some v /\ cell m r c = Some v.
Proof. exact parse_positional. Qed.
Print Assumptions C20_parse_positional.

Theorem C20_parse_shape : forall raw m, wf_content raw = true -> parse raw = Some m ->
  map fst m = map first_word (data_lines raw) /\ NoDup (map fst m) /\ NoDup (header_of raw) /\
  forall line r vs, In line (data_lines raw) -> split_ws line = r :: vs ->
    vs <> [] /\ exists rw, dict_get r m = Some rw /\ map fst rw = firstn (length vs) (header_of raw).
Proof. exact parse_shape. Qed.
Print Assumptions C20_parse_shape.

(* generated files "in the same layout" (comment lines, blank lines, word lines with arbitrary in-line white space,
   each line ended by "\n"): the lines and words the parser sees are the abstract ones *)
Theorem C20_render_text_layer : forall f, afile_ok f = true ->
  splitlines (universal_nl (render f)) = map render_aline f /\
  map split_ws (content_lines (render f)) = word_lines f.
Proof. exact (fun f H => conj (render_lines f H) (words_of_rendered f H)). Qed.
Print Assumptions C20_render_text_layer.

(* ... and the loaded matrix is the positional reading of the abstract words: row letters in order, and under the
   j-th header letter the j-th number of the row *)
Theorem C20_render_positional : forall f m, afile_ok f = true -> wf_content (render f) = true ->
  parse (render f) = Some m ->
  forall hs rows, word_lines f = hs :: rows ->
  map fst m = map (hd []) rows /\
  forall r vs, In (r :: vs) rows ->
  forall j c tok, nth_error hs j = Some c -> nth_error vs j = Some tok ->
  exists v, parse_num (existsb has_dot vs) tok = Some v /\ cell m r c = Some v.
Proof. exact render_positional. Qed.
Print Assumptions C20_render_positional.

(* numbers: int(str(z)) = z, and the canonical literal of m/10^k (exactly k fraction digits) is read back as (m, k)
   by the reader that the row selects ('.' in the row <-> float) *)
Theorem C20_number_round_trip : forall v,
  parse_num (negb (is_int_num v)) (render_num v) = Some v /\ has_dot (render_num v) = negb (is_int_num v).
Proof. exact parse_render_num. Qed.
Print Assumptions C20_number_round_trip.

(* ... so a rendered file whose rows are written with these literals loads as exactly these numbers *)
Theorem C20_render_cells : forall f m, afile_ok f = true -> wf_content (render f) = true ->
  parse (render f) = Some m ->
  forall hs rows, word_lines f = hs :: rows ->
  forall r vals, row_uniform vals = true -> In (r :: map render_num vals) rows ->
  forall j c v, nth_error hs j = Some c -> nth_error vals j = Some v -> cell m r c = Some v.
Proof. exact render_cells. Qed.
Print Assumptions C20_render_cells.

(* the same three statements for LF, CRLF and CR line ends, with or without a terminator after the last line *)
Theorem C20_render_with_text_layer : forall e final f, afile_ok f = true ->
  content_lines (render_with e final f) = map render_aline (filter is_words f) /\
  map split_ws (content_lines (render_with e final f)) = word_lines f.
Proof. exact (fun e final f H => conj (content_lines_render_with e final f H) (words_of_rendered_with e final f H)). Qed.
Print Assumptions C20_render_with_text_layer.

Theorem C20_render_with_positional : forall e final f m, afile_ok f = true ->
  wf_content (render_with e final f) = true -> parse (render_with e final f) = Some m ->
  forall hs rows, word_lines f = hs :: rows ->
  map fst m = map (hd []) rows /\
  (forall r vs, In (r :: vs) rows ->
   forall j c tok, nth_error hs j = Some c -> nth_error vs j = Some tok ->
   exists v, parse_num (existsb has_dot vs) tok = Some v /\ cell m r c = Some v) /\
  (forall r vals, row_uniform vals = true -> In (r :: map render_num vals) rows ->
   forall j c v, nth_error hs j = Some c -> nth_error vals j = Some v -> cell m r c = Some v).
Proof. exact render_with_positional. Qed.
Print Assumptions C20_render_with_positional.

(* the whole function on names: a bundled name in any spelling gives the parsed bundled file, an unknown name the
   FileNotFoundError with the list, and a name never ends in ValueError *)
Theorem C20_submat_name_spec : forall s,
  (forall nm raw, In (nm, raw) submat_files -> upper s = upper nm ->
     exists m, submat_name s = OMatrix m /\ parse raw = Some m) /\
  (~ In (upper s) submat_names -> submat_name s = OFileNotFound (fnf_message s)) /\
  submat_name s <> OValueError.
Proof.
  exact (fun s => conj (fun nm raw H E => submat_bundled nm raw s H E)
                  (conj (submat_unknown s) (submat_name_no_value_error s))).
Qed.
Print Assumptions C20_submat_name_spec.

(* lookup order: an existing regular file wins over a bundled name - submat('nuc') with a file ./nuc in the working
   directory returns the cells of THAT file; the bundled names only decide when there is no such file *)
Theorem C20_file_wins : forall name content,
  resolve true name = RPath /\ submat_call name (Some content) = submat_file content /\
  submat_call name None = submat_name name /\ resolve false name <> RPath.
Proof.
  exact (fun name content => conj (proj1 (file_wins name content)) (conj (proj2 (file_wins name content))
                                  (no_file_lookup name))).
Qed.
Print Assumptions C20_file_wins.

(* ---------------------------------------------------------------- round 7 *)
(* THE whole-result equation for user files: a matrix of numbers of ANY shape (more or fewer rows than columns, row letters
   that are no header letters, short and long rows, repeated letters) written in ANY layout of the grammar (comment and blank
   lines anywhere, arbitrary in-line white space before / between / after the words, LF / CRLF / CR, with or without a
   terminator after the last line) loads as exactly the table: rows in file order (a repeated row letter replaces the earlier
   row at its place), per row zip(letters, numbers) truncated to the shorter of the two, every number of a row that has a
   decimal literal anywhere - also beyond the last header letter - read as float (row_vals) *)
Theorem C20_parse_render_matrix : forall e final mf, mfile_ok mf = true ->
  parse (render_with e final (to_afile mf)) = Some (expected_rows (mf_letters mf) (mf_body mf)).
Proof. exact parse_render_matrix. Qed.
Print Assumptions C20_parse_render_matrix.

(* with pairwise different header letters and row letters the result is literally the table *)
Theorem C20_parse_render_matrix_nodup : forall e final mf, mfile_ok mf = true ->
  NoDup (mf_letters mf) -> NoDup (map fst (body_rows (mf_body mf))) ->
  parse (render_with e final (to_afile mf)) =
  Some (map (fun rv => (fst rv, combine (mf_letters mf) (row_vals (snd rv)))) (body_rows (mf_body mf))).
Proof. exact parse_render_matrix_nodup. Qed.
Print Assumptions C20_parse_render_matrix_nodup.

(* comment / blank lines are irrelevant wherever they stand, for arbitrary text lines and every parser state *)
Theorem C20_skipped_lines_irrelevant : forall ls1 ls2 st mat,
  filter (fun l => negb (skipped l)) ls1 = filter (fun l => negb (skipped l)) ls2 ->
  parse_lines ls1 st mat = parse_lines ls2 st mat.
Proof. exact skipped_lines_irrelevant. Qed.
Print Assumptions C20_skipped_lines_irrelevant.
Theorem C20_insert_skipped_line : forall a b l st mat, skipped l = true ->
  parse_lines (a ++ l :: b) st mat = parse_lines (a ++ b) st mat.
Proof. exact insert_skipped_line. Qed.
Print Assumptions C20_insert_skipped_line.

(* the reader of a cell is chosen per ROW: an integer literal in a row with a decimal point is read by float() *)
Theorem C20_row_kind : forall n vals,
  parse_vals (existsb has_dot (map render_num vals)) (firstn n (map render_num vals)) = Some (firstn n (row_vals vals)) /\
  existsb has_dot (map render_num vals) = negb (forallb is_int_num vals).
Proof. exact (fun n vals => conj (parse_vals_row n vals) (row_has_dot vals)). Qed.
Print Assumptions C20_row_kind.

(* histories (submat since 0feda3c has no cache): in EVERY history of calls and caller-side edits, the i-th call hands out a
   NEW object (identity = number of objects handed out before) whose content is the pure function of the argument and the
   current file content, whatever was returned or edited before *)
Theorem C20_calls_independent : forall steps heap, fst (hrun steps heap) = obs_spec steps (length heap).
Proof. exact hrun_obs. Qed.
Print Assumptions C20_calls_independent.
(* ... and at the end an object holds its own result with exactly the edits addressed to IT *)
Theorem C20_objects_independent : forall steps heap j o, nth_error heap j = Some o ->
  nth_error (snd (hrun steps heap)) j = Some (edits_for j steps (length heap) o).
Proof. exact hrun_old_object. Qed.
Print Assumptions C20_objects_independent.
(* the variant with functools.lru_cache (before 0feda3c) violates this: model of the fixed defect F41 *)
Theorem C20_cached_variant_refuted : fst (hrun_cached cached_witness [] []) <> obs_spec cached_witness 0.
Proof. exact cached_refuted. Qed.
Print Assumptions C20_cached_variant_refuted.

(* name resolution in a directory of files, directories and symbolic links: what leads to a regular file is parsed (whatever
   the name spells); a directory, a missing entry, a dangling link and a link loop leave the decision to the bundled names *)
Theorem C20_fs_resolution : forall d name,
  (forall c, fs_file max_links d name = Some c -> submat_fs d name = submat_file c) /\
  (fs_file max_links d name = None -> submat_fs d name = submat_name name) /\
  (forall n c, dict_get name d = Some (FReg c) -> fs_file (S n) d name = Some c) /\
  (forall n, dict_get name d = Some FDir -> fs_file n d name = None) /\
  (forall n, dict_get name d = None -> fs_file n d name = None) /\
  (forall n t, dict_get name d = Some (FLink t) -> fs_file (S n) d name = fs_file n d t) /\
  (forall n t, dict_get name d = Some (FLink t) -> dict_get t d = None -> fs_file n d name = None) /\
  (forall n, dict_get name d = Some (FLink name) -> fs_file n d name = None) /\
  (forall n b, dict_get name d = Some (FLink b) -> dict_get b d = Some (FLink name) -> fs_file n d name = None).
Proof.
  exact (fun d name => conj (proj1 (fs_resolution d name)) (conj (proj2 (fs_resolution d name))
    (conj (fun n c => fs_regular n d name c) (conj (fun n => fs_directory n d name) (conj (fun n => fs_missing n d name)
    (conj (fun n t => fs_link n d name t) (conj (fun n t => fs_dangling n d name t) (conj (fun n => fs_self_loop n d name)
    (fun n b H1 H2 => proj1 (fs_two_loop n d name b H1 H2)))))))))).
Qed.
Print Assumptions C20_fs_resolution.

(* the parser is a function of the WORDS of the non-skipped lines, for EVERY text: header words, then per row: letter, at
   least one value word (else ValueError), the first min(#letters, #values) words converted by the reader the row selects
   (float iff some value word of the row, converted or not, contains "."), any failing conversion is a ValueError *)
Theorem C20_parse_words : forall raw, parse raw = table_of_words (map split_ws (content_lines raw)).
Proof. exact parse_words. Qed.
Print Assumptions C20_parse_words.
(* ... so for every file of the layout grammar, under every line terminator, the text layer disappears completely *)
Theorem C20_parse_render_words : forall e final f, afile_ok f = true ->
  parse (render_with e final f) = table_of_words (word_lines f).
Proof. exact parse_render_words. Qed.
Print Assumptions C20_parse_render_words.

(* EVERY file that loads, repeated letters included ("exactly the number at that position" read as the code does): the cell
   [r][c] is the word of the LAST data line starting with r, in the LAST of the first min(#letters, #values) columns headed c;
   row letters of the result are pairwise different and are exactly the first words of the data lines *)
Theorem C20_parse_general : forall raw m, parse raw = Some m ->
  (forall r c, cell m r c = cell_spec raw r c) /\
  NoDup (map fst m) /\
  (forall r, In r (map fst m) <-> In r (map first_word (data_lines raw))).
Proof. exact parse_general. Qed.
Print Assumptions C20_parse_general.

(* exactly when loading raises ValueError: some data line has fewer than two words, or one of the words that zip() reaches is
   not a number for the reader its row selects *)
Theorem C20_parse_succeeds_iff : forall raw,
  is_some (parse raw) = forallb (line_parses (header_of raw)) (data_lines raw).
Proof. exact parse_succeeds_iff. Qed.
Print Assumptions C20_parse_succeeds_iff.

(* the boolean symmetry check used for the 95 bundled files IS the statement, for every parser result *)
Theorem C20_symmetric_iff : forall raw m, parse raw = Some m ->
  (sym_ok m = true <->
   forall a b va vb, cell m a b = Some va -> cell m b a = Some vb -> num_val_eqb va vb = true).
Proof. exact symmetric_iff. Qed.
Print Assumptions C20_symmetric_iff.
(* "equal" there is equality of the denoted rationals (int 1 = float 1.0 = 1.00) *)
Theorem C20_num_val_eqb_is_rational_eq : forall a b,
  num_val_eqb a b = true <-> (fst (num_q a) * snd (num_q b) = fst (num_q b) * snd (num_q a))%Z.
Proof. exact num_val_eqb_rational. Qed.
Print Assumptions C20_num_val_eqb_is_rational_eq.

(* int or float is decided per ROW: a loaded cell is an int iff NO number of its row is written with a decimal point;
   its value is the written one either way *)
Theorem C20_cell_is_int_iff : forall vals j v, nth_error vals j = Some v ->
  exists v', nth_error (row_vals vals) j = Some v' /\ num_val_eqb v' v = true /\
             is_int_num v' = forallb is_int_num vals.
Proof. exact row_vals_nth. Qed.
Print Assumptions C20_cell_is_int_iff.
(* the per-CELL reading ("int iff the cell's own text is an integer literal") is false *)
Theorem C20_per_cell_reading_refuted : exists vals v, In v vals /\ is_int_num v = true /\
  forall v', In v' (row_vals vals) -> is_int_num v' = false.
Proof. exact per_cell_reading_refuted. Qed.
Print Assumptions C20_per_cell_reading_refuted.

(* the cell grammar (py_int / py_float are compared with CPython's int() / float() on every generated word):
   without underscores int() is the plain [+-]?D+ reader and float() the decimal / exponent reader *)
Theorem C20_cell_syntax_plain : forall tok, has_us tok = false ->
  py_int tok = Z_of_dec tok /\
  py_float tok = match dec_of_token tok with
                 | Some (m, k) => Some (NDec m k)
                 | None => match sfloat tok with Some (m, k) => Some (NDec m k) | None => None end
                 end.
Proof. exact (fun tok H => conj (int_plain tok H) (float_plain tok H)). Qed.
Print Assumptions C20_cell_syntax_plain.
(* one underscore between two runs of digits does not change the integer *)
Theorem C20_int_underscore : forall a b, all_digits a = true -> all_digits b = true ->
  py_int (a ++ "_"%byte :: b) = Z_of_dec (a ++ b) /\ py_int (a ++ b) = Z_of_dec (a ++ b).
Proof. exact int_underscore. Qed.
Print Assumptions C20_int_underscore.
(* exponent notation: float("<m/10^k>e<ex>") is m * 10^ex / 10^k *)
Theorem C20_float_exponent : forall m k ex, (-1000 < ex < 1000)%Z ->
  py_float (render_dec m k ++ "e"%byte :: dec_of_Z ex) = Some (NDec (fst (scale m k ex)) (snd (scale m k ex))) /\
  (let (m', k') := scale m k ex in
   if Z.leb 0 ex then (m' * pow10 k = m * Z.pow 10 ex * pow10 k')%Z else (m' = m /\ Z.of_nat k' = Z.of_nat k - ex)%Z).
Proof. exact (fun m k ex H => conj (float_exponent m k ex H) (scale_value m k ex)). Qed.
Print Assumptions C20_float_exponent.

(* the FileNotFoundError text lists EXACTLY the available matrices: cut at ", " the listing is the regenerated name list *)
Theorem C20_fnf_listing_exact : split_cs available [] = submat_names /\
  forall name, exists p, fnf_message name = p ++ available.
Proof. exact (conj listing_exact (fun name => proj1 (fnf_lists_all name))). Qed.
Print Assumptions C20_fnf_listing_exact.

(* a pathlib.Path that is no file is handed over as os.fspath(path) (path_norm, compared with pathlib on every generated
   name): a bare name - also written "./name", "name/" or "name//" - arrives as that name, so Path objects resolve like strings *)
Theorem C20_path_argument : forall s, no_slash s = true -> path_part s = true ->
  path_norm s = s /\ path_norm ("."%byte :: "/"%byte :: s) = s /\ path_norm (s ++ [ "/"%byte ]) = s /\
  path_norm (s ++ [ "/"%byte; "/"%byte ]) = s /\ submat_path s = submat_name s.
Proof.
  exact (fun s H1 H2 => conj (path_norm_bare s H1 H2) (conj (proj1 (path_norm_dot_slash s H1 H2))
    (conj (proj1 (proj2 (path_norm_dot_slash s H1 H2))) (conj (proj2 (proj2 (path_norm_dot_slash s H1 H2)))
    (f_equal submat_name (path_norm_bare s H1 H2)))))).
Qed.
Print Assumptions C20_path_argument.

(* "for each row letter and column letter exactly the number at that position of the file", cell by cell: a matrix of
   numbers with pairwise different letters, in any layout: the cell under row r and the j-th header letter denotes the
   j-th number of r's row (and is an int iff the row has no decimal literal) *)
Theorem C20_matrix_cell : forall e final mf m, mfile_ok mf = true ->
  NoDup (mf_letters mf) -> NoDup (map fst (body_rows (mf_body mf))) ->
  parse (render_with e final (to_afile mf)) = Some m ->
  map fst m = map fst (body_rows (mf_body mf)) /\
  forall r vals, In (r, vals) (body_rows (mf_body mf)) ->
  forall j c v, nth_error (mf_letters mf) j = Some c -> nth_error vals j = Some v ->
  exists v', cell m r c = Some v' /\ num_val_eqb v' v = true /\ is_int_num v' = forallb is_int_num vals.
Proof. exact matrix_cell. Qed.
Print Assumptions C20_matrix_cell.

(* a chain of n symbolic links ending in a regular file is followed iff n <= 40 (Linux); beyond that the name decides *)
Theorem C20_fs_link_chain : forall d x n c, chain d x n c ->
  (forall fuel, fs_file fuel d x = if Nat.ltb n fuel then Some c else None) /\
  submat_fs d x = if Nat.leb n 40 then submat_file c else submat_name x.
Proof. exact (fun d x n c H => conj (fs_chain d x n c H) (fs_chain_submat d x n c H)). Qed.
Print Assumptions C20_fs_link_chain.

(* non-vacuity: a user file with a comment, a blank line, CRLF line ends, an integer row and a decimal row *)
Example C20_witness :
  wf_content (unhex (bs "2320630d0a0d0a2020412020420d0a412020312020322e350d0a42092d3209370d0a"%bs)) = true /\
  parse (unhex (bs "2320630d0a0d0a2020412020420d0a412020312020322e350d0a42092d3209370d0a"%bs)) =
    Some [(bs "A"%bs, [(bs "A"%bs, NDec 1 0); (bs "B"%bs, NDec 25 1)]);
          (bs "B"%bs, [(bs "A"%bs, NInt (-2)); (bs "B"%bs, NInt 7)])].
Proof. exact (conj eq_refl eq_refl). Qed.
Example C20_witness_bundled : exists (name raw : str) (m : matrix), In (name, raw) submat_files /\ parse raw = Some m /\
  (4 <= length m)%nat /\ exists r c v, cell m r c = Some v.
Proof. exact witness_bundled. Qed.
Example C20_witness_render :
  afile_ok [AComment (bs " "%bs) (bs " PAM"%bs); ABlank (bs "  "%bs);
            AWords (bs "   "%bs) (bs "A"%bs) [(bs "  "%bs, bs "B"%bs)] [];
            AWords [] (bs "A"%bs) [([x09], bs "2"%bs); (bs " "%bs, bs "-1"%bs)] (bs " "%bs);
            AWords [] (bs "B"%bs) [([x09], bs "-1"%bs); (bs " "%bs, bs "3.5"%bs)] []] = true /\
  wf_content (render [AComment (bs " "%bs) (bs " PAM"%bs); ABlank (bs "  "%bs);
            AWords (bs "   "%bs) (bs "A"%bs) [(bs "  "%bs, bs "B"%bs)] [];
            AWords [] (bs "A"%bs) [([x09], bs "2"%bs); (bs " "%bs, bs "-1"%bs)] (bs " "%bs);
            AWords [] (bs "B"%bs) [([x09], bs "-1"%bs); (bs " "%bs, bs "3.5"%bs)] []]) = true.
Proof. exact (conj eq_refl eq_refl). Qed.
Example C20_witness_numbers :
  Bstr (render_num (NDec (-5) 2)) = "-0.05"%bs /\ Bstr (render_num (NDec 1250 2)) = "12.50"%bs /\
  Bstr (render_num (NDec 3 0)) = "3."%bs /\ Bstr (render_num (NInt (-17))) = "-17"%bs /\
  row_uniform [NDec (-5) 2; NDec 3 0] = true /\
  wf_content (render_with CRLF false
     [AWords [] (bs "A"%bs) [(bs " "%bs, bs "B"%bs)] [];
      AWords [] (bs "A"%bs) [(bs " "%bs, render_num (NDec (-5) 2)); ([x09], render_num (NDec 3 0))] []]) = true.
Proof. exact (conj eq_refl (conj eq_refl (conj eq_refl (conj eq_refl (conj eq_refl eq_refl))))). Qed.
Example C20_witness_file_wins : exists (name raw : str),
  In (name, raw) submat_files /\
  submat_call name (Some (bs "X
X 42"%bs)) = OMatrix [(bs "X"%bs, [(bs "X"%bs, NInt 42)])] /\
  submat_call name None = parsed raw.
Proof. exact witness_file_wins. Qed.
Example C20_witness_matrix :
  mfile_ok (MFile [AComment [] (bs " rectangular, mixed"%bs); ABlank (bs " "%bs)] (bs "  "%bs) (bs "a"%bs) [(bs "   "%bs, bs "b"%bs)] []
     [MRow [] (bs "a"%bs) [(bs " "%bs, NDec 15 1); ([x09], NInt 0)] [];
      MSkip (AComment (bs " "%bs) (bs "x"%bs));
      MRow [] (bs "x"%bs) [(bs " "%bs, NInt (-1)); (bs "  "%bs, NInt 2); (bs " "%bs, NDec 5 1)] (bs " "%bs)]) = true /\
  expected_rows [bs "a"%bs; bs "b"%bs]
     [MRow [] (bs "a"%bs) [(bs " "%bs, NDec 15 1); ([x09], NInt 0)] [];
      MSkip (AComment (bs " "%bs) (bs "x"%bs));
      MRow [] (bs "x"%bs) [(bs " "%bs, NInt (-1)); (bs "  "%bs, NInt 2); (bs " "%bs, NDec 5 1)] (bs " "%bs)] =
  [(bs "a"%bs, [(bs "a"%bs, NDec 15 1); (bs "b"%bs, NDec 0 0)]);
   (bs "x"%bs, [(bs "a"%bs, NDec (-1) 0); (bs "b"%bs, NDec 2 0)])].
Proof. exact (conj eq_refl eq_refl). Qed.
Example C20_witness_history : fst (hrun cached_witness []) = obs_spec cached_witness 0 /\
  exists m, nth_error (obs_spec cached_witness 0) 2 = Some (Some (1%nat, OMatrix m)) /\ (4 <= length m)%nat.
Proof. exact uncached_witness_ok. Qed.
Example C20_witness_fs :
  fs_file max_links [(bs "nuc"%bs, FLink (bs "t"%bs)); (bs "t"%bs, FReg (bs "X
X 1"%bs)); (bs "pam"%bs, FDir)] (bs "nuc"%bs) = Some (bs "X
X 1"%bs) /\
  submat_fs [(bs "nuc"%bs, FLink (bs "t"%bs)); (bs "t"%bs, FReg (bs "X
X 1"%bs)); (bs "pam"%bs, FDir)] (bs "nuc"%bs) = OMatrix [(bs "X"%bs, [(bs "X"%bs, NInt 1)])].
Proof. exact (conj eq_refl eq_refl). Qed.
(* a trailing "# ..." is NOT a comment: beyond the header it is ignored by zip, but a "." in it turns the row into floats,
   and in a short row it is read as a cell (ValueError) *)
Example C20_witness_trailing_comment :
  parse (bs "A B
A 1 2 # c"%bs) = Some [(bs "A"%bs, [(bs "A"%bs, NInt 1); (bs "B"%bs, NInt 2)])] /\
  parse (bs "A B
A 1 2 # v1.0"%bs) = Some [(bs "A"%bs, [(bs "A"%bs, NDec 1 0); (bs "B"%bs, NDec 2 0)])] /\
  parse (bs "A B C
A 1 2 # c"%bs) = None.
Proof. exact (conj eq_refl (conj eq_refl eq_refl)). Qed.
(* repeated letters: the later row replaces the earlier one at its place, the later column wins *)
Example C20_witness_repeated_letters :
  parse (bs "A B A
A 1 2 3
B 4 5 6
A 7 8"%bs) = Some [(bs "A"%bs, [(bs "A"%bs, NInt 7); (bs "B"%bs, NInt 8)]);
                   (bs "B"%bs, [(bs "A"%bs, NInt 6); (bs "B"%bs, NInt 5)])] /\
  cell_spec (bs "A B A
A 1 2 3
B 4 5 6
A 7 8"%bs) (bs "B"%bs) (bs "A"%bs) = Some (NInt 6).
Proof. exact (conj eq_refl eq_refl). Qed.
Example C20_witness_cell_grammar :
  py_int (bs "+00_7"%bs) = Some 7%Z /\ py_int (bs "1__0"%bs) = None /\ py_int (bs "1e5"%bs) = None /\
  py_float (bs "-1_0.5E+0_2"%bs) = Some (NDec (-1050) 0) /\ py_float (bs ".5e-3"%bs) = Some (NDec 5 4) /\
  py_float (bs "1_.5"%bs) = None /\ py_float (bs "1e"%bs) = None /\ py_float (bs "."%bs) = None /\
  line_parses [bs "A"%bs] (bs "r 1e5 x"%bs) = false /\ line_parses [bs "A"%bs] (bs "r 1.e5 x"%bs) = true.
Proof. exact witness_cell_grammar. Qed.
Example C20_witness_path : path_norm [] = bs "."%bs /\ path_norm (bs "a//b/./c/"%bs) = bs "a/b/c"%bs /\
  path_norm (bs "//x"%bs) = bs "//x"%bs /\ path_norm (bs "///x/."%bs) = bs "/x"%bs /\ path_norm (bs "./."%bs) = bs "."%bs /\
  path_norm (bs "x/../blosum62"%bs) = bs "x/../blosum62"%bs.
Proof. exact path_witness. Qed.
Example C20_witness_chain :
  chain [(bs "nuc"%bs, FLink (bs "t"%bs)); (bs "t"%bs, FReg (bs "X"%bs))] (bs "nuc"%bs) 1 (bs "X"%bs).
Proof. exact chain_witness. Qed.
