(* C11 -- BLAST, MMseqs2 and Infernal hit tables map to the right subject intervals.
   Only statements here; proofs are in proof/C11_Lemmas.v. *)
From Coq Require Import List ZArith Bool.
From Coq.Strings Require Import Byte.
Import ListNotations.
From SV Require Import Text G_tab C11_Model C11_Lemmas C11_TextLemmas.
Local Open Scope Z_scope.

(* P0 orientation: the decision of core.py:313-335 is the sign rule; in particular every accepted row spans
   [min(sstart,send)-1, max(sstart,send)), 'N/A' gives '.', and for rows with a direction the strand is '-' exactly when
   subject and query run in opposite directions and an error is raised exactly when an explicit sstrand contradicts. *)
Theorem C11_orientation_spec : forall sstart send qstart qend ss,
  orient sstart send qstart qend ss = orient_spec sstart send qstart qend ss.
Proof. exact orientation_spec. Qed.
Print Assumptions C11_orientation_spec.

Theorem C11_orient_interval : forall sstart send qstart qend ss lo hi st,
  orient sstart send qstart qend ss = Ok (lo, hi, st) -> lo = Z.min sstart send - 1 /\ hi = Z.max sstart send.
Proof. exact orient_interval. Qed.
Print Assumptions C11_orient_interval.

Theorem C11_orient_strand : forall sstart send qstart qend ss lo hi st,
  sstart <> send -> qstart <> qend -> aval_is_str ss (bs "N/A"%bs) = false ->
  orient sstart send qstart qend ss = Ok (lo, hi, st) ->
  (st = bs "-"%bs <-> sgn (send - sstart) * sgn (qend - qstart) < 0) /\
  (st = bs "+"%bs <-> sgn (send - sstart) * sgn (qend - qstart) > 0).
Proof. exact orient_strand. Qed.
Print Assumptions C11_orient_strand.

Theorem C11_orient_error_iff_contradiction : forall sstart send qstart qend ss,
  sstart <> send -> qstart <> qend ->
  (orient sstart send qstart qend ss = Err eValue <->
   sstrand_contradicts (sgn (send - sstart) * sgn (qend - qstart)) ss = true) /\
  (forall x, orient sstart send qstart qend ss = Err x -> x = eValue).
Proof. exact orient_err_iff. Qed.
Print Assumptions C11_orient_error_iff_contradiction.

Theorem C11_orient_na : forall sstart send qstart qend ss, aval_is_str ss (bs "N/A"%bs) = true ->
  orient sstart send qstart qend ss = Ok (Z.min sstart send - 1, Z.max sstart send, bs "."%bs).
Proof. exact orient_na. Qed.
Print Assumptions C11_orient_na.

(* rows without a direction (sstart = send or qstart = qend, the F25 region and commit 7bd306b): the interval is still
   [min-1, max) and the strand is what the sstrand column says ('.' without one), BLAST's words plus/minus read as + and - *)
Theorem C11_orient_no_direction : forall sstart send qstart qend ss,
  sstart = send \/ qstart = qend -> aval_is_str ss (bs "N/A"%bs) = false ->
  orient sstart send qstart qend ss =
  match ss with
  | None => Ok (Z.min sstart send - 1, Z.max sstart send, bs "."%bs)
  | Some (AStr t) => if valid_strand (strand_word t)
                     then Ok (Z.min sstart send - 1, Z.max sstart send, strand_word t) else Err eValue
  | Some _ => Err eValue
  end.
Proof. exact orient_nodir. Qed.
Print Assumptions C11_orient_no_direction.

Theorem C11_orient_no_direction_words : forall sstart send qstart qend, sstart = send \/ qstart = qend ->
  orient sstart send qstart qend (Some (AStr (bs "plus"%bs))) = Ok (Z.min sstart send - 1, Z.max sstart send, bs "+"%bs) /\
  orient sstart send qstart qend (Some (AStr (bs "minus"%bs))) = Ok (Z.min sstart send - 1, Z.max sstart send, bs "-"%bs) /\
  orient sstart send qstart qend (Some (AStr (bs "+"%bs))) = Ok (Z.min sstart send - 1, Z.max sstart send, bs "+"%bs) /\
  orient sstart send qstart qend (Some (AStr (bs "-"%bs))) = Ok (Z.min sstart send - 1, Z.max sstart send, bs "-"%bs) /\
  orient sstart send qstart qend None = Ok (Z.min sstart send - 1, Z.max sstart send, bs "."%bs).
Proof. exact orient_nodir_words. Qed.
Print Assumptions C11_orient_no_direction_words.

(* P0 tables (finite, regenerated from /repo on every run): _CONVERTH maps sstart/send/qstart/qend/evalue/bitscore/sseqid/qseqid
   to columns of type int/int/int/int/float/float/str/str in all three dialects; every default column list resolves and
   contains those columns; the Infernal column-count map is injective and names lists of exactly that length; copyattrs is
   bitscore->score, evalue->evalue, sseqid->seqid, qseqid->name; header names are pairwise different *)
Theorem C11_tables_consistent : tables_ok = true /\ forallb default_resolves DEFAULT_OUTFMT = true.
Proof. exact (conj tables_consistent defaults_resolve). Qed.
Print Assumptions C11_tables_consistent.

(* column sets from header lines, outfmt= or defaults: _headers_from_fmtstrings returns, in order, headers carrying exactly
   the requested names, and fails (ValueError) exactly when a name is unknown *)
Theorem C11_headers_from : forall by_long d names,
  (forall hs, headers_from by_long d names = Ok hs ->
     map (fun h => if by_long then hlong h else hname h) hs = names /\ (forall h, In h hs -> In h (header_of d))) /\
  (forall e, headers_from by_long d names = Err e ->
     e = eValue /\ exists s, In s names /\ find_hdr by_long s (header_of d) = None).
Proof. exact (fun b d n => conj (headers_from_spec b d n) (headers_from_err b d n)). Qed.
Print Assumptions C11_headers_from.

(* P0 row: on a tokenised row the format metadata has one entry per column (plus the completed pident/fident), each
   converted by its declared type, and every copyattrs target equals the entry of the column _CONVERTH names *)
Theorem C11_row_to_feature : forall d ftype hs toks f,
  nodup_str (map hname hs) = true -> row_feature d ftype hs toks = Ok f ->
  length toks = length hs /\
  (forall i h v, nth_error hs i = Some h -> nth_error toks i = Some v ->
                 assoc (hname h) (f_fmt f) = Some (conv (htype h) v)) /\
  (exists extra, map fst (f_fmt f) = map hname hs ++ extra /\ incl extra [bs "pident"%bs; bs "fident"%bs]) /\
  (forall b m, In (b, m) copyattrs ->
     exists col, cget (converth_of d) b = Some col /\ assoc m (f_common f) = assoc col (f_fmt f)).
Proof. exact row_to_feature. Qed.
Print Assumptions C11_row_to_feature.

(* location, strand and common metadata are a function of the abstract hit alone *)
Theorem C11_hit_row_spec : forall d ftype a h,
  carries d a h -> sstrand_agrees h (assoc (bs "sstrand"%bs) a) = true -> ident_ok a = true ->
  exists f, feature_of_attrs d ftype a = Ok f /\ loc_meta f = spec_loc_meta h.
Proof. exact hit_row_spec. Qed.
Print Assumptions C11_hit_row_spec.

(* P1 (on token rows): the same hit carried by rows of any two dialects / column sets reads to equal location, strand
   and common metadata *)
Theorem C11_dialect_independent : forall d1 d2 ft1 ft2 a1 a2 h,
  carries d1 a1 h -> carries d2 a2 h ->
  sstrand_agrees h (assoc (bs "sstrand"%bs) a1) = true -> sstrand_agrees h (assoc (bs "sstrand"%bs) a2) = true ->
  ident_ok a1 = true -> ident_ok a2 = true ->
  exists f1 f2, feature_of_attrs d1 ft1 a1 = Ok f1 /\ feature_of_attrs d2 ft2 a2 = Ok f2 /\
                loc_meta f1 = loc_meta f2 /\ loc_meta f1 = spec_loc_meta h.
Proof. exact dialect_independent. Qed.
Print Assumptions C11_dialect_independent.

(* P1 on text, for the separator-joined dialects (BLAST outfmt 6/10, MMseqs2 fmtmode 0; columns from outfmt= or the
   defaults): a file whose lines are the rows joined by the separator reads to exactly the row-level results, first error
   wins. Together with C11_row_to_feature / C11_hit_row_spec this carries the row theorems to file content. Header-line
   column discovery (BLAST 7 '# Fields:', MMseqs2 fmtmode 4) and the whitespace-split Infernal dialect are covered by the
   correspondence only. *)
Theorem C11_read_rendered_rows : forall d c outfmt ftype hs rows,
  (match outfmt with
   | Some o => headers_from false d (split_ws o)
   | None => match assoc (dialect_name d) DEFAULT_OUTFMT with Some names => headers_from false d names | None => Err eKey end
   end) = Ok hs ->
  rows <> [] \/ outfmt <> None ->
  forallb (row_ok d c) rows = true ->
  snd (read_lines d (Some c) outfmt ftype (lines_keep (concat (map (line_of c) rows)))) = rows_features d ftype hs rows.
Proof. exact read_rendered_rows. Qed.
Print Assumptions C11_read_rendered_rows.

(* non-vacuity: one minus-strand hit (subject 20..10, query 5..6, e-value 1e-5, bit score 50) as a BLAST outfmt 6 line,
   an MMseqs2 fmtmode 4 file and an Infernal fmt 1 file; all three are inside the domain and read, through the whole
   text-level model, to the interval [9, 20) on the minus strand with the same common metadata *)
Example C11_witness_three_dialects :
  let expected := Some (true, (9, 20, bs "-"%bs, Some (AStr (bs "s1"%bs)), Some (AStr (bs "q1"%bs)),
                               Some (AFlt (FNum false 1 (-5))), Some (AFlt (FNum false 50 0)))) in
  lm_of (read_content Blast (Some x09) None None false (unhex (bs "71310973310939392e3009313009300930093509360932300931300931652d350935300a"%bs))) = expected /\
  lm_of (read_content Mmseqs (Some x09) None None false (unhex (bs "71756572790974617267657409666964656e7409616c6e6c656e096d69736d61746368096761706f70656e097173746172740971656e64097473746172740974656e64096576616c756509626974730a713109733109302e393909313009300930093509360932300931300931652d350935300a"%bs))) = expected /\
  lm_of (read_content Infernal None None None false (unhex (bs "23746172676574206e616d65202020202020202020616363657373696f6e207175657279206e616d652020202020202020202020616363657373696f6e206d646c206d646c2066726f6d2020206d646c20746f207365712066726f6d20202073657120746f20737472616e64207472756e6320706173732020206763202062696173202073636f7265202020452d76616c756520696e63206465736372697074696f6e206f66207461726765740a232d2d2d2d2d2d2d2d202d2d2d2d202d2d2d2d2d202d2d2d2d2d2d2d2d2d2d202d2d2d2d2d2d2d202d2d2d2d202d2d2d2d2d2d2d2d2d2d2d202d2d2d2d202d2d2d202d2d2d2d2d2d2d2d2d202d2d2d2d2d2d202d2d2d2d2d202d2d2d2d2d2d2d2d202d2d2d2d2d2d2d2d2d2d202d2d2d2d2d2d202d2d2d2d2d2d2d2d202d2d2d2d2d202d2d2d2d2d2d2d2d0a202020202020207331205246303030303520713120202020202020524630303030312020202020686d6d20352020202020202020202020202020362020203230203130202020202020202020202d20202020206e6f2035392020202020202020302e36372020202020202020302e3020353020202020202020202031652d3520202020203f202d202020202020200a230a232050726f6772616d3a202020202020202020636d7365617263680a232056657273696f6e3a202020202020202020312e312e3520285365702032303233290a23204f7074696f6e2073657474696e67733a20636d736561726368202d2d74626c6f7574206f75742e747874202d2d666d7420312074524e41352e632e636d2067656e6f6d652e6661200a23205b6f6b5d0a"%bs))) = expected.
Proof. exact witness_three_dialects. Qed.

(* non-vacuity of the hypotheses of C11_hit_row_spec: the default BLAST row of that hit carries it *)
Example C11_witness_carries :
  let h := mkHit (bs "s1"%bs) (bs "q1"%bs) 20 10 5 6 (bs "1e-5"%bs) (bs "50"%bs) in
  let a := row_attrs (firstn 2 HEADER_blast ++ firstn 2 (skipn 13 HEADER_blast) ++ firstn 2 (skipn 15 HEADER_blast)
                      ++ firstn 2 (skipn 19 HEADER_blast))
             [bs "q1"%bs; bs "qgi"%bs; bs "5"%bs; bs "6"%bs; bs "20"%bs; bs "10"%bs; bs "1e-5"%bs; bs "50"%bs] in
  carries Blast (dict_set (bs "sseqid"%bs) (AStr (bs "s1"%bs)) a) h /\
  sstrand_agrees h (assoc (bs "sstrand"%bs) a) = true /\ ident_ok a = true /\ spec_strand h = bs "-"%bs.
Proof. exact witness_carries. Qed.
