(* C11 -- BLAST, MMseqs2 and Infernal hit tables map to the right subject intervals.
   Only statements here; proofs are in proof/C11_Lemmas.v. *)
From Coq Require Import List ZArith Bool.
From Coq.Strings Require Import Byte.
Import ListNotations.
From SV Require Import Text G_tab C11_Model C11_Lemmas C11_TextLemmas C11_FileLemmas C11_Examples C11_IntLemmas C11_RenderLemmas
  C11_SelectLemmas C11_BlocksLemmas C11_Examples2 C11_AnyLemmas C11_TableLemmas C11_Examples3 C11_FloatLemmas C11_FloatSound C11_DiscoverLemmas C11_InfernalAny C11_IntGrammar C11_TableLemmas2.
Local Open Scope Z_scope.

(* P0 orientation: the decision of core.py:313-335 is the sign rule; in particular every accepted row spans
   [min(sstart,send)-1, max(sstart,send)), 'N/A' gives '.', and for rows with a direction the strand is '-' exactly when
   subject and query run in opposite directions and an error is raised exactly when an explicit sstrand contradicts. *)
Theorem C11_orientation_spec : forall sstart send qstart qend ss,
  orient sstart send qstart qend ss = orient_spec sstart send qstart qend ss.
Proof. exact orientation_spec. Qed.
Print Assumptions C11_orientation_spec.

Theorem C11_orient_interval : forall sstart send qstart qend ss lo hi st,
  orient sstart send qstart qend ss = Ok (lo, hi, st) -> lo = Z.min sstart send - 1 /\ hi = Z.max sstart send.
Proof. exact orient_interval. Qed.
Print Assumptions C11_orient_interval.

Theorem C11_orient_strand : forall sstart send qstart qend ss lo hi st,
  sstart <> send -> qstart <> qend -> aval_is_str ss (bs "N/A"%bs) = false ->
  orient sstart send qstart qend ss = Ok (lo, hi, st) ->
  (st = bs "-"%bs <-> sgn (send - sstart) * sgn (qend - qstart) < 0) /\
  (st = bs "+"%bs <-> sgn (send - sstart) * sgn (qend - qstart) > 0).
Proof. exact orient_strand. Qed.
Print Assumptions C11_orient_strand.

Theorem C11_orient_error_iff_contradiction : forall sstart send qstart qend ss,
  sstart <> send -> qstart <> qend ->
  (orient sstart send qstart qend ss = Err eValue <->
   sstrand_contradicts (sgn (send - sstart) * sgn (qend - qstart)) ss = true) /\
  (forall x, orient sstart send qstart qend ss = Err x -> x = eValue).
Proof. exact orient_err_iff. Qed.
Print Assumptions C11_orient_error_iff_contradiction.

Theorem C11_orient_na : forall sstart send qstart qend ss, aval_is_str ss (bs "N/A"%bs) = true ->
  orient sstart send qstart qend ss = Ok (Z.min sstart send - 1, Z.max sstart send, bs "."%bs).
Proof. exact orient_na. Qed.
Print Assumptions C11_orient_na.

(* rows without a direction (sstart = send or qstart = qend, the F25 region and commit 7bd306b): the interval is still
   [min-1, max) and the strand is what the sstrand column says ('.' without one), BLAST's words plus/minus read as + and - *)
Theorem C11_orient_no_direction : forall sstart send qstart qend ss,
  sstart = send \/ qstart = qend -> aval_is_str ss (bs "N/A"%bs) = false ->
  orient sstart send qstart qend ss =
  match ss with
  | None => Ok (Z.min sstart send - 1, Z.max sstart send, bs "."%bs)
  | Some (AStr t) => if valid_strand (strand_word t)
                     then Ok (Z.min sstart send - 1, Z.max sstart send, strand_word t) else Err eValue
  | Some _ => Err eValue
  end.
Proof. exact orient_nodir. Qed.
Print Assumptions C11_orient_no_direction.

Theorem C11_orient_no_direction_words : forall sstart send qstart qend, sstart = send \/ qstart = qend ->
  orient sstart send qstart qend (Some (AStr (bs "plus"%bs))) = Ok (Z.min sstart send - 1, Z.max sstart send, bs "+"%bs) /\
  orient sstart send qstart qend (Some (AStr (bs "minus"%bs))) = Ok (Z.min sstart send - 1, Z.max sstart send, bs "-"%bs) /\
  orient sstart send qstart qend (Some (AStr (bs "+"%bs))) = Ok (Z.min sstart send - 1, Z.max sstart send, bs "+"%bs) /\
  orient sstart send qstart qend (Some (AStr (bs "-"%bs))) = Ok (Z.min sstart send - 1, Z.max sstart send, bs "-"%bs) /\
  orient sstart send qstart qend None = Ok (Z.min sstart send - 1, Z.max sstart send, bs "."%bs).
Proof. exact orient_nodir_words. Qed.
Print Assumptions C11_orient_no_direction_words.

(* P0 tables (finite, regenerated from /repo on every run): _CONVERTH maps sstart/send/qstart/qend/evalue/bitscore/sseqid/qseqid
   to columns of type int/int/int/int/float/float/str/str in all three dialects; every default column list resolves and
   contains those columns; the Infernal column-count map is injective and names lists of exactly that length; copyattrs is
   bitscore->score, evalue->evalue, sseqid->seqid, qseqid->name; header names are pairwise different *)
Theorem C11_tables_consistent : tables_ok = true /\ forallb default_resolves DEFAULT_OUTFMT = true.
Proof. exact (conj tables_consistent defaults_resolve). Qed.
Print Assumptions C11_tables_consistent.

(* column sets from header lines, outfmt= or defaults: _headers_from_fmtstrings returns, in order, headers carrying exactly
   the requested names, and fails (ValueError) exactly when a name is unknown *)
Theorem C11_headers_from : forall by_long d names,
  (forall hs, headers_from by_long d names = Ok hs ->
     map (fun h => if by_long then hlong h else hname h) hs = names /\ (forall h, In h hs -> In h (header_of d))) /\
  (forall e, headers_from by_long d names = Err e ->
     e = eValue /\ exists s, In s names /\ find_hdr by_long s (header_of d) = None).
Proof. exact (fun b d n => conj (headers_from_spec b d n) (headers_from_err b d n)). Qed.
Print Assumptions C11_headers_from.

(* P0 row: on a tokenised row the format metadata has one entry per column (plus the completed pident/fident), each
   converted by its declared type, and every copyattrs target equals the entry of the column _CONVERTH names *)
Theorem C11_row_to_feature : forall d ftype hs toks f,
  nodup_str (map hname hs) = true -> row_feature d ftype hs toks = Ok f ->
  length toks = length hs /\
  (forall i h v, nth_error hs i = Some h -> nth_error toks i = Some v ->
                 assoc (hname h) (f_fmt f) = Some (conv (htype h) v)) /\
  (exists extra, map fst (f_fmt f) = map hname hs ++ extra /\ incl extra [bs "pident"%bs; bs "fident"%bs]) /\
  (forall b m, In (b, m) copyattrs ->
     exists col, cget (converth_of d) b = Some col /\ assoc m (f_common f) = assoc col (f_fmt f)).
Proof. exact row_to_feature. Qed.
Print Assumptions C11_row_to_feature.

(* location, strand and common metadata are a function of the abstract hit alone *)
Theorem C11_hit_row_spec : forall d ftype a h,
  carries d a h -> sstrand_agrees h (assoc (bs "sstrand"%bs) a) = true -> ident_ok a = true ->
  exists f, feature_of_attrs d ftype a = Ok f /\ loc_meta f = spec_loc_meta h.
Proof. exact hit_row_spec. Qed.
Print Assumptions C11_hit_row_spec.

(* P1 (on token rows): the same hit carried by rows of any two dialects / column sets reads to equal location, strand
   and common metadata *)
Theorem C11_dialect_independent : forall d1 d2 ft1 ft2 a1 a2 h,
  carries d1 a1 h -> carries d2 a2 h ->
  sstrand_agrees h (assoc (bs "sstrand"%bs) a1) = true -> sstrand_agrees h (assoc (bs "sstrand"%bs) a2) = true ->
  ident_ok a1 = true -> ident_ok a2 = true ->
  exists f1 f2, feature_of_attrs d1 ft1 a1 = Ok f1 /\ feature_of_attrs d2 ft2 a2 = Ok f2 /\
                loc_meta f1 = loc_meta f2 /\ loc_meta f1 = spec_loc_meta h.
Proof. exact dialect_independent. Qed.
Print Assumptions C11_dialect_independent.

(* P1 on text, for the separator-joined dialects (BLAST outfmt 6/10, MMseqs2 fmtmode 0; columns from outfmt= or the
   defaults): a file whose lines are the rows joined by the separator reads to exactly the row-level results, first error
   wins. Together with C11_row_to_feature / C11_hit_row_spec this carries the row theorems to file content. Header-line
   column discovery (BLAST 7 '# Fields:', MMseqs2 fmtmode 4) and the whitespace-split Infernal dialect are covered by the
   correspondence only. *)
Theorem C11_read_rendered_rows : forall d c outfmt ftype hs rows,
  (match outfmt with
   | Some o => headers_from false d (split_ws o)
   | None => match assoc (dialect_name d) DEFAULT_OUTFMT with Some names => headers_from false d names | None => Err eKey end
   end) = Ok hs ->
  rows <> [] \/ outfmt <> None ->
  forallb (row_ok d c) rows = true ->
  snd (read_lines d (Some c) outfmt ftype (lines_keep (concat (map (line_of c) rows)))) = rows_features d ftype hs rows.
Proof. exact read_rendered_rows. Qed.
Print Assumptions C11_read_rendered_rows.

(* ---- whole files: header discovery on text (depth round) ----
   [unlines ls] is the file whose lines are ls; skip_line = a '#'/blank line that no header-discovery branch picks up;
   row_ok / wsrow_ok = a renderable data row. Every theorem says: reading the file gives exactly the row-level results
   (rows_features: row_feature on each token row, first error wins). *)

(* BLAST outfmt 7: comment lines, the '# Fields:' line naming the columns hs by long name, more comments, rows, trailer *)
Theorem C11_read_blast7 : forall c ftype hs pre mid post rows,
  hs <> [] -> forallb long_ok (map hlong hs) = true -> headers_from true Blast (map hlong hs) = Ok hs ->
  forallb (skip_line Blast true true) pre = true -> forallb (skip_line Blast true true) mid = true ->
  forallb (skip_line Blast true true) post = true -> forallb (row_ok Blast c) rows = true ->
  snd (read_content Blast (Some c) None ftype false
         (unlines (pre ++ [fields_line hs] ++ mid ++ map (join c) rows ++ post))) = rows_features Blast ftype hs rows.
Proof. exact read_blast7. Qed.
Print Assumptions C11_read_blast7.

(* MMseqs2 fmtmode 4: the row of column names, then the rows *)
Theorem C11_read_mmseqs4 : forall c ftype hs pre post rows,
  names_ok c hs = true -> headers_from false Mmseqs (map hname hs) = Ok hs ->
  forallb (skip_line Mmseqs true true) pre = true -> forallb (skip_line Mmseqs true true) post = true ->
  forallb (row_ok Mmseqs c) rows = true ->
  snd (read_content Mmseqs (Some c) None ftype false
         (unlines (pre ++ [names_line c hs] ++ map (join c) rows ++ post))) = rows_features Mmseqs ftype hs rows.
Proof. exact read_mmseqs4. Qed.
Print Assumptions C11_read_mmseqs4.

(* Infernal tblout fmt 1/2/3/2old: title lines, the ruler with n groups (n looked up in the column-count map), rows whose
   first n-1 tokens are blank-free and whose last token (description) keeps its inner blanks (split with maxsplit n-1),
   trailer comments; whatever sep/outfmt the caller passes is ignored *)
Theorem C11_read_infernal : forall sep outfmt ftype n hs ruler pre post rows,
  ruler_ok n ruler = true -> infernal_headers n = Ok hs ->
  forallb (skip_line Infernal true true) pre = true -> forallb (skip_line Infernal true false) post = true ->
  forallb (wsrow_ok n) rows = true ->
  snd (read_content Infernal sep outfmt ftype false
         (unlines (pre ++ [ruler] ++ map wsrow_line rows ++ post))) = rows_features Infernal ftype hs (map wsrow_toks rows).
Proof. exact read_infernal. Qed.
Print Assumptions C11_read_infernal.

(* maxsplit: the whitespace split of a rendered row returns the tokens, the description with its blanks *)
Theorem C11_split_ws_render : forall cells last,
  forallb (fun p => simple_tok (fst p) && spacer (snd p)) cells = true -> edge_ok last = true ->
  split_ws_max (length cells) (render_ws cells last) = map fst cells ++ [last].
Proof. exact split_ws_render. Qed.
Print Assumptions C11_split_ws_render.

(* rows that carry abstract hits read to the specified locations and common metadata *)
Theorem C11_rows_features_carry : forall d ftype hs rows hits, Forall2 (row_carries d hs) rows hits ->
  exists fs, rows_features d ftype hs rows = Ok fs /\ map loc_meta fs = map spec_loc_meta hits.
Proof. exact rows_features_carry. Qed.
Print Assumptions C11_rows_features_carry.

(* dialect independence ON TEXT: any two readings that the whole-file theorems (C11_read_rendered_rows for BLAST 6/10 and
   MMseqs2 0, C11_read_blast7, C11_read_mmseqs4, C11_read_infernal) reduce to rows carrying the same hit list give equal
   locations, strands and common metadata, namely the specified ones *)
Theorem C11_text_dialect_independent : forall d1 d2 ft1 ft2 hs1 hs2 rows1 rows2 hits (r1 r2 : bool * res (list feat)),
  snd r1 = rows_features d1 ft1 hs1 rows1 -> snd r2 = rows_features d2 ft2 hs2 rows2 ->
  Forall2 (row_carries d1 hs1) rows1 hits -> Forall2 (row_carries d2 hs2) rows2 hits ->
  exists fs1 fs2, snd r1 = Ok fs1 /\ snd r2 = Ok fs2 /\
                  map loc_meta fs1 = map loc_meta fs2 /\ map loc_meta fs1 = map spec_loc_meta hits.
Proof. exact text_dialect_independent. Qed.
Print Assumptions C11_text_dialect_independent.

(* finite table facts behind the hypotheses: every BLAST long name can be written in a '# Fields:' line and is unique;
   each of the four Infernal column counts resolves to that many distinct headers *)
Theorem C11_text_tables :
  forallb long_ok (map hlong HEADER_blast) = true /\
  nodup_str (map hlong HEADER_blast) = true /\
  forallb (fun n => match infernal_headers n with Ok hs => Nat.eqb (length hs) n && nodup_str (map hname hs) | Err _ => false end)
          [18; 29; 20; 27]%nat = true.
Proof. exact text_tables. Qed.
Print Assumptions C11_text_tables.

(* outfmt= together with header lines: BLAST 7 comment lines including '# Fields:' and the MMseqs2 4 name rows are
   ignored, the columns are those of outfmt (core.py:274, 288) *)
Theorem C11_read_outfmt_file : forall d c o ftype hs pre names post rows,
  headers_from false d (split_ws o) = Ok hs ->
  forallb (skip_line d false false) pre = true -> forallb (skip_line d false false) post = true ->
  (match d with Mmseqs => forallb (names_ok c) names | _ => match names with [] => true | _ => false end end) = true ->
  forallb (row_ok d c) rows = true ->
  snd (read_lines d (Some c) (Some o) ftype
         (lines_keep (unlines (pre ++ map (names_line c) names ++ map (join c) rows ++ post)))) = rows_features d ftype hs rows.
Proof. exact read_outfmt_file. Qed.
Print Assumptions C11_read_outfmt_file.

(* file transport (universal newlines): a CR-free file reads the same, and a CRLF file reads as the LF file *)
Theorem C11_universal_newlines : forall d sep outfmt ftype,
  (forall content, has x0d content = false ->
     read_content d sep outfmt ftype true content = read_content d sep outfmt ftype false content) /\
  (forall ls, forallb (fun l => negb (has x0d l)) ls = true ->
     read_content d sep outfmt ftype true (unlines_crlf ls) = read_content d sep outfmt ftype false (unlines ls)).
Proof. exact (fun d sep o ft => conj (read_content_univ d sep o ft) (read_content_crlf d sep o ft)). Qed.
Print Assumptions C11_universal_newlines.

(* typed conversion of the coordinate columns: int() of the decimal rendering of z is z, also with blanks around *)
Theorem C11_int_of_decimal : forall z,
  py_int (dec_of_Z z) = Some z /\ conv TInt (dec_of_Z z) = AInt z /\
  (forall a b, all_space_num a = true -> all_space_num b = true -> py_int (a ++ dec_of_Z z ++ b) = Some z).
Proof. exact (fun z => conj (py_int_dec z) (conj (conv_int_dec z) (fun a b => py_int_padded a b z))). Qed.
Print Assumptions C11_int_of_decimal.

(* rows rendered from an abstract hit with the default column lists (coordinates in decimal, the other columns free)
   carry that hit *)
Theorem C11_default_rows_carry : forall h,
  (forall x, py_float (let '(pid, _, _, _) := x in pid) <> None ->
             row_carries Blast (default_hs (bs "blast"%bs) Blast) (blast_row x h) h) /\
  (forall x, row_carries Mmseqs (default_hs (bs "mmseqs"%bs) Mmseqs) (mmseqs_row x h) h) /\
  (forall x, has_direction h = true ->
             row_carries Infernal (default_hs (bs "infernal_1"%bs) Infernal) (infernal1_toks x h) h).
Proof. exact (fun h => conj (fun x => blast_row_carries x h) (conj (fun x => mmseqs_row_carries x h) (fun x => infernal1_toks_carries x h))). Qed.
Print Assumptions C11_default_rows_carry.

(* read (render H) = spec H, end to end on text, for every abstract hit list H and the default column sets:
   BLAST outfmt 6 / 10 (separator c), BLAST outfmt 7, MMseqs2 fmtmode 0 and 4, Infernal fmt 1 *)
Theorem C11_read_blast6_hits : forall c ftype x hits, hits <> [] -> py_float (let '(pid, _, _, _) := x in pid) <> None ->
  forallb (row_ok Blast c) (map (blast_row x) hits) = true ->
  exists fs, snd (read_content Blast (Some c) None ftype false (unlines (map (join c) (map (blast_row x) hits)))) = Ok fs /\
             map loc_meta fs = map spec_loc_meta hits.
Proof. exact read_blast6_hits. Qed.
Print Assumptions C11_read_blast6_hits.

Theorem C11_read_blast7_hits : forall c ftype x pre mid post hits, py_float (let '(pid, _, _, _) := x in pid) <> None ->
  forallb (skip_line Blast true true) pre = true -> forallb (skip_line Blast true true) mid = true ->
  forallb (skip_line Blast true true) post = true -> forallb (row_ok Blast c) (map (blast_row x) hits) = true ->
  exists fs, snd (read_content Blast (Some c) None ftype false
                    (unlines (pre ++ [fields_line (default_hs (bs "blast"%bs) Blast)] ++ mid ++
                              map (join c) (map (blast_row x) hits) ++ post))) = Ok fs /\
             map loc_meta fs = map spec_loc_meta hits.
Proof. exact read_blast7_hits. Qed.
Print Assumptions C11_read_blast7_hits.

Theorem C11_read_mmseqs0_hits : forall c ftype x hits, hits <> [] ->
  forallb (row_ok Mmseqs c) (map (mmseqs_row x) hits) = true ->
  exists fs, snd (read_content Mmseqs (Some c) None ftype false (unlines (map (join c) (map (mmseqs_row x) hits)))) = Ok fs /\
             map loc_meta fs = map spec_loc_meta hits.
Proof. exact read_mmseqs0_hits. Qed.
Print Assumptions C11_read_mmseqs0_hits.

Theorem C11_read_mmseqs4_hits : forall ftype x pre post hits,
  forallb (skip_line Mmseqs true true) pre = true -> forallb (skip_line Mmseqs true true) post = true ->
  forallb (row_ok Mmseqs x09) (map (mmseqs_row x) hits) = true ->
  exists fs, snd (read_content Mmseqs (Some x09) None ftype false
                    (unlines (pre ++ [names_line x09 (default_hs (bs "mmseqs"%bs) Mmseqs)] ++
                              map (join x09) (map (mmseqs_row x) hits) ++ post))) = Ok fs /\
             map loc_meta fs = map spec_loc_meta hits.
Proof. exact read_mmseqs4_hits. Qed.
Print Assumptions C11_read_mmseqs4_hits.

Theorem C11_read_infernal1_hits : forall sep outfmt ftype ruler pre post rows xs hits,
  ruler_ok 18 ruler = true ->
  forallb (skip_line Infernal true true) pre = true -> forallb (skip_line Infernal true false) post = true ->
  forallb (wsrow_ok 18) rows = true -> forallb has_direction hits = true ->
  map wsrow_toks rows = map (fun xh => infernal1_toks (fst xh) (snd xh)) (combine xs hits) -> length xs = length hits ->
  exists fs, snd (read_content Infernal sep outfmt ftype false (unlines (pre ++ [ruler] ++ map wsrow_line rows ++ post))) = Ok fs /\
             map loc_meta fs = map spec_loc_meta hits.
Proof. exact read_infernal1_hits. Qed.
Print Assumptions C11_read_infernal1_hits.

(* ---- depth round 2: arbitrary column selections, all Infernal tables, several '# Fields:' blocks, sep=None ----
   hit_row d free hs h = the row of hit h under the header list hs: the eight columns _CONVERTH names carry the hit
   (coordinates in decimal), a strand column carries the sign, every other column is a free token.
   sel_ok d hs = distinct names, every column from the dialect's table with its declared type, the eight required columns
   present. hits_ok = with a strand column the hit has a direction, and the pident/fident completion does not raise. *)

(* the general rows-carry lemma: under ANY accepted selection the rendered row carries its hit *)
Theorem C11_hit_row_carries : forall d free hs h, sel_ok d hs = true -> hit_sel_ok hs h = true ->
  ident_ok (row_attrs hs (hit_row d free hs h)) = true -> row_carries d hs (hit_row d free hs h) h.
Proof. exact hit_row_carries. Qed.
Print Assumptions C11_hit_row_carries.

(* completion cannot raise when no pident column is selected *)
Theorem C11_ident_ok_no_pident : forall hs toks, nodup_str (map hname hs) = true -> length toks = length hs ->
  mem (bs "pident"%bs) (map hname hs) = false -> ident_ok (row_attrs hs toks) = true.
Proof. exact ident_ok_no_pident. Qed.
Print Assumptions C11_ident_ok_no_pident.

(* user-chosen columns given by outfmt= (BLAST 6/7/10, MMseqs2 0/4; header lines of the file are ignored) *)
Theorem C11_read_outfmt_hits : forall d c o ftype hs pre names post free hits,
  headers_from false d (split_ws o) = Ok hs -> sel_ok d hs = true -> hits_ok d free hs hits = true ->
  forallb (skip_line d false false) pre = true -> forallb (skip_line d false false) post = true ->
  (match d with Mmseqs => forallb (names_ok c) names | _ => match names with [] => true | _ => false end end) = true ->
  forallb (row_ok d c) (sel_rows d free hs hits) = true ->
  exists fs, snd (read_lines d (Some c) (Some o) ftype
                    (lines_keep (unlines (pre ++ map (names_line c) names ++ map (join c) (sel_rows d free hs hits) ++ post)))) = Ok fs /\
             map loc_meta fs = map spec_loc_meta hits.
Proof. exact read_outfmt_hits. Qed.
Print Assumptions C11_read_outfmt_hits.

(* user-chosen columns announced by the '# Fields:' line of BLAST outfmt 7 *)
Theorem C11_read_blast7_sel_hits : forall c ftype hs pre mid post free hits,
  hs <> [] -> forallb long_ok (map hlong hs) = true -> headers_from true Blast (map hlong hs) = Ok hs ->
  sel_ok Blast hs = true -> hits_ok Blast free hs hits = true ->
  forallb (skip_line Blast true true) pre = true -> forallb (skip_line Blast true true) mid = true ->
  forallb (skip_line Blast true true) post = true -> forallb (row_ok Blast c) (sel_rows Blast free hs hits) = true ->
  exists fs, snd (read_content Blast (Some c) None ftype false
                    (unlines (pre ++ [fields_line hs] ++ mid ++ map (join c) (sel_rows Blast free hs hits) ++ post))) = Ok fs /\
             map loc_meta fs = map spec_loc_meta hits.
Proof. exact read_blast7_sel_hits. Qed.
Print Assumptions C11_read_blast7_sel_hits.

(* user-chosen columns announced by the name row of MMseqs2 fmtmode 4 *)
Theorem C11_read_mmseqs4_sel_hits : forall c ftype hs pre post free hits,
  names_ok c hs = true -> headers_from false Mmseqs (map hname hs) = Ok hs ->
  sel_ok Mmseqs hs = true -> hits_ok Mmseqs free hs hits = true ->
  forallb (skip_line Mmseqs true true) pre = true -> forallb (skip_line Mmseqs true true) post = true ->
  forallb (row_ok Mmseqs c) (sel_rows Mmseqs free hs hits) = true ->
  exists fs, snd (read_content Mmseqs (Some c) None ftype false
                    (unlines (pre ++ [names_line c hs] ++ map (join c) (sel_rows Mmseqs free hs hits) ++ post))) = Ok fs /\
             map loc_meta fs = map spec_loc_meta hits.
Proof. exact read_mmseqs4_sel_hits. Qed.
Print Assumptions C11_read_mmseqs4_sel_hits.

(* Infernal tblout with any of its column tables; by C11_selection_tables the hypotheses on hs hold for n = 18 (fmt 1),
   29 (fmt 2), 20 (fmt 3) and 27 (fmt 2, old) *)
Theorem C11_read_infernal_hits : forall sep outfmt ftype n hs ruler pre post rows free hits,
  ruler_ok n ruler = true -> infernal_headers n = Ok hs -> sel_ok Infernal hs = true -> hits_ok Infernal free hs hits = true ->
  forallb (skip_line Infernal true true) pre = true -> forallb (skip_line Infernal true false) post = true ->
  forallb (wsrow_ok n) rows = true -> map wsrow_toks rows = sel_rows Infernal free hs hits ->
  exists fs, snd (read_content Infernal sep outfmt ftype false (unlines (pre ++ [ruler] ++ map wsrow_line rows ++ post))) = Ok fs /\
             map loc_meta fs = map spec_loc_meta hits.
Proof. exact read_infernal_hits. Qed.
Print Assumptions C11_read_infernal_hits.

Theorem C11_selection_tables :
  forallb (fun n => match infernal_headers n with
                    | Ok hs => sel_ok Infernal hs && negb (mem (bs "pident"%bs) (map hname hs))
                    | Err _ => false end) [18; 29; 20; 27]%nat = true /\
  sel_ok Blast (default_hs (bs "blast"%bs) Blast) = true /\ sel_ok Mmseqs (default_hs (bs "mmseqs"%bs) Mmseqs) = true /\
  forallb cols_distinct dialects = true.
Proof. exact selection_tables. Qed.
Print Assumptions C11_selection_tables.

(* BLAST outfmt 7 with several queries: every block is read with the columns of its own '# Fields:' line *)
Theorem C11_read_blast7_blocks : forall c ftype blocks post, Forall (block_ok c) blocks ->
  forallb (skip_line Blast true true) post = true ->
  snd (read_content Blast (Some c) None ftype false (unlines (concat (map (block_lines c) blocks) ++ post))) =
  blocks_features ftype blocks.
Proof. exact read_blast7_blocks. Qed.
Print Assumptions C11_read_blast7_blocks.

(* sep=None (any whitespace) for BLAST and MMseqs2, columns from outfmt= or the defaults *)
Theorem C11_read_rows_sep_none : forall d outfmt ftype hs rows,
  (match d with Infernal => false | _ => true end) = true ->
  (match outfmt with
   | Some o => headers_from false d (split_ws o)
   | None => match assoc (dialect_name d) DEFAULT_OUTFMT with Some names => headers_from false d names | None => Err eKey end
   end) = Ok hs ->
  forallb (wsrow_simple_ok d) rows = true ->
  snd (read_content d None outfmt ftype false (unlines (map wsrow_line rows))) = rows_features d ftype hs (map wsrow_toks rows).
Proof. exact read_rows_sep_none. Qed.
Print Assumptions C11_read_rows_sep_none.

(* outfmt= with comment and blank lines anywhere between the rows (e.g. a multi-query BLAST 7 file read with outfmt=) *)
Theorem C11_read_outfmt_segments : forall d c o ftype hs segs post,
  headers_from false d (split_ws o) = Ok hs -> forallb (seg_ok d c) segs = true ->
  forallb (skip_line d false false) post = true ->
  snd (read_lines d (Some c) (Some o) ftype (lines_keep (unlines (concat (map (seg_lines c) segs) ++ post)))) =
  rows_features d ftype hs (concat (map snd segs)).
Proof. exact read_outfmt_segments. Qed.
Print Assumptions C11_read_outfmt_segments.

(* the ftype option: the feature type is the value of that column, or ftype itself when there is no such column *)
Theorem C11_feature_type : forall d ftype a f, feature_of_attrs d ftype a = Ok f ->
  assoc (bs "type"%bs) (f_common f) =
  match ftype with
  | None => None
  | Some k => Some (match assoc k a with Some v => v | None => AStr k end)
  end.
Proof. exact feature_type. Qed.
Print Assumptions C11_feature_type.

(* every column of the header list is a key of the format metadata, with the typed value of some token of the row,
   whatever the tokens are: an empty field between two separators is the empty string and is kept (round 5) *)
Theorem C11_row_keys : forall d ftype hs toks f, nodup_str (map hname hs) = true -> row_feature d ftype hs toks = Ok f ->
  forall hd, In hd hs -> exists v, In v toks /\ assoc (hname hd) (f_fmt f) = Some (conv (htype hd) v).
Proof. exact row_keys. Qed.
Print Assumptions C11_row_keys.

(* non-vacuity: one minus-strand hit (subject 20..10, query 5..6, e-value 1e-5, bit score 50) as a BLAST outfmt 6 line,
   an MMseqs2 fmtmode 4 file and an Infernal fmt 1 file; all three are inside the domain and read, through the whole
   text-level model, to the interval [9, 20) on the minus strand with the same common metadata *)
Example C11_witness_three_dialects :
  let expected := Some (true, (9, 20, bs "-"%bs, Some (AStr (bs "s1"%bs)), Some (AStr (bs "q1"%bs)),
                               Some (AFlt (FNum false 1 (-5))), Some (AFlt (FNum false 50 0)))) in
  lm_of (read_content Blast (Some x09) None None false (unhex (bs "71310973310939392e3009313009300930093509360932300931300931652d350935300a"%bs))) = expected /\
  lm_of (read_content Mmseqs (Some x09) None None false (unhex (bs "71756572790974617267657409666964656e7409616c6e6c656e096d69736d61746368096761706f70656e097173746172740971656e64097473746172740974656e64096576616c756509626974730a713109733109302e393909313009300930093509360932300931300931652d350935300a"%bs))) = expected /\
  lm_of (read_content Infernal None None None false (unhex (bs "23746172676574206e616d65202020202020202020616363657373696f6e207175657279206e616d652020202020202020202020616363657373696f6e206d646c206d646c2066726f6d2020206d646c20746f207365712066726f6d20202073657120746f20737472616e64207472756e6320706173732020206763202062696173202073636f7265202020452d76616c756520696e63206465736372697074696f6e206f66207461726765740a232d2d2d2d2d2d2d2d202d2d2d2d202d2d2d2d2d202d2d2d2d2d2d2d2d2d2d202d2d2d2d2d2d2d202d2d2d2d202d2d2d2d2d2d2d2d2d2d2d202d2d2d2d202d2d2d202d2d2d2d2d2d2d2d2d202d2d2d2d2d2d202d2d2d2d2d202d2d2d2d2d2d2d2d202d2d2d2d2d2d2d2d2d2d202d2d2d2d2d2d202d2d2d2d2d2d2d2d202d2d2d2d2d202d2d2d2d2d2d2d2d0a202020202020207331205246303030303520713120202020202020524630303030312020202020686d6d20352020202020202020202020202020362020203230203130202020202020202020202d20202020206e6f2035392020202020202020302e36372020202020202020302e3020353020202020202020202031652d3520202020203f202d202020202020200a230a232050726f6772616d3a202020202020202020636d7365617263680a232056657273696f6e3a202020202020202020312e312e3520285365702032303233290a23204f7074696f6e2073657474696e67733a20636d736561726368202d2d74626c6f7574206f75742e747874202d2d666d7420312074524e41352e632e636d2067656e6f6d652e6661200a23205b6f6b5d0a"%bs))) = expected.
Proof. exact witness_three_dialects. Qed.

(* non-vacuity of the hypotheses of C11_hit_row_spec: the default BLAST row of that hit carries it *)
Example C11_witness_carries :
  let h := mkHit (bs "s1"%bs) (bs "q1"%bs) 20 10 5 6 (bs "1e-5"%bs) (bs "50"%bs) in
  let a := row_attrs (match headers_from false Blast [bs "qseqid"%bs; bs "qgi"%bs; bs "qstart"%bs; bs "qend"%bs; bs "sstart"%bs;
                                                      bs "send"%bs; bs "evalue"%bs; bs "bitscore"%bs] with Ok hs => hs | Err _ => [] end)
             [bs "q1"%bs; bs "qgi"%bs; bs "5"%bs; bs "6"%bs; bs "20"%bs; bs "10"%bs; bs "1e-5"%bs; bs "50"%bs] in
  carries Blast (dict_set (bs "sseqid"%bs) (AStr (bs "s1"%bs)) a) h /\
  sstrand_agrees h (assoc (bs "sstrand"%bs) a) = true /\ ident_ok a = true /\ spec_strand h = bs "-"%bs.
Proof. exact witness_carries. Qed.

(* non-vacuity of the whole-file theorems on sugar's bundled example files: the hypotheses of C11_read_blast7 hold for
   fts_example.blastn (first two hits), those of C11_read_mmseqs4 for fts_example.mmseqs2, those of C11_read_infernal for
   fts_example.infernal (first hit, a minus-strand tRNA with a free-text description), and the rows carry the hits *)
Example C11_witness_blast7 :
  ex_blast_hs <> [] /\ forallb long_ok (map hlong ex_blast_hs) = true /\
  headers_from true Blast (map hlong ex_blast_hs) = Ok ex_blast_hs /\
  forallb (skip_line Blast true true) ex_blast_pre = true /\ forallb (skip_line Blast true true) ex_blast_mid = true /\
  forallb (skip_line Blast true true) ex_blast_post = true /\ forallb (row_ok Blast x09) ex_blast_rows = true /\
  Forall2 (row_carries Blast ex_blast_hs) ex_blast_rows ex_blast_hits.
Proof. exact witness_blast7. Qed.
Example C11_witness_mmseqs4 :
  names_ok x09 ex_mm_hs = true /\ headers_from false Mmseqs (map hname ex_mm_hs) = Ok ex_mm_hs /\
  forallb (row_ok Mmseqs x09) ex_mm_rows = true /\ Forall2 (row_carries Mmseqs ex_mm_hs) ex_mm_rows ex_mm_hits.
Proof. exact witness_mmseqs4. Qed.
Example C11_witness_infernal :
  ruler_ok 18 ex_inf_ruler = true /\ infernal_headers 18 = Ok ex_inf_hs /\
  forallb (skip_line Infernal true true) ex_inf_pre = true /\ forallb (skip_line Infernal true false) ex_inf_post = true /\
  wsrow_ok 18 ex_inf_row = true /\ Forall2 (row_carries Infernal ex_inf_hs) [wsrow_toks ex_inf_row] [ex_inf_hit] /\
  spec_strand ex_inf_hit = bs "-"%bs.
Proof. exact witness_infernal. Qed.

(* non-vacuity of the read (render H) theorems: three hits (minus strand, plus strand, no direction) render to valid
   BLAST 6, BLAST 10 and MMseqs2 0 rows; the first reads to [39922088, 39923568) on the minus strand *)
Example C11_witness_render :
  ex_hits <> [] /\ py_float (let '(pid, _, _, _) := ex_x in pid) <> None /\
  forallb (row_ok Blast x09) (map (blast_row ex_x) ex_hits) = true /\
  forallb (row_ok Blast ","%byte) (map (blast_row ex_x) ex_hits) = true /\
  forallb (row_ok Mmseqs x09) (map (mmseqs_row ex_x) ex_hits) = true /\
  map spec_loc_meta (firstn 1 ex_hits) =
    [(39922088, 39923568, bs "-"%bs, Some (AStr (bs "NC_081844.1"%bs)), Some (AStr (bs "exon3-AMCR"%bs)),
      Some (AFlt (FNum false 0 (-1))), Some (AFlt (FNum false 2734 0)))].
Proof. exact witness_render. Qed.

(* non-vacuity, depth round 2: a user-chosen BLAST selection with a strand column and a user-chosen MMseqs2 selection
   satisfy the hypotheses of the selection theorems for two real hits; for each of the four Infernal tables the rendered
   rows (single blanks) satisfy those of C11_read_infernal_hits; a two-query BLAST 7 file with different column lists per
   block; BLAST and MMseqs2 rows separated by blanks for sep=None *)
Example C11_witness_selection :
  headers_from false Blast (split_ws ex2_outfmt) = Ok ex2_hs /\ sel_ok Blast ex2_hs = true /\
  hits_ok Blast dash ex2_hs ex2_hits = true /\ forallb (row_ok Blast x09) (sel_rows Blast dash ex2_hs ex2_hits) = true /\
  ex2_hs <> [] /\ forallb long_ok (map hlong ex2_hs) = true /\ headers_from true Blast (map hlong ex2_hs) = Ok ex2_hs /\
  names_ok x09 ex2_mm_hs = true /\ headers_from false Mmseqs (map hname ex2_mm_hs) = Ok ex2_mm_hs /\
  sel_ok Mmseqs ex2_mm_hs = true /\ hits_ok Mmseqs dash ex2_mm_hs ex2_hits = true /\
  forallb (row_ok Mmseqs x09) (sel_rows Mmseqs dash ex2_mm_hs ex2_hits) = true.
Proof. exact witness_selection. Qed.
Example C11_witness_infernal_all :
  forallb (fun n =>
    ruler_ok n (ruler_of n) &&
    match infernal_headers n with
    | Ok hs => sel_ok Infernal hs && hits_ok Infernal dash hs ex2_hits &&
               forallb (wsrow_ok n) (map mk_wsrow (sel_rows Infernal dash hs ex2_hits)) &&
               forallb (fun p => strs_eqb (wsrow_toks (mk_wsrow p)) p) (sel_rows Infernal dash hs ex2_hits)
    | Err _ => false
    end) [18; 29; 20; 27]%nat = true.
Proof. exact witness_infernal_all. Qed.
Example C11_witness_blocks :
  Forall (block_ok x09) ex2_blocks /\ forallb (skip_line Blast true true) ex_blast_post = true /\
  (exists fs, blocks_features None ex2_blocks = Ok fs /\ length fs = 4%nat).
Proof. exact witness_blocks. Qed.
Example C11_witness_sep_none :
  forallb (wsrow_simple_ok Blast) (map mk_wsrow ex_blast_rows) = true /\
  forallb (fun p => strs_eqb (wsrow_toks (mk_wsrow p)) p) ex_blast_rows = true /\
  forallb (wsrow_simple_ok Mmseqs) (map mk_wsrow ex_mm_rows) = true.
Proof. exact witness_sep_none. Qed.

(* the blank-title witness: a row with an empty third field is a renderable row (C11_read_rendered_rows applies) and its
   feature keeps the key stitle with the empty string among its nine columns *)
Example C11_witness_blank_field :
  row_ok Blast x09 ex_blank_row = true /\
  match row_feature Blast None ex_blank_hs ex_blank_row with
  | Ok f => assoc (bs "stitle"%bs) (f_fmt f) = Some (AStr []) /\ length (f_fmt f) = 9%nat /\
            (f_start f, f_stop f, f_strand f) = (1999%Z, 2075%Z, bs "-"%bs)
  | Err _ => False
  end.
Proof. exact witness_blank_field. Qed.

(* ---- round 7: ANY list of lines, no assumption on their shape ----
   data_line d sep l = l is neither a '#' line nor blank nor (MMseqs2) a name row; line_toks = line.strip().split(sep, maxsplit);
   lines_features d ftype hs sep maxsplit ls = row_feature on the tokens of exactly the data lines of ls, in order, first error
   wins. content_lines univ content = the lines of the file (universal newlines or not). *)

(* outfmt= given (BLAST 6/7/10, MMseqs2 0/4): whatever the file contains *)
Theorem C11_read_any_outfmt : forall d sep o ftype univ hs content,
  (match d with Infernal => false | _ => true end) = true -> headers_from false d (split_ws o) = Ok hs ->
  snd (read_content d sep (Some o) ftype univ content) = lines_features d ftype hs sep None (content_lines univ content).
Proof. exact read_any_outfmt. Qed.
Print Assumptions C11_read_any_outfmt.

(* default columns (no outfmt=): any text without a line that starts header discovery ('# Fields:' for BLAST, a name row for
   MMseqs2) *)
Theorem C11_read_any_text : forall d sep ftype univ names hs content,
  (match d with Infernal => false | _ => true end) = true ->
  assoc (dialect_name d) DEFAULT_OUTFMT = Some names -> headers_from false d names = Ok hs ->
  forallb (fun l => negb (discovery_line d sep l)) (content_lines univ content) = true ->
  snd (read_content d sep None ftype univ content) = lines_features d ftype hs sep None (content_lines univ content).
Proof. exact read_any_text. Qed.
Print Assumptions C11_read_any_text.

(* Infernal: title lines and the ruler, then ANYTHING (rows, comments, blank lines, further header/ruler pairs of a second
   table, junk): the data lines are split with maxsplit n-1 and read with the columns of the n-column table *)
Theorem C11_read_infernal_any : forall sep outfmt ftype n hs ruler pre tail,
  ruler_ok n ruler = true -> infernal_headers n = Ok hs -> forallb (skip_line Infernal true true) pre = true ->
  snd (read_content Infernal sep outfmt ftype false (unlines (pre ++ [ruler]) ++ tail)) =
  lines_features Infernal ftype hs None (Some (Nat.pred n)) (lines_keep tail).
Proof. exact read_infernal_any. Qed.
Print Assumptions C11_read_infernal_any.

(* one feature per data line *)
Theorem C11_feature_count : forall d sep o ftype univ hs content fs,
  (match d with Infernal => false | _ => true end) = true -> headers_from false d (split_ws o) = Ok hs ->
  snd (read_content d sep (Some o) ftype univ content) = Ok fs ->
  length fs = length (filter (data_line d sep) (content_lines univ content)).
Proof. exact read_feature_count. Qed.
Print Assumptions C11_feature_count.

(* comment and blank lines are irrelevant wherever they stand (any lines a, b around them; also when outfmt is invalid) *)
Theorem C11_comments_irrelevant : forall d sep o ftype a cs b, forallb skip_any cs = true ->
  snd (read_lines d sep (Some o) ftype (a ++ cs ++ b)) = snd (read_lines d sep (Some o) ftype (a ++ b)).
Proof. exact read_comments_irrelevant. Qed.
Print Assumptions C11_comments_irrelevant.

(* the comments= list of the model: the '#' lines in order, none of them a data line, additive over concatenation *)
Theorem C11_comments_list : forall d sep ls,
  comment_lines ls = filter (starts_with (bs "#"%bs)) ls /\
  (forall l, In l (comment_lines ls) -> data_line d sep l = false) /\
  (forall a b, comment_lines (a ++ b) = comment_lines a ++ comment_lines b).
Proof. exact comments_list. Qed.
Print Assumptions C11_comments_list.

(* two texts one after the other (files of a glob, members of a gzip file) read to the first result followed by the second *)
Theorem C11_read_concat : forall d sep o ftype hs a b,
  (match d with Infernal => false | _ => true end) = true -> headers_from false d (split_ws o) = Ok hs ->
  snd (read_content d sep (Some o) ftype false ((a ++ [x0a]) ++ b)) =
  match snd (read_content d sep (Some o) ftype false (a ++ [x0a])) with
  | Ok fa => match snd (read_content d sep (Some o) ftype false b) with Ok fb => Ok (fa ++ fb) | Err e => Err e end
  | Err e => Err e
  end.
Proof. exact read_concat. Qed.
Print Assumptions C11_read_concat.

(* ---- round 7: every column converted to its declared type ----
   declared_types d = the type of every column of dialect d, written from the manuals of the three tools (not from sugar) *)
Theorem C11_declared_tables :
  forallb declared_ok dialects = true /\ converth_typed_ok = true.
Proof. exact (conj (proj2 (forallb_forall declared_ok dialects) (fun d _ => declared_ok_all d)) converth_typed_all). Qed.
Print Assumptions C11_declared_tables.

Theorem C11_columns_typed : forall d ftype hs toks f,
  nodup_str (map hname hs) = true -> (forall h, In h hs -> In h (header_of d)) -> row_feature d ftype hs toks = Ok f ->
  forall i h v, nth_error hs i = Some h -> nth_error toks i = Some v ->
  exists t, assoc (hname h) (declared_types d) = Some t /\ assoc (hname h) (f_fmt f) = Some (conv t v).
Proof. exact columns_typed. Qed.
Print Assumptions C11_columns_typed.

(* the headers a reader works with are always table columns (outfmt=, '# Fields:', name row, defaults) *)
Theorem C11_headers_are_columns : forall by_long d names hs, headers_from by_long d names = Ok hs ->
  forall h, In h hs -> In h (header_of d).
Proof. exact headers_from_in. Qed.
Print Assumptions C11_headers_are_columns.

Theorem C11_conv_meaning : forall v,
  conv TStr v = AStr v /\
  (forall z, py_int v = Some z -> conv TInt v = AInt z) /\ (py_int v = None -> conv TInt v = AStr v) /\
  (forall x, py_float v = Some x -> conv TFloat v = AFlt x) /\ (py_float v = None -> conv TFloat v = AStr v).
Proof. exact conv_meaning. Qed.
Print Assumptions C11_conv_meaning.

(* ---- round 7: the common metadata is exactly the documented projection of the format metadata ----
   (type, if ftype is given) followed by score <- bit score, evalue <- e-value, seqid <- subject id, name <- query id for the
   columns that are present; no other key *)
Theorem C11_common_metadata : forall d ftype a f, feature_of_attrs d ftype a = Ok f ->
  f_common f = type_entry ftype a ++ common_projection d (f_fmt f).
Proof. exact common_metadata. Qed.
Print Assumptions C11_common_metadata.

Theorem C11_copyattrs_documented :
  same_pairs (map (fun p => (snd p, fst p)) copyattrs) documented_common = true /\
  same_pairs documented_common (map (fun p => (snd p, fst p)) copyattrs) = true.
Proof. exact copyattrs_documented. Qed.
Print Assumptions C11_copyattrs_documented.

(* ---- round 7: the MMseqs2 name-row decision: no column name reads as an integer, so a row holding a coordinate - any
   rendered hit row - is never taken for the header ---- *)
Theorem C11_names_row_never_hit :
  (forall toks t, In t toks -> py_int t <> None -> subset toks MMSEQS_HEADER_NAMES = false) /\
  (forall d sep line t, In t (line_toks sep None line) -> py_int t <> None -> names_row d sep line = false) /\
  (forall d free hs h, sel_ok d hs = true -> mm_header_toks d (hit_row d free hs h) = false).
Proof. exact (conj names_row_never_hit (conj int_row_no_names_row hit_row_not_names)). Qed.
Print Assumptions C11_names_row_never_hit.

(* ---- round 7: Infernal tblout fmt 1, 2, 3 and the old fmt 2 end to end, without hypotheses on the tables ---- *)
Theorem C11_read_infernal_fmt_hits : forall sep outfmt ftype n ruler pre post rows free hits,
  In n [18; 29; 20; 27]%nat -> ruler_ok n ruler = true ->
  forallb (skip_line Infernal true true) pre = true -> forallb (skip_line Infernal true false) post = true ->
  forallb (wsrow_ok n) rows = true -> forallb has_direction hits = true ->
  map wsrow_toks rows = sel_rows Infernal free (infernal_hs n) hits ->
  exists fs, snd (read_content Infernal sep outfmt ftype false (unlines (pre ++ [ruler] ++ map wsrow_line rows ++ post))) = Ok fs /\
             map loc_meta fs = map spec_loc_meta hits.
Proof. exact read_infernal_fmt_hits. Qed.
Print Assumptions C11_read_infernal_fmt_hits.

(* non-vacuity, round 7 *)
Example C11_witness_any_outfmt :
  (exists hs, headers_from false Mmseqs (split_ws ex3_outfmt) = Ok hs) /\
  length (filter (data_line Mmseqs (Some x09)) (content_lines false ex3_content)) = 2%nat /\
  locs (snd (read_content Mmseqs (Some x09) (Some ex3_outfmt) None false ex3_content)) =
    Some [(9, 20, bs "-"%bs); (99, 300, bs "+"%bs)] /\
  wf_C11 Mmseqs (Some x09) (Some ex3_outfmt) None false ex3_content = true.
Proof. exact witness_any_outfmt. Qed.
Example C11_witness_any_text :
  forallb (fun l => negb (discovery_line Blast (Some x09) l)) (content_lines false (unlines ex3_blast_lines)) = true /\
  (exists names hs, assoc (dialect_name Blast) DEFAULT_OUTFMT = Some names /\ headers_from false Blast names = Ok hs) /\
  locs (snd (read_content Blast (Some x09) None None false (unlines ex3_blast_lines))) =
    Some [(9, 20, bs "-"%bs); (2, 7, bs "."%bs)].
Proof. exact witness_any_text. Qed.
Example C11_witness_infernal_any :
  ruler_ok 18 (ruler_of 18) = true /\ (exists hs, infernal_headers 18 = Ok hs) /\
  forallb (skip_line Infernal true true) [bs "#target name  accession"%bs] = true /\
  locs (snd (read_content Infernal None None None false (unlines ([bs "#target name  accession"%bs] ++ [ruler_of 18]) ++ ex3_inf_tail))) =
    Some [(1199, 1271, bs "+"%bs); (4, 9, bs "+"%bs)] /\
  match snd (read_content Infernal None None None false (unlines ([bs "#target name  accession"%bs] ++ [ruler_of 18]) ++ ex3_inf_tail)) with
  | Ok (f :: _) => assoc (bs "description"%bs) (f_fmt f) = Some (AStr (bs "some genome, --complete  #1"%bs)) /\
                   assoc (bs "score"%bs) (f_common f) = Some (AFlt (FNum false 0 (-1)))
  | _ => False
  end.
Proof. exact witness_infernal_any. Qed.
Example C11_witness_typed :
  nodup_str (map hname ex3_hs) = true /\ (forall h, In h ex3_hs -> In h (header_of Blast)) /\
  match row_feature Blast (Some (bs "hit"%bs)) ex3_hs ex3_row with
  | Ok f => assoc (bs "sframe"%bs) (f_fmt f) = Some (AInt (-1)) /\ assoc (bs "qframe"%bs) (f_fmt f) = Some (AInt 1) /\
            assoc (bs "bitscore"%bs) (f_fmt f) = Some (AFlt (FNum false 0 (-1))) /\
            assoc (bs "type"%bs) (f_common f) = Some (AStr (bs "hit"%bs)) /\
            assoc (bs "score"%bs) (f_common f) = Some (AFlt (FNum false 0 (-1))) /\
            assoc (bs "evalue"%bs) (f_common f) = Some (AFlt (FNum false 25 (-13))) /\
            assoc (bs "seqid"%bs) (f_common f) = Some (AStr (bs "chr1"%bs)) /\
            assoc (bs "name"%bs) (f_common f) = Some (AStr (bs "q1"%bs)) /\ length (f_common f) = 5%nat
  | Err _ => False
  end.
Proof. exact witness_typed. Qed.

(* ---- round 7: float() on e-values and scores, plain and exponent notation ----
   float_text sg ip fp ex = sign ++ integer digits ++ [. fraction digits] ++ [(e|E) sign digits]; float_text_ok = sign is
   empty, + or -, the digit strings are decimal digits, the mantissa has at least one digit, the exponent (if any) has a
   mark e/E, a sign and at least one digit. Every such text, with the blanks float() skips around it, reads as the number
   (-1)^neg * mantissa * 10^exponent with exactly that mantissa and exponent (exponent of the text minus the number of
   fraction digits). The binary rounding of that number is CPython's and is tested (literal stream), not modelled. *)
Theorem C11_float_parse : forall sg ip fp ex a b,
  float_text_ok sg ip fp ex = true -> all_space_num a = true -> all_space_num b = true ->
  py_float (a ++ float_text sg ip fp ex ++ b) = Some (float_text_val sg ip fp ex).
Proof. exact float_parse. Qed.
Print Assumptions C11_float_parse.

(* the words inf / infinity / nan in any letter case, with an optional sign and blanks around *)
Theorem C11_float_words : forall sg w k a b,
  sign_ok sg = true -> is_word w = Some k -> all_space_num a = true -> all_space_num b = true ->
  py_float (a ++ (sg ++ w) ++ b) = Some (if k then FInf (sign_neg sg) else FNan).
Proof. exact float_words. Qed.
Print Assumptions C11_float_words.

Example C11_witness_float :
  float_text [] (bs "5"%bs) (Some (bs "331"%bs)) (Some ("E"%byte, bs "-"%bs, bs "82"%bs)) = bs "5.331E-82"%bs /\
  float_text_ok [] (bs "5"%bs) (Some (bs "331"%bs)) (Some ("E"%byte, bs "-"%bs, bs "82"%bs)) = true /\
  float_text_val [] (bs "5"%bs) (Some (bs "331"%bs)) (Some ("E"%byte, bs "-"%bs, bs "82"%bs)) = FNum false 5331 (-85) /\
  float_text_ok (bs "-"%bs) [] (Some (bs "5"%bs)) (Some ("e"%byte, bs "+"%bs, bs "3"%bs)) = true /\
  py_float (bs " -.5e+3 "%bs) = Some (FNum true 5 2) /\ py_float (bs "1e"%bs) = None /\ py_float (bs "."%bs) = None /\
  is_word (bs "InFiNiTy"%bs) = Some true /\ py_float (bs "-NaN"%bs) = Some FNan /\ py_float (unhex (bs "371f"%bs)) = None.
Proof. exact witness_float. Qed.

(* the converse: whatever the modelled float() accepts is a text of the grammar with blanks around it, read as its value, or a
   signed word; float_shape v x = v is such a text and x its value. Hence float() is exactly that relation, and everything
   else (no digit in the mantissa, an exponent mark without digits, two points, inner blanks, '_', other characters) is
   rejected and stays a string in the format metadata *)
Theorem C11_float_sound : forall v x, py_float v = Some x -> float_shape v x.
Proof. exact float_sound. Qed.
Print Assumptions C11_float_sound.

Theorem C11_float_rejects : forall v, (forall x, ~ float_shape v x) -> py_float v = None /\ conv TFloat v = AStr v.
Proof. exact (fun v H => conj (float_rejects v H) (proj2 (proj2 (proj2 (proj2 (conv_meaning v)))) (float_rejects v H))). Qed.
Print Assumptions C11_float_rejects.

Theorem C11_float_iff : forall v x, py_float v = Some x <-> float_shape v x.
Proof. exact float_iff. Qed.
Print Assumptions C11_float_iff.

(* non-vacuity for free text: titles / descriptions holding the separators and markers of the other layouts *)
Example C11_witness_freetext :
  row_ok Blast x09 (ex3_free_row ex3_title_tab) = true /\ row_ok Blast ","%byte (ex3_free_row ex3_title_comma) = true /\
  match row_feature Blast None ex3_free_hs (ex3_free_row ex3_title_tab) with
  | Ok f => assoc (bs "stitle"%bs) (f_fmt f) = Some (AStr ex3_title_tab) /\ (f_start f, f_stop f, f_strand f) = (1999, 2075, bs "-"%bs)
  | Err _ => False
  end /\
  locs (snd (read_content Blast (Some ","%byte) (Some (bs "qseqid sseqid stitle qstart qend sstart send evalue bitscore"%bs)) None false
               (unlines [join ","%byte (ex3_free_row ex3_title_comma)]))) = Some [(1999, 2075, bs "-"%bs)] /\
  edge_ok ("a"%byte :: x09 :: x09 :: bs "b  -- #c"%bs) = true.
Proof. exact witness_freetext. Qed.

(* read(text) = spec(H) for ANY text whose data lines carry the hits H: nothing is assumed about the comment / blank / name-row
   lines around them, about line ends or about the end of the file (outfmt= for BLAST and MMseqs2; anything after the ruler
   for Infernal). row_carries holds for every rendered hit row (C11_hit_row_carries, C11_default_rows_carry) *)
Theorem C11_read_any_outfmt_hits : forall d sep o ftype univ hs content hits,
  (match d with Infernal => false | _ => true end) = true -> headers_from false d (split_ws o) = Ok hs ->
  Forall2 (row_carries d hs) (map (line_toks sep None) (filter (data_line d sep) (content_lines univ content))) hits ->
  exists fs, snd (read_content d sep (Some o) ftype univ content) = Ok fs /\ map loc_meta fs = map spec_loc_meta hits.
Proof. exact read_any_outfmt_hits. Qed.
Print Assumptions C11_read_any_outfmt_hits.

Theorem C11_read_infernal_any_hits : forall sep outfmt ftype n hs ruler pre tail hits,
  ruler_ok n ruler = true -> infernal_headers n = Ok hs -> forallb (skip_line Infernal true true) pre = true ->
  Forall2 (row_carries Infernal hs) (map (line_toks None (Some (Nat.pred n))) (filter (data_line Infernal None) (lines_keep tail))) hits ->
  exists fs, snd (read_content Infernal sep outfmt ftype false (unlines (pre ++ [ruler]) ++ tail)) = Ok fs /\
             map loc_meta fs = map spec_loc_meta hits.
Proof. exact read_infernal_any_hits. Qed.
Print Assumptions C11_read_infernal_any_hits.

(* ---- round 7: ANY text read WITHOUT outfmt= (BLAST, MMseqs2): header discovery ----
   any_features d sep ftype cur ls: cur = the columns in force (None = none yet). A '# Fields:' line (BLAST) always replaces
   them by the columns it names; '#' and blank lines are skipped; an MMseqs2 name row sets the columns if none are in force
   and is skipped otherwise; every other line is read with the columns in force (the defaults if none), first error wins. *)
Theorem C11_read_any_discover : forall d sep ftype univ content, (match d with Infernal => false | _ => true end) = true ->
  snd (read_content d sep None ftype univ content) = any_features d sep ftype None (content_lines univ content).
Proof. exact read_any_discover. Qed.
Print Assumptions C11_read_any_discover.

(* every data line after a '# Fields:' line is read with ITS columns, whatever was in force before: the blocks of a
   multi-query / concatenated BLAST 7 file never inherit columns from an earlier block *)
Theorem C11_fields_line_resets : forall sep ftype cur l r hs, starts_with (bs "# Fields:"%bs) l = true -> fields_of l = Ok hs ->
  any_features Blast sep ftype cur (l :: r) = any_features Blast sep ftype (Some hs) r.
Proof. exact fields_line_resets. Qed.
Print Assumptions C11_fields_line_resets.

(* ... and a stretch of lines without header lines is read with the columns in force, then the rest goes on *)
Theorem C11_any_features_block : forall d sep ftype a cur b,
  forallb (fun l => negb (match d with Blast => starts_with (bs "# Fields:"%bs) l | _ => false end) && negb (names_row d sep l)) a = true ->
  forall hs, cur = Some hs ->
  any_features d sep ftype cur (a ++ b) =
  match lines_features d ftype hs sep None a with
  | Ok fa => match any_features d sep ftype cur b with Ok fb => Ok (fa ++ fb) | Err e => Err e end
  | Err e => Err e
  end.
Proof. exact any_features_app. Qed.
Print Assumptions C11_any_features_block.

Example C11_witness_discover :
  match snd (read_content Blast (Some x09) None None false (unlines ex4_lines)) with
  | Ok [f1; f2] => (f_start f1, f_stop f1, f_strand f1) = (4999%Z, 5089%Z, bs "-"%bs) /\
                   (f_start f2, f_stop f2, f_strand f2) = (249%Z, 309%Z, bs "+"%bs) /\
                   assoc (bs "seqid"%bs) (f_common f2) = Some (AStr (bs "chr7"%bs)) /\
                   assoc (bs "name"%bs) (f_common f2) = Some (AStr (bs "q2"%bs))
  | _ => False
  end /\
  (exists hs, fields_of ex4_fields = Ok hs).
Proof. exact witness_discover. Qed.

(* ---- round 7: ANY text handed to the Infernal reader ----
   inf_any ftype cur ls: cur = the columns and split limit in force. While none are known the first line containing "--" is
   the ruler (its number of groups selects the table; an unknown number is a KeyError), '#' and blank lines are skipped and
   any other line is a KeyError (there are no default Infernal columns); afterwards every line that is no comment is a row
   split with the limit, first error wins. Whatever sep= / outfmt= the caller passes is ignored. *)
Theorem C11_read_infernal_text : forall sep outfmt ftype univ content,
  snd (read_content Infernal sep outfmt ftype univ content) = inf_any ftype None (content_lines univ content).
Proof. exact read_infernal_text. Qed.
Print Assumptions C11_read_infernal_text.

Theorem C11_infernal_row_before_ruler : forall ftype l r, contains (bs "--"%bs) l = false -> skip_any l = false ->
  inf_any ftype None (l :: r) = Err eKey.
Proof. exact infernal_row_before_ruler. Qed.
Print Assumptions C11_infernal_row_before_ruler.

(* ---- round 7: int() on the integer columns, both directions ----
   int_shape v z = v is [blanks] [sign] digits [blanks] with at least one digit and z its value *)
Theorem C11_int_iff : forall v z, py_int v = Some z <-> int_shape v z.
Proof. exact int_iff. Qed.
Print Assumptions C11_int_iff.

(* ---- round 7: _CONVERTH entry by entry ---- *)
Theorem C11_converth_typed : forall d k col, In (Some k, col) (converth_of d) ->
  exists hd, find_hdr false col (header_of d) = Some hd /\ hbeq hd = Some k /\
             (mem k frame_keys = false -> type_of_col Blast k = Some (htype hd)).
Proof. exact converth_typed. Qed.
Print Assumptions C11_converth_typed.

(* ---- round 7: every feature of a whole read (any text, outfmt= with distinct columns): every selected column is a key of
   the format metadata holding a token converted with the declared type, and the common metadata is the documented projection *)
Theorem C11_read_features_typed : forall d sep o ftype univ hs content fs,
  (match d with Infernal => false | _ => true end) = true -> headers_from false d (split_ws o) = Ok hs ->
  nodup_str (map hname hs) = true -> snd (read_content d sep (Some o) ftype univ content) = Ok fs ->
  Forall (feature_typed d ftype hs) fs.
Proof. exact read_features_typed. Qed.
Print Assumptions C11_read_features_typed.

Example C11_witness_int :
  py_int (bs " +007 "%bs) = Some 7 /\ py_int (bs "-39923568"%bs) = Some (-39923568) /\ py_int (bs "1.0"%bs) = None /\
  py_int (bs "+"%bs) = None /\ py_int [] = None /\ py_int (bs "1 2"%bs) = None /\ py_int (unhex (bs "371f"%bs)) = None /\
  py_int (unhex (bs "a03785"%bs)) = Some 7.
Proof. exact witness_int. Qed.
Example C11_witness_infernal_text :
  snd (read_content Infernal None None None false (unlines [ex5_row (bs "5"%bs) (bs "9"%bs) (bs "-"%bs)])) = Err eKey /\
  match snd (read_content Infernal None None None false
               (unlines [ex5_row (bs "5"%bs) (bs "9"%bs) (bs "a--b"%bs); ex5_row (bs "50"%bs) (bs "90"%bs) (bs "-"%bs)])) with
  | Ok [f] => (f_start f, f_stop f) = (49%Z, 90%Z)
  | _ => False
  end.
Proof. exact witness_infernal_text. Qed.
