(* C03 -- format auto-detection and transport independence of read/write.
   Only statements here; proofs are in proof/C03_Lemmas.v.  Transport independence itself (gzip, archives, glob, handles,
   CLI) is NOT a theorem: it is relational testing in tools/props/c03.py:extra_checks. *)
From Coq Require Import List Bool ZArith.
From Coq.Strings Require Import Byte.
Import ListNotations.
From SV Require Import Text G_c03 C03_Model C03_Lemmas C03_Fts C03_Hits C03_Chain C03_Write C03_Cli C03_Session C03_Resolve C03_Dispatch C03_Wround.

(* the modelled chains are the regenerated priority lists FMTS_ALL, which start with FMTS *)
Theorem C03_chains_pinned :
  map fst PLUGINS_seqs = FMTS_ALL_seqs /\ map fst PLUGINS_fts = FMTS_ALL_fts /\
  firstn (length FMTS_seqs) FMTS_ALL_seqs = FMTS_seqs /\ firstn (length FMTS_fts) FMTS_ALL_fts = FMTS_fts.
Proof. exact chains_pinned. Qed.
Print Assumptions C03_chains_pinned.

(* every plugin in the regenerated tables that declares a sniffer has a modelled sniffer *)
Theorem C03_plugins_known : forallb (plugin_known Seqs) PLUGINS_seqs = true /\ forallb (plugin_known Fts) PLUGINS_fts = true.
Proof. exact plugins_known. Qed.
Print Assumptions C03_plugins_known.

(* detect leaves any handle (any content, position, text or binary, any options, also when sniffers raise) where it was *)
Theorem C03_detect_restores_pos : forall w o h,
  h_pos (snd (detect_h w o h)) = h_pos h /\ h_content (snd (detect_h w o h)) = h_content h.
Proof. exact detect_restores_pos. Qed.
Print Assumptions C03_detect_restores_pos.

(* detection on a handle at an offset = detection of the remaining content, for text and binary handles alike *)
Theorem C03_detect_at_offset : forall w o c pos b,
  fst (detect_h w o {| h_content := c; h_pos := pos; h_binary := b |}) = detect w o (skipn pos c).
Proof. exact detect_at_offset. Qed.
Print Assumptions C03_detect_at_offset.

(* detect = the first sniffer of the regenerated chain that accepts (exceptions count as "no") *)
Theorem C03_detect_is_first_accepting : forall w o c, detect w o c = first_accepting w o (chain w) c.
Proof. exact detect_is_first_accepting. Qed.
Print Assumptions C03_detect_is_first_accepting.

(* soundness on the prefix characterisation of each writer's output (the characterisations are checked against the real
   writers by the correspondence), for every option record *)
Theorem C03_detect_seqs_sound : forall o c,
  (shape_fasta c = true -> detect Seqs o c = DFound (bs "fasta"%bs)) /\
  (shape_stockholm c = true -> detect Seqs o c = DFound (bs "stockholm"%bs)) /\
  (shape_gff c = true -> detect Seqs o c = DFound (bs "gff"%bs)) /\
  (shape_sjson c = true -> detect Seqs o c = DFound (bs "sjson"%bs)) /\
  (shape_genbank c = true -> detect Seqs o c = DFound (bs "genbank"%bs)).
Proof.
  exact (fun o c => conj (detect_fasta_sound o c) (conj (detect_stockholm_sound o c) (conj (detect_gff_seqs_sound o c)
         (conj (detect_sjson_sound o c) (fun H => proj1 (detect_genbank_sound o c H)))))).
Qed.
Print Assumptions C03_detect_seqs_sound.

(* feature chain: proved for GFF and GenBank; tsv, csv, BLAST, MMseqs2, Infernal are covered by the correspondence only *)
Theorem C03_detect_fts_sound_partial : forall o c,
  (shape_gff c = true -> detect Fts o c = DFound (bs "gff"%bs)) /\
  (shape_genbank c = true -> detect Fts o c = DFound (bs "genbank"%bs)).
Proof. exact (fun o c => conj (detect_gff_fts_sound o c) (fun H => proj2 (detect_genbank_sound o c H))). Qed.
Print Assumptions C03_detect_fts_sound_partial.

(* TSV / CSV written by sugar (to_csv of the feature table, model render_xsv) of ANY length -- in particular longer than the
   1000-character window of the sniffer, whose last (possibly cut) line is discarded -- is detected as tsv / csv; every
   earlier sniffer of the regenerated chain rejects it.  wf_xsv: identifier column names with two of start/stop/len, first
   one not "locus...", not exactly 12 columns, >= 1 row, rectangular, fields free of separator / tab / line breaks, header
   shorter than the window.  TSV additionally: >= 4 columns (the default keys have 4). *)
Theorem C03_detect_tsv_sound : forall o keys rows,
  wf_xsv tab keys rows = true -> 4 <= length keys -> o_outfmt o = None -> sep_or o tab = tab ->
  detect Fts o (render_xsv tab keys rows) = DFound (bs "tsv"%bs).
Proof. exact detect_tsv_sound. Qed.
Print Assumptions C03_detect_tsv_sound.

Theorem C03_detect_csv_sound : forall o keys rows,
  wf_xsv ","%byte keys rows = true -> o_outfmt o = None -> o_sep o = None ->
  detect Fts o (render_xsv ","%byte keys rows) = DFound (bs "csv"%bs).
Proof. exact detect_csv_sound. Qed.
Print Assumptions C03_detect_csv_sound.

Example C03_witness_xsv :
  wf_xsv tab demo_keys (demo_rows tab) = true /\ wf_xsv ","%byte demo_keys (demo_rows ","%byte) = true /\
  Nat.ltb 1000 (length (render_xsv tab demo_keys (demo_rows tab))) = true /\ 4 <= length demo_keys.
Proof. exact witness_xsv. Qed.

(* the same over writer models (first line as a function of the object; the models are compared with the real writers on
   every run): FASTA of a non-empty basket, Stockholm with any body, GFF3 with any header / body *)
Theorem C03_detect_writers_sound : forall o,
  (forall recs, recs <> [] -> detect Seqs o (render_fasta recs) = DFound (bs "fasta"%bs)) /\
  (forall body, detect Seqs o (render_stockholm body) = DFound (bs "stockholm"%bs)) /\
  (forall header body, detect Seqs o (render_gff header body) = DFound (bs "gff"%bs) /\
                       detect Fts o (render_gff header body) = DFound (bs "gff"%bs)).
Proof. exact detect_writers_sound. Qed.
Print Assumptions C03_detect_writers_sound.

(* hit tables (BLAST outfmt 6 / 10, MMseqs2 fmtmode 0), PARTIAL: at the level of the two sniffers.  On any content whose
   first line is a well-formed 12-column hit (hit_fields_ok) inside the 1000-character window, both one-line reads succeed
   and the verdicts are exactly the documented discriminator: the identity column read as a fraction (MMseqs2, asked first)
   resp. as a percentage (BLAST).  The rejection of such content by the gff / genbank / infernal sniffers earlier in the
   chain is covered by the correspondence only. *)
Theorem C03_hit_table_discriminator_partial : forall o sep fields c X h t fl,
  hit_fields_ok sep fields = true -> o_outfmt o = None -> sep_or o tab = sep ->
  splitlines (read_n 1000 c) = join sep fields :: X -> c = h :: t -> byte_eqb "#"%byte h = false ->
  py_float (nth 2 fields []) = Some fl ->
  is_fts_mmseqs o c = Some (float_in_range fl 1%Z 53%Z) /\ is_fts_blast o c = Some (float_in_range fl 100%Z 47%Z).
Proof. exact hit_sniffers. Qed.
Print Assumptions C03_hit_table_discriminator_partial.

Example C03_witness_hits :
  hit_fields_ok tab (demo_hit (bs "95.408"%bs)) = true /\ hit_fields_ok ","%byte (demo_hit (bs "0.954"%bs)) = true /\
  ident_percent_ok (bs "95.408"%bs) = true /\ ident_fraction_ok (bs "95.408"%bs) = false /\ ident_fraction_ok (bs "0.954"%bs) = true.
Proof. exact witness_hits. Qed.

(* WHOLE-CHAIN soundness for the hit-table renderings (renderer models compared with the harness renderers and the real
   readers on every run).  BLAST outfmt 6 (sep = tab) / 10 (sep = ",", given as option) and MMseqs2 fmtmode 0: the earlier
   sniffers gff, genbank, infernal reject; MMseqs2 is asked before BLAST and the documented identity discriminator is the
   hypothesis: a fraction in [0,1] -> mmseqs; not a fraction but a percentage in [0,100] -> blast. *)
Theorem C03_detect_hits_sound : forall o sep rows,
  wf_hits sep rows = true -> (sep = tab \/ sep = ","%byte) -> o_outfmt o = None -> sep_or o tab = sep ->
  (ident_fraction_ok (ident_of rows) = true -> detect Fts o (render_hits sep rows) = DFound (bs "mmseqs"%bs)) /\
  (ident_fraction_ok (ident_of rows) = false -> ident_percent_ok (ident_of rows) = true ->
   detect Fts o (render_hits sep rows) = DFound (bs "blast"%bs)).
Proof. exact detect_hits_sound. Qed.
Print Assumptions C03_detect_hits_sound.

(* MMseqs2 fmtmode 4 (a row of >= 4 column names from the regenerated vocabulary, not all of them Infernal keywords) *)
Theorem C03_detect_mmseqs4_sound : forall o names rows,
  wf_mmseqs4 names rows = true -> sep_or o tab = tab ->
  detect Fts o (render_mmseqs4 names rows) = DFound (bs "mmseqs"%bs).
Proof. exact detect_mmseqs4_sound. Qed.
Print Assumptions C03_detect_mmseqs4_sound.

(* BLAST outfmt 7 ("# <PROGRAM> <version>" with BLAST in the program name, >= 100 characters of tab-free comment lines
   (Query / Database / Fields / hits found) before the first hit) *)
Theorem C03_detect_blast7_sound : forall o prog ver comments rows,
  wf_blast7 prog ver comments rows = true -> sep_or o tab = tab ->
  detect Fts o (render_blast7 prog ver comments rows) = DFound (bs "blast"%bs).
Proof. exact detect_blast7_sound. Qed.
Print Assumptions C03_detect_blast7_sound.

(* Infernal tblout fmt 1/2/3: a "#..." header line of regenerated keywords (>= 100 characters, as all three formats have)
   and a ruler line with 18/29/20/27 columns, both inside the 1000-character window; any hit lines *)
Theorem C03_detect_infernal_sound : forall o l0 l1 rows,
  wf_infernal l0 l1 rows = true -> detect Fts o (render_infernal l0 l1 rows) = DFound (bs "infernal"%bs).
Proof. exact detect_infernal_sound. Qed.
Print Assumptions C03_detect_infernal_sound.

Example C03_witness_chain :
  wf_hits tab [demo_hit (bs "0.954"%bs); demo_hit (bs "x"%bs)] = true /\
  ident_fraction_ok (ident_of [demo_hit (bs "0.954"%bs)]) = true /\
  wf_hits ","%byte [demo_hit (bs "95.408"%bs)] = true /\
  wf_mmseqs4 demo_mm_names [demo_hit (bs "0.954"%bs)] = true /\
  wf_blast7 (bs "BLASTN"%bs) (bs "2.15.0+"%bs) demo_b7_comments [demo_hit (bs "95.408"%bs)] = true /\
  wf_infernal demo_inf_l0 demo_inf_l1 [bs "tRNA5 - NC_1 - cm 1 72 10 81 + no 1 0.50 0.0 71.4 1.4e-18 ! x"%bs] = true.
Proof. exact witness_chain. Qed.

(* the write-side decision (main.py:101-136 and the head of write / write_fts) equals its declarative first-match table,
   with the consequences: fmt= wins, the two ValueError cases are exactly "archive= without a file name" and "neither
   fname nor fmt", and without fmt the format comes from the extension (also for Path objects and inside archives) *)
Theorem C03_write_resolve_table : forall w fa f fmt a, write_resolve w fa f fmt a = wtable w fa f fmt a.
Proof. exact write_resolve_table. Qed.
Print Assumptions C03_write_resolve_table.

Theorem C03_write_errors : forall w fa f fmt a,
  (write_resolve w fa f fmt a = WErrArchiveHandle <-> a <> ANone /\ is_name_arg f = None) /\
  (write_resolve w fa f fmt a = WErrNoFmt <-> a = ANone /\ f = FNone /\ fmt = None).
Proof. exact write_errors. Qed.
Print Assumptions C03_write_errors.

Theorem C03_write_fmt_option_wins : forall w fa f x a d, write_resolve w fa f (Some x) a = d ->
  match d with
  | WToStr y | WHandle y | WFile _ y | WArchive _ _ y => y = lower x
  | WErrArchiveHandle => a <> ANone /\ is_name_arg f = None
  | WErrNoFmt | WErrDetect => False
  end.
Proof. exact write_fmt_option_wins. Qed.
Print Assumptions C03_write_fmt_option_wins.

Theorem C03_write_by_extension : forall w fa p e stem,
  In p (chain w) -> In e (p_exts p) ->
  forallb (fun c => negb (byte_eqb c slash)) stem = true -> forallb (fun c => byte_eqb c dot) stem = false ->
  write_resolve w fa (FStr (stem ++ dot :: e)) None ANone = WFile (stem ++ dot :: e) (p_name p) /\
  write_resolve w fa (FPath (stem ++ dot :: e)) None ANone = WFile (stem ++ dot :: e) (p_name p) /\
  write_resolve w fa (FStr (stem ++ dot :: e)) None ATrue = WArchive (stem ++ dot :: e) fa (p_name p).
Proof. exact write_by_extension. Qed.
Print Assumptions C03_write_by_extension.

(* the regenerated ARCHIVE_EXTS holds every extension shutil.unpack_archive knows (.zip .tar .tar.gz .tgz .tar.bz2 .tbz2
   .tar.xz .txz), so a plain local name with one of them is unpacked as an archive *)
Theorem C03_archive_exts_complete : subset_str KNOWN_ARCHIVE_EXTS ARCHIVE_EXTS = true.
Proof. exact archive_exts_complete. Qed.
Print Assumptions C03_archive_exts_complete.

Theorem C03_resolve_known_archive : forall dd ex stem e a,
  In e KNOWN_ARCHIVE_EXTS -> plain_name (stem ++ dot :: e) = true ->
  resolve dd ex (FStr (stem ++ dot :: e)) a = DArchive (stem ++ dot :: e) (match a with AStr s => Some s | _ => None end).
Proof. exact resolve_known_archive. Qed.
Print Assumptions C03_resolve_known_archive.

(* fmt given / omitted: when detection succeeds, reading with fmt omitted hands the same handle state (content, position,
   kind) and the same options to the same plugin as reading with that fmt given; it fails exactly when nothing is detected *)
Theorem C03_read_fmt_given_or_detected : forall w o h d h',
  detect_h w o h = (DFound d, h') -> read_plan w o None h = read_plan w o (Some d) h.
Proof. exact read_fmt_given_or_detected. Qed.
Print Assumptions C03_read_fmt_given_or_detected.

Theorem C03_read_fmt_omitted_fails_iff : forall w o h,
  read_plan w o None h = None <-> (forall d, fst (detect_h w o h) <> DFound d).
Proof. exact read_fmt_omitted_fails_iff. Qed.
Print Assumptions C03_read_fmt_omitted_fails_iff.

(* extension tables: every declared extension selects its own format, no extension is declared twice *)
Theorem C03_ext_tables_ok :
  ext_roundtrip Seqs = true /\ ext_roundtrip Fts = true /\ nodup_str (all_exts Seqs) = true /\ nodup_str (all_exts Fts) = true.
Proof. exact ext_tables_ok. Qed.
Print Assumptions C03_ext_tables_ok.

(* writing derives the format from the extension: <stem>.<ext> for every declared ext and every slash-free stem that is not
   made of dots only *)
Theorem C03_detect_ext_spec : forall w p e stem,
  In p (chain w) -> In e (p_exts p) ->
  forallb (fun c => negb (byte_eqb c slash)) stem = true -> forallb (fun c => byte_eqb c dot) stem = false ->
  detect_ext w (stem ++ dot :: e) = Some (p_name p).
Proof. exact detect_ext_spec. Qed.
Print Assumptions C03_detect_ext_spec.

(* keyword options: the plugin receives exactly the caller's dict through write, tofmtstr and the object methods *)
Theorem C03_kwargs_passthrough : forall w e kw, kw_free w kw = true -> plugin_kw w e kw = Some kw.
Proof. exact kwargs_passthrough. Qed.
Print Assumptions C03_kwargs_passthrough.

Theorem C03_kwargs_entries_agree : forall w e1 e2 kw a b,
  plugin_kw w e1 kw = Some a -> plugin_kw w e2 kw = Some b -> a = b.
Proof. exact kwargs_entries_agree. Qed.
Print Assumptions C03_kwargs_entries_agree.

Theorem C03_kwargs_foreign_kept : forall w e kw got a v,
  plugin_kw w e kw = Some got -> In (a, v) kw ->
  str_eqb a (bs "archive"%bs) = false -> str_eqb a (bs "mode"%bs) = false ->
  str_eqb a (bs "tool"%bs) = false -> str_eqb a (bs "encoding"%bs) = false -> In (a, v) got.
Proof. exact kwargs_foreign_kept. Qed.
Print Assumptions C03_kwargs_foreign_kept.

(* _resolve_fname: the decision for ordinary names, and the precedence of glob over archive over gzip *)
Theorem C03_resolve_spec : forall dd ex name a, plain_name name = true ->
  resolve dd ex (FStr name) a =
    if archive_requested a || has_archive_ext name then DArchive name (match a with AStr s => Some s | _ => None end)
    else if is_gz_arg a || endswith (bs ".gz"%bs) name then DGz name
    else DPlain name.
Proof. exact resolve_spec. Qed.
Print Assumptions C03_resolve_spec.

Theorem C03_resolve_glob_first : forall dd ex name a,
  startswith (bs "!data/"%bs) name = false -> str_eqb name (bs "-"%bs) = false ->
  contains (bs "://"%bs) (firstn 10 name) = false -> has_magic name = true ->
  resolve dd ex (FStr name) a = DGlob name.
Proof. exact resolve_glob_first. Qed.
Print Assumptions C03_resolve_glob_first.

Theorem C03_resolve_path_handle : forall dd ex s a,
  resolve dd ex (FPath s) a = resolve dd ex (FStr s) a /\ resolve dd ex FHandle a = DPassHandle /\ resolve dd ex FBytes a = DErrBytes.
Proof. exact (fun dd ex s a => conj (resolve_path_is_str dd ex s a) (resolve_handle dd ex a)). Qed.
Print Assumptions C03_resolve_path_handle.

(* ---- the command-line converter (sugar convert / convertf): read in the -f format else the detected one; write in the -fo
   format, else the one the extension of -o declares, else (to stdout) the -f / input format; error rows *)
Theorem C03_cli_decision_table : forall w det n fmt out fmtout,
  cli_convert w det n fmt out fmtout = cli_table w det n fmt out fmtout.
Proof. exact cli_decision_table. Qed.
Print Assumptions C03_cli_decision_table.

Theorem C03_cli_fmtout_wins : forall w det n fmt out x r,
  x <> [] -> cli_convert w det n fmt out (Some x) = r -> cli_ok r = true -> cli_fw r = Some (lower x).
Proof. exact cli_fmtout_wins. Qed.
Print Assumptions C03_cli_fmtout_wins.

Theorem C03_cli_by_extension : forall w det n fmt p e stem r,
  In p (chain w) -> In e (p_exts p) ->
  forallb (fun c => negb (byte_eqb c slash)) stem = true -> forallb (fun c => byte_eqb c dot) stem = false ->
  cli_convert w det n fmt (Some (stem ++ dot :: e)) None = r -> cli_ok r = true ->
  cli_fw r = Some (p_name p) /\ exists fr, r = CFile (stem ++ dot :: e) fr (p_name p).
Proof. exact cli_by_extension. Qed.
Print Assumptions C03_cli_by_extension.

Theorem C03_cli_default_is_input_format : forall w d n r,
  cli_convert w (Some d) (S n) None None None = r -> cli_ok r = true -> r = CStdout (lower d) (lower d).
Proof. exact cli_default_is_input_format. Qed.
Print Assumptions C03_cli_default_is_input_format.

Theorem C03_cli_fmt_is_output_format : forall w det n f r,
  f <> [] -> cli_convert w det n (Some f) None None = r -> cli_ok r = true -> r = CStdout (lower f) (lower f).
Proof. exact cli_fmt_is_output_format. Qed.
Print Assumptions C03_cli_fmt_is_output_format.

Theorem C03_cli_read_format : forall w det n fmt out fmtout r,
  cli_convert w det n fmt out fmtout = r -> cli_ok r = true ->
  cli_fr r = match fmt with Some x => Some (lower x) | None => option_map lower det end.
Proof. exact cli_read_format. Qed.
Print Assumptions C03_cli_read_format.

Theorem C03_cli_errors : forall w det n fmt out fmtout,
  (fmt = None -> det = None -> cli_convert w det n fmt out fmtout = CErr EOS) /\
  (forall name fr, cli_read w det fmt = inr fr -> out = Some name -> fmtout = None -> detect_ext w name = None ->
     cli_convert w det n fmt out fmtout = CErr EOS) /\
  (forall x, fmt = Some x -> lookup_support (lower x) (support_tab w) = None -> cli_convert w det n fmt out fmtout = CErr EKey) /\
  (cli_ok (cli_convert w det n fmt out fmtout) = true ->
     exists fr fw, cli_fr (cli_convert w det n fmt out fmtout) = Some fr /\ cli_fw (cli_convert w det n fmt out fmtout) = Some fw /\
                   readable w fr = None /\ writable w fw = None).
Proof. exact cli_errors. Qed.
Print Assumptions C03_cli_errors.

Theorem C03_cli_case_insensitive : forall w det n f f' out g g',
  lower f = lower f' -> lower g = lower g' ->
  cli_convert w det n (Some f) out (Some g) = cli_convert w det n (Some f') out (Some g') /\
  cli_convert w det n (Some f) out None = cli_convert w det n (Some f') out None /\
  cli_convert w det n None out (Some g) = cli_convert w det n None out (Some g').
Proof. exact cli_case_insensitive. Qed.
Print Assumptions C03_cli_case_insensitive.

Example C03_witness_cli :
  cli_convert Seqs (Some (bs "fasta"%bs)) 2 None None None = CStdout (bs "fasta"%bs) (bs "fasta"%bs) /\
  cli_convert Seqs (Some (bs "fasta"%bs)) 2 None (Some (bs "d/out.v2.stk"%bs)) None
    = CFile (bs "d/out.v2.stk"%bs) (bs "fasta"%bs) (bs "stockholm"%bs) /\
  cli_convert Seqs (Some (bs "fasta"%bs)) 2 (Some (bs "FASTA"%bs)) (Some (bs "out.stk"%bs)) (Some (bs "SJson"%bs))
    = CFile (bs "out.stk"%bs) (bs "fasta"%bs) (bs "sjson"%bs) /\
  cli_convert Seqs (Some (bs "genbank"%bs)) 1 None None None = CErr ERuntime /\
  cli_convert Seqs (Some (bs "genbank"%bs)) 1 None None (Some (bs "fasta"%bs)) = CStdout (bs "genbank"%bs) (bs "fasta"%bs) /\
  cli_convert Fts (Some (bs "blast"%bs)) 3 None (Some (bs "hits.txt"%bs)) None = CErr EOS /\
  cli_convert Fts None 0 None None None = CErr EOS /\
  cli_convert Fts (Some (bs "gff"%bs)) 0 None None None = CErr EIndex /\
  cli_convert Fts (Some (bs "gff"%bs)) 1 (Some (bs "gf"%bs)) None None = CErr EKey /\
  cli_convert Fts (Some (bs "gff"%bs)) 1 None None (Some []) = CStdout (bs "gff"%bs) (bs "gff"%bs) /\
  cli_convert Fts (Some (bs "gff"%bs)) 1 None (Some (bs "o.gff"%bs)) (Some []) = CErr EKey.
Proof. exact witness_cli. Qed.

(* ---- sessions: histories of seek / read / readline / tell / detect / read-an-object calls on ONE handle, as a state machine
   over (kind, content, offset) *)
(* detect hands back the identical handle state: content, position and kind *)
Theorem C03_detect_keeps_handle : forall w o h, snd (detect_h w o h) = h.
Proof. exact detect_keeps_handle. Qed.
Print Assumptions C03_detect_keeps_handle.

(* detect calls can be deleted from ANY history without changing another answer or the final state *)
Theorem C03_session_detect_transparent : forall ops h,
  other_answers ops (fst (run_session h ops)) = fst (run_session h (filter nondetect ops)) /\
  snd (run_session h ops) = snd (run_session h (filter nondetect ops)).
Proof. exact session_detect_transparent. Qed.
Print Assumptions C03_session_detect_transparent.

(* a detect call after any history answers the verdict on the rest of the content at that moment *)
Theorem C03_session_detect_value : forall pre w o h,
  let h1 := snd (run_session h pre) in
  fst (run_session h (pre ++ [SDetect w o])) =
    fst (run_session h pre) ++ [VL [v_dres (detect w o (h_rest h1)); VI (Z.of_nat (h_pos h1))]] /\
  snd (run_session h (pre ++ [SDetect w o])) = h1.
Proof. exact session_detect_value. Qed.
Print Assumptions C03_session_detect_value.

(* binary and text handles answer alike, call by call *)
Theorem C03_session_kind_irrelevant : forall ops c p,
  fst (run_session {| h_content := c; h_pos := p; h_binary := true |} ops) =
  fst (run_session {| h_content := c; h_pos := p; h_binary := false |} ops) /\
  h_pos (snd (run_session {| h_content := c; h_pos := p; h_binary := true |} ops)) =
  h_pos (snd (run_session {| h_content := c; h_pos := p; h_binary := false |} ops)).
Proof. exact session_kind_irrelevant. Qed.
Print Assumptions C03_session_kind_irrelevant.

(* a Stockholm read consumes exactly one alignment -- the handle then stands at what follows the "//" line -- and never runs
   past the content *)
Theorem C03_stockholm_read_consumes_one_alignment : forall h w o body more,
  stk_body_ok body = true -> h_rest h = text_of body ++ stk_end ++ more ->
  let r := sstep h (SReadObj w o (Some (bs "stockholm"%bs))) in
  h_rest (snd r) = more /\
  fst r = VL [VS (bs "stockholm"%bs); VI (Z.of_nat (h_pos h + length (text_of body ++ stk_end)))].
Proof. exact stockholm_read_consumes_one_alignment. Qed.
Print Assumptions C03_stockholm_read_consumes_one_alignment.

Theorem C03_stockholm_read_stays_inside : forall s, stk_consume s <= length s.
Proof. exact stockholm_read_stays_inside. Qed.
Print Assumptions C03_stockholm_read_stays_inside.

Example C03_witness_session :
  let c := render_stockholm [bs "a ACGU"%bs; bs "b AC-U"%bs] ++ render_stockholm [bs "c GG"%bs] in
  let h := {| h_content := c; h_pos := 0; h_binary := true |} in
  let stk := Some (bs "stockholm"%bs) in
  stk_body_ok [bs "# STOCKHOLM 1.0"%bs; bs "a ACGU"%bs; bs "b AC-U"%bs] = true /\
  fst (run_session h [SDetect Seqs no_opts; SReadObj Seqs no_opts None; STell; SDetect Fts no_opts; SDetect Seqs no_opts;
                      SReadObj Seqs no_opts stk; SReadObj Seqs no_opts None; SRead None]) =
    [VL [VS (bs "stockholm"%bs); VI 0]; VL [VS (bs "stockholm"%bs); VI 33]; VI 33; VL [VNone; VI 33]; VL [VS (bs "stockholm"%bs); VI 33];
     VL [VS (bs "stockholm"%bs); VI 57]; VE (bs "OSError"%bs); VS []].
Proof. exact witness_session. Qed.

(* ---- the recursion of _resolve_fname (pattern -> files that are no directories, archive -> <tmpdir>/**/*, gzip, plain,
   download) over a file-system oracle *)
(* the name decision as a first-match table: stdin > URL > pattern > archive > gzip > plain *)
Theorem C03_resolve_is_table : forall isglob dd ex s a,
  resolve_g isglob dd ex (FStr s) a = first_row (resolve_rows isglob a (data_name dd s)) /\
  resolve_g true dd ex (FStr s) a = resolve dd ex (FStr s) a.
Proof. exact (fun isglob dd ex s a => conj (resolve_is_table isglob dd ex s a) (resolve_g_true dd ex (FStr s) a)). Qed.
Print Assumptions C03_resolve_is_table.

Theorem C03_resolve_url_first : forall isglob dd ex s a,
  startswith (bs "!data/"%bs) s = false -> str_eqb s (bs "-"%bs) = false -> is_url s = true ->
  exists sub, resolve_g isglob dd ex (FStr s) a = DUrl (url_basename s) sub.
Proof. exact resolve_url_first. Qed.
Print Assumptions C03_resolve_url_first.

(* a name found by a pattern is never expanded again *)
Theorem C03_matched_name_never_globbed : forall dd ex f a pat, resolve_g false dd ex f a <> DGlob pat.
Proof. exact matched_name_never_globbed. Qed.
Print Assumptions C03_matched_name_never_globbed.

(* once the recursion has finished, more fuel changes nothing *)
Theorem C03_resolve_run_fuel : forall j k fs dd ex g name a, resolve_run k fs dd ex g name a <> RFuel ->
  resolve_run (k + j) fs dd ex g name a = resolve_run k fs dd ex g name a.
Proof. exact resolve_run_fuel. Qed.
Print Assumptions C03_resolve_run_fuel.

(* the four branches; directories a pattern finds are skipped (F49); the archive option reaches the files a pattern finds but
   not the content of an archive *)
Theorem C03_resolve_run_branches : forall k fs dd ex g name a,
  (forall n, resolve_g g dd ex (FStr name) a = DPlain n -> resolve_run (S k) fs dd ex g name a = ROk [LFile n]) /\
  (forall n d, resolve_g g dd ex (FStr name) a = DGz n -> fs_gunzip fs n = Some d -> resolve_run (S k) fs dd ex g name a = ROk [LData d]) /\
  (forall n fmt tmp, resolve_g g dd ex (FStr name) a = DArchive n fmt -> fs_unpack fs n fmt = Some tmp ->
     resolve_run (S k) fs dd ex g name a = resolve_run k fs dd ex true (tmp ++ glob_tail) ANone) /\
  (forall pat, resolve_g g dd ex (FStr name) a = DGlob pat -> glob_files fs pat <> [] ->
     resolve_run (S k) fs dd ex g name a = rconcat (map (fun n => resolve_run k fs dd ex false n a) (glob_files fs pat))) /\
  (forall pat, resolve_g g dd ex (FStr name) a = DGlob pat -> glob_files fs pat = [] -> resolve_run (S k) fs dd ex g name a = RErr).
Proof. exact resolve_run_branches. Qed.
Print Assumptions C03_resolve_run_branches.

(* the download branch: data / gzip data decompressed in memory / an archive saved as <prefix><bname> and resolved again WITH
   the caller's archive option; the saved file is an archive by the same test as the URL's base name *)
Theorem C03_resolve_run_url : forall k fs dd ex g name a b sub payload,
  resolve_g g dd ex (FStr name) a = DUrl b sub -> fs_get fs (resolved_name dd name) = Some payload ->
  resolve_run (S k) fs dd ex g name a =
    match sub with
    | UData => ROk [LData payload]
    | UGz => match fs_gzdec fs payload with None => RErr | Some d => ROk [LData d] end
    | _ => resolve_run k fs dd ex true (fs_dlprefix fs ++ b) a
    end.
Proof. exact resolve_run_url. Qed.
Print Assumptions C03_resolve_run_url.

Theorem C03_url_saved_archive : forall dd ex prefix b a,
  plain_name (prefix ++ b) = true -> wants_archive a b = true ->
  resolve_g true dd ex (FStr (prefix ++ b)) a = DArchive (prefix ++ b) (arch_fmt a).
Proof. exact url_saved_archive. Qed.
Print Assumptions C03_url_saved_archive.

(* a pattern over simple files: every match is read, in the order glob reports them *)
Theorem C03_resolve_run_glob_concat : forall k fs dd ex g pat a,
  resolve_g g dd ex (FStr pat) a = DGlob pat -> glob_files fs pat <> [] ->
  forallb (simple_name dd ex a) (glob_files fs pat) = true ->
  resolve_run (S (S k)) fs dd ex g pat a = ROk (map LFile (glob_files fs pat)).
Proof. exact resolve_run_glob_concat. Qed.
Print Assumptions C03_resolve_run_glob_concat.

(* a flat archive: every member is read exactly once *)
Theorem C03_resolve_run_flat_archive : forall k fs dd ex g name a n fmt tmp,
  resolve_g g dd ex (FStr name) a = DArchive n fmt -> fs_unpack fs n fmt = Some tmp ->
  resolve_g true dd ex (FStr (tmp ++ glob_tail)) ANone = DGlob (tmp ++ glob_tail) ->
  glob_files fs (tmp ++ glob_tail) <> [] ->
  forallb (simple_name dd ex ANone) (glob_files fs (tmp ++ glob_tail)) = true ->
  resolve_run (S (S (S k))) fs dd ex g name a = ROk (map LFile (glob_files fs (tmp ++ glob_tail))).
Proof. exact resolve_run_flat_archive. Qed.
Print Assumptions C03_resolve_run_flat_archive.

(* the fuelled function computes exactly the declarative reading `resolves`, for any nesting depth *)
Theorem C03_resolve_run_sound : forall k fs dd ex g name a l,
  resolve_run k fs dd ex g name a = ROk l -> resolves fs dd ex g name a l.
Proof. exact resolve_run_sound. Qed.
Print Assumptions C03_resolve_run_sound.

Theorem C03_resolve_run_complete : forall fs dd ex g name a l,
  resolves fs dd ex g name a l -> exists k, forall k', k <= k' -> resolve_run k' fs dd ex g name a = ROk l.
Proof. exact resolve_run_complete. Qed.
Print Assumptions C03_resolve_run_complete.

Theorem C03_resolves_deterministic : forall fs dd ex g name a l1 l2,
  resolves fs dd ex g name a l1 -> resolves fs dd ex g name a l2 -> l1 = l2.
Proof. exact resolves_deterministic. Qed.
Print Assumptions C03_resolves_deterministic.

Example C03_witness_resolve_url :
  resolve_run 5 demo_url_fs [] [] true (bs "http://h/p/x.zip?dl=1"%bs) ANone = ROk [LFile (bs "<dl>x.zip/m.fa"%bs)] /\
  resolve_run 5 demo_url_fs [] [] true (bs "http://h/a.fa.gz"%bs) ANone = ROk [LData (bs ">z"%bs)] /\
  resolve_run 5 demo_url_fs [] [] true (bs "http://h/a.fa"%bs) ANone = ROk [LData (bs ">a"%bs)] /\
  resolve_run 5 demo_url_fs [] [] true (bs "http://h/a.fa"%bs) (AStr (bs "gz"%bs)) = RErr /\
  resolve_run 5 demo_url_fs [] [] true (bs "http://h/missing"%bs) ANone = RErr.
Proof. exact witness_resolve_url. Qed.

Example C03_witness_resolve_run :
  resolve_run 6 demo_fs [] [] true (bs "d/*"%bs) ANone =
    ROk [LFile (bs "d/a.fa"%bs); LData (bs "B"%bs); LFile (bs "d/c[1].fa"%bs); LData (bs "M"%bs); LFile (bs "<<d/x.zip>/in.tar>/v1.0/deep"%bs)] /\
  resolve_run 3 demo_fs [] [] true (bs "d/*"%bs) ANone = RFuel /\
  resolve_run 9 demo_fs [] [] true (bs "blob"%bs) (AStr (bs "zip"%bs)) = RErr /\
  resolve_run 9 demo_fs [] [] true (bs "nothing*"%bs) ANone = RErr /\
  simple_name [] [] ANone (bs "d/c[1].fa"%bs) = true.
Proof. exact witness_resolve_run. Qed.

(* ---- which plugin function read / iter_ / write(mode=) call; which file objects get a text layer *)
Theorem C03_dispatch_support :
  forallb (fun s => can (dispatch_read (snd s)) && can (dispatch_iter (snd s))) SUPPORT_seqs = true /\
  forallb (fun s => can (dispatch_read_fts (snd s))) SUPPORT_fts = true /\
  map fst SUPPORT_seqs = map fst PLUGINS_seqs /\ map fst SUPPORT_fts = map fst PLUGINS_fts.
Proof. exact dispatch_support. Qed.
Print Assumptions C03_dispatch_support.

Theorem C03_read_dispatch_spec : forall r i w a,
  (dispatch_read (r, (i, (w, a))) = PNoSupport <-> r = false /\ i = false) /\
  (dispatch_iter (r, (i, (w, a))) = PNoSupport <-> r = false /\ i = false) /\
  (r = true -> dispatch_read (r, (i, (w, a))) = PRead) /\ (i = true -> dispatch_iter (r, (i, (w, a))) = PIter) /\
  (r = false -> i = true -> dispatch_read (r, (i, (w, a))) = PIter) /\ (i = false -> r = true -> dispatch_iter (r, (i, (w, a))) = PRead).
Proof. exact read_dispatch_spec. Qed.
Print Assumptions C03_read_dispatch_spec.

Theorem C03_write_dispatch_spec : forall mode r i w a,
  dispatch_write mode (r, (i, (w, a))) =
    match a, w, has_a mode, has_w mode with
    | true, _, true, _ => PAppend
    | _, true, _, _ => PWrite
    | true, false, false, true => PAppend
    | _, _, _, _ => PNoSupport
    end.
Proof. exact write_dispatch_spec. Qed.
Print Assumptions C03_write_dispatch_spec.

(* the converter's readable / writable are these dispatches with the default mode *)
Theorem C03_write_default_mode : forall w0 f s, lookup_support f (support_tab w0) = Some s ->
  (writable w0 f = None <-> dispatch_write (bs "w"%bs) s <> PNoSupport) /\
  (readable w0 f = None <-> dispatch_read s <> PNoSupport).
Proof. exact write_default_mode. Qed.
Print Assumptions C03_write_default_mode.

Theorem C03_is_binary_handle_spec : forall io_binary has_encoding mode_b,
  (io_binary = true -> is_binary_handle io_binary has_encoding mode_b = true) /\
  (io_binary = false -> has_encoding = true -> is_binary_handle io_binary has_encoding mode_b = false) /\
  (io_binary = false -> has_encoding = false -> is_binary_handle io_binary has_encoding mode_b = mode_b).
Proof. exact is_binary_handle_spec. Qed.
Print Assumptions C03_is_binary_handle_spec.

Example C03_witness_dispatch :
  dispatch_write (bs "w"%bs) (false, (true, (false, true))) = PAppend /\
  dispatch_write (bs "a"%bs) (true, (false, (true, false))) = PWrite /\
  dispatch_write (bs "x"%bs) (false, (true, (false, true))) = PNoSupport /\
  dispatch_read (false, (true, (false, true))) = PIter /\
  dispatch_iter (true, (false, (true, false))) = PRead /\
  is_binary_handle false false true = true.
Proof. exact witness_dispatch. Qed.

(* ---- what sugar writes into an archive, sugar reads back, with or without a dot in the target name (F50 fixed): proved under
   the guard "ordinary name, not hidden, not named like an archive or gzip file itself"; still refuted without it *)
Theorem C03_archive_roundtrip_partial : forall tmp name ext,
  In ext KNOWN_ARCHIVE_EXTS -> roundtrip_guard tmp name ext = true -> readback_ok tmp name ext = true.
Proof. exact archive_roundtrip_partial. Qed.
Print Assumptions C03_archive_roundtrip_partial.

Theorem C03_archive_roundtrip_nodot : forall tmp name ext,
  In ext KNOWN_ARCHIVE_EXTS -> roundtrip_guard tmp name ext = true -> contains [dot] (basename name) = false ->
  readback_ok tmp name ext = true.
Proof. exact archive_roundtrip_nodot. Qed.
Print Assumptions C03_archive_roundtrip_nodot.

Theorem C03_archive_roundtrip_refuted :
  exists name ext, In ext KNOWN_ARCHIVE_EXTS /\ plain_name (name ++ dot :: ext) = true /\ readback_ok (bs "<T>"%bs) name ext = false.
Proof. exact archive_roundtrip_refuted. Qed.
Print Assumptions C03_archive_roundtrip_refuted.

(* the tool option: sugar's own plugin does the job exactly for None and the empty text *)
Theorem C03_tool_choice_spec : forall tool,
  (tool_choice tool = TPlugin <-> tool = None \/ tool = Some []) /\
  (tool_choice tool = TBiopython <-> tool = Some (bs "biopython"%bs)).
Proof. exact tool_choice_spec. Qed.
Print Assumptions C03_tool_choice_spec.

Example C03_witness_wround :
  roundtrip_guard (bs "<T>"%bs) (bs "dir.d/data.fasta"%bs) (bs "tar.gz"%bs) = true /\
  readback_ok (bs "<T>"%bs) (bs "dir.d/data.fasta"%bs) (bs "tar.gz"%bs) = true /\
  readback_ok (bs "<T>"%bs) (bs "x[1].fa"%bs) (bs "zip"%bs) = false /\
  roundtrip_guard (bs "<T>"%bs) (bs "dir.d/data"%bs) (bs "zip"%bs) = true /\
  readback_ok (bs "<T>"%bs) (bs "data"%bs) (bs "zip"%bs) = true /\
  readback_ok (bs "<T>"%bs) (bs ".hidden.fa"%bs) (bs "zip"%bs) = false /\
  readback_ok (bs "<T>"%bs) (bs "x.fa.gz"%bs) (bs "zip"%bs) = false.
Proof. exact witness_wround. Qed.

(* non-vacuity: concrete contents satisfying the hypotheses, and the documented BLAST / MMseqs2 discriminator at work *)
Example C03_witness_shapes :
  shape_fasta (bs ">id1 desc"%bs ++ [x0a] ++ bs "ACGT"%bs ++ [x0a]) = true /\
  shape_stockholm (bs "# STOCKHOLM 1.0"%bs ++ [x0a] ++ bs "a ACGT"%bs ++ [x0a] ++ bs "//"%bs ++ [x0a]) = true /\
  shape_gff (bs "##gff-version 3"%bs ++ [x0a]) = true /\
  shape_sjson (bs "{""_fmtcomment"": ""sugar JSON format written by sugar v0.1"", ""data"": []}"%bs) = true /\
  shape_genbank (bs "LOCUS       AB000001 10 bp    DNA"%bs ++ [x0a]) = true.
Proof. exact witness_shapes. Qed.

Example C03_witness_hit_tables :
  let row p := bs "q1"%bs ++ [x09] ++ bs "s1"%bs ++ [x09] ++ p ++ [x09] ++ bs "100"%bs ++ [x09] ++ bs "0"%bs ++ [x09] ++ bs "0"%bs ++ [x09]
               ++ bs "1"%bs ++ [x09] ++ bs "100"%bs ++ [x09] ++ bs "500"%bs ++ [x09] ++ bs "401"%bs ++ [x09] ++ bs "1e-20"%bs ++ [x09]
               ++ bs "180"%bs ++ [x0a] in
  detect Fts no_opts (row (bs "95.408"%bs)) = DFound (bs "blast"%bs) /\
  detect Fts no_opts (row (bs "0.954"%bs)) = DFound (bs "mmseqs"%bs) /\
  detect Fts no_opts (row (bs "1.0000000000000001"%bs)) = DFound (bs "mmseqs"%bs) /\
  detect Fts no_opts (row (bs "1.01"%bs)) = DFound (bs "blast"%bs) /\
  detect Fts no_opts (row (bs "100.01"%bs)) = DNothing.
Proof. exact witness_hit_tables. Qed.

Example C03_witness_kwargs_ext_resolve :
  kw_free Fts [(bs "header"%bs, bs "x"%bs)] = true /\
  plugin_kw Seqs ETofmtstr [(bs "mode"%bs, bs "w"%bs); (bs "header"%bs, bs "x"%bs)] = Some [(bs "header"%bs, bs "x"%bs)] /\
  detect_ext Seqs (bs "dir.d/my.seqs.fasta"%bs) = Some (bs "fasta"%bs) /\
  detect_ext Fts (bs "x.fasta"%bs) = None /\
  plain_name (bs "a.tar.gz"%bs) = true /\
  resolve [] [] (FStr (bs "a.tar.gz"%bs)) ANone = DArchive (bs "a.tar.gz"%bs) None /\
  resolve [] [] (FStr (bs "a.fa.gz"%bs)) ANone = DGz (bs "a.fa.gz"%bs) /\
  resolve [] [] (FStr (bs "a*.zip"%bs)) ATrue = DGlob (bs "a*.zip"%bs).
Proof. exact witness_kwargs_ext_resolve. Qed.
