(* C07 -- Translation follows the selected NCBI genetic code for every input and option.
   Only statements here; proofs are in proof/C07_*.v, the per-table finite checks in gen/G_c07_ok_<id>.v.
   translate t o l   : the model of sugar.core.cane.translate over table t (model/C07_Model.v)
   codons            : cut into triples, incomplete tail dropped;  aa_of t astop c : gc.tt[c] / 'X', astops override
   started t o cs    : no start check pending, or no codon, or the first codon is in starts/astarts
   gapfree o l       : no character of l is the gap character (always true for gap=None) *)
From Coq Require Import List ZArith NArith Bool.
From Coq.Strings Require Import Byte.
Import ListNotations.
From SV Require Import Text C05_Model G_gc_ids G_c07_tabs C07_Model C07_Lemmas C07_Spec C07_Tables C07_Gaps C07_Wrap C07_Main.

(* RNA is translated like DNA *)
Theorem C07_tu_equiv : forall t o l, translate t o (u2t l) = translate t o l.
Proof. exact tu_equiv. Qed.
Print Assumptions C07_tu_equiv.

(* on gap-free input the loop of translate() IS the codon-level specification spec_translate, for every table and option *)
Theorem C07_translate_spec : forall t o l, gap_after_ok o = true -> gapfree o (u2t l) = true ->
  translate t o l = spec_translate t o (u2t l).
Proof. exact (fun t o l H => translate_spec t o H l). Qed.
Print Assumptions C07_translate_spec.

(* complete=True: codon by codon the table's symbol; final_stop controls only whether a terminal stop is written *)
Theorem C07_translate_codonwise : forall t o l, gap_after_ok o = true -> gapfree o (u2t l) = true ->
  o_complete o = true -> o_check_stop o = false -> started t o (codons (u2t l)) = true ->
  translate t o l =
    Ok (map (aa_of t (o_astop o))
          (if eff_final_stop o || negb (last_is_stop t (codons (u2t l))) then codons (u2t l)
           else removelast (codons (u2t l)))).
Proof. exact (fun t o l H => translate_codonwise t o H l). Qed.
Print Assumptions C07_translate_codonwise.

(* complete=False: translation ends at the first stop codon, whose symbol is written iff final_stop *)
Theorem C07_translate_stops_at_first_stop : forall t o l, gap_after_ok o = true -> gapfree o (u2t l) = true ->
  o_complete o = false -> o_check_stop o = false -> started t o (codons (u2t l)) = true ->
  translate t o l =
    Ok (map (aa_of t (o_astop o)) (take_nonstop t (codons (u2t l))) ++
        match first_stop t (codons (u2t l)) with
        | Some (c, _) => if eff_final_stop o then [aa_of t (o_astop o) c] else []
        | None => []
        end).
Proof. exact (fun t o l H => translate_stops_at_first_stop t o H l). Qed.
Print Assumptions C07_translate_stops_at_first_stop.

(* check_start raises exactly when the first codon exists and is in neither starts nor astarts *)
Theorem C07_check_start_iff : forall t o l, gap_after_ok o = true -> gapfree o (u2t l) = true ->
  (translate t o l = Err ENoStart <-> started t o (codons (u2t l)) = false).
Proof. exact (fun t o l H => check_start_iff t o H l). Qed.
Print Assumptions C07_check_start_iff.

(* check_stop raises exactly when the first stop codon does not exist or is not the last complete codon
   (both for complete=True and complete=False); otherwise the result is the translation up to that stop *)
Theorem C07_check_stop_iff : forall t o l, gap_after_ok o = true -> gapfree o (u2t l) = true ->
  o_check_stop o = true -> started t o (codons (u2t l)) = true ->
  translate t o l =
    match first_stop t (codons (u2t l)) with
    | None => Err ENoStop
    | Some (c, []) => Ok (map (aa_of t (o_astop o)) (take_nonstop t (codons (u2t l))) ++
                          (if eff_final_stop o then [aa_of t (o_astop o) c] else []))
    | Some (c, _ :: _) => Err EStopNotLast
    end.
Proof. exact (fun t o l H => check_stop_spec t o H l). Qed.
Print Assumptions C07_check_stop_iff.

(* without check_stop (and past the start check) translate never raises *)
Theorem C07_no_check_no_error : forall t o l, gap_after_ok o = true -> gapfree o (u2t l) = true ->
  o_check_stop o = false -> started t o (codons (u2t l)) = true -> exists x, translate t o l = Ok x.
Proof. exact (fun t o l H => no_check_stop_ok t o H l). Qed.
Print Assumptions C07_no_check_no_error.

(* gaps only add gap symbols: removing them from the output = translating the degapped input (errors included),
   on the whole domain wf_C07, for every table whose symbols differ from the gap symbol *)
Theorem C07_translate_degap : forall t o l, wf_C07 t o l = true ->
  res_degap o (translate t o l) = translate t o (degap_in o l).
Proof. exact translate_degap. Qed.
Print Assumptions C07_translate_degap.

(* both together: on the whole domain the degapped output is the codon-level specification of the degapped input *)
Theorem C07_translate_master : forall t o l, wf_C07 t o l = true ->
  res_degap o (translate t o l) = spec_translate t o (u2t (degap_in o l)).
Proof. exact translate_master. Qed.
Print Assumptions C07_translate_master.

(* per shipped table, all 15^3 IUPAC codons: unambiguous -> table entry; some expansion a stop -> astop;
   else the amino acid all expansions share; else X  (finite theorem over the regenerated tables) *)
Theorem C07_aa_of_spec : forall k t astop a b d, In (k, t) tabs -> In a letters -> In b letters -> In d letters ->
  aa_of t astop [a; b; d] = spec_aa t astop [a; b; d].
Proof. exact aa_of_spec. Qed.
Print Assumptions C07_aa_of_spec.

(* stop codons of the shipped tables are unambiguous codons *)
Theorem C07_stops_unambiguous : forall k t a b d, In (k, t) tabs -> In a letters -> In b letters -> In d letters ->
  is_stop t [a; b; d] = true -> unamb [a; b; d] = true.
Proof. exact stops_unambiguous. Qed.
Print Assumptions C07_stops_unambiguous.

(* "the first codon cannot be a start" = no unambiguous reading of it is a start codon of the table *)
Theorem C07_can_start_spec : forall k t a b d, In (k, t) tabs -> In a letters -> In b letters -> In d letters ->
  can_start t [a; b; d] = existsb (fun e => in_set e (g_starts t)) (expand [a; b; d]).
Proof. exact can_start_spec. Qed.
Print Assumptions C07_can_start_spec.

(* the model's codon numbering uses the translator's letter order (all 256 bytes) *)
Theorem C07_letter_order : forall b, letter_ix b = index_from b letters 0%N.
Proof. exact letter_ix_tie. Qed.
Print Assumptions C07_letter_order.

(* the shipped tables are the ones gcode() can load, and none of them writes a symbol outside aa_symbols:
   any gap symbol outside aa_symbols, 'X' and astop satisfies the table hypothesis of wf_C07 *)
Theorem C07_shipped_tables : map fst tabs = json_ids /\
  forall k t o g, In (k, t) tabs -> o_gap o = Some g -> has g aa_symbols = false -> g <> cX -> g <> o_astop o ->
  gap_sym_ok t o = true.
Proof. exact (conj tabs_keys gap_sym_ok_shipped). Qed.
Print Assumptions C07_shipped_tables.

(* final_stop controls ONLY whether the terminal stop symbol is written: with any final_stop the result is the result for
   final_stop=False (same error, same symbols) plus, iff final_stop, the symbol of the stop codon that ended the translation *)
Theorem C07_final_stop_only : forall t o l, gap_after_ok o = true -> gapfree o (u2t l) = true ->
  translate t o l = match translate t (with_final_stop false o) l with
                    | Err e => Err e
                    | Ok a => Ok (a ++ if eff_final_stop o then end_stop t o (codons (u2t l)) else [])
                    end.
Proof. exact final_stop_only. Qed.
Print Assumptions C07_final_stop_only.

(* every bundled table id resolves (as in gcode(tt)) to one of the tables the per-table theorems are about *)
Theorem C07_every_table : forall k, In k json_ids -> exists t, lookup_tab k tabs = Some t /\ In (k, t) tabs.
Proof. exact every_table. Qed.
Print Assumptions C07_every_table.

(* ---- gap characters ONLY add gap symbols, exactly placed.
   emits o g   : the g-th gap character (g = 1, 2, ...) writes a gap symbol iff g = gap_after + 3j
   marks o 0 0 l : per codon of the degapped input (plus one entry for what follows the last complete codon) the number of
                 emitting gap characters met while that codon was being read
   spec_go_g   : the codon-level specification spec_go with (marks) gap symbols written before each codon's symbol.
   For EVERY input (no alphabet or table hypothesis) the loop equals that specification: *)
Theorem C07_gap_placement : forall t o l, gap_after_ok o = true -> translate t o l = spec_translate_g t o (u2t l).
Proof. exact gap_placement. Qed.
Print Assumptions C07_gap_placement.

(* removing the gap symbols of the gapped specification gives exactly the gap-free specification *)
Theorem C07_gap_spec_degap : forall t o, gap_sym_ok t o = true ->
  forall cs ms, res_degap o (spec_go_g t o cs ms) = spec_go t o cs.
Proof. exact spec_go_g_degap. Qed.
Print Assumptions C07_gap_spec_degap.

(* how many: the marks add up to ecount (0 below gap_after gap characters, then (G - gap_after) / 3 + 1), one entry per codon + 1 *)
Theorem C07_gap_marks : forall o l, gap_after_ok o = true ->
  Z.of_nat (sum_nat (marks o 0 0 l)) = ecount o (count_gap o l) /\
  length (marks o 0 0 l) = S (length (codons (degap_in o l))).
Proof. exact (fun o l H => conj (gap_marks_total o l H) (gap_marks_length o l)). Qed.
Print Assumptions C07_gap_marks.

(* a run that is not cut short (no stop codon, no stop check, start accepted) writes exactly ecount(number of gap characters)
   gap symbols: one after the first gap_after gap characters, then one per three *)
Theorem C07_gap_count : forall t o gc l, gap_after_ok o = true -> o_gap o = Some gc -> gap_sym_ok t o = true ->
  o_check_stop o = false -> started t o (codons (degap_in o (u2t l))) = true ->
  forallb (fun c => negb (is_stop t c)) (codons (degap_in o (u2t l))) = true ->
  exists out, translate t o l = Ok out /\ count_gap o out = ecount o (count_gap o (u2t l)).
Proof. exact gap_count. Qed.
Print Assumptions C07_gap_count.

(* ---- wrappers. BioSeq.translate: data becomes the translation and the type becomes aa; an error leaves no result *)
Theorem C07_bioseq_translate : forall t o q,
  (forall q', bioseq_translate t o q = inl q' <-> (translate t o (b_data q) = Ok (b_data q') /\ b_type q' = AA)) /\
  (forall e, bioseq_translate t o q = inr e <-> translate t o (b_data q) = Err e).
Proof. exact bioseq_translate_spec. Qed.
Print Assumptions C07_bioseq_translate.

(* BioBasket.translate: length kept; without error every sequence is translated; with an error the sequences before the
   failing one are translated, the failing one and all later ones are unchanged *)
Theorem C07_basket_translate : forall t o b,
  length (fst (basket_translate t o b)) = length b /\
  match snd (basket_translate t o b) with
  | None => Forall2 (fun q q' => bioseq_translate t o q = inl q') b (fst (basket_translate t o b))
  | Some e => exists p p' q rest, b = p ++ q :: rest /\ fst (basket_translate t o b) = p' ++ q :: rest /\
                Forall2 (fun x x' => bioseq_translate t o x = inl x') p p' /\ bioseq_translate t o q = inr e
  end.
Proof. exact basket_translate_spec. Qed.
Print Assumptions C07_basket_translate.

(* non-vacuity: a gapped RNA string with an ambiguous stop codon in the domain, standard table, default options;
   and the F10 witness (gaps after the last stop codon, complete=True, final_stop=False) *)
Example C07_witness :
  wf_C07 tab_1 (mk_opts false None false None "X"%byte (Some "-"%byte) (Some 2%Z)) (bs "AUG-GCN--TARAA-ATAGCC"%bs) = true /\
  translate tab_1 (mk_opts false None false None "X"%byte (Some "-"%byte) (Some 2%Z)) (bs "AUG-GCN--TARAA-ATAGCC"%bs)
    = Ok (bs "MA-XK"%bs) /\
  translate tab_1 (mk_opts true None false (Some false) "X"%byte (Some "-"%byte) (Some 2%Z)) (bs "ATGTAAAAATAA---"%bs)
    = Ok (bs "M*K"%bs) /\
  translate tab_1 (mk_opts false None true None "X"%byte (Some "-"%byte) (Some 2%Z)) (bs "ATGAAATAA---"%bs) = Ok (bs "MK"%bs) /\
  translate tab_1 (mk_opts false None true None "X"%byte None None) (bs "ATGTAAAAA"%bs) = Err EStopNotLast /\
  started tab_1 (mk_opts false None false None "X"%byte None None) (codons (bs "AAATAA"%bs)) = false.
Proof. exact (conj eq_refl (conj eq_refl (conj eq_refl (conj eq_refl (conj eq_refl eq_refl))))). Qed.

(* nine gap characters, gap_after = 2: the 2nd, 5th and 8th write a gap symbol, one before each codon's symbol and one at the end *)
Example C07_witness_gaps :
  marks (mk_opts true (Some false) false None "X"%byte (Some "-"%byte) (Some 2%Z)) 0 0 (bs "A-T--G---AA-A--"%bs) = [1; 1; 1]%nat /\
  translate tab_1 (mk_opts true (Some false) false None "X"%byte (Some "-"%byte) (Some 2%Z)) (bs "A-T--G---AA-A--"%bs)
    = Ok (bs "-M-K-"%bs) /\
  ecount (mk_opts true (Some false) false None "X"%byte (Some "-"%byte) (Some 2%Z)) 9 = 3%Z.
Proof. exact (conj eq_refl (conj eq_refl eq_refl)). Qed.
