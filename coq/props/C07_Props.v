(* C07 -- Translation follows the selected NCBI genetic code for every input and option.
   Only statements here; proofs are in proof/C07_*.v, the per-table finite checks in gen/G_c07_ok_<id>.v.
   translate t o l   : the model of sugar.core.cane.translate over table t (model/C07_Model.v)
   codons            : cut into triples, incomplete tail dropped;  aa_of t astop c : gc.tt[c] / 'X', astops override
   started t o cs    : no start check pending, or no codon, or the first codon is in starts/astarts
   gapfree o l       : no character of l is the gap character (always true for gap=None) *)
From Coq Require Import List ZArith NArith Bool.
From Coq.Strings Require Import Byte.
Import ListNotations.
From SV Require Import Text C05_Model G_gc_ids G_c07_tabs C07_Model C07_Lemmas C07_Spec C07_Tables C07_Gaps C07_Wrap C07_Main C07_Cli C07_Warn.

(* RNA is translated like DNA *)
Theorem C07_tu_equiv : forall t o l, translate t o (u2t l) = translate t o l.
Proof. exact tu_equiv. Qed.
Print Assumptions C07_tu_equiv.

(* on gap-free input the loop of translate() IS the codon-level specification spec_translate, for every table and option *)
Theorem C07_translate_spec : forall t o l, gap_after_ok o = true -> gapfree o (u2t l) = true ->
  translate t o l = spec_translate t o (u2t l).
Proof. exact (fun t o l H => translate_spec t o H l). Qed.
Print Assumptions C07_translate_spec.

(* complete=True: codon by codon the table's symbol; final_stop controls only whether a terminal stop is written *)
Theorem C07_translate_codonwise : forall t o l, gap_after_ok o = true -> gapfree o (u2t l) = true ->
  o_complete o = true -> o_check_stop o = false -> started t o (codons (u2t l)) = true ->
  translate t o l =
    Ok (map (aa_of t (o_astop o))
          (if eff_final_stop o || negb (last_is_stop t (codons (u2t l))) then codons (u2t l)
           else removelast (codons (u2t l)))).
Proof. exact (fun t o l H => translate_codonwise t o H l). Qed.
Print Assumptions C07_translate_codonwise.

(* complete=False: translation ends at the first stop codon, whose symbol is written iff final_stop *)
Theorem C07_translate_stops_at_first_stop : forall t o l, gap_after_ok o = true -> gapfree o (u2t l) = true ->
  o_complete o = false -> o_check_stop o = false -> started t o (codons (u2t l)) = true ->
  translate t o l =
    Ok (map (aa_of t (o_astop o)) (take_nonstop t (codons (u2t l))) ++
        match first_stop t (codons (u2t l)) with
        | Some (c, _) => if eff_final_stop o then [aa_of t (o_astop o) c] else []
        | None => []
        end).
Proof. exact (fun t o l H => translate_stops_at_first_stop t o H l). Qed.
Print Assumptions C07_translate_stops_at_first_stop.

(* check_start raises exactly when the first codon exists and is in neither starts nor astarts *)
Theorem C07_check_start_iff : forall t o l, gap_after_ok o = true -> gapfree o (u2t l) = true ->
  (translate t o l = Err ENoStart <-> started t o (codons (u2t l)) = false).
Proof. exact (fun t o l H => check_start_iff t o H l). Qed.
Print Assumptions C07_check_start_iff.

(* check_stop raises exactly when the first stop codon does not exist or is not the last complete codon
   (both for complete=True and complete=False); otherwise the result is the translation up to that stop *)
Theorem C07_check_stop_iff : forall t o l, gap_after_ok o = true -> gapfree o (u2t l) = true ->
  o_check_stop o = true -> started t o (codons (u2t l)) = true ->
  translate t o l =
    match first_stop t (codons (u2t l)) with
    | None => Err ENoStop
    | Some (c, []) => Ok (map (aa_of t (o_astop o)) (take_nonstop t (codons (u2t l))) ++
                          (if eff_final_stop o then [aa_of t (o_astop o) c] else []))
    | Some (c, _ :: _) => Err EStopNotLast
    end.
Proof. exact (fun t o l H => check_stop_spec t o H l). Qed.
Print Assumptions C07_check_stop_iff.

(* without check_stop (and past the start check) translate never raises *)
Theorem C07_no_check_no_error : forall t o l, gap_after_ok o = true -> gapfree o (u2t l) = true ->
  o_check_stop o = false -> started t o (codons (u2t l)) = true -> exists x, translate t o l = Ok x.
Proof. exact (fun t o l H => no_check_stop_ok t o H l). Qed.
Print Assumptions C07_no_check_no_error.

(* gaps only add gap symbols: removing them from the output = translating the degapped input (errors included),
   on the whole domain wf_C07, for every table whose symbols differ from the gap symbol *)
Theorem C07_translate_degap : forall t o l, wf_C07 t o l = true ->
  res_degap o (translate t o l) = translate t o (degap_in o l).
Proof. exact translate_degap. Qed.
Print Assumptions C07_translate_degap.

(* both together: on the whole domain the degapped output is the codon-level specification of the degapped input *)
Theorem C07_translate_master : forall t o l, wf_C07 t o l = true ->
  res_degap o (translate t o l) = spec_translate t o (u2t (degap_in o l)).
Proof. exact translate_master. Qed.
Print Assumptions C07_translate_master.

(* per shipped table, all 15^3 IUPAC codons: unambiguous -> table entry; some expansion a stop -> astop;
   else the amino acid all expansions share; else X  (finite theorem over the regenerated tables) *)
Theorem C07_aa_of_spec : forall k t astop a b d, In (k, t) tabs -> In a letters -> In b letters -> In d letters ->
  aa_of t astop [a; b; d] = spec_aa t astop [a; b; d].
Proof. exact aa_of_spec. Qed.
Print Assumptions C07_aa_of_spec.

(* stop codons of the shipped tables are unambiguous codons *)
Theorem C07_stops_unambiguous : forall k t a b d, In (k, t) tabs -> In a letters -> In b letters -> In d letters ->
  is_stop t [a; b; d] = true -> unamb [a; b; d] = true.
Proof. exact stops_unambiguous. Qed.
Print Assumptions C07_stops_unambiguous.

(* "the first codon cannot be a start" = no unambiguous reading of it is a start codon of the table *)
Theorem C07_can_start_spec : forall k t a b d, In (k, t) tabs -> In a letters -> In b letters -> In d letters ->
  can_start t [a; b; d] = existsb (fun e => in_set e (g_starts t)) (expand [a; b; d]).
Proof. exact can_start_spec. Qed.
Print Assumptions C07_can_start_spec.

(* the model's codon numbering uses the translator's letter order (all 256 bytes) *)
Theorem C07_letter_order : forall b, letter_ix b = index_from b letters 0%N.
Proof. exact letter_ix_tie. Qed.
Print Assumptions C07_letter_order.

(* the shipped tables are the ones gcode() can load, and none of them writes a symbol outside aa_symbols:
   any gap symbol outside aa_symbols, 'X' and astop satisfies the table hypothesis of wf_C07 *)
Theorem C07_shipped_tables : map fst tabs = json_ids /\
  forall k t o g, In (k, t) tabs -> o_gap o = Some g -> has g aa_symbols = false -> g <> cX -> g <> o_astop o ->
  gap_sym_ok t o = true.
Proof. exact (conj tabs_keys gap_sym_ok_shipped). Qed.
Print Assumptions C07_shipped_tables.

(* final_stop controls ONLY whether the terminal stop symbol is written: with any final_stop the result is the result for
   final_stop=False (same error, same symbols) plus, iff final_stop, the symbol of the stop codon that ended the translation *)
Theorem C07_final_stop_only : forall t o l, gap_after_ok o = true -> gapfree o (u2t l) = true ->
  translate t o l = match translate t (with_final_stop false o) l with
                    | Err e => Err e
                    | Ok a => Ok (a ++ if eff_final_stop o then end_stop t o (codons (u2t l)) else [])
                    end.
Proof. exact final_stop_only. Qed.
Print Assumptions C07_final_stop_only.

(* every bundled table id resolves (as in gcode(tt)) to one of the tables the per-table theorems are about *)
Theorem C07_every_table : forall k, In k json_ids -> exists t, lookup_tab k tabs = Some t /\ In (k, t) tabs.
Proof. exact every_table. Qed.
Print Assumptions C07_every_table.

(* ---- gap characters ONLY add gap symbols, exactly placed.
   emits o g   : the g-th gap character (g = 1, 2, ...) writes a gap symbol iff g = gap_after + 3j
   marks o 0 0 l : per codon of the degapped input (plus one entry for what follows the last complete codon) the number of
                 emitting gap characters met while that codon was being read
   spec_go_g   : the codon-level specification spec_go with (marks) gap symbols written before each codon's symbol.
   For EVERY input (no alphabet or table hypothesis) the loop equals that specification: *)
Theorem C07_gap_placement : forall t o l, gap_after_ok o = true -> translate t o l = spec_translate_g t o (u2t l).
Proof. exact gap_placement. Qed.
Print Assumptions C07_gap_placement.

(* removing the gap symbols of the gapped specification gives exactly the gap-free specification *)
Theorem C07_gap_spec_degap : forall t o, gap_sym_ok t o = true ->
  forall cs ms, res_degap o (spec_go_g t o cs ms) = spec_go t o cs.
Proof. exact spec_go_g_degap. Qed.
Print Assumptions C07_gap_spec_degap.

(* how many: the marks add up to ecount (0 below gap_after gap characters, then (G - gap_after) / 3 + 1), one entry per codon + 1 *)
Theorem C07_gap_marks : forall o l, gap_after_ok o = true ->
  Z.of_nat (sum_nat (marks o 0 0 l)) = ecount o (count_gap o l) /\
  length (marks o 0 0 l) = S (length (codons (degap_in o l))).
Proof. exact (fun o l H => conj (gap_marks_total o l H) (gap_marks_length o l)). Qed.
Print Assumptions C07_gap_marks.

(* a run that is not cut short (no stop codon, no stop check, start accepted) writes exactly ecount(number of gap characters)
   gap symbols: one after the first gap_after gap characters, then one per three *)
Theorem C07_gap_count : forall t o gc l, gap_after_ok o = true -> o_gap o = Some gc -> gap_sym_ok t o = true ->
  o_check_stop o = false -> started t o (codons (degap_in o (u2t l))) = true ->
  forallb (fun c => negb (is_stop t c)) (codons (degap_in o (u2t l))) = true ->
  exists out, translate t o l = Ok out /\ count_gap o out = ecount o (count_gap o (u2t l)).
Proof. exact gap_count. Qed.
Print Assumptions C07_gap_count.

(* ---- wrappers. BioSeq.translate: data becomes the translation and the type becomes aa; an error leaves no result *)
Theorem C07_bioseq_translate : forall t o q,
  (forall q', bioseq_translate t o q = inl q' <-> (translate t o (b_data q) = Ok (b_data q') /\ b_type q' = AA)) /\
  (forall e, bioseq_translate t o q = inr e <-> translate t o (b_data q) = Err e).
Proof. exact bioseq_translate_spec. Qed.
Print Assumptions C07_bioseq_translate.

(* BioBasket.translate: length kept; without error every sequence is translated; with an error the sequences before the
   failing one are translated, the failing one and all later ones are unchanged *)
Theorem C07_basket_translate : forall t o b,
  length (fst (basket_translate t o b)) = length b /\
  match snd (basket_translate t o b) with
  | None => Forall2 (fun q q' => bioseq_translate t o q = inl q') b (fst (basket_translate t o b))
  | Some e => exists p p' q rest, b = p ++ q :: rest /\ fst (basket_translate t o b) = p' ++ q :: rest /\
                Forall2 (fun x x' => bioseq_translate t o x = inl x') p p' /\ bioseq_translate t o q = inr e
  end.
Proof. exact basket_translate_spec. Qed.
Print Assumptions C07_basket_translate.

(* ---- the command line entry point `sugar translate` (sugar/scripts.py), string or file input.
   cli_arg = ATt n (-tt n / --translation-table n) | AComplete (-c / --complete); cli_tt / cli_opts: what run() hands to translate().
   Decision table: the LAST -tt names the table (table 1 without one); complete iff some -c; every other option has the default of
   the signature, so a start check is made iff not complete and the terminal stop is written iff complete *)
Theorem C07_cli_options : forall args,
  cli_tt args = match last_tt args with Some n => n | None => 1%N end /\
  o_complete (cli_opts args) = cli_complete args /\
  eff_check_start (cli_opts args) = negb (cli_complete args) /\
  o_check_stop (cli_opts args) = false /\
  eff_final_stop (cli_opts args) = cli_complete args /\
  o_astop (cli_opts args) = "X"%byte /\ o_gap (cli_opts args) = Some "-"%byte /\ o_gap_after (cli_opts args) = Some 2%Z /\
  (cli_complete args = true <-> In AComplete args).
Proof. exact cli_options. Qed.
Print Assumptions C07_cli_options.

(* "the last -tt": nothing after it names a table; and without any -tt there is none *)
Theorem C07_cli_last_tt : forall args,
  (forall n, last_tt args = Some n -> exists p q, args = p ++ ATt n :: q /\ forall m, ~ In (ATt m) q) /\
  (last_tt args = None <-> forall n, ~ In (ATt n) args).
Proof. exact (fun args => conj (last_tt_split args) (last_tt_None args)). Qed.
Print Assumptions C07_cli_last_tt.

(* whatever the options, the command line is inside the option domain of the property for every shipped table *)
Theorem C07_cli_in_domain : forall k t args, In (k, t) tabs ->
  opts_ok t (cli_opts args) = true /\ lines_ok (cli_opts args) = true.
Proof. exact cli_opts_ok. Qed.
Print Assumptions C07_cli_in_domain.

(* string input: one translation per line, in order; the call fails iff some line raises (the first such line decides) *)
Theorem C07_cli_lines : forall t o s,
  (forall outs, script_str t o s = inl outs <-> Forall2 (fun l a => translate t o l = Ok a) (splitlines s) outs) /\
  (forall e, script_str t o s = inr e <->
     exists p l r outs, splitlines s = p ++ l :: r /\ Forall2 (fun l a => translate t o l = Ok a) p outs /\ translate t o l = Err e).
Proof. exact cli_lines. Qed.
Print Assumptions C07_cli_lines.

(* the lines are the lines: splitlines inverts "\n".join on newline-free lines whose last one is not empty *)
Theorem C07_splitlines_join : forall ls, forallb no_nl ls = true -> last ls [cNL] <> [] -> splitlines (join_nl ls) = ls.
Proof. exact splitlines_join. Qed.
Print Assumptions C07_splitlines_join.

(* a one-line text of the domain: what is printed is, up to gap symbols, the codon-level specification of the degapped text under
   the selected table; the call fails exactly when the specification raises *)
Theorem C07_cli_follows_table : forall t o s, no_nl s = true -> s <> [] -> wf_C07 t o s = true ->
  match script_str t o s with
  | inl [a] => spec_translate t o (u2t (degap_in o s)) = Ok (degap_out o a)
  | inl _ => False
  | inr e => spec_translate t o (u2t (degap_in o s)) = Err e
  end.
Proof. exact cli_follows_table. Qed.
Print Assumptions C07_cli_follows_table.

(* baskets are maps: BioBasket.translate gives, record by record, the translation (type aa), or stops with the first error *)
Theorem C07_basket_is_map : forall t o b,
  match map_res (translate t o) (map b_data b) with
  | inl outs => basket_translate t o b = (map mk_aa outs, None)
  | inr e => snd (basket_translate t o b) = Some e
  end.
Proof. exact basket_map_res. Qed.
Print Assumptions C07_basket_is_map.

(* file input of the command line: the records of the file (upper-cased by BioSeq) translated as a basket *)
Theorem C07_cli_file : forall t o recs,
  match map_res (translate t o) (map (map upper1) recs) with
  | inl outs => script_recs t o recs = (map mk_aa outs, None)
  | inr e => snd (script_recs t o recs) = Some e
  end.
Proof. exact cli_file. Qed.
Print Assumptions C07_cli_file.

(* gcode(tt) finds the table by str(tt): an int and its decimal string name the same table, the one with that id *)
Theorem C07_tt_int_or_str : forall k,
  gcode_lookup (TStr (dec_N k)) = gcode_lookup (TInt k) /\
  gcode_lookup (TInt k) = option_map (pair k) (lookup_tab k tabs).
Proof. exact tt_key_spec. Qed.
Print Assumptions C07_tt_int_or_str.

(* T/U spelling never matters, with gaps and every option: all-U, all-T and any mixture translate alike; on the domain the
   degapped output is the translation of the T-normalised degapped text, and degapping commutes with the normalisation *)
Theorem C07_tu_spelling : forall t o l,
  (forall l2, u2t l = u2t l2 -> translate t o l = translate t o l2) /\
  translate t o (t2u l) = translate t o l /\ translate t o (u2t l) = translate t o l /\
  (wf_C07 t o l = true ->
     res_degap o (translate t o l) = translate t o (u2t (degap_in o l)) /\ u2t (degap_in o l) = degap_in o (u2t l)).
Proof. exact (fun t o l => conj (fun l2 => tu_mixed t o l l2) (tu_spelling t o l)). Qed.
Print Assumptions C07_tu_spelling.

(* the property in IUPAC terms, end to end, for every shipped table and every input of the domain: the degapped output is the
   codon-level specification, and for every codon it reads the symbol is the IUPAC clause (table entry / astop if an expansion is a
   stop / the shared amino acid / X), it can start iff an expansion is a start codon, and a stop codon is unambiguous *)
Theorem C07_translate_iupac : forall k t o l, In (k, t) tabs -> wf_C07 t o l = true ->
  res_degap o (translate t o l) = spec_translate t o (u2t (degap_in o l)) /\
  Forall (fun c => aa_of t (o_astop o) c = spec_aa t (o_astop o) c /\
                   can_start t c = existsb (fun e => in_set e (g_starts t)) (expand c) /\
                   (is_stop t c = true -> unamb c = true))
         (codons (u2t (degap_in o l))).
Proof. exact translate_iupac. Qed.
Print Assumptions C07_translate_iupac.

(* ---- warn=True. translate_w is the loop of cane.translate WITH its warnings.warn calls (kinds wkind, in order).
   warn never changes the returned value or the exception; without warn nothing is emitted *)
Theorem C07_warn_irrelevant : forall t o w l,
  fst (translate_w t o w l) = translate t o l /\ snd (translate_w t o false l) = [].
Proof. exact (fun t o w l => conj (warn_irrelevant t o w l) (warn_off_quiet t o l)). Qed.
Print Assumptions C07_warn_irrelevant.

(* on gap-free input the warnings are exactly spec_warns, codon by codon: first codon not a start -> (error if check_start, else)
   WNotStart; in astarts only -> WMaybeNotStart; every ambiguous-stop codon translated -> WMaybeStop; a stop codon that is not the
   last codon -> WStopNotLast (error if check_stop); the loop ran to the end -> WNoStop (error if check_stop) *)
Theorem C07_warn_spec : forall t o w l, gap_after_ok o = true -> gapfree o (u2t l) = true ->
  snd (translate_w t o w l) = spec_warns t o w (codons (u2t l)).
Proof. exact warn_spec. Qed.
Print Assumptions C07_warn_spec.

(* the last warning of the source (cane.py:455-457, 'Last codon ... possibly is not a stop codon') is dead code: for EVERY input,
   gaps or not, the codon left over at the end has fewer than three letters and is never in astops *)
Theorem C07_warn_dead_branch : forall t o w l, ~ In WMaybeNoStop (snd (translate_w t o w l)).
Proof. exact warn_dead_branch. Qed.
Print Assumptions C07_warn_dead_branch.

(* non-vacuity: a gapped RNA string with an ambiguous stop codon in the domain, standard table, default options;
   and the F10 witness (gaps after the last stop codon, complete=True, final_stop=False) *)
Example C07_witness :
  wf_C07 tab_1 (mk_opts false None false None "X"%byte (Some "-"%byte) (Some 2%Z)) (bs "AUG-GCN--TARAA-ATAGCC"%bs) = true /\
  translate tab_1 (mk_opts false None false None "X"%byte (Some "-"%byte) (Some 2%Z)) (bs "AUG-GCN--TARAA-ATAGCC"%bs)
    = Ok (bs "MA-XK"%bs) /\
  translate tab_1 (mk_opts true None false (Some false) "X"%byte (Some "-"%byte) (Some 2%Z)) (bs "ATGTAAAAATAA---"%bs)
    = Ok (bs "M*K"%bs) /\
  translate tab_1 (mk_opts false None true None "X"%byte (Some "-"%byte) (Some 2%Z)) (bs "ATGAAATAA---"%bs) = Ok (bs "MK"%bs) /\
  translate tab_1 (mk_opts false None true None "X"%byte None None) (bs "ATGTAAAAA"%bs) = Err EStopNotLast /\
  started tab_1 (mk_opts false None false None "X"%byte None None) (codons (bs "AAATAA"%bs)) = false.
Proof. exact (conj eq_refl (conj eq_refl (conj eq_refl (conj eq_refl (conj eq_refl eq_refl))))). Qed.

(* nine gap characters, gap_after = 2: the 2nd, 5th and 8th write a gap symbol, one before each codon's symbol and one at the end *)
Example C07_witness_gaps :
  marks (mk_opts true (Some false) false None "X"%byte (Some "-"%byte) (Some 2%Z)) 0 0 (bs "A-T--G---AA-A--"%bs) = [1; 1; 1]%nat /\
  translate tab_1 (mk_opts true (Some false) false None "X"%byte (Some "-"%byte) (Some 2%Z)) (bs "A-T--G---AA-A--"%bs)
    = Ok (bs "-M-K-"%bs) /\
  ecount (mk_opts true (Some false) false None "X"%byte (Some "-"%byte) (Some 2%Z)) 9 = 3%Z.
Proof. exact (conj eq_refl (conj eq_refl eq_refl)). Qed.

(* the command line: the last -tt wins (33, not 4), -c makes the translation complete with the terminal stop; table 4 ends at TAA;
   three lines, the second cannot start: the call fails; a two-record file under table 2 (AGA is a stop there, TGA is Trp) *)
Example C07_witness_cli :
  cli_tt [ATt 4; AComplete; ATt 33]%N = 33%N /\
  script_str tab_33 (cli_opts [ATt 4; AComplete; ATt 33]%N) (bs "ATGTGATAAAGA"%bs) = inl [bs "MWYS"%bs] /\
  script_str tab_4 (cli_opts [ATt 4]%N) (bs "ATGTGATAAAGA"%bs) = inl [bs "MW"%bs] /\
  script_str tab_1 (cli_opts []) (unhex (bs "4154472d2d2d414141544747540a4343435441410a415447"%bs)) = inr ENoStart /\
  script_recs tab_2 (cli_opts [ATt 2]%N) [bs "ATGAGA"%bs; bs "ataTGA"%bs] = ([mk_aa (bs "M"%bs); mk_aa (bs "MW"%bs)], None) /\
  wf_C07 tab_33 (cli_opts [ATt 33]%N) (bs "ATG-TGA"%bs) = true /\
  gcode_lookup (TStr (bs "33"%bs)) = Some (33%N, tab_33).
Proof. exact (conj eq_refl (conj eq_refl (conj eq_refl (conj eq_refl (conj eq_refl (conj eq_refl eq_refl)))))). Qed.

(* warnings: CTG is a start codon, TAR may be a stop, the stop TAA is followed by a codon; CCC cannot start *)
Example C07_witness_warn :
  translate_w tab_1 (default_opts false) true (bs "CTGTARAAATAAGCC"%bs) = (Ok (bs "LXK"%bs), [WMaybeStop; WStopNotLast]) /\
  translate_w tab_1 (default_opts true) true (bs "CCCTAAAAA"%bs) = (Ok (bs "P*K"%bs), [WNotStart; WStopNotLast; WNoStop]) /\
  translate_w tab_1 (default_opts false) true (bs "CCCTAAAAA"%bs) = (Err ENoStart, []).
Proof. exact (conj eq_refl (conj eq_refl eq_refl)). Qed.
