(* C13 -- Pattern matches report correct spans and reading frames on both strands.
   Statements only; proofs are in proof/C13_Lemmas.v, the model and the specification-side definitions
   (irel, word_match, residues, fwd_spec, bwd_spec, chain, span_of, cmap, cmatch) in model/C13_Model.v. *)
From Coq Require Import List ZArith Bool.
From Coq.Strings Require Import Byte.
Import ListNotations.
From SV Require Import Text G_codes C05_Model C13_Model C13_Rx C13_Lemmas C13_Once C13_Depth C13_RxLemmas C13_GapMap C13_RxComplete C13_Occur C13_WordTree.
Local Open Scope Z_scope.

(* P0 span_contains_match + frames, for every match reported by matchall: forward matches come first, then backward ones;
   each satisfies the per-match statement fwd_spec / bwd_spec of the model file: span inside the sequence, column >= start,
   group = the characters of the span (for backward frames: of the span on the reverse complement, which is the reversed
   per-character complement of the mirrored forward span), the group is an occurrence of a word of the pattern with gap
   characters tolerated between its letters, the frame is one of the requested ones, lies in 0..2 (forward) or -3..-1 (backward)
   and equals the residue count between start and the match column modulo 3. *)
Theorem C13_matchall_sound : forall s sub rf start gap out, 0 <= start ->
  matchall s sub rf start gap = Some out ->
  exists rfn F B, norm_rf rf = Some rfn /\ out = F ++ B /\
    (forall m, In m F -> fwd_spec s sub rfn start gap m) /\
    (forall m, In m B -> exists l, rfn = Some l /\ bwd_spec s sub l start gap m).
Proof. exact matchall_sound. Qed.
Print Assumptions C13_matchall_sound.

(* P0 frame_is_residue_count, full strength: the frame formula of the code (column - start - bisect_left over the gap positions,
   modulo 3) is the number of residues (non-gap characters) between the start offset and the match column, modulo 3;
   used for the forward strand on s and for the backward strand on rc s *)
Theorem C13_frame_is_residue_count : forall gap s start b, 0 <= start <= Z.of_nat b -> (b <= length s)%nat ->
  frame_of (option_map (fun g => gap_positions g s 0 start) gap) start (Z.of_nat b)
  = residues gap (slice (Z.to_nat start) b s) mod 3.
Proof. exact frame_formula. Qed.
Print Assumptions C13_frame_is_residue_count.

(* the same on the output of matchall alone, both strands: every reported frame is the residue count modulo 3, forward on the
   sequence before the span, backward on the reverse complement before the mirrored span *)
Theorem C13_frames_full : forall s sub rf start gap out, 0 <= start ->
  matchall s sub rf start gap = Some out ->
  forall m, In m out ->
    match bm_rf m with
    | None => norm_rf rf = Some None
    | Some f =>
        (0 <= f < 3 /\ f = residues gap (slice (Z.to_nat start) (Z.to_nat (bm_b m)) s) mod 3) \/
        (-3 <= f <= -1 /\ - f - 1 = residues gap (slice (Z.to_nat start) (length s - Z.to_nat (bm_e m)) (rc s)) mod 3)
    end.
Proof. exact matchall_frames_full. Qed.
Print Assumptions C13_frames_full.

(* P0 bwd_frame in forward coordinates: the residues counted on the reverse complement between start and the match are the
   residues of the forward strand between the end of the mirrored span and (length - start) *)
Theorem C13_bwd_residues_forward : forall gap s st b, wf_gap gap = true -> (st <= b)%nat -> (b <= length s)%nat ->
  residues gap (slice st b (rc s)) = residues gap (slice (length s - b) (length s - st) s).
Proof. exact bwd_residues_forward. Qed.
Print Assumptions C13_bwd_residues_forward.

(* group of a backward match versus the mirrored forward span *)
Theorem C13_bwd_span : forall s b e, (b <= e)%nat -> (e <= length s)%nat ->
  slice b e (rc s) = rev (map (cmap (has cU s)) (slice (length s - e) (length s - b) s)) /\ length (rc s) = length s.
Proof. exact (fun s b e H1 H2 => conj (slice_rc s b e H1 H2) (C05_Lemmas.rc_length s)). Qed.
Print Assumptions C13_bwd_span.

(* P0 match_filters: order (spans ascending and disjoint, forward before backward, signs of the frames) ... *)
Theorem C13_matchall_order : forall s sub rf start gap out, matchall s sub rf start gap = Some out ->
  exists F B, out = F ++ B /\ chain 0 (map span_of F) /\ chain 0 (map (rc_span_of (length s)) B) /\
    (forall m, In m F -> match bm_rf m with Some t => 0 <= t | None => True end) /\
    (forall m, In m B -> match bm_rf m with Some t => t < 0 | None => False end).
Proof. exact matchall_order. Qed.
Print Assumptions C13_matchall_order.

(* ... and nothing requested is lost: every finditer match at a column >= start whose frame is requested is reported *)
Theorem C13_fwd_reported : forall s sub rf start gap l b e out,
  matchall s sub rf start gap = Some out -> norm_rf rf = Some (Some l) -> has_fwd l = true ->
  In (b, e) (finditer (compile gap (expand_sub sub)) s 0 0) -> start <= Z.of_nat b ->
  In (frame_of (fwd_gaps gap (Some l) s start) start (Z.of_nat b)) l ->
  In (mk_bm (Z.of_nat b) (Z.of_nat e) (slice b e s) (Some (frame_of (fwd_gaps gap (Some l) s start) start (Z.of_nat b)))) out.
Proof. exact fwd_reported. Qed.
Print Assumptions C13_fwd_reported.

Theorem C13_fwd_reported_rf_none : forall s sub rf start gap b e out,
  matchall s sub rf start gap = Some out -> norm_rf rf = Some None ->
  In (b, e) (finditer (compile gap (expand_sub sub)) s 0 0) -> start <= Z.of_nat b ->
  In (mk_bm (Z.of_nat b) (Z.of_nat e) (slice b e s) None) out.
Proof. exact fwd_reported_norf. Qed.
Print Assumptions C13_fwd_reported_rf_none.

Theorem C13_bwd_reported : forall s sub rf start gap l b e out,
  matchall s sub rf start gap = Some out -> norm_rf rf = Some (Some l) -> has_bwd l = true ->
  In (b, e) (finditer (compile gap (expand_sub sub)) (rc s) 0 0) -> start <= Z.of_nat b ->
  In (-1 * frame_of (bwd_gaps gap (rc s) start) start (Z.of_nat b) - 1) l ->
  In (mk_bm (Z.of_nat (length (rc s)) - Z.of_nat e) (Z.of_nat (length (rc s)) - Z.of_nat b) (slice b e (rc s))
        (Some (-1 * frame_of (bwd_gaps gap (rc s) start) start (Z.of_nat b) - 1))) out.
Proof. exact bwd_reported. Qed.
Print Assumptions C13_bwd_reported.

(* match() returns the first element of matchall() or None *)
Theorem C13_match_is_head : forall s sub rf start gap,
  match_first s sub rf start gap = option_map (@hd_error bm) (matchall s sub rf start gap).
Proof. exact match_first_hd. Qed.
Print Assumptions C13_match_is_head.

(* baskets: concatenation / one entry per sequence *)
Theorem C13_basket : forall seqs sub rf start gap rfn, norm_rf rf = Some rfn ->
  basket_matchall seqs sub rf start gap =
    Some (flat_map (fun s => match matchall s sub rf start gap with Some l => l | None => [] end) seqs) /\
  basket_match seqs sub rf start gap =
    Some (map (fun s => match matchall s sub rf start gap with Some l => hd_error l | None => None end) seqs).
Proof. exact (fun seqs sub rf start gap rfn H => conj (basket_matchall_spec seqs sub rf start gap rfn H) (basket_match_spec seqs sub rf start gap rfn H)). Qed.
Print Assumptions C13_basket.

(* rf normalisation *)
Theorem C13_rf_normalisation : forall rf rfn, norm_rf rf = Some rfn ->
  match rf with
  | RNone => rfn = None
  | RInt z => rfn = Some [z]
  | RList l => rfn = Some l
  | RStr t => (t = bs "fwd"%bs /\ rfn = Some [0; 1; 2]) \/ (t = bs "bwd"%bs /\ rfn = Some [-1; -2; -3]) \/
              (t = bs "both"%bs /\ rfn = Some [0; 1; 2; -1; -2; -3])
  end.
Proof. exact norm_rf_cases. Qed.
Print Assumptions C13_rf_normalisation.

(* the word matcher (DESIGN 5.5 b): sound and complete with respect to the declarative relation irel *)
Theorem C13_matcher_sound : forall its s n, m_items its s = Some n -> (n <= length s)%nat /\ irel its (firstn n s).
Proof. exact m_items_sound. Qed.
Print Assumptions C13_matcher_sound.

Theorem C13_matcher_complete : forall its t u, irel its t -> m_items its (t ++ u) <> None.
Proof. exact (fun its t u H => m_items_complete its t H u). Qed.
Print Assumptions C13_matcher_complete.

(* finditer: reported spans are matches of an alternative, ascending and disjoint *)
Theorem C13_finditer_sound : forall alts s b e, In (b, e) (finditer alts s 0 0) ->
  (b < e)%nat /\ (e <= length s)%nat /\ m_alts alts (skipn b s) = Some (e - b)%nat.
Proof.
  exact (fun alts s b e H => match finditer_sound alts s 0%nat 0%nat b e H with
         | conj _ (conj H2 (conj H3 H4)) => conj H2 (conj H3 (eq_ind (b - 0)%nat (fun k => m_alts alts (skipn k s) = Some (e - b)%nat) H4 b (Nat.sub_0_r b))) end).
Qed.
Print Assumptions C13_finditer_sound.

Theorem C13_finditer_ordered : forall alts s, chain 0 (finditer alts s 0 0).
Proof. exact (fun alts s => finditer_chain alts s 0%nat 0%nat). Qed.
Print Assumptions C13_finditer_ordered.

(* P1 finditer_words_complete: every occurrence of a word of the pattern (gaps tolerated) at column p is reported or
   lies inside a reported match that starts at or before p *)
Theorem C13_finditer_words_complete : forall gap sub s w t u p, wf_sub sub = true ->
  In w (words sub) -> irel (compile_word gap w) t -> skipn p s = t ++ u ->
  exists b e, In (b, e) (finditer (compile gap (expand_sub sub)) s 0 0) /\ (b <= p < e)%nat.
Proof. exact occurrences_complete. Qed.
Print Assumptions C13_finditer_words_complete.

(* P1 in full: for plain words (no '.', no gap character) that are prefix-free and have no proper overlap (booleans of
   proof/C13_Once.v on the word list), every occurrence, gaps tolerated, is reported with exactly its own extent; together with
   C13_finditer_ordered (strictly ascending spans) it is reported exactly once *)
Theorem C13_words_reported_once : forall g sub s w t u p,
  wf_sub sub = true -> forallb (plain_word g) (words sub) = true ->
  prefix_free (words sub) = true -> no_overlap (words sub) = true ->
  In w (words sub) -> irel (compile_word (Some g) w) t -> skipn p s = t ++ u ->
  In (p, (p + length t)%nat) (finditer (compile (Some g) (expand_sub sub)) s 0 0).
Proof. exact words_once. Qed.
Print Assumptions C13_words_reported_once.

(* ... and the hypotheses hold for the built-in patterns 'start' and 'stop', for every gap string over the gap symbols *)
Theorem C13_start_stop_no_overlap : forall g sub, forallb gap_char_ok g = true -> (sub = bs "start"%bs \/ sub = bs "stop"%bs) ->
  wf_sub sub = true /\ forallb (plain_word g) (words sub) = true /\
  prefix_free (words sub) = true /\ no_overlap (words sub) = true.
Proof. exact start_stop_once. Qed.
Print Assumptions C13_start_stop_no_overlap.

(* gap characters inside a match are tolerated: for a word without '.', removing the gaps from the group gives the word *)
Theorem C13_group_degap : forall g w t,
  forallb (fun c => negb (has c g) && negb (byte_eqb c cdot)) w = true ->
  irel (compile_word (Some g) w) t -> degap g t = w.
Proof. exact irel_degap. Qed.
Print Assumptions C13_group_degap.

(* gap=None: the group matches the word character by character *)
Theorem C13_group_nogap : forall w t, irel (compile_word None w) t -> Forall2 (fun c x => cmatch c x = true) w t.
Proof. exact irel_nogap. Qed.
Print Assumptions C13_group_nogap.

(* ---- depth round ---- *)
(* ordered alternation: the word that is reported is the first word of the pattern that occurs at that column at all *)
Theorem C13_alternation_priority : forall gap ws s n, m_alts (map (compile_word gap) ws) s = Some n ->
  exists pre w post, ws = pre ++ w :: post /\ m_items (compile_word gap w) s = Some n /\
    forall w' t u, In w' pre -> irel (compile_word gap w') t -> s <> t ++ u.
Proof. exact earlier_word_does_not_occur. Qed.
Print Assumptions C13_alternation_priority.

(* finditer completeness for arbitrary word lists, contrapositive form: no word occurs at a column outside all reported spans *)
Theorem C13_no_occurrence_between_matches : forall gap sub s p, wf_sub sub = true ->
  (forall b e, In (b, e) (finditer (compile gap (expand_sub sub)) s 0 0) -> ~ (b <= p < e)%nat) ->
  forall w t u, In w (words sub) -> irel (compile_word gap w) t -> skipn p s <> t ++ u.
Proof. exact no_occurrence_between_matches. Qed.
Print Assumptions C13_no_occurrence_between_matches.

(* every reported span is a valid forward-strand span, on both strands *)
Theorem C13_span_bounds : forall s sub rf start gap out m, 0 <= start -> matchall s sub rf start gap = Some out -> In m out ->
  0 <= bm_b m < bm_e m /\ bm_e m <= Z.of_nat (length s).
Proof. exact span_bounds. Qed.
Print Assumptions C13_span_bounds.

(* the start offset in forward coordinates: forward matches begin at or after start; backward matches end at or before
   length - start and their frame counts the residues of the forward strand between the end of the span and length - start *)
Theorem C13_start_offset_semantics : forall s sub rf start gap out m, 0 <= start -> wf_gap gap = true ->
  matchall s sub rf start gap = Some out -> In m out ->
  match bm_rf m with
  | None => start <= bm_b m
  | Some f =>
      (0 <= f /\ start <= bm_b m) \/
      (f < 0 /\ bm_e m <= Z.of_nat (length s) - start /\
       - f - 1 = residues gap (slice (Z.to_nat (bm_e m)) (length s - Z.to_nat start) s) mod 3)
  end.
Proof. exact start_offset_semantics. Qed.
Print Assumptions C13_start_offset_semantics.

(* nothing to report *)
Theorem C13_empty_results : forall s sub rf start gap,
  (forall l, norm_rf rf = Some (Some l) -> has_fwd l = false -> has_bwd l = false -> matchall s sub rf start gap = Some []) /\
  (forall out, Z.of_nat (length s) <= start -> matchall s sub rf start gap = Some out -> out = []).
Proof. exact (fun s sub rf start gap => conj (unrequested_empty s sub rf start gap) (start_beyond_end s sub rf start gap)). Qed.
Print Assumptions C13_empty_results.

(* an rf string other than fwd/bwd/both is rejected (AssertionError) *)
Theorem C13_invalid_rf_string : forall s sub t start gap,
  t <> bs "fwd"%bs -> t <> bs "bwd"%bs -> t <> bs "both"%bs ->
  matchall s sub (RStr t) start gap = None /\ match_first s sub (RStr t) start gap = None.
Proof. exact invalid_rf_string. Qed.
Print Assumptions C13_invalid_rf_string.

(* rf forms: a collection counts only through membership (tuple = list = set); an int is a singleton; strings are fixed sets *)
Theorem C13_rf_forms : forall s sub start gap,
  (forall l l', (forall z, In z l <-> In z l') -> matchall s sub (RList l) start gap = matchall s sub (RList l') start gap) /\
  (forall z, matchall s sub (RInt z) start gap = matchall s sub (RList [z]) start gap) /\
  matchall s sub (RStr (bs "both"%bs)) start gap = matchall s sub (RList [0; 1; 2; -1; -2; -3]) start gap /\
  matchall s sub (RStr (bs "fwd"%bs)) start gap = matchall s sub (RList [0; 1; 2]) start gap /\
  matchall s sub (RStr (bs "bwd"%bs)) start gap = matchall s sub (RList [-1; -2; -3]) start gap.
Proof.
  exact (fun s sub start gap => conj (rf_membership_only s sub start gap)
          (conj (rf_int_is_singleton s sub start gap) (rf_both_is_union s sub start gap))).
Qed.
Print Assumptions C13_rf_forms.

(* BioBasket wrappers, element-wise *)
Theorem C13_basket_elements : forall seqs sub rf start gap,
  (forall out m, basket_matchall seqs sub rf start gap = Some out ->
     (In m out <-> exists s l, In s seqs /\ matchall s sub rf start gap = Some l /\ In m l)) /\
  (forall out, basket_match seqs sub rf start gap = Some out ->
     Forall2 (fun s m => match_first s sub rf start gap = Some m) seqs out) /\
  basket_matchall [] sub rf start gap = Some [] /\ basket_match [] sub rf start gap = Some [].
Proof.
  exact (fun seqs sub rf start gap =>
    conj (fun out m H => basket_matchall_in seqs sub rf start gap out m H)
      (conj (basket_match_pointwise seqs sub rf start gap) (basket_empty sub rf start gap))).
Qed.
Print Assumptions C13_basket_elements.

Theorem C13_basket_sound : forall seqs sub rf start gap out m, 0 <= start ->
  basket_matchall seqs sub rf start gap = Some out -> In m out ->
  exists s rfn, In s seqs /\ norm_rf rf = Some rfn /\
    (fwd_spec s sub rfn start gap m \/ exists l, rfn = Some l /\ bwd_spec s sub l start gap m).
Proof. exact basket_sound. Qed.
Print Assumptions C13_basket_sound.

(* non-vacuity: the F19 witness is inside the domain and has the frames of the property text; a gapped RNA case on both strands *)
Example C13_witness : wf_C13 [bs "CAT--AACA-T"%bs] (bs "ATG"%bs) (RStr (bs "both"%bs)) 0 (Some [x2d]) = true /\
  matchall (bs "CAT--AACA-T"%bs) (bs "ATG"%bs) (RStr (bs "bwd"%bs)) 0 (Some [x2d])
  = Some [mk_bm 7 11 (bs "A-TG"%bs) (Some (-1)); mk_bm 0 3 (bs "ATG"%bs) (Some (-3))].
Proof. exact (conj eq_refl eq_refl). Qed.

Example C13_witness_rna : wf_C13 [bs "GA-UGCA-U"%bs] (bs "start"%bs) (RList [0; -1]) 1 (Some [x2d]) = true /\
  matchall (bs "GA-UGCA-U"%bs) (bs "start"%bs) (RList [0; -1]) 1 (Some [x2d])
  = Some [mk_bm 1 5 (bs "A-UG"%bs) (Some 0)] /\
  matchall (bs "GA-UGCA-U"%bs) (bs "start"%bs) (RStr (bs "both"%bs)) 0 (Some [x2d])
  = Some [mk_bm 1 5 (bs "A-UG"%bs) (Some 1); mk_bm 5 9 (bs "A-UG"%bs) (Some (-1))].
Proof. exact (conj eq_refl (conj eq_refl eq_refl)). Qed.

(* the former dot_on_gap witnesses (fixed in /repo by 69fc7dc) are inside the domain and have the frames of the property text *)
Example C13_witness_dot_on_gap : wf_C13 [bs "-TG"%bs; bs "ATG-TG"%bs] (bs ".TG"%bs) (RStr (bs "fwd"%bs)) 0 (Some [x2d]) = true /\
  matchall (bs "-TG"%bs) (bs ".TG"%bs) (RStr (bs "fwd"%bs)) 0 (Some [x2d]) = Some [mk_bm 0 3 (bs "-TG"%bs) (Some 0)] /\
  matchall (bs "ATG-TG"%bs) (bs ".TG"%bs) (RStr (bs "fwd"%bs)) 0 (Some [x2d])
  = Some [mk_bm 0 3 (bs "ATG"%bs) (Some 0); mk_bm 3 6 (bs "-TG"%bs) (Some 0)] /\
  matchall (bs "A-CCA-"%bs) (bs ".TG"%bs) (RList [2; -1]) 0 (Some [x2d]) = Some [mk_bm 3 6 (bs "-TG"%bs) (Some (-1))].
Proof. exact (conj eq_refl (conj eq_refl (conj eq_refl eq_refl))). Qed.

(* gap strings other than "-": the C13-8 witness (gap='.') and a mixed class "-." on both strands *)
Example C13_witness_gap_strings :
  wf_C13 [bs "CCA.TGCA..TAGCCTA.ACCATGA"%bs] (bs "ATG"%bs) (RStr (bs "fwd"%bs)) 0 (Some [x2e]) = true /\
  matchall (bs "CCA.TGCA..TAGCCTA.ACCATGA"%bs) (bs "ATG"%bs) (RStr (bs "fwd"%bs)) 0 (Some [x2e])
  = Some [mk_bm 2 6 (bs "A.TG"%bs) (Some 2); mk_bm 21 24 (bs "ATG"%bs) (Some 2)] /\
  wf_gap (Some [x2d; x2e]) = true /\ wf_gap (Some [x2e; x2d]) = true /\ wf_gap (Some [x2e; x2d; x2e]) = false /\
  matchall (bs "CA-.TA.T-G"%bs) (bs "ATG"%bs) (RStr (bs "both"%bs)) 0 (Some [x2d; x2e])
  = Some [mk_bm 5 10 (bs "A.T-G"%bs) (Some 0); mk_bm 0 5 (bs "A.-TG"%bs) (Some (-1))].
Proof. exact (conj eq_refl (conj eq_refl (conj eq_refl (conj eq_refl (conj eq_refl eq_refl))))). Qed.

(* ================================================================== round 7: the pattern language (model/C13_Rx.v) *)
(* the gap-tolerant rewriting of cane.py:217-223 (after fix 7e33c72: re.findall units, a character class '[...]' is one letter
   unit), which works on the pattern TEXT, is the tree-level rewriting "put the class of the gap characters between two neighbours
   of a concatenation whose texts end / begin with a letter, '.' or a class", for every pattern tree of the subset *)
Theorem C13_rx_rewrite_text_is_tree : forall g r, rx_ok r = true -> rw g (show r) = show (gapify g r).
Proof. exact rw_show_gapify. Qed.
Print Assumptions C13_rx_rewrite_text_is_tree.

(* the backtracking matcher only reports prefixes that are in the language of the pattern *)
Theorem C13_rx_matcher_sound : forall r s n, m_rx r s = Some n -> (n <= length s)%nat /\ lang r (firstn n s).
Proof. exact m_rx_sound. Qed.
Print Assumptions C13_rx_matcher_sound.

(* meaning of the rewritten pattern: whatever it matches is, with the gap characters removed, matched by the original pattern
   (patterns whose characters are residues: no '.', no negated class, no gap character), and whatever the original pattern
   matches is still matched *)
Theorem C13_rx_gap_meaning : forall g r,
  (gapfree g r = true -> forall t, lang (gapify g r) t -> lang r (degap g t)) /\
  (forall t, lang r t -> lang (gapify g r) t).
Proof. exact (fun g r => conj (gapify_degap g r) (gapify_keeps g r)). Qed.
Print Assumptions C13_rx_gap_meaning.

(* every match reported for a pattern tree (both strands): span inside the sequence at a column >= start, group = text of the
   span (backward: mirrored through BioMatch.span, reversed complement of the forward span), group in the language of the effective
   pattern, frame requested and equal to the residue count modulo 3 *)
Theorem C13_rx_matchall_sound : forall r s rfn start gap, 0 <= start ->
  exists F B, matchall_m (m_rx (eff_rx gap r)) s rfn start gap = F ++ B /\
    (forall x, In x F -> fwd_spec_m (lang (eff_rx gap r)) s rfn start gap x) /\
    (forall x, In x B -> exists l, rfn = Some l /\ bwd_spec_m (lang (eff_rx gap r)) s l start gap x).
Proof. exact rx_matchall_sound. Qed.
Print Assumptions C13_rx_matchall_sound.

(* spans ascend and are disjoint on each strand; match() is the head of matchall(), for any matcher *)
Theorem C13_rx_order : forall r s rfn start gap,
  chain 0 (map span_of (fwd_list_m (m_rx r) s start gap rfn)) /\
  chain 0 (map (rc_span_of (length s)) (bwd_list_m (m_rx r) s start gap rfn)).
Proof. exact rx_matchall_order. Qed.
Print Assumptions C13_rx_order.

Theorem C13_rx_match_is_head : forall m s rfn start gap,
  match_first_m m s rfn start gap = hd_error (matchall_m m s rfn start gap).
Proof. exact match_first_m_hd. Qed.
Print Assumptions C13_rx_match_is_head.

(* the word-list model of the earlier rounds is the instance "matcher = ordered alternation of the compiled words" *)
Theorem C13_words_are_an_instance : forall s sub rf start gap,
  matchall s sub rf start gap =
  option_map (fun rfn => matchall_m (m_alts (compile gap (expand_sub sub))) s rfn start gap) (norm_rf rf).
Proof. exact matchall_is_m. Qed.
Print Assumptions C13_words_are_an_instance.

(* BioMatch.span: mirroring for negative frames is an involution, keeps spans inside the sequence and their length *)
Theorem C13_span_mirror : forall rf L b e,
  span_mirror rf L (span_mirror rf L (b, e)) = (b, e) /\
  span_mirror rf L (b, e) = match rf with Some f => if f <? 0 then (L - e, L - b) else (b, e) | None => (b, e) end /\
  (0 <= b <= e -> e <= L ->
   0 <= fst (span_mirror rf L (b, e)) <= snd (span_mirror rf L (b, e)) /\ snd (span_mirror rf L (b, e)) <= L /\
   snd (span_mirror rf L (b, e)) - fst (span_mirror rf L (b, e)) = e - b).
Proof.
  exact (fun rf L b e => conj (span_mirror_involutive rf L (b, e)) (conj (span_mirror_cases rf L b e) (span_mirror_bounds rf L b e))).
Qed.
Print Assumptions C13_span_mirror.

(* BioMatchList.groupby('rf'): the keys are the distinct frames in order of first occurrence, every group is the order-preserving
   sub-list of the matches with that frame, no group is empty, every match is in the group of its frame *)
Theorem C13_groupby_partition : forall l,
  map fst (groupby_rf l) = dedup oz_eqb (map bm_rf l) /\ NoDup (map fst (groupby_rf l)) /\
  (forall k vs, In (k, vs) (groupby_rf l) -> vs = filter (fun v => oz_eqb k (bm_rf v)) l /\ vs <> []) /\
  (forall v, In v l -> exists vs, In (bm_rf v, vs) (groupby_rf l) /\ In v vs).
Proof. exact groupby_rf_partition. Qed.
Print Assumptions C13_groupby_partition.

(* the rf argument as a total decision table (None, int, bool, str, collection of ints, anything that cannot be iterated) with
   the error class of each rejected value, and which strands are searched *)
Theorem C13_rf_decision_table : forall a,
  match a with
  | RfArg RNone => rf_decide a = inr None
  | RfArg (RInt z) => rf_decide a = inr (Some [z])
  | RfArg (RList l) => rf_decide a = inr (Some l)
  | RfArg (RStr t) =>
      (t = bs "fwd"%bs /\ rf_decide a = inr (Some [0; 1; 2])) \/
      (t = bs "bwd"%bs /\ rf_decide a = inr (Some [-1; -2; -3])) \/
      (t = bs "both"%bs /\ rf_decide a = inr (Some [0; 1; 2; -1; -2; -3])) \/
      (t <> bs "fwd"%bs /\ t <> bs "bwd"%bs /\ t <> bs "both"%bs /\ rf_decide a = inl (bs "AssertionError"%bs))
  | RfBool b => rf_decide a = rf_decide (RfArg (RInt (if b then 1 else 0)))
  | RfNonIter => rf_decide a = inl (bs "TypeError"%bs)
  end.
Proof. exact rf_decide_table. Qed.
Print Assumptions C13_rf_decision_table.

Theorem C13_rf_strands : forall l,
  (has_fwd l = true <-> exists z, In z l /\ 0 <= z <= 2) /\ (has_bwd l = true <-> exists z, In z l /\ -3 <= z <= -1).
Proof. exact (fun l => conj (has_fwd_iff l) (has_bwd_iff l)). Qed.
Print Assumptions C13_rf_strands.

(* non-vacuity for the pattern language: A[TU]G without gap tolerance (the C13-16 witness: the text is longer than the sequence)
   and with the default gap (the class_gap witness, fixed in /repo by 7e33c72), AT+G with gap tolerance on both strands, the rewriting on texts, groupby *)
Example C13_witness_rx :
  let r := XCat (XChr x41) (XCat (XCls false (bs "TU"%bs)) (XChr x47)) in
  wf_rx [bs "ATG"%bs] (bs "A[TU]G"%bs) r (RfArg (RStr (bs "both"%bs))) 0 None = true /\
  matchall_m (m_rx (eff_rx None r)) (bs "ATG"%bs) (Some [0; 1; 2; -1; -2; -3]) 0 None = [mk_bm 0 3 (bs "ATG"%bs) (Some 0)] /\
  rw (bs "-"%bs) (show r) = bs "A[-]*[TU][-]*G"%bs /\
  wf_rx [bs "A-TG"%bs] (bs "A[TU]G"%bs) r (RfArg (RStr (bs "fwd"%bs))) 0 (Some [x2d]) = true /\
  matchall_m (m_rx (eff_rx (Some [x2d]) r)) (bs "A-TG"%bs) (Some [0; 1; 2]) 0 (Some [x2d]) = [mk_bm 0 4 (bs "A-TG"%bs) (Some 0)].
Proof. exact (conj eq_refl (conj eq_refl (conj eq_refl (conj eq_refl eq_refl)))). Qed.

Example C13_witness_rx_gap :
  let r := XCat (XChr x41) (XCat (XPlus (XChr x54)) (XChr x47)) in
  wf_rx [bs "CA-TTGCAT"%bs] (bs "AT+G"%bs) r (RfArg (RStr (bs "both"%bs))) 0 (Some [x2d]) = true /\
  gapfree [x2d] r = true /\
  show (gapify [x2d] r) = bs "A[-]*T+G"%bs /\ rw [x2d] (bs "AT+G"%bs) = bs "A[-]*T+G"%bs /\
  matchall_m (m_rx (eff_rx (Some [x2d]) r)) (bs "CA-TTGCAT"%bs) (Some [0; 1; 2; -1; -2; -3]) 0 (Some [x2d])
  = [mk_bm 1 6 (bs "A-TTG"%bs) (Some 1); mk_bm 6 9 (bs "ATG"%bs) (Some (-1)); mk_bm 0 4 (bs "A-TG"%bs) (Some (-3))] /\
  groupby_rf [mk_bm 1 6 (bs "A-TTG"%bs) (Some 1); mk_bm 6 9 (bs "ATG"%bs) (Some (-1)); mk_bm 7 9 (bs "TG"%bs) (Some 1)]
  = [(Some 1, [mk_bm 1 6 (bs "A-TTG"%bs) (Some 1); mk_bm 7 9 (bs "TG"%bs) (Some 1)]); (Some (-1), [mk_bm 6 9 (bs "ATG"%bs) (Some (-1))])].
Proof. exact (conj eq_refl (conj eq_refl (conj eq_refl (conj eq_refl (conj eq_refl eq_refl))))). Qed.

(* ================================================================== round 7, second part *)
(* GAP TRANSPARENCY (unbounded).  For plain words (non-empty, letters that are neither "." nor gap characters; true of start and
   stop) matching the gap-tolerant pattern on the gapped text IS matching the plain pattern on the degapped text: the spans of
   re.finditer correspond through the residue numbering (rank g s k = number of residues among the first k columns) ... *)
Theorem C13_gap_transparent_finditer : forall g ws s,
  forallb (fun w => nonempty w && plain_word g w) ws = true ->
  map (respan g s) (finditer (map (compile_word (Some g)) ws) s 0 0) = finditer (map (compile_word None) ws) (degap g s) 0 0.
Proof. exact (fun g ws s H => finditer_gap_transparent g ws H s). Qed.
Print Assumptions C13_gap_transparent_finditer.

(* ... the text of a span, degapped, is the text of the translated span; reverse complement and gap removal commute and the
   residue numberings of the two strands are mirror images ... *)
Theorem C13_gap_bijection : forall g s,
  (forall b e, (b <= e)%nat -> degap g (slice b e s) = slice (rank g s b) (rank g s e) (degap g s)) /\
  (forallb gap_char_ok g = true -> rc (degap g s) = degap g (rc s) /\
     forall e, (e <= length s)%nat -> (rank g (rc s) e + rank g s (length s - e) = length (degap g s))%nat).
Proof.
  exact (fun g s => conj (degap_slice g s) (fun Hg => conj (rc_degap g s Hg) (fun e He => rank_rc g s e Hg He))).
Qed.
Print Assumptions C13_gap_bijection.

(* ... and match()/matchall() as a whole (both strands, every rf form, start = 0): the result on the gapped sequence with
   gap = g, translated (spans through the residue numbering of the forward strand, groups degapped, frames unchanged), is the result
   on the degapped sequence with gap = None *)
Theorem C13_gap_transparent_matchall : forall g s sub rf out, forallb gap_char_ok g = true ->
  forallb (fun w => nonempty w && plain_word g w) (words sub) = true ->
  matchall s sub rf 0 (Some g) = Some out ->
  matchall (degap g s) sub rf 0 None = Some (map (degap_bm g s) out).
Proof. exact (fun g s sub rf out Hg Hw H => matchall_gap_transparent g (words sub) Hw s sub rf out Hg eq_refl H). Qed.
Print Assumptions C13_gap_transparent_matchall.

(* the regex-tree matcher is complete: wherever a string of the language of the pattern begins the matcher reports a match
   (of the alternative with the highest priority), and no occurrence lies outside the spans reported by finditer *)
Theorem C13_rx_matcher_complete : forall r t u, rx_ok r = true -> lang r t -> m_rx r (t ++ u) <> None.
Proof. exact m_rx_complete. Qed.
Print Assumptions C13_rx_matcher_complete.

Theorem C13_rx_occurrence_covered : forall r s t u p, rx_ok r = true -> nullable r = false ->
  lang r t -> skipn p s = t ++ u ->
  exists b e, In (b, e) (finditer_m (m_rx r) s 0 0) /\ (b <= p < e)%nat.
Proof. exact rx_occurrence_covered. Qed.
Print Assumptions C13_rx_occurrence_covered.

(* end-to-end completeness for start/stop-like word lists (plain, prefix-free, no proper overlap): EVERY occurrence of a word,
   gaps tolerated, at a column >= start whose residue-count frame is requested is an element of the result with its own extent,
   text and frame -- forward strand and backward strand *)
Theorem C13_fwd_occurrence_reported : forall g sub s rf start l out w t u p,
  wf_sub sub = true -> forallb (plain_word g) (words sub) = true ->
  prefix_free (words sub) = true -> no_overlap (words sub) = true ->
  In w (words sub) -> irel (compile_word (Some g) w) t -> skipn p s = t ++ u ->
  matchall s sub rf start (Some g) = Some out -> norm_rf rf = Some (Some l) -> has_fwd l = true ->
  0 <= start <= Z.of_nat p ->
  In (residues (Some g) (slice (Z.to_nat start) p s) mod 3) l ->
  In (mk_bm (Z.of_nat p) (Z.of_nat (p + length t)) t (Some (residues (Some g) (slice (Z.to_nat start) p s) mod 3))) out.
Proof. exact fwd_occurrence_reported. Qed.
Print Assumptions C13_fwd_occurrence_reported.

Theorem C13_bwd_occurrence_reported : forall g sub s rf start l out w t u p,
  wf_sub sub = true -> forallb (plain_word g) (words sub) = true ->
  prefix_free (words sub) = true -> no_overlap (words sub) = true ->
  In w (words sub) -> irel (compile_word (Some g) w) t -> skipn p (rc s) = t ++ u ->
  matchall s sub rf start (Some g) = Some out -> norm_rf rf = Some (Some l) -> has_bwd l = true ->
  0 <= start <= Z.of_nat p ->
  In (- (residues (Some g) (slice (Z.to_nat start) p (rc s)) mod 3) - 1) l ->
  In (mk_bm (Z.of_nat (length s) - Z.of_nat (p + length t)) (Z.of_nat (length s) - Z.of_nat p) t
        (Some (- (residues (Some g) (slice (Z.to_nat start) p (rc s)) mod 3) - 1))) out.
Proof. exact bwd_occurrence_reported. Qed.
Print Assumptions C13_bwd_occurrence_reported.

(* a class is the alternation of its characters *)
Theorem C13_class_is_alternation : forall cs t, lang (XCls false cs) t <-> exists c, In c cs /\ t = [c].
Proof. exact class_is_alternation. Qed.
Print Assumptions C13_class_is_alternation.

(* non-vacuity: start on a gapped RNA sequence, both strands, against the degapped sequence without gap tolerance *)
Example C13_witness_gap_transparent :
  forallb (fun w => nonempty w && plain_word [x2d] w) (words (bs "start"%bs)) = true /\
  matchall (bs "GA-UGCA-U"%bs) (bs "start"%bs) (RStr (bs "both"%bs)) 0 (Some [x2d])
  = Some [mk_bm 1 5 (bs "A-UG"%bs) (Some 1); mk_bm 5 9 (bs "A-UG"%bs) (Some (-1))] /\
  matchall (bs "GAUGCAU"%bs) (bs "start"%bs) (RStr (bs "both"%bs)) 0 None
  = Some (map (degap_bm [x2d] (bs "GA-UGCA-U"%bs)) [mk_bm 1 5 (bs "A-UG"%bs) (Some 1); mk_bm 5 9 (bs "A-UG"%bs) (Some (-1))]) /\
  map (degap_bm [x2d] (bs "GA-UGCA-U"%bs)) [mk_bm 1 5 (bs "A-UG"%bs) (Some 1); mk_bm 5 9 (bs "A-UG"%bs) (Some (-1))]
  = [mk_bm 1 4 (bs "AUG"%bs) (Some 1); mk_bm 4 7 (bs "AUG"%bs) (Some (-1))].
Proof. exact (conj eq_refl (conj eq_refl (conj eq_refl eq_refl))). Qed.

(* gap transparency with a start offset, strand by strand: the offset is a column like any other and is translated by the residue
   numbering of the strand it counts on (forward strand: of the sequence, backward strand: of the reverse complement) *)
Theorem C13_gap_transparent_start : forall g ws s rfn st,
  forallb (fun w => nonempty w && plain_word g w) ws = true ->
  map (degap_bm g s) (fwd_list (map (compile_word (Some g)) ws) s (Z.of_nat st) (Some g) rfn)
  = fwd_list (map (compile_word None) ws) (degap g s) (Z.of_nat (rank g s st)) None rfn /\
  (forallb gap_char_ok g = true ->
   map (degap_bm g s) (bwd_list (map (compile_word (Some g)) ws) s (Z.of_nat st) (Some g) rfn)
   = bwd_list (map (compile_word None) ws) (degap g s) (Z.of_nat (rank g (rc s) st)) None rfn).
Proof.
  exact (fun g ws s rfn st H => conj (fwd_gap_transparent_start g ws H s rfn st) (bwd_gap_transparent_start g ws H s rfn st)).
Qed.
Print Assumptions C13_gap_transparent_start.

(* nothing requested is lost, for any matcher (in particular the regex-tree matcher): every finditer match at a column >= start
   whose frame is requested is an element of the result, forward strand, rf=None, backward strand *)
Theorem C13_rx_reported : forall m s start gap rfn,
  (forall l b e, rfn = Some l -> has_fwd l = true -> In (b, e) (finditer_m m s 0 0) -> start <= Z.of_nat b ->
     In (frame_of (fwd_gaps gap (Some l) s start) start (Z.of_nat b)) l ->
     In (mk_bm (Z.of_nat b) (Z.of_nat e) (slice b e s) (Some (frame_of (fwd_gaps gap (Some l) s start) start (Z.of_nat b))))
        (matchall_m m s rfn start gap)) /\
  (forall b e, rfn = None -> In (b, e) (finditer_m m s 0 0) -> start <= Z.of_nat b ->
     In (mk_bm (Z.of_nat b) (Z.of_nat e) (slice b e s) None) (matchall_m m s rfn start gap)) /\
  (forall l b e, rfn = Some l -> has_bwd l = true -> In (b, e) (finditer_m m (rc s) 0 0) -> start <= Z.of_nat b ->
     In (-1 * frame_of (bwd_gaps gap (rc s) start) start (Z.of_nat b) - 1) l ->
     In (mk_bm (Z.of_nat (length (rc s)) - Z.of_nat e) (Z.of_nat (length (rc s)) - Z.of_nat b) (slice b e (rc s))
           (Some (-1 * frame_of (bwd_gaps gap (rc s) start) start (Z.of_nat b) - 1)))
        (matchall_m m s rfn start gap)).
Proof. exact reported_m. Qed.
Print Assumptions C13_rx_reported.

(* the two matchers are one: the word matcher of the earlier rounds (ordered alternation of compiled words, "[gap]*" between the
   letters) is the regex-tree matcher on the tree of the word list, without and with gap tolerance; hence match()/matchall() for
   start / stop / codon lists is the generic pipeline over the tree matcher and every rx_ theorem applies to them *)
Theorem C13_word_matcher_is_tree_matcher : forall gap ws s, ws <> [] ->
  forallb (fun w => nonempty w && forallb wordch w) ws = true ->
  m_rx (eff_rx gap (rx_of_list ws)) s = m_alts (map (compile_word gap) ws) s.
Proof. exact words_tree. Qed.
Print Assumptions C13_word_matcher_is_tree_matcher.

Theorem C13_matchall_words_tree : forall s sub rf start gap, wf_sub sub = true ->
  matchall s sub rf start gap =
  option_map (fun rfn => matchall_m (m_rx (eff_rx gap (rx_of_list (words sub)))) s rfn start gap) (norm_rf rf).
Proof. exact matchall_words_tree. Qed.
Print Assumptions C13_matchall_words_tree.

(* gap tolerance as the property states it, for pattern trees whose characters are residues: every reported group, with its gap
   characters removed, is matched by the ORIGINAL pattern *)
Theorem C13_rx_group_degapped : forall g r s rfn start x, gapfree g r = true -> 0 <= start ->
  In x (matchall_m (m_rx (eff_rx (Some g) r)) s rfn start (Some g)) -> lang r (degap g (bm_group x)).
Proof. exact rx_group_degapped. Qed.
Print Assumptions C13_rx_group_degapped.

(* token words (concatenations of letters, ".", classes, negated classes; e.g. A[TU]G, A[^A]G, .TG): a string is matched iff it has
   exactly one character per token, each matched by its token; a group has as many characters as the pattern has tokens *)
Theorem C13_token_word_language : forall a l t, forallb tok_ok (a :: l) = true ->
  (lang (cat_of a l) t <-> Forall2 tok_match (a :: l) t) /\ (lang (cat_of a l) t -> length t = S (length l)).
Proof. exact (fun a l t H => conj (token_word_language l a t H) (token_word_length l a t H)). Qed.
Print Assumptions C13_token_word_language.
