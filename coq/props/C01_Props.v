(* C01 -- Sequence files round-trip: write then read returns the same sequences.
   Only statements here; proofs are in proof/C01_*.v. The model is model/C01_Model.v. *)
From Coq Require Import List ZArith NArith Bool.
From Coq.Strings Require Import Byte.
Import ListNotations.
From SV Require Import Text C01_Lines G_codes G_c01_io C01_Model C01_Lemmas C01_Formats C01_Stockholm C01_Domain C01_Main C01_IdPattern C01_Reader.

(* the FASTA id matcher of the model was written for exactly the pattern text found in /repo *)
Theorem C01_idpattern_pinned : FASTA_IDPATTERN_TEXT = IDPATTERN_PINNED.
Proof. exact idpattern_pinned. Qed.
Print Assumptions C01_idpattern_pinned.

(* THE PROPERTY, for every basket in the domain decided by the harness (wf_basket) and each of the four formats:
   reading what write produced returns the same number of sequences, in the same order, with identical ids and residue
   strings (upper-cased by BioSeq()); writing and reading the objects read back reproduces these objects, and the written
   text is then the same text again (for FASTA, Stockholm, GFF already the first text) *)
Theorem C01_roundtrip_all : forall f xs, wf_basket f xs = true ->
  exists t o, write_w f (build xs) = Ok t /\ read_content f t = Ok o
    /\ length o = length xs
    /\ map b_id o = map (fun x => fst (fst x)) xs
    /\ map b_data o = map (fun x => upper (snd (fst x))) xs
    /\ exists t2, write_w f o = Ok t2 /\ read_content f t2 = Ok o /\ (f <> Sjson -> t2 = t).
Proof. exact roundtrip_all. Qed.
Print Assumptions C01_roundtrip_all.

(* the same at object level (any BioSeq values in the per-format domain, not only freshly constructed ones) *)
Theorem C01_format_cycle : forall f b, wfb_basket f b = true ->
  exists t t2, write_w f b = Ok t /\ read_content f t = Ok (map (norm_of f) b)
               /\ write_w f (map (norm_of f) b) = Ok t2 /\ read_content f t2 = Ok (map (norm_of f) b)
               /\ (f <> Sjson -> t2 = t).
Proof. exact format_cycle. Qed.
Print Assumptions C01_format_cycle.

Theorem C01_domain_bridge : forall f xs, wf_basket f xs = true -> wfb_basket f (build xs) = true /\ xs <> [].
Proof. exact domain_bridge. Qed.
Print Assumptions C01_domain_bridge.

Theorem C01_fasta_roundtrip : forall b, forallb wfb_fasta b = true ->
  exists t, write_w Fasta b = Ok t /\ read_content Fasta t = Ok (map (norm_fasta Fasta) b)
            /\ write_w Fasta (map (norm_fasta Fasta) b) = Ok t.
Proof. exact fasta_cycle. Qed.
Print Assumptions C01_fasta_roundtrip.

Theorem C01_stockholm_roundtrip : forall b, wf_stk_basket b = true ->
  exists t, write_w Stockholm b = Ok t /\ read_content Stockholm t = Ok (map (norm_plain Stockholm) b)
            /\ write_w Stockholm (map (norm_plain Stockholm) b) = Ok t.
Proof. exact stockholm_roundtrip. Qed.
Print Assumptions C01_stockholm_roundtrip.

Theorem C01_gff_seq_roundtrip : forall b, forallb wfb_fasta b = true ->
  exists t, write_w Gff b = Ok t /\ read_content Gff t = Ok (map (norm_fasta Gff) b)
            /\ write_w Gff (map (norm_fasta Gff) b) = Ok t.
Proof. exact gff_seq_roundtrip. Qed.
Print Assumptions C01_gff_seq_roundtrip.

Theorem C01_sjson_seq_roundtrip : forall b, forallb data_upper b = true ->
  exists t, write_w Sjson b = Ok t /\ read_content Sjson t = Ok (map (norm_plain Sjson) b)
            /\ exists t2, write_w Sjson (map (norm_plain Sjson) b) = Ok t2
                          /\ read_content Sjson t2 = Ok (map (norm_plain Sjson) b).
Proof. exact sjson_seq_roundtrip. Qed.
Print Assumptions C01_sjson_seq_roundtrip.

(* appending with mode 'a' equals writing the concatenated basket (any sequences whatsoever), and mode 'a' selects
   append_fasta per sequence *)
Theorem C01_fasta_append : forall b1 b2,
  bind (write_w Fasta b1) (fun c1 => write_file Fasta true c1 b2) = write_w Fasta (b1 ++ b2)
  /\ write_dispatch Fasta true false b2 = Ok (CText (concat (map append_fasta b2))).
Proof. exact fasta_append_main. Qed.
Print Assumptions C01_fasta_append.

(* reading FASTA is insensitive to how the residues of a record are laid out: two bodies (lines not starting with '>')
   whose non-comment lines, stripped and joined, agree up to case are read identically, whatever precedes and follows *)
Theorem C01_fasta_rewrap : forall body1 body2 hl rest st,
  forallb is_body_line body1 = true -> forallb is_body_line body2 = true ->
  head_is GT hl = true -> upper (payload body1) = upper (payload body2) ->
  iter_fasta st (hl :: body1 ++ rest) = iter_fasta st (hl :: body2 ++ rest).
Proof. exact fasta_rewrap. Qed.
Print Assumptions C01_fasta_rewrap.

(* ... in particular wrapping at any width w >= 1 ... *)
Theorem C01_wrap_payload : forall w s, w <> 0 -> residues_ok s = true ->
  payload (wrap w s) = s /\ forallb is_body_line (wrap w s) = true.
Proof. exact wrap_payload. Qed.
Print Assumptions C01_wrap_payload.

(* ... and inserting a ';' comment line or a blank line anywhere *)
Theorem C01_payload_insert : forall a l b, head_is SEMI l = true \/ strip l = [] -> payload (a ++ l :: b) = payload (a ++ b).
Proof. exact payload_insert. Qed.
Print Assumptions C01_payload_insert.

(* '>id description' header lines are kept verbatim by read -> write *)
Theorem C01_fasta_header_verbatim : forall i d s, id_fasta_ok i = true -> d <> [] -> strip d = d -> residues_ok s = true ->
  exists r, read_fasta_lines [GT :: i ++ SP :: d; s] = Ok [r] /\ b_id r = Some i /\ b_data r = upper s
            /\ fasta_header_line r = GT :: i ++ SP :: d.
Proof. exact fasta_header_verbatim. Qed.
Print Assumptions C01_fasta_header_verbatim.

(* the id extractor is idempotent: whatever id the reader extracts from a header is a run of CHS characters that is
   extracted from itself again (so ids produced by the reader survive every later cycle) *)
Theorem C01_id_from_header_idem : forall h g, id_from_header h = Some g ->
  forallb chs g = true /\ g <> [] /\ id_from_header g = Some g.
Proof. exact id_from_header_idem. Qed.
Print Assumptions C01_id_from_header_idem.

(* reader side: ANY FASTA text in the reader domain (printable ASCII; arbitrary wrapping, comment and blank lines, case,
   header styles, CRLF; parsed ids printable and not starting with '>', residues in the alphabet) is read into objects
   of the writer domain; the text written from them (t2) is read back as objects with the same ids and residues
   (norm_fasta only normalises meta._fasta.header), and these are written as t2 again: identical bytes from then on *)
Theorem C01_fasta_reader_fixpoint : forall t, wf_text Fasta t = true ->
  exists o1 t2, read_content Fasta (CText t) = Ok o1 /\ forallb wfb_fasta o1 = true
    /\ write_w Fasta o1 = Ok t2 /\ read_content Fasta t2 = Ok (map (norm_fasta Fasta) o1)
    /\ write_w Fasta (map (norm_fasta Fasta) o1) = Ok t2.
Proof. exact fasta_reader_fixpoint. Qed.
Print Assumptions C01_fasta_reader_fixpoint.

(* ... and blank lines or ';' comment lines before the first header are skipped (fasta.py:74-80, after the fix
   "FASTA reader skips blank lines before the first header") *)
Theorem C01_fasta_leading_skip : forall pre rest, forallb is_skip_line pre = true ->
  iter_fasta None (pre ++ rest) = iter_fasta None rest.
Proof. exact fasta_leading_skip. Qed.
Print Assumptions C01_fasta_leading_skip.

(* witness of the repaired defect: a text starting with a blank line is in the reader domain and reads as without it;
   residues before the first header are rejected with ValueError *)
Theorem C01_leading_blank_witness :
  read_content Fasta (CText ([x0a] ++ bs ">a"%bs ++ [x0a] ++ bs "ACGT"%bs ++ [x0a]))
    = read_content Fasta (CText (bs ">a"%bs ++ [x0a] ++ bs "ACGT"%bs ++ [x0a]))
  /\ wf_text Fasta ([x0a] ++ bs " "%bs ++ [x0a] ++ bs ">a"%bs ++ [x0a] ++ bs "ACGT"%bs ++ [x0a]) = true
  /\ read_content Fasta (CText (bs "ACGT"%bs ++ [x0a] ++ bs ">a"%bs ++ [x0a])) = Err E_Value.
Proof. exact (conj eq_refl (conj eq_refl eq_refl)). Qed.
Print Assumptions C01_leading_blank_witness.

(* non-vacuity: a basket with a lower-case protein containing 'meta', a db-tag free id with ':' and a description header *)
Example C01_witness_domain :
  wf_basket Fasta [(Some (bs "seq:1"%bs), bs "lametal*"%bs, Some (bs "seq:1 some protein"%bs)); (Some (bs "n2"%bs), bs "ACGU-n"%bs, None)] = true
  /\ wf_basket Stockholm [(Some (bs "a/1-8"%bs), bs "metaACGU"%bs, None); (Some (bs "b"%bs), bs "--..acgu"%bs, None)] = true
  /\ wf_basket Gff [(Some (bs "chr1"%bs), bs "acgtn"%bs, None)] = true
  /\ wf_basket Sjson [(Some (bs "gb:x|y"%bs), bs ""%bs, None)] = true
  /\ id_fasta_ok (bs "gb:x"%bs) = false.
Proof. exact (conj eq_refl (conj eq_refl (conj eq_refl (conj eq_refl eq_refl)))). Qed.

Example C01_witness_rewrap :
  wrap 3 (bs "ACGTmeta"%bs) = [bs "ACG"%bs; bs "Tme"%bs; bs "ta"%bs]
  /\ Bstr (payload [bs "ACG"%bs; bs ";c"%bs; bs " tme "%bs; bs ""%bs; bs "ta"%bs]) = "ACGtmeta"%bs.
Proof. exact (conj eq_refl eq_refl). Qed.

Example C01_witness_reader :
  wf_text Fasta (bs ">gb:x1 a protein"%bs ++ [x0d; x0a] ++ bs "lame"%bs ++ [x0a] ++ bs ";c"%bs ++ [x0a; x0a] ++ bs " tal* "%bs ++ [x0a]) = true
  /\ id_from_header (bs "sp|P1|NAME_X desc"%bs) = Some (bs "P1"%bs).
Proof. exact (conj eq_refl eq_refl). Qed.
