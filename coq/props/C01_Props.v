(* C01 -- Sequence files round-trip: write then read returns the same sequences.
   Only statements here; proofs are in proof/C01_*.v. The model is model/C01_Model.v. *)
From Coq Require Import List ZArith NArith Bool.
From Coq.Strings Require Import Byte.
Import ListNotations.
From SV Require Import Text C01_Lines G_codes G_c01_io C01_Model C01_Detect C01_Lemmas C01_Formats C01_Dec C01_Stockholm C01_Domain C01_Gff C01_Main C01_IdPattern C01_Reader C01_Sniff C01_Layout C01_Json C01_Append C01_Init.

(* the FASTA id matcher of the model was written for exactly the pattern text found in /repo *)
Theorem C01_idpattern_pinned : FASTA_IDPATTERN_CANON = IDPATTERN_PINNED.
Proof. exact idpattern_pinned. Qed.
Print Assumptions C01_idpattern_pinned.

(* THE PROPERTY, for every basket in the domain decided by the harness (wf_basket) and each of the four formats:
   reading what write produced returns the same number of sequences, in the same order, with identical ids and residue
   strings (upper-cased by BioSeq()); writing and reading the objects read back reproduces these objects, and the written
   text is then the same text again (for FASTA, Stockholm, GFF already the first text) *)
Theorem C01_roundtrip_all : forall f xs, wf_basket f xs = true ->
  exists t o, write_w f (build xs) = Ok t /\ read_content f t = Ok o
    /\ length o = length xs
    /\ map b_id o = map (fun x => fst (fst x)) xs
    /\ map b_data o = map (fun x => upper (snd (fst x))) xs
    /\ exists t2, write_w f o = Ok t2 /\ read_content f t2 = Ok o /\ (f <> Sjson -> t2 = t).
Proof. exact roundtrip_all. Qed.
Print Assumptions C01_roundtrip_all.

(* the same at object level (any BioSeq values in the per-format domain, not only freshly constructed ones) *)
Theorem C01_format_cycle : forall f b, wfb_basket f b = true ->
  exists t t2, write_w f b = Ok t /\ read_content f t = Ok (map (norm_of f) b)
               /\ write_w f (map (norm_of f) b) = Ok t2 /\ read_content f t2 = Ok (map (norm_of f) b)
               /\ (f <> Sjson -> t2 = t).
Proof. exact format_cycle. Qed.
Print Assumptions C01_format_cycle.

Theorem C01_domain_bridge : forall f xs, wf_basket f xs = true -> wfb_basket f (build xs) = true /\ xs <> [].
Proof. exact domain_bridge. Qed.
Print Assumptions C01_domain_bridge.

Theorem C01_fasta_roundtrip : forall b, forallb wfb_fasta b = true ->
  exists t, write_w Fasta b = Ok t /\ read_content Fasta t = Ok (map (norm_fasta Fasta) b)
            /\ write_w Fasta (map (norm_fasta Fasta) b) = Ok t.
Proof. exact fasta_cycle. Qed.
Print Assumptions C01_fasta_roundtrip.

Theorem C01_stockholm_roundtrip : forall b, wf_stk_basket b = true ->
  exists t, write_w Stockholm b = Ok t /\ read_content Stockholm t = Ok (map (norm_plain Stockholm) b)
            /\ write_w Stockholm (map (norm_plain Stockholm) b) = Ok t.
Proof. exact stockholm_roundtrip. Qed.
Print Assumptions C01_stockholm_roundtrip.

Theorem C01_gff_seq_roundtrip : forall b, forallb wfb_fasta b = true ->
  exists t, write_w Gff b = Ok t /\ read_content Gff t = Ok (map (norm_fasta Gff) b)
            /\ write_w Gff (map (norm_fasta Gff) b) = Ok t.
Proof. exact gff_seq_roundtrip. Qed.
Print Assumptions C01_gff_seq_roundtrip.

Theorem C01_sjson_seq_roundtrip : forall b, forallb data_upper b = true ->
  exists t, write_w Sjson b = Ok t /\ read_content Sjson t = Ok (map (norm_plain Sjson) b)
            /\ exists t2, write_w Sjson (map (norm_plain Sjson) b) = Ok t2
                          /\ read_content Sjson t2 = Ok (map (norm_plain Sjson) b).
Proof. exact sjson_seq_roundtrip. Qed.
Print Assumptions C01_sjson_seq_roundtrip.

(* appending with mode 'a' equals writing the concatenated basket (any sequences whatsoever), and mode 'a' selects
   append_fasta per sequence *)
Theorem C01_fasta_append : forall b1 b2,
  bind (write_w Fasta b1) (fun c1 => write_file Fasta true c1 b2) = write_w Fasta (b1 ++ b2)
  /\ write_dispatch Fasta true false b2 = Ok (CText (concat (map append_fasta b2))).
Proof. exact fasta_append_main. Qed.
Print Assumptions C01_fasta_append.

(* reading FASTA is insensitive to how the residues of a record are laid out: two bodies (lines not starting with '>')
   whose non-comment lines, stripped and joined, agree up to case are read identically, whatever precedes and follows *)
Theorem C01_fasta_rewrap : forall body1 body2 hl rest st,
  forallb is_body_line body1 = true -> forallb is_body_line body2 = true ->
  head_is GT hl = true -> upper (payload body1) = upper (payload body2) ->
  iter_fasta st (hl :: body1 ++ rest) = iter_fasta st (hl :: body2 ++ rest).
Proof. exact fasta_rewrap. Qed.
Print Assumptions C01_fasta_rewrap.

(* ... in particular wrapping at any width w >= 1 ... *)
Theorem C01_wrap_payload : forall w s, w <> 0 -> residues_ok s = true ->
  payload (wrap w s) = s /\ forallb is_body_line (wrap w s) = true.
Proof. exact wrap_payload. Qed.
Print Assumptions C01_wrap_payload.

(* ... and inserting a ';' comment line or a blank line anywhere *)
Theorem C01_payload_insert : forall a l b, head_is SEMI l = true \/ strip l = [] -> payload (a ++ l :: b) = payload (a ++ b).
Proof. exact payload_insert. Qed.
Print Assumptions C01_payload_insert.

(* '>id description' header lines are kept verbatim by read -> write *)
Theorem C01_fasta_header_verbatim : forall i d s, id_fasta_ok i = true -> d <> [] -> strip d = d -> residues_ok s = true ->
  exists r, read_fasta_lines [GT :: i ++ SP :: d; s] = Ok [r] /\ b_id r = Some i /\ b_data r = upper s
            /\ fasta_header_line r = GT :: i ++ SP :: d.
Proof. exact fasta_header_verbatim. Qed.
Print Assumptions C01_fasta_header_verbatim.

(* the id extractor is idempotent: whatever id the reader extracts from a header is a run of CHS characters that is
   extracted from itself again (so ids produced by the reader survive every later cycle) *)
Theorem C01_id_from_header_idem : forall h g, id_from_header h = Some g ->
  forallb chs g = true /\ g <> [] /\ id_from_header g = Some g.
Proof. exact id_from_header_idem. Qed.
Print Assumptions C01_id_from_header_idem.

(* reader side: ANY FASTA text in the reader domain (printable ASCII; arbitrary wrapping, comment and blank lines, case,
   header styles, CRLF; parsed ids printable and not starting with '>', residues in the alphabet) is read into objects
   of the writer domain; the text written from them (t2) is read back as objects with the same ids and residues
   (norm_fasta only normalises meta._fasta.header), and these are written as t2 again: identical bytes from then on *)
Theorem C01_fasta_reader_fixpoint : forall t, wf_text Fasta t = true ->
  exists o1 t2, read_content Fasta (CText t) = Ok o1 /\ forallb wfb_fasta o1 = true
    /\ write_w Fasta o1 = Ok t2 /\ read_content Fasta t2 = Ok (map (norm_fasta Fasta) o1)
    /\ write_w Fasta (map (norm_fasta Fasta) o1) = Ok t2.
Proof. exact fasta_reader_fixpoint. Qed.
Print Assumptions C01_fasta_reader_fixpoint.

(* ... and blank lines or ';' comment lines before the first header are skipped (fasta.py:74-80, after the fix
   "FASTA reader skips blank lines before the first header") *)
Theorem C01_fasta_leading_skip : forall pre rest, forallb is_skip_line pre = true ->
  iter_fasta None (pre ++ rest) = iter_fasta None rest.
Proof. exact fasta_leading_skip. Qed.
Print Assumptions C01_fasta_leading_skip.

(* witness of the repaired defect: a text starting with a blank line is in the reader domain and reads as without it;
   residues before the first header are rejected with ValueError *)
Theorem C01_leading_blank_witness :
  read_content Fasta (CText ([x0a] ++ bs ">a"%bs ++ [x0a] ++ bs "ACGT"%bs ++ [x0a]))
    = read_content Fasta (CText (bs ">a"%bs ++ [x0a] ++ bs "ACGT"%bs ++ [x0a]))
  /\ wf_text Fasta ([x0a] ++ bs " "%bs ++ [x0a] ++ bs ">a"%bs ++ [x0a] ++ bs "ACGT"%bs ++ [x0a]) = true
  /\ read_content Fasta (CText (bs "ACGT"%bs ++ [x0a] ++ bs ">a"%bs ++ [x0a])) = Err E_Value.
Proof. exact (conj eq_refl (conj eq_refl eq_refl)). Qed.
Print Assumptions C01_leading_blank_witness.

(* ... in any position of the file and with any layout of the record body *)
Theorem C01_fasta_header_verbatim_general : forall i d body rest st, id_fasta_ok i = true -> d <> [] -> strip d = d ->
  forallb is_body_line body = true ->
  iter_fasta st ((GT :: i ++ SP :: d) :: body ++ rest)
  = bind (iter_fasta (Some (Some i, i ++ SP :: d, payload body)) rest) (fun r => Ok (flush st ++ r))
  /\ forall x, fasta_header_line (create_bioseq (Some i, i ++ SP :: d, x)) = GT :: i ++ SP :: d.
Proof. exact fasta_header_verbatim_general. Qed.
Print Assumptions C01_fasta_header_verbatim_general.

(* Stockholm: an interleaved alignment (two blocks with the same ids, optionally separated by blank lines) is read like
   the alignment whose rows are the per-id concatenations *)
Theorem C01_stk_interleave : forall ks vs ws sep rest d, distinct ks = true -> length vs = length ks -> length ws = length ks ->
  forallb row_ok (combine ks vs) = true -> forallb row_ok (combine ks ws) = true ->
  forallb row_ok (combine ks (zip_app vs ws)) = true ->
  forallb (fun l => match strip l with [] => true | _ => false end) sep = true ->
  stk_loop (map row_line (combine ks vs) ++ sep ++ map row_line (combine ks ws) ++ rest) d
  = stk_loop (map row_line (combine ks (zip_app vs ws)) ++ rest) d.
Proof. exact stk_interleave. Qed.
Print Assumptions C01_stk_interleave.

(* GFF baskets that carry plain features (Feature(type, [Location(start, stop, strand)]) with a seqid): every feature line
   the writer emits is accepted and skipped by the feature reader, is no '##FASTA' directive and contains no line break ... *)
Theorem C01_gft_line_ok : forall ft, wf_gft ft = true -> pre_line_ok (gff_ft_line ft) = true.
Proof. exact gft_line_ok. Qed.
Print Assumptions C01_gft_line_ok.

(* ... whatever acceptable lines precede the sequence section, the sequences round-trip ... *)
Theorem C01_gff_pre_roundtrip : forall fl b, forallb pre_line_ok fl = true -> forallb wfb_fasta b = true ->
  read_content Gff (CText (unlines (write_gff_lines_fts fl b))) = Ok (map (norm_fasta Gff) b)
  /\ write_gff_lines_fts fl (map (norm_fasta Gff) b) = write_gff_lines_fts fl b.
Proof. exact gff_pre_roundtrip. Qed.
Print Assumptions C01_gff_pre_roundtrip.

(* ... hence count, order, ids and residues of a basket with features survive write -> read, and writing the objects read
   back with the same features gives the same text (the features themselves are property C02) *)
Theorem C01_gff_fts_roundtrip : forall xs fts, wf_basket Gff xs = true -> forallb wf_gft fts = true ->
  exists t o, write_w_fts Gff fts (build xs) = Ok t /\ read_content Gff t = Ok o
    /\ length o = length xs
    /\ map b_id o = map (fun x => fst (fst x)) xs
    /\ map b_data o = map (fun x => upper (snd (fst x))) xs
    /\ write_w_fts Gff fts o = Ok t.
Proof. exact gff_fts_roundtrip_all. Qed.
Print Assumptions C01_gff_fts_roundtrip.

(* the documented reader options of the GFF reader (filt_fast, filt, default_ftype; comments only collects) do not change
   which SEQUENCES are read from a GFF3 + ##FASTA text written by sugar, with or without feature lines *)
Theorem C01_gff_options_irrelevant : forall o fl b, forallb pre_line_ok fl = true -> forallb wfb_fasta b = true ->
  read_gff_opt o (CText (unlines (write_gff_lines_fts fl b))) = Ok (map (norm_fasta Gff) b)
  /\ read_gff_opt o (CText (unlines (write_gff_lines_fts fl b))) = read_content Gff (CText (unlines (write_gff_lines_fts fl b))).
Proof. exact gff_options_irrelevant. Qed.
Print Assumptions C01_gff_options_irrelevant.

Theorem C01_gff_fts_options : forall o fts b t, forallb wf_gft fts = true -> forallb wfb_fasta b = true ->
  write_w_fts Gff fts b = Ok t -> read_gff_opt o t = Ok (map (norm_fasta Gff) b).
Proof. exact gff_fts_options. Qed.
Print Assumptions C01_gff_fts_options.

(* reader side for GFF3 + ##FASTA and for Stockholm: any text of the reader domain is read into the writer domain and
   reaches the fixpoint with the first written text *)
Theorem C01_gff_reader_fixpoint : forall t, wf_text Gff t = true ->
  exists o1 t2, read_content Gff (CText t) = Ok o1 /\ forallb wfb_fasta o1 = true
    /\ write_w Gff o1 = Ok t2 /\ read_content Gff t2 = Ok (map (norm_fasta Gff) o1)
    /\ write_w Gff (map (norm_fasta Gff) o1) = Ok t2.
Proof. exact gff_reader_fixpoint. Qed.
Print Assumptions C01_gff_reader_fixpoint.

Theorem C01_stockholm_reader_fixpoint : forall t, wf_text Stockholm t = true ->
  exists o1 t2, read_content Stockholm (CText t) = Ok o1 /\ wf_stk_basket o1 = true
    /\ write_w Stockholm o1 = Ok t2 /\ read_content Stockholm t2 = Ok (map (norm_plain Stockholm) o1)
    /\ write_w Stockholm (map (norm_plain Stockholm) o1) = Ok t2.
Proof. exact stockholm_reader_fixpoint. Qed.
Print Assumptions C01_stockholm_reader_fixpoint.

(* ---- format detection: sugar's five sniffers (fasta, genbank, stockholm, gff, sjson) tried in the plugin order of /repo ---- *)
(* detect() is first-match over the plugin order found in /repo: fasta, genbank, stockholm, gff, sjson *)
Theorem C01_detect_order : forall t,
  detect t = if is_fasta t then Some N_fasta else if is_genbank t then Some N_genbank
             else if is_stockholm t then Some N_stockholm else if is_gff t then Some N_gff
             else if is_sjson t then Some N_sjson else None.
Proof. exact detect_unfold. Qed.
Print Assumptions C01_detect_order.

(* every text write() produces for a non-empty basket is recognised as its own format (SJSON: on the bytes json.dump renders) *)
Theorem C01_written_detected : forall f b c, b <> [] -> write_w f b = Ok c -> detect (content_text c) = Some (fmt_name f).
Proof. exact written_detected. Qed.
Print Assumptions C01_written_detected.

(* ... so the property also holds when read() is called without fmt: same objects, fixpoint from the first / second text on *)
Theorem C01_auto_roundtrip : forall f b, wfb_basket f b = true -> b <> [] ->
  exists t t2, write_w f b = Ok t /\ read_auto t = Ok (map (norm_of f) b)
               /\ write_w f (map (norm_of f) b) = Ok t2 /\ read_auto t2 = Ok (map (norm_of f) b)
               /\ (f <> Sjson -> t2 = t).
Proof. exact auto_roundtrip. Qed.
Print Assumptions C01_auto_roundtrip.

(* GFF3 texts with any feature lines in front of the sequence section (also for an empty basket) *)
Theorem C01_gff_fts_detected : forall fl b, detect (unlines (write_gff_lines_fts fl b)) = Some (fmt_name Gff).
Proof. exact gff_fts_detected. Qed.
Print Assumptions C01_gff_fts_detected.

Theorem C01_gff_fts_auto : forall fts b t, write_w_fts Gff fts b = Ok t -> read_auto t = read_content Gff t.
Proof. exact gff_fts_auto. Qed.
Print Assumptions C01_gff_fts_auto.

(* the FASTA sniffer tolerates leading whitespace inside its 50-character window *)
Theorem C01_fasta_sniff_leading_ws : forall pre t, forallb is_ws pre = true -> no_byte cr pre = true -> length pre < 50 ->
  is_fasta (pre ++ GT :: t) = true.
Proof. exact fasta_sniff_leading_ws. Qed.
Print Assumptions C01_fasta_sniff_leading_ws.

(* the JSON text of any tree contains no raw tab (json.dump escapes it), which is why is_gff cannot claim an SJSON file *)
Theorem C01_jdump_no_tab : forall t, no_byte TAB (jdump t) = true.
Proof. exact jdump_no_tab. Qed.
Print Assumptions C01_jdump_no_tab.

(* ---- SJSON at byte level: json.load (a parser for the subset of JSON sugar writes) inverts json.dump on EVERY tree ---- *)
Theorem C01_jparse_jdump : forall t fuel rest, tsize t <= fuel -> jparse_val fuel (jdump t ++ rest) = Some (t, rest).
Proof. exact jparse_jdump. Qed.
Print Assumptions C01_jparse_jdump.

Theorem C01_jload_jdump : forall t w1 w2, forallb jws w1 = true -> forallb jws w2 = true -> jload (w1 ++ jdump t ++ w2) = Some t.
Proof. exact jload_jdump_ws2. Qed.
Print Assumptions C01_jload_jdump.

(* reading the characters of a written file is reading its content, for every format (for SJSON: parse the bytes) ... *)
Theorem C01_read_bytes_written : forall f b c, write_w f b = Ok c -> read_bytes f (content_text c) = read_content f c.
Proof. exact read_bytes_written. Qed.
Print Assumptions C01_read_bytes_written.

(* ... so THE PROPERTY holds on bytes for all four formats: write -> read returns the normalised basket, and so does the next cycle *)
Theorem C01_bytes_roundtrip : forall f b, wfb_basket f b = true ->
  exists c c2, write_w f b = Ok c /\ read_bytes f (content_text c) = Ok (map (norm_of f) b)
               /\ write_w f (map (norm_of f) b) = Ok c2 /\ read_bytes f (content_text c2) = Ok (map (norm_of f) b)
               /\ (f <> Sjson -> content_text c2 = content_text c).
Proof. exact bytes_roundtrip. Qed.
Print Assumptions C01_bytes_roundtrip.

(* reader side for SJSON: ANY characters that read() decodes to a basket (no domain condition) give objects that are written
   and read back as exactly themselves, on bytes, with the format given or detected *)
Theorem C01_sjson_reader_fixpoint : forall t o, read_bytes Sjson t = Ok o ->
  exists c, write_w Sjson o = Ok c /\ read_bytes Sjson (content_text c) = Ok o /\ read_auto c = Ok o.
Proof. exact sjson_reader_fixpoint. Qed.
Print Assumptions C01_sjson_reader_fixpoint.

(* the FASTA sniffer with ANY leading whitespace (also CR / CRLF, which the text layer translates) shorter than its window *)
Theorem C01_fasta_sniff_leading_ws_any : forall pre t, forallb is_ws pre = true -> length pre < 50 -> is_fasta (pre ++ GT :: t) = true.
Proof. exact fasta_sniff_leading_ws_any. Qed.
Print Assumptions C01_fasta_sniff_leading_ws_any.

(* each plugin of /repo has exactly one reader and one writer entry point: read() and iter_() run the same function, and
   'No read / write support' cannot happen *)
Theorem C01_plugins_complete : forall f, xorb (has_read f) (has_iter f) = true /\ xorb (has_append f) (has_write f) = true
  /\ (forall b, exists c, write_dispatch f false true b = Ok c) /\ (forall b, exists c, write_dispatch f true false b = Ok c).
Proof. exact plugins_complete. Qed.
Print Assumptions C01_plugins_complete.

(* ---- write(basket, name): os.path.splitext on POSIX names and the extension table of /repo ---- *)
(* directories do not matter *)
Theorem C01_basename_dir : forall d b, no_byte SLASH b = true -> basename (d ++ SLASH :: b) = b /\ basename b = b.
Proof. exact basename_dir. Qed.
Print Assumptions C01_basename_dir.

(* the LAST suffix of the base name decides, whatever other dots and suffixes the name has *)
Theorem C01_detect_ext_last_suffix : forall p stem e, basename p = stem ++ DOTB :: e -> no_byte DOTB e = true ->
  all_dots stem = false -> ext_of p = e /\ detect_ext p = detect_ext_in SEQ_EXT_TABLE e.
Proof. exact detect_ext_last_suffix. Qed.
Print Assumptions C01_detect_ext_last_suffix.

(* names without a suffix (and hidden files such as ".fasta") have no format: write raises IOError *)
Theorem C01_ext_of_no_suffix : forall p b, no_byte DOTB (basename p) = true ->
  ext_of p = [] /\ detect_ext p = None /\ write_byname p b = Err E_OS.
Proof. exact ext_of_no_suffix. Qed.
Print Assumptions C01_ext_of_no_suffix.

Theorem C01_ext_of_hidden : forall p stem e, basename p = stem ++ DOTB :: e -> no_byte DOTB e = true -> all_dots stem = true ->
  ext_of p = [] /\ detect_ext p = None.
Proof. exact ext_of_hidden. Qed.
Print Assumptions C01_ext_of_hidden.

(* the extension table found in /repo is consistent: each extension selects the plugin that lists it, no dots, all writable *)
Theorem C01_ext_table_ok : ext_table_ok = true.
Proof. exact ext_table_ok_true. Qed.
Print Assumptions C01_ext_table_ok.

(* writing by name round-trips: the format is taken from the name on writing and from the content on reading *)
Theorem C01_byname_roundtrip : forall f e p stem b, In e (ext_list f) -> basename p = stem ++ DOTB :: e -> all_dots stem = false ->
  wfb_basket f b = true -> b <> [] ->
  detect_ext p = Some (fmt_name f) /\ write_byname p b = write_w f b
  /\ exists t, write_byname p b = Ok t /\ read_auto t = Ok (map (norm_of f) b).
Proof. exact byname_roundtrip_full. Qed.
Print Assumptions C01_byname_roundtrip.

(* ---- mode 'a' of write() for every format ---- *)
(* which plugin function write() calls: append_<fmt> per sequence exists only for FASTA; the other formats fall through to
   write_<fmt> on the handle opened for appending (and mode 'w' of FASTA falls through to append_fasta) *)
Theorem C01_append_dispatch : forall f b,
  write_dispatch f true false b = Ok (if has_append f then append_each f b else write_fmt f b)
  /\ write_dispatch f false true b = Ok (if has_write f then write_fmt f b else append_each f b)
  /\ (has_append f = true <-> f = Fasta) /\ (has_write f = false <-> f = Fasta).
Proof. exact append_dispatch. Qed.
Print Assumptions C01_append_dispatch.

Theorem C01_append_file : forall f old b, exists c, write_w f b = Ok c /\ write_file f true old b = Ok (content_app old c).
Proof. exact append_file. Qed.
Print Assumptions C01_append_file.

(* "appending equals writing the concatenated basket" is a FASTA fact: a Stockholm file that was appended to reads back as
   the FIRST alignment only (the reader stops at the first "//"), as write()'s documentation warns *)
Theorem C01_stk_append_reads_first : forall b1 b2, wf_stk_basket b1 = true -> forallb wfb_stk b2 = true ->
  exists c, bind (write_w Stockholm b1) (fun c1 => write_file Stockholm true c1 b2) = Ok c
            /\ read_content Stockholm c = Ok (map (norm_plain Stockholm) b1).
Proof. exact stk_append_reads_first. Qed.
Print Assumptions C01_stk_append_reads_first.

(* ---- BioSeq(data, id, meta, type), seq.py:213-243 ---- *)
Theorem C01_bioseq_init_plain : forall s id, bioseq_init (DStr s) id None None = Ok (bioseq s id).
Proof. exact bioseq_init_plain. Qed.
Print Assumptions C01_bioseq_init_plain.

(* data is the upper-cased text; the type is the given one, or 'nt' iff every UPPER-CASED letter is a nucleotide code;
   any other type value is an AssertionError *)
Theorem C01_bioseq_init_data_type : forall d id meta ty,
  match ty with
  | None => exists i, bioseq_init d id meta ty = Ok i /\ b_data i = upper (src_data d) /\ b_nt i = forallb is_code (upper (src_data d))
  | Some t =>
      if str_eqb t (bs "nt"%bs) || str_eqb t (bs "aa"%bs)
      then exists i, bioseq_init d id meta ty = Ok i /\ b_data i = upper (src_data d) /\ b_nt i = str_eqb t (bs "nt"%bs)
      else bioseq_init d id meta ty = Err E_Assertion
  end.
Proof. exact bioseq_init_data_type. Qed.
Print Assumptions C01_bioseq_init_data_type.

(* id precedence ("if id or 'id' not in self.meta") *)
Theorem C01_bioseq_init_id : forall d id meta ty i, bioseq_init d id meta ty = Ok i ->
  (truthy id = true -> b_id i = id)
  /\ (truthy id = false -> forall b0, d = DSeq b0 -> b_id i = b_id b0)
  /\ (truthy id = false -> forall s m, d = DStr s -> meta = Some (Some m) -> b_id i = m)
  /\ (truthy id = false -> forall s, d = DStr s -> (meta = None \/ meta = Some None) -> b_id i = id).
Proof. exact bioseq_init_id. Qed.
Print Assumptions C01_bioseq_init_id.

Theorem C01_bioseq_init_copy : forall b, wfb_common b = true -> bioseq_init (DSeq b) (Some []) None None = Ok b.
Proof. exact bioseq_init_copy. Qed.
Print Assumptions C01_bioseq_init_copy.

Theorem C01_bioseq_init_copy_reinfers : exists b, bioseq_init (DStr (bs "ACGT"%bs)) (Some (bs "x"%bs)) None (Some (bs "aa"%bs)) = Ok b
  /\ b_nt b = false /\ exists c, bioseq_init (DSeq b) (Some []) None None = Ok c /\ b_nt c = true /\ b_id c = Some (bs "x"%bs).
Proof. exact bioseq_init_copy_reinfers. Qed.
Print Assumptions C01_bioseq_init_copy_reinfers.

Theorem C01_bioseq_init_hook : forall d i nt,
  bioseq_init (DStr d) (Some []) (Some (Some i)) (Some (type_name nt)) = Ok (bioseq_typed d i nt None).
Proof. exact bioseq_init_hook. Qed.
Print Assumptions C01_bioseq_init_hook.

(* ... and an SJSON file that was appended to cannot be read any more (two JSON documents are not JSON: ValueError) *)
Theorem C01_sjson_append_unreadable : forall b1 b2,
  exists c, bind (write_w Sjson b1) (fun c1 => write_file Sjson true c1 b2) = Ok c
            /\ read_bytes Sjson (content_text c) = Err E_Value /\ read_content Sjson c = Err E_Value.
Proof. exact sjson_append_unreadable. Qed.
Print Assumptions C01_sjson_append_unreadable.

(* ---- comment / blank lines are removable ---- *)
(* deleting every ";" line of a FASTA file changes nothing of what is read ... *)
Theorem C01_fasta_comments_removable : forall ls st, iter_fasta st (filter not_comment ls) = iter_fasta st ls.
Proof. exact fasta_comments_removable. Qed.
Print Assumptions C01_fasta_comments_removable.

(* ... nor does deleting every blank line as well *)
Theorem C01_fasta_blank_comments_removable : forall ls st, iter_fasta st (filter not_skippable ls) = iter_fasta st ls.
Proof. exact fasta_blank_comments_removable. Qed.
Print Assumptions C01_fasta_blank_comments_removable.

(* FASTA files can be concatenated (the reader-side counterpart of mode "a", for ANY layout of the two files): the records of
   the first followed by the records of the second *)
Theorem C01_fasta_concat : forall l1 h l2, head_is GT h = true -> forall st,
  iter_fasta st (l1 ++ h :: l2)
  = bind (iter_fasta st l1) (fun r1 => bind (iter_fasta None (h :: l2)) (fun r2 => Ok (r1 ++ r2))).
Proof. exact fasta_concat. Qed.
Print Assumptions C01_fasta_concat.

(* deleting every blank line, "#" comment and well-formed "#=G?" annotation line of a Stockholm file changes nothing of the
   sequences that are read *)
Theorem C01_stk_comments_removable : forall ls d, stk_loop (filter (fun l => negb (stk_noop l)) ls) d = stk_loop ls d.
Proof. exact stk_comments_removable. Qed.
Print Assumptions C01_stk_comments_removable.

Theorem C01_stk_plain_comment_noop : forall l c s, strip l = c :: s -> head_is HASH (c :: s) = true ->
  startswith (bs "#="%bs) (c :: s) = false -> stk_noop l = true.
Proof. exact stk_plain_comment_noop. Qed.
Print Assumptions C01_stk_plain_comment_noop.

(* Stockholm: ANY number of interleaved blocks (each preceded by blank lines) reads like the per-id concatenation *)
Theorem C01_stk_interleave_n : forall ks blocks b0 rest d, distinct ks = true ->
  length b0 = length ks -> forallb row_ok (combine ks b0) = true -> Forall (block_ok ks) blocks ->
  stk_loop (map row_line (combine ks b0) ++ concat (map (block_lines ks) blocks) ++ rest) d
  = stk_loop (map row_line (combine ks (rows_all b0 blocks)) ++ rest) d.
Proof. exact stk_interleave_n. Qed.
Print Assumptions C01_stk_interleave_n.

(* non-vacuity: a basket with a lower-case protein containing 'meta', a db-tag free id with ':' and a description header *)
Example C01_witness_domain :
  wf_basket Fasta [(Some (bs "seq:1"%bs), bs "lametal*"%bs, Some (bs "seq:1 some protein"%bs)); (Some (bs "n2"%bs), bs "ACGU-n"%bs, None)] = true
  /\ wf_basket Stockholm [(Some (bs "a/1-8"%bs), bs "metaACGU"%bs, None); (Some (bs "b"%bs), bs "--..acgu"%bs, None)] = true
  /\ wf_basket Gff [(Some (bs "chr1"%bs), bs "acgtn"%bs, None)] = true
  /\ wf_basket Sjson [(Some (bs "gb:x|y"%bs), bs ""%bs, None)] = true
  /\ id_fasta_ok (bs "gb:x"%bs) = false.
Proof. exact (conj eq_refl (conj eq_refl (conj eq_refl (conj eq_refl eq_refl)))). Qed.

Example C01_witness_rewrap :
  wrap 3 (bs "ACGTmeta"%bs) = [bs "ACG"%bs; bs "Tme"%bs; bs "ta"%bs]
  /\ Bstr (payload [bs "ACG"%bs; bs ";c"%bs; bs " tme "%bs; bs ""%bs; bs "ta"%bs]) = "ACGtmeta"%bs.
Proof. exact (conj eq_refl eq_refl). Qed.

Example C01_witness_reader :
  wf_text Fasta (bs ">gb:x1 a protein"%bs ++ [x0d; x0a] ++ bs "lame"%bs ++ [x0a] ++ bs ";c"%bs ++ [x0a; x0a] ++ bs " tal* "%bs ++ [x0a]) = true
  /\ id_from_header (bs "sp|P1|NAME_X desc"%bs) = Some (bs "P1"%bs).
Proof. exact (conj eq_refl eq_refl). Qed.

Example C01_witness_gff_fts :
  wf_gft (mk_gft (bs "chr:1#a"%bs) (bs "gene"%bs) 1 4 "-"%byte) = true
  /\ Bstr (gff_ft_line (mk_gft (bs "chr:1#a"%bs) (bs "gene"%bs) 1 4 "-"%byte)) = Bstr (bs "chr%3A1%23a"%bs ++ [x09] ++ bs "."%bs ++ [x09] ++ bs "gene"%bs ++ [x09] ++ bs "2"%bs ++ [x09] ++ bs "4"%bs ++ [x09] ++ bs "."%bs ++ [x09] ++ bs "-"%bs ++ [x09] ++ bs "."%bs ++ [x09] ++ bs "."%bs)
  /\ wf_text Stockholm (bs "# STOCKHOLM 1.0"%bs ++ [x0a] ++ bs "s1 ACGU"%bs ++ [x0a] ++ bs "#=GC SS_cons ...."%bs ++ [x0a; x0a] ++ bs "s1  meta"%bs ++ [x0a] ++ bs "//"%bs ++ [x0a]) = true.
Proof. exact (conj eq_refl (conj eq_refl eq_refl)). Qed.

Example C01_witness_detect :
  detect (bs ">a"%bs ++ [x0a] ++ bs "AC"%bs ++ [x0a]) = Some (bs "fasta"%bs)
  /\ is_fasta (repeat " "%byte 49 ++ bs ">a"%bs) = true /\ is_fasta (repeat " "%byte 50 ++ bs ">a"%bs) = false
  /\ detect (bs "LOCUS x"%bs) = Some (bs "genbank"%bs)
  /\ detect (bs "c"%bs ++ [x09] ++ bs "."%bs ++ [x09] ++ bs "gene"%bs ++ [x09] ++ bs "1"%bs ++ [x09] ++ bs "4"%bs ++ [x09] ++ bs "."%bs ++ [x09] ++ bs "+"%bs ++ [x09] ++ bs "."%bs ++ [x09] ++ bs "ID=g"%bs) = Some (bs "gff"%bs)
  /\ detect (bs "no known format"%bs) = None
  /\ Bstr (content_text (CTree [enc_meta []])) = "{""_cls"": ""Meta""}"%bs.
Proof. exact (conj eq_refl (conj eq_refl (conj eq_refl (conj eq_refl (conj eq_refl (conj eq_refl eq_refl)))))). Qed.

Example C01_witness_byname :
  ext_of (bs "dir.fasta/a.b.stk"%bs) = bs "stk"%bs /\ detect_ext (bs "dir.fasta/a.b.stk"%bs) = Some (bs "stockholm"%bs)
  /\ detect_ext (bs "x.stk/.fasta"%bs) = None /\ detect_ext (bs "a.FASTA"%bs) = None
  /\ In (bs "fa"%bs) (ext_list Fasta) /\ all_dots (bs "a.b"%bs) = false.
Proof. exact (conj eq_refl (conj eq_refl (conj eq_refl (conj eq_refl (conj (or_intror (or_introl eq_refl)) eq_refl))))). Qed.

Example C01_witness_layout :
  filter not_comment [bs ">a"%bs; bs ";c"%bs; bs "AC"%bs] = [bs ">a"%bs; bs "AC"%bs]
  /\ stk_noop (bs "# a comment"%bs) = true /\ stk_noop (bs "#=GF DE some family"%bs) = true /\ stk_noop (bs "#=GF x"%bs) = false
  /\ stk_noop (bs "s1 ACGU"%bs) = false
  /\ rows_all [bs "AC"%bs; bs "GU"%bs] [([[]], [bs "A"%bs; bs "-"%bs]); ([], [bs "N"%bs; bs "N"%bs])] = [bs "ACAN"%bs; bs "GU-N"%bs].
Proof. exact (conj eq_refl (conj eq_refl (conj eq_refl (conj eq_refl (conj eq_refl eq_refl))))). Qed.

Example C01_witness_json :
  jload (bs " {""a"" :[null , ""x\u0041\n""],"%bs ++ [x0a] ++ bs " ""b"": {} } "%bs)
  = Some (TDict [(bs "a"%bs, TList [TNull; TStr (bs "xA"%bs ++ [x0a])]); (bs "b"%bs, TDict [])])
  /\ jload (bs "{""a"": 1}"%bs) = None
  /\ Bstr (jstr ([x09] ++ bs "a""\"%bs ++ [x7f])) = """\ta\""\\\u007f"""%bs.
Proof. exact (conj eq_refl (conj eq_refl eq_refl)). Qed.

Example C01_witness_append :
  bind (bind (write_w Sjson (build [(Some (bs "a"%bs), bs "AC"%bs, None)])) (fun c1 => write_file Sjson true c1 (build [(Some (bs "b"%bs), bs "GU"%bs, None)])))
       (fun c => read_bytes Sjson (content_text c)) = Err E_Value
  /\ wf_stk_basket (build [(Some (bs "a"%bs), bs "AC"%bs, None)]) = true.
Proof. exact (conj eq_refl eq_refl). Qed.
