(* C02 -- Feature files round-trip (GFF3, TSV/CSV). Only statements here; proofs are in proof/C02_*.v. *)
From Coq Require Import List ZArith Bool Permutation Sorted.
From Coq.Strings Require Import Byte.
Import ListNotations.
From SV Require Import Text G_gff C02_Model C02_Lemmas C02_Order C02_Line C02_Score C02_Feat C02_Read C02_Fix C02_Cycle C02_Cycle2 C02_Harness C02_Lenient C02_Third C02_Xsv C02_Xsv2 C02_Opts C02_Disp C02_Stream.
Local Open Scope Z_scope.

(* percent-encoding is undone exactly, for every byte string *)
Theorem C02_unquote_quote : forall s, unquote (quote s) = s.
Proof. exact unquote_quote. Qed.
Print Assumptions C02_unquote_quote.

(* an encoded field contains none of tab newline CR space ; = , & and no other white space *)
Theorem C02_quote_safe : forall s c, In c (quote s) -> has c sep_chars = false /\ is_ws c = false.
Proof. exact quote_safe. Qed.
Print Assumptions C02_quote_safe.

(* the always-safe set regenerated from urllib on this run is the documented one *)
Theorem C02_safe_set_pinned : quote_safe_chars = bs "-./0123456789ABCDEFGHIJKLMNOPQRSTUVWXYZ_abcdefghijklmnopqrstuvwxyz~"%bs.
Proof. exact safe_set_pinned. Qed.
Print Assumptions C02_safe_set_pinned.

(* coordinates: the decimal text the writer emits (start+1, stop) is read back as the same integers *)
Theorem C02_gff_coords : forall z, py_int (dec_of_Z z) = Some z.
Proof. exact py_int_dec. Qed.
Print Assumptions C02_gff_coords.

(* one key=value item: key, single value or list value (>= 2 elements) survive, whatever characters they contain *)
Theorem C02_attr_item_roundtrip : forall k v, plain_val_ok v = true -> parse_kv (item_text (k, v)) = Some (k, v).
Proof. exact parse_kv_item. Qed.
Print Assumptions C02_attr_item_roundtrip.

(* column 9 as a whole: same keys, same values, same order *)
Theorem C02_attrs_roundtrip : forall d, plain_entries d = true -> keys_unique d = true ->
  exists a, attrstr d = Some a /\ parse_attrs a = Some d.
Proof. exact attrs_roundtrip. Qed.
Print Assumptions C02_attrs_roundtrip.

(* LocationTuple ordering: permutation of the input, 5'->3' sorted, idempotent *)
Theorem C02_loc_order : forall l,
  Permutation (sort_asc l) l /\ asc_sorted (sort_asc l) /\ sort_asc (sort_asc l) = sort_asc l /\
  Permutation (sort_desc l) l /\ desc_sorted (sort_desc l) /\ sort_desc (sort_desc l) = sort_desc l.
Proof. exact loc_order. Qed.
Print Assumptions C02_loc_order.

Theorem C02_loc_tuple_spec : forall l l', loc_tuple l = Some l' ->
  l <> [] /\ one_strand l = true /\
  match l with
  | x :: _ => if byte_eqb (lstrand x) "-"%byte then l' = sort_desc l else l' = sort_asc l
  | [] => False
  end.
Proof. exact loc_tuple_spec. Qed.
Print Assumptions C02_loc_tuple_spec.

(* TSV/CSV: with any two of start/stop/len selected, in any column order, the record read back has the written
   range; type and strand are kept when their columns are selected *)
Theorem C02_xsv_arith : forall ks f, xsel ks = true -> fst (loc_range (flocs f)) < snd (loc_range (flocs f)) ->
  xrecord ks (xrow ks f) =
  Some (Some (if xhas KType ks then feat_type f else None,
              fst (loc_range (flocs f)), snd (loc_range (flocs f)),
              if xhas KStrand ks then feat_strand f else "?"%byte)).
Proof. exact xsv_arith. Qed.
Print Assumptions C02_xsv_arith.

Theorem C02_range_lt : forall ls, ls <> [] -> forallb (fun l => Z.ltb (lstart l) (lstop l)) ls = true ->
  fst (loc_range ls) < snd (loc_range ls).
Proof. exact range_lt. Qed.
Print Assumptions C02_range_lt.

(* one written line (any combination of seqid / source / type / score / phase present or '.') is read back as the same
   type, seqid, strand, 0-based half-open location (file columns are start+1 and stop) and ordered attribute dict *)
Theorem C02_gff_line_roundtrip :
  forall (sid src ty : option str) (l : loc) (d m : adict) (sc : option str) (ph : option Z),
    colv_ok sid -> colv_ok src ->
    match ty with
    | Some t => forallb type_char_ok t = true /\ t <> nil /\ str_eqb t dot = false
    | None => True
    end ->
    lstart l < lstop l /\ strand_ok (lstrand l) = true ->
    plain_entries d = true /\ keys_unique d = true /\ forallb (fun k : str => negb (in_keys k d)) col_keys = true ->
    aget k_score m = option_map AF sc /\
    match sc with
    | Some t => forallb plainc t = true /\ float_ok t = true /\ str_eqb t dot = false
    | None => True
    end ->
    aget k_phase m = option_map AI ph ->
    exists a : str,
      attrstr d = Some a /\
      write_line (colq sid) (colq src) (sid_back ty) l d m = Some (line_text sid src ty l sc ph a ++ nl) /\
      parse_line (line_text sid src ty l sc ph a) =
      Some (mkLine ty (sid_back sid) (mkLoc (lstart l) (lstop l) (lstrand l) None) (attrs_back d sid src sc ph)).
Proof. exact line_roundtrip. Qed.
Print Assumptions C02_gff_line_roundtrip.

(* the layout of a line: nine tab-separated columns, coordinates in columns 4 and 5 as start+1 and stop *)
Theorem C02_line_layout : forall sid src ty l sc ph a,
  line_text sid src ty l sc ph a =
  colq sid ++ [c_tab] ++ colq src ++ [c_tab] ++ sid_back ty ++ [c_tab] ++ dec_of_Z (lstart l + 1) ++ [c_tab] ++ dec_of_Z (lstop l)
  ++ [c_tab] ++ sid_back sc ++ [c_tab] ++ [lstrand l] ++ [c_tab] ++ (match ph with Some p => dec_of_Z p | None => dot end) ++ [c_tab] ++ a.
Proof. exact (fun sid src ty l sc ph a => eq_refl). Qed.
Print Assumptions C02_line_layout.

(* MAIN THEOREM. For every feature list of the domain (wf_C02: ASCII fields, admissible keys, typed seqid/source/score/phase,
   split features have an ID; rt_C02: first location without attributes of its own, no location-level seqid/type/ID,
   neighbouring features differ in (ID, type, seqid)) whose locations are in LocationTuple order:
   write -> read -> write gives byte-identical text (fix2), and the features read back have the same type, the same ordered
   locations with the same coordinates and strand, and for every location the same effective attribute map, seqid, source,
   score and phase included (roundtrip_ok). *)
Theorem C02_gff_roundtrip_fix : forall x,
  wf_C02 x = true -> rt_C02 x = true -> (forall f, In f x -> loc_tuple (flocs f) = Some (flocs f)) ->
  fix2 x = true /\ roundtrip_ok x = true.
Proof. exact gff_roundtrip_fix. Qed.
Print Assumptions C02_gff_roundtrip_fix.

(* the writer run by the correspondence harness (invented IDs of split features without ID canonicalised to "~id<i>") is the
   writer of the theorems on every wf_C02 list *)
Theorem C02_harness_writer : forall x, wf_C02 x = true -> write_gff_h x = write_gff x.
Proof. exact write_gff_h_wf. Qed.
Print Assumptions C02_harness_writer.

(* one feature is read back per feature written, with the same ordered (start, stop, strand) list *)
Theorem C02_read_write_shape : forall x, Forall rt_feat x -> adjacent_distinct x = true ->
  exists w1 x1, write_gff x = Some w1 /\ read_gff w1 = Some x1 /\ length x1 = length x /\
    Forall2 (fun f f1 => map (fun l => (lstart l, lstop l, lstrand l)) (flocs f1) = map (fun l => (lstart l, lstop l, lstrand l)) (flocs f)) x x1.
Proof. exact read_write_shape. Qed.
Print Assumptions C02_read_write_shape.

(* multi-location features are written one line per location; every line parses to its own location and attributes *)
Theorem C02_feature_lines : forall ft l0 rest, feat_ok ft = true -> normalised ft = true -> flocs ft = l0 :: rest ->
  exists texts, write_feat ft = Some (concat (map (fun t => t ++ nl) texts)) /\ Forall2 line_ok texts (glines (g0 ft) l0 rest).
Proof. exact feat_lines. Qed.
Print Assumptions C02_feature_lines.

(* the merged attribute dict of the feature read back equals the one written, key by key *)
Theorem C02_merged_dict_kept : forall g k, keys_unique g = true -> aget k (g1_of g) = aget k g.
Proof. exact aget_g1. Qed.
Print Assumptions C02_merged_dict_kept.

(* a canonical score literal is accepted by the reader and contains no blank, tab or escape *)
Theorem C02_canon_float_ok : forall t, canon_float t = true ->
  forallb plainc t = true /\ float_ok t = true /\ str_eqb t dot = false.
Proof. exact canon_float_ok. Qed.
Print Assumptions C02_canon_float_ok.

(* a location list that LocationTuple leaves unchanged is ordered by its keys, and conversely *)
Theorem C02_loc_tuple_sorted : forall L, (loc_tuple L = Some L -> locs_sorted L = true) /\ (locs_sorted L = true -> loc_tuple L = Some L).
Proof. exact (fun L => conj (loc_tuple_fix_sorted L) (loc_tuple_sorted L)). Qed.
Print Assumptions C02_loc_tuple_sorted.

(* THIRD WRITE. Also outside the round-trip domain as far as open finding F39 goes (first 5'->3' locations with attributes of their
   own): for every wf_C02 list without location-level seqid/type/ID, neighbours differing in (ID, type, seqid), locations in
   LocationTuple order, what is read back after one write lies inside the round-trip domain; so the second written text is a
   fixpoint (third write = second write) and every later cycle preserves every feature *)
Theorem C02_gff_third_write : forall x,
  wf_C02 x = true -> adjacent_distinct x = true -> forallb (fun f => forallb loc_no_cols (flocs f)) x = true ->
  (forall f, In f x -> loc_tuple (flocs f) = Some (flocs f)) ->
  exists w1 x1 w2, cycle2 x = Some (w1, x1, w2) /\ wf_C02 x1 = true /\ rt_C02 x1 = true /\ fix2 x1 = true /\ roundtrip_ok x1 = true.
Proof. exact gff_third_write. Qed.
Print Assumptions C02_gff_third_write.

(* after reading, the aliases (Feature.name, .id, .seqid, meta.score, .phase, .evalue, .type) are the GFF attributes Name, ID, ... *)
Theorem C02_aliases_copied : forall f p, In p copyattrs ->
  aget (snd p) (fmeta (copy_attrs_in f)) = match aget (fst p) (getgff f) with Some v => Some v | None => aget (snd p) (fmeta f) end.
Proof. exact aliases_copied. Qed.
Print Assumptions C02_aliases_copied.

(* reader leniency on foreign text *)
(* comment lines and blank lines may be inserted or removed anywhere without changing what is read *)
Theorem C02_read_ignores_comments : forall ls acc id,
  read_lines (filter (fun l => negb (skippable l)) ls) acc id = read_lines ls acc id.
Proof. exact read_ignores_comments. Qed.
Print Assumptions C02_read_ignores_comments.

(* reading stops at the first ##FASTA line *)
Theorem C02_read_stops_at_fasta : forall pre line post acc id, is_fasta_mark line = true ->
  Forall (fun l => is_fasta_mark l = false) pre ->
  read_lines (pre ++ line :: post) acc id = read_lines pre acc id.
Proof. exact read_stops_at_fasta. Qed.
Print Assumptions C02_read_stops_at_fasta.

(* every byte may be written raw (except the escape introducer) or as %XX with hex digits of either case *)
Theorem C02_unquote_any_encoding : forall (s : str) (es : list str), Forall2 enc_ok s es -> unquote (concat es) = s.
Proof. exact unquote_any_encoding. Qed.
Print Assumptions C02_unquote_any_encoding.

(* blanks around a key=value item are ignored *)
Theorem C02_parse_kv_padded : forall ws1 ws2 item, forallb is_ws ws1 = true -> forallb is_ws ws2 = true ->
  starts_ok item = true -> ends_ok item = true -> parse_kv (ws1 ++ item ++ ws2) = parse_kv item.
Proof. exact parse_kv_padded. Qed.
Print Assumptions C02_parse_kv_padded.

(* the reader with options (filt, filt_fast, default_ftype, comments) run by the harness is, with all options off, the reader of the theorems *)
Theorem C02_read_options_default : forall ls acc id cm,
  option_map fst (read_lines_o no_opts ls acc id cm) = read_lines ls acc id.
Proof. exact read_lines_o_default. Qed.
Print Assumptions C02_read_options_default.

(* TSV/CSV end to end over a whole list: frompandas (topandas fts keys) for every admissible key selection and order *)
Theorem C02_xsv_list : forall ks x, xsel ks = true -> forallb loc_valid x = true ->
  map (xrecord ks) (map (xrow ks) x) =
  map (fun f => Some (Some (if xhas KType ks then feat_type f else None, fst (loc_range (flocs f)), snd (loc_range (flocs f)),
                            if xhas KStrand ks then feat_strand f else "?"%byte))) x.
Proof. exact xsv_list. Qed.
Print Assumptions C02_xsv_list.

(* ---- TSV/CSV at the text level (round 7): FeatureList.tolists/topandas, to_csv, read_csv, frompandas, xsv.py ---- *)
(* keys given as ONE string select the columns their names select: str.split() on any white space, leading / trailing included *)
Theorem C02_keys_str : forall g0 w0 r tail, forallb is_ws g0 = true -> word w0 = true -> forallb gap_ok r = true ->
  forallb (fun p => word (snd p)) r = true -> forallb is_ws tail = true ->
  keys_of (KStr (g0 ++ w0 ++ spaced r ++ tail)) = keys_of (KList (w0 :: map snd r)).
Proof. exact keys_str. Qed.
Print Assumptions C02_keys_str.

Theorem C02_keys_str_words : forall s, forallb word (keys_of (KStr s)) = true.
Proof. exact py_split_words. Qed.
Print Assumptions C02_keys_str_words.

(* the written table read cell by cell gives back the column names and every cell: ANY separator that occurs in no name / cell *)
Theorem C02_table_text : forall sep names x, byte_eqb sep x0a = false -> names <> [] -> forallb (clean sep) names = true ->
  forallb (cells_clean sep names) x = true ->
  xsv_rows sep (write_xsv sep names x) = Some (names, map (nrow names) x).
Proof. exact table_text. Qed.
Print Assumptions C02_table_text.

(* one written row -> one record: range, strand, type when the selection allows it; KeyError otherwise *)
Theorem C02_xrecord_total : forall ft names f, loc_valid f = true -> strand_ok (feat_strand_m f) = true ->
  xrecord_s ft names (nrow names f) =
  if sel_ok names then match xspec ft names f with (ty, a, b, sd) => XRec ty a b sd end else XKey.
Proof. exact xrecord_total. Qed.
Print Assumptions C02_xrecord_total.

(* MAIN (TSV/CSV): for EVERY list of column names (any order, any subset, repetitions, foreign columns), every separator and every
   feature list the written text is read back - one record per feature with its 0-based start, half-open stop, its strand if
   selected ('?' otherwise), its type if selected or supplied through ftype - exactly when the names hold start and stop, or len
   and one of them; otherwise reading a non-empty table raises KeyError *)
Theorem C02_xsv_total : forall sep ft names x, byte_eqb sep x0a = false -> names <> [] -> forallb (clean sep) names = true ->
  forallb (cells_clean sep names) x = true -> forallb feat_valid x = true ->
  read_xsv sep ft (write_xsv sep names x) =
  if sel_ok names then inr (map (xspec ft names) x) else match x with [] => inr [] | _ => inl key_error end.
Proof. exact xsv_total. Qed.
Print Assumptions C02_xsv_total.

(* the same on the boolean domain flags that run_C02_xsvw evaluates for every generated case: the separator is no digit, sign,
   strand symbol, quote or line break and is in none of the selected texts *)
Theorem C02_xsv_total_dom : forall sep ft names x, sep_ok sep = true -> names_ok sep names = true -> names <> [] ->
  forallb (feat_clean sep names) x = true ->
  read_xsv sep ft (write_xsv sep names x) =
  if sel_ok names then inr (map (xspec ft names) x) else match x with [] => inr [] | _ => inl key_error end.
Proof. exact xsv_total_dom. Qed.
Print Assumptions C02_xsv_total_dom.

(* frompandas on ANY record (tables from elsewhere): KeyError iff the names hold neither pair, whatever the cells are *)
Theorem C02_xrecord_errors : forall ft names row, xrecord_s ft names row = XKey <-> sel_ok names = false.
Proof. exact xrecord_errors. Qed.
Print Assumptions C02_xrecord_errors.

Theorem C02_len_ignored : forall names row, nhas n_start names = true -> nhas n_stop names = true ->
  xrange names row = Some (getZ n_start names row, getZ n_stop names row).
Proof. exact len_ignored. Qed.
Print Assumptions C02_len_ignored.

Theorem C02_xrecord_table : forall ft names row ty a b sd, xrecord_s ft names row = XRec ty a b sd ->
  a < b /\ strand_ok sd = true /\ ty = xtype ft names row
  /\ (nhas n_start names = true -> getZ n_start names row = Some a)
  /\ (nhas n_stop names = true -> getZ n_stop names row = Some b)
  /\ (nhas n_stop names = false -> exists n, getZ n_len names row = Some n /\ b = a + n)
  /\ (nhas n_start names = false -> exists n, getZ n_len names row = Some n /\ a = b - n)
  /\ (if nhas n_strand names then ncell_of n_strand names row = Some [sd] else sd = "?"%byte).
Proof. exact xrecord_table. Qed.
Print Assumptions C02_xrecord_table.

(* exactly the one-character texts + - . ? are strands *)
Theorem C02_strand_mapping : forall c, strand_ok c = true <-> In c ["+"; "-"; "."; "?"]%byte.
Proof. exact strand_mapping. Qed.
Print Assumptions C02_strand_mapping.

(* blank lines anywhere in a table do not change what is read *)
Theorem C02_blank_lines_skipped : forall sep ft ls, Forall (fun t => has x0a t = false) ls ->
  read_xsv sep ft (concat (map (fun l => l ++ nl) ls)) = read_xsv sep ft (concat (map (fun l => l ++ nl) (filter nonblank ls))).
Proof. exact blank_lines_skipped. Qed.
Print Assumptions C02_blank_lines_skipped.

(* ANY table, also from elsewhere: a record given as (column name, cell) pairs with distinct names is read the same way in every
   column order *)
Theorem C02_column_order_irrelevant : forall ft (cols cols' : list (str * str)), Permutation cols cols' -> NoDup (map fst cols) ->
  xrecord_s ft (map fst cols) (map snd cols) = xrecord_s ft (map fst cols') (map snd cols').
Proof. exact column_order_irrelevant. Qed.
Print Assumptions C02_column_order_irrelevant.

(* the column-key model of the earlier theorems (C02_xsv_arith, C02_xsv_list; still evaluated by the history stream) is the
   column-name model restricted to the five names *)
Theorem C02_xrecord_bridge : forall ks f, loc_valid f = true -> strand_ok (feat_strand_m f) = true -> feat_type f <> Some [] ->
  xrecord_s None (map kname ks) (nrow (map kname ks) f) =
  match xrecord ks (xrow ks f) with Some (Some (ty, a, b, sd)) => XRec ty a b sd | Some None => XVal | None => XKey end.
Proof. exact xrecord_bridge. Qed.
Print Assumptions C02_xrecord_bridge.

(* ---- options of the GFF reader and writer (round 7) ---- *)
(* filt_fast=text: the file is read as if the lines that do not contain the text (case-insensitive) were not there *)
Theorem C02_read_filt_fast : forall fl ff d ls acc id cm,
  read_lines_o (mkRopts fl (Some ff) d) ls acc id cm = read_lines_o (mkRopts fl None d) (filter (passes_fast ff) ls) acc id cm.
Proof. exact read_o_fast. Qed.
Print Assumptions C02_read_filt_fast.

(* filt=[types]: the file is read as if the data lines of other types (default_ftype standing in for '.') were not there;
   lines without nine columns are an error with and without the filter *)
Theorem C02_read_filt : forall x r ff d ls acc id cm,
  read_lines_o (mkRopts (Some (x :: r)) ff d) ls acc id cm =
  read_lines_o (mkRopts None ff d) (filter (passes_filt (x :: r) d) ls) acc id cm.
Proof. exact read_o_filt. Qed.
Print Assumptions C02_read_filt.

Theorem C02_read_filt_empty : forall ff d ls acc id cm,
  read_lines_o (mkRopts (Some []) ff d) ls acc id cm = read_lines_o (mkRopts None ff d) ls acc id cm.
Proof. exact read_o_filt_empty. Qed.
Print Assumptions C02_read_filt_empty.

(* comments=[]: exactly the comment and blank lines before ##FASTA that filt_fast lets through, in file order *)
Theorem C02_read_comments : forall fl ff d ls acc id cm fs cs,
  read_lines_o (mkRopts fl ff d) ls acc id cm = Some (fs, cs) ->
  cs = rev cm ++ filter (fun l => fast_ok ff l && blankish l) (before_fasta ls).
Proof. exact comments_spec. Qed.
Print Assumptions C02_read_comments.

(* header=...: a header text made of comment / blank lines does not change what is read back *)
Theorem C02_header_ignored : forall hl x, Forall (fun l => has x0a l = false) hl -> Forall (fun l => skippable l = true) hl ->
  match write_gff_hdr (concat (map (fun l => l ++ nl) hl)) x, write_gff_h x with
  | Some w, Some w0 => read_gff w = read_gff w0
  | None, None => True
  | _, _ => False
  end.
Proof. exact header_ignored_w. Qed.
Print Assumptions C02_header_ignored.

(* ---- tables inside streams (round 7) ---- *)
(* a stream is what it holds and the position of the next read: a GFF text / a table read from the offset behind ANY earlier
   content (the offset tell() gave when that content had been written) is read as the text / table alone *)
Theorem C02_read_at_offset : forall pre t sep ft,
  run_C02_text_at (PSeek (length pre)) (pre ++ t) = run_C02_text t /\
  run_C02_xsvr_at sep ft (PSeek (length pre)) (pre ++ t) = run_C02_xsvr sep ft t.
Proof. exact read_at_offset. Qed.
Print Assumptions C02_read_at_offset.

(* ... and so is one read behind any number of title lines the caller skipped with readline() *)
Theorem C02_read_behind_titles : forall ls t sep ft, Forall (fun l => has x0a l = false) ls ->
  run_C02_text_at (PLines (length ls)) (concat (map (fun l => l ++ nl) ls) ++ t) = run_C02_text t /\
  run_C02_xsvr_at sep ft (PLines (length ls)) (concat (map (fun l => l ++ nl) ls) ++ t) = run_C02_xsvr sep ft t.
Proof. exact read_behind_titles. Qed.
Print Assumptions C02_read_behind_titles.

(* two tables written one after the other into one stream: from the second table's offset that table is read *)
Theorem C02_two_tables : forall a b ta tb, write_gff a = Some ta -> write_gff b = Some tb ->
  read_gff (stream_rest (PSeek (length ta)) (ta ++ tb)) = read_gff tb.
Proof. exact two_tables_offset. Qed.
Print Assumptions C02_two_tables.

(* ... and from the start of the stream the table of the joined list: the version line of the second table is a comment *)
Theorem C02_two_tables_joined : forall a b ta tb, Forall good a -> Forall good b -> write_gff a = Some ta -> write_gff b = Some tb ->
  exists tab, write_gff (a ++ b) = Some tab /\ read_gff (stream_rest (PSeek 0) (ta ++ tb)) = read_gff tab.
Proof. exact two_tables_joined. Qed.
Print Assumptions C02_two_tables_joined.

Theorem C02_two_tables_xsv : forall sep ft names names' a b,
  read_xsv sep ft (stream_rest (PSeek (length (write_xsv sep names' a))) (write_xsv sep names' a ++ write_xsv sep names b))
  = read_xsv sep ft (write_xsv sep names b).
Proof. exact two_tables_offset_xsv. Qed.
Print Assumptions C02_two_tables_xsv.

(* ---- read_fts / write_fts dispatch (round 7) ---- *)
(* fmt is case-insensitive: 'GFF', 'Gff' and 'gff' name the same format *)
Theorem C02_fmt_case_insensitive : forall s1 s2, lower s1 = lower s2 -> fmt_key s1 = fmt_key s2.
Proof. exact fmt_key_same_lower. Qed.
Print Assumptions C02_fmt_case_insensitive.

(* over the regenerated registry: gff, tsv, csv are found by name and by their own extension; fmt wins over the extension *)
Theorem C02_dispatch_names : forall f,
  fmt_key (fmt_name f) = Some f /\ resolve_w None (fmt_name f) = inl f /\
  (forall e, resolve_w (Some (fmt_name f)) e = inl f).
Proof. exact dispatch_names. Qed.
Print Assumptions C02_dispatch_names.

(* TSV / CSV through write_fts and read_fts, fmt in any spelling, default separator of the format: the statement of C02_xsv_total *)
Theorem C02_dispatch_xsv_roundtrip : forall s1 s2 ext f names x, fmt_key s1 = Some f -> fmt_key s2 = Some f -> f <> FGff ->
  names_ok (default_sep f) names = true -> names <> [] -> forallb (feat_clean (default_sep f) names) x = true ->
  exists t, write_fts_m (Some s1) ext None names x = inl t /\
    read_fts_m s2 None t =
    if sel_ok names then VL [VS (fmt_name f); v_xrecs (map (xspec None names) x)]
    else match x with [] => VL [VS (fmt_name f); v_xrecs []] | _ => key_error end.
Proof. exact dispatch_xsv_roundtrip. Qed.
Print Assumptions C02_dispatch_xsv_roundtrip.

(* region excluded from the round-trip clauses, with its witness: open finding F39 (firstloc_overrides) *)
Theorem C02_firstloc_overrides_refuted :
  exists x, wf_C02 x = true /\ forallb normalised x = false /\ fix2 x = false /\ roundtrip_ok x = false.
Proof. exact firstloc_refuted. Qed.
Print Assumptions C02_firstloc_overrides_refuted.

(* F38 (fixed in 3e14524): lines of one feature naming different sources keep their own source column; the list is inside
   the round-trip domain, the second cycle is byte-identical and the written text is the expected one *)
Theorem C02_loc_source_kept :
  wf_C02 [ex_locsource] = true /\ rt_C02 [ex_locsource] = true /\ fix2 [ex_locsource] = true /\ roundtrip_ok [ex_locsource] = true /\
  option_map Bstr (write_gff [ex_locsource]) = Some ex_locsource_text.
Proof. exact locsource_ok. Qed.
Print Assumptions C02_loc_source_kept.

Theorem C02_adjacent_same_id_refuted :
  exists x, wf_C02 x = true /\ forallb normalised x = true /\ adjacent_distinct x = false /\ fix2 x = false /\ roundtrip_ok x = false.
Proof. exact adjacent_refuted. Qed.
Print Assumptions C02_adjacent_same_id_refuted.

(* non-vacuity of the whole cycle: a minus-strand CDS in three parts with per-location phase, notes and a list value *)
Example C02_witness_cycle : wf_C02 [ex_cds] = true /\ rt_C02 [ex_cds] = true /\ fix2 [ex_cds] = true /\ roundtrip_ok [ex_cds] = true.
Proof. exact ex_cds_ok. Qed.

Example C02_witness_main : wf_C02 [ex_cds] = true /\ rt_C02 [ex_cds] = true /\ loc_tuple (flocs ex_cds) = Some (flocs ex_cds).
Proof. exact (conj eq_refl (conj eq_refl eq_refl)). Qed.

Example C02_witness_third_hyps : wf_C02 [ex_firstloc] = true /\ adjacent_distinct [ex_firstloc] = true /\
  forallb (fun f => forallb loc_no_cols (flocs f)) [ex_firstloc] = true /\ loc_tuple (flocs ex_firstloc) = Some (flocs ex_firstloc) /\
  forallb normalised [ex_firstloc] = false.
Proof. exact (conj eq_refl (conj eq_refl (conj eq_refl (conj eq_refl eq_refl)))). Qed.

Example C02_witness_third_write : match cycle2 [ex_firstloc] with Some (_, x1, _) => fix2 x1 | None => false end = true.
Proof. exact firstloc_third_write. Qed.

(* a canonical score literal meets the score hypotheses of the line theorem *)
Example C02_witness_score : canon_float (bs "12.25"%bs) = true /\ forallb plainc (bs "12.25"%bs) = true /\ float_ok (bs "12.25"%bs) = true.
Proof. exact (conj eq_refl (conj eq_refl eq_refl)). Qed.

(* non-vacuity: a dict with reserved characters and a list value satisfies the hypotheses *)
Example C02_witness_attrs :
  plain_entries [(bs "k e;y"%bs, AS (bs "a=b,c%d&e"%bs)); (bs "Dbxref"%bs, AL [bs "x,y"%bs; bs "p;q"%bs])] = true /\
  keys_unique [(bs "k e;y"%bs, AS (bs "a=b,c%d&e"%bs)); (bs "Dbxref"%bs, AL [bs "x,y"%bs; bs "p;q"%bs])] = true /\
  option_map Bstr (attrstr [(bs "k e;y"%bs, AS (bs "a=b,c%d&e"%bs)); (bs "Dbxref"%bs, AL [bs "x,y"%bs; bs "p;q"%bs])])
  = Some "k%20e%3By=a%3Db%2Cc%25d%26e;Dbxref=x%2Cy,p%3Bq"%bs.
Proof. exact (conj eq_refl (conj eq_refl eq_refl)). Qed.

Example C02_witness_xsv : xsel [KStrand; KLen; KType; KStop] = true /\ xsel [KType; KStart] = false.
Proof. exact (conj eq_refl eq_refl). Qed.

(* non-vacuity of the TSV/CSV theorems: a nested minus-strand feature and a single-location one, columns in a scrambled order with
   a repeated and a foreign column, separator '|' ; the selection without stop/len is the KeyError side *)
Example C02_witness_xsv_total :
  sep_ok "|"%byte = true /\ names_ok "|"%byte ex_names = true /\ forallb (feat_clean "|"%byte ex_names) ex_table = true /\
  sel_ok ex_names = true /\ sel_ok [k_type; n_start; n_strand] = false /\
  option_map Bstr (Some (write_xsv "|"%byte ex_names ex_table)) = Some ex_table_text.
Proof. exact ex_table_ok. Qed.

Example C02_witness_keys_str : keys_of (KStr (bs " type  start len "%bs)) = [k_type; n_start; n_len].
Proof. exact eq_refl. Qed.

Example C02_witness_header : Forall (fun l => has x0a l = false) ex_header /\ Forall (fun l => skippable l = true) ex_header.
Proof. exact ex_header_ok. Qed.

Example C02_witness_filters :
  passes_fast (bs "cds"%bs) (ex_gline (bs "CDS"%bs)) = true /\ passes_fast (bs "cds"%bs) (ex_gline (bs "gene"%bs)) = false /\
  passes_filt [bs "CDS"%bs] None (ex_gline (bs "CDS"%bs)) = true /\ passes_filt [bs "CDS"%bs] None (ex_gline (bs "gene"%bs)) = false /\
  passes_filt [bs "CDS"%bs] (Some (bs "CDS"%bs)) (ex_gline dot) = true /\ passes_filt [bs "CDS"%bs] None (ex_gline dot) = false.
Proof. exact ex_filters_ok. Qed.

Example C02_witness_dispatch : fmt_key (bs "TsV"%bs) = Some FTsv /\ fmt_key (bs "tsv "%bs) = None /\
  names_ok (default_sep FCsv) [n_start; k_type; n_len] = true /\ forallb (feat_clean (default_sep FCsv) [n_start; k_type; n_len]) ex_table = true.
Proof. exact (conj eq_refl (conj eq_refl (conj eq_refl eq_refl))). Qed.

(* the score domain holds both shapes repr() gives a float, and not their non-canonical spellings *)
Example C02_witness_score_shapes :
  forallb canon_float (map bs ["1e-05"; "2.5e-07"; "1e+16"; "-1.5e+20"; "1.234e-05"; "1e+100"; "-3e-10"; "12.25"; "0.0001"]%bs) = true
  /\ existsb canon_float (map bs ["1e-5"; "1e-04"; "1e+15"; "10e-05"; "1.0e-05"; "1.50e-07"; "1e16"; "0e-05"; "1E-05"; "1e-005"; "e-05"; "0.00001"; "-0.0"]%bs) = false.
Proof. exact canon_exp_ex. Qed.

Example C02_witness_stream : Forall (fun l => has x0a l = false) ex_title /\
  stream_rest (PLines 2) (concat (map (fun l => l ++ nl) ex_title) ++ bs "##gff-version 3"%bs) = bs "##gff-version 3"%bs.
Proof. exact ex_title_ok. Qed.

Example C02_witness_two_tables : Forall good [ex_cds] /\ Forall good [ex_cds; ex_cds] /\
  match write_gff [ex_cds], write_gff [ex_cds; ex_cds] with
  | Some t, Some t2 => match read_gff (t ++ t), read_gff t2 with Some r, Some r' => Nat.eqb (length r) (length r') && negb (Nat.eqb (length r) 0) | _, _ => false end
  | _, _ => false
  end = true.
Proof. exact ex_two_tables_ok. Qed.
