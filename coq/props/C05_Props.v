(* C05 -- Reverse complement obeys IUPAC base pairing and is an involution.
   Only statements here; proofs are in proof/C05_Lemmas.v. *)
From Coq Require Import List Bool.
From Coq.Strings Require Import Byte.
Import ListNotations.
From SV Require Import Text G_codes C05_Model C05_Lemmas.

(* complement of a code denotes the Watson-Crick complements of its bases; gaps are fixed *)
Theorem C05_complement_table_sound : forall c, In c alphabet ->
  set_eqb (iupac (trans1 c)) (map wc (iupac c)) = true /\ In (trans1 c) alphabet /\
  (is_gapsym c = true -> trans1 c = c).
Proof. exact complement_table_sound. Qed.
Print Assumptions C05_complement_table_sound.

(* the translation table used by str.translate is COMPLEMENT_ALL *)
Theorem C05_trans_is_table : forall c, In c alphabet -> lookupB c COMPLEMENT_ALL = Some (trans1 c).
Proof. exact trans_is_table. Qed.
Print Assumptions C05_trans_is_table.

Theorem C05_complement_pointwise : forall s, has cU s = false ->
  complement s = map trans1 s /\ length (complement s) = length s.
Proof. exact (fun s H => conj (complement_pointwise s H) (complement_length s)). Qed.
Print Assumptions C05_complement_pointwise.

Theorem C05_complement_involutive : forall s, forallb in_alpha s = true -> complement (complement s) = s.
Proof. exact complement_involutive. Qed.
Print Assumptions C05_complement_involutive.

Theorem C05_rc_defs : forall s, rc s = complement (rev s) /\ rc s = rev (complement s) /\ length (rc s) = length s.
Proof. exact (fun s => conj (proj1 (rc_defs s)) (conj (proj2 (rc_defs s)) (rc_length s))). Qed.
Print Assumptions C05_rc_defs.

Theorem C05_rc_involutive : forall s, forallb in_alpha s = true -> rc (rc s) = s.
Proof. exact rc_involutive. Qed.
Print Assumptions C05_rc_involutive.

(* GC numerator and denominator are preserved, for every string whatsoever *)
Theorem C05_gc_rc : forall s, gc_counts (rc s) = gc_counts s /\ gc_counts (complement s) = gc_counts s.
Proof. exact (fun s => conj (gc_rc s) (gc_complement s)). Qed.
Print Assumptions C05_gc_rc.

(* RNA is handled identically up to writing U for T *)
Theorem C05_rna_up_to_U : forall s, u2t (rc s) = rc (u2t s) /\ u2t (complement s) = complement (u2t s).
Proof. exact (fun s => conj (rna_rc s) (rna_complement s)). Qed.
Print Assumptions C05_rna_up_to_U.

Theorem C05_rna_rc_involutive : forall s, forallb in_alpha_rna s = true -> u2t (rc (rc s)) = u2t s.
Proof. exact rna_rc_involutive. Qed.
Print Assumptions C05_rna_rc_involutive.

Theorem C05_basket_rc : forall b, basket_rc b = map rc b /\ length (basket_rc b) = length b.
Proof. exact basket_rc_spec. Qed.
Print Assumptions C05_basket_rc.

(* the harness evaluates rc on very long inputs with a linear-time reverse; it is the same function *)
Theorem C05_lin_eval : forall op s, run_C05_lin op s = run_C05 op s.
Proof. exact run_C05_lin_eq. Qed.
Print Assumptions C05_lin_eval.

(* non-vacuity: a string meeting the hypotheses, with ambiguity codes and gaps *)
Example C05_witness : forallb in_alpha (bs "ACGTRYSWKMBDHVN.-"%bs) = true /\
  Bstr (rc (bs "ACGTRYKMBDHVN.-"%bs)) = "-.NBDHVKMRYACGT"%bs.
Proof. exact (conj eq_refl eq_refl). Qed.
