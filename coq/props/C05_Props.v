(* C05 -- Reverse complement obeys IUPAC base pairing and is an involution.
   Only statements here; proofs are in proof/C05_Lemmas.v. *)
From Coq Require Import List Bool NArith Arith.
From Coq.Strings Require Import Byte.
Import ListNotations.
From SV Require Import Text G_codes C05_Model C05_Lemmas C05_More C05_Hist.

(* complement of a code denotes the Watson-Crick complements of its bases; gaps are fixed *)
Theorem C05_complement_table_sound : forall c, In c alphabet ->
  set_eqb (iupac (trans1 c)) (map wc (iupac c)) = true /\ In (trans1 c) alphabet /\
  (is_gapsym c = true -> trans1 c = c).
Proof. exact complement_table_sound. Qed.
Print Assumptions C05_complement_table_sound.

(* the translation table used by str.translate is COMPLEMENT_ALL *)
Theorem C05_trans_is_table : forall c, In c alphabet -> lookupB c COMPLEMENT_ALL = Some (trans1 c).
Proof. exact trans_is_table. Qed.
Print Assumptions C05_trans_is_table.

Theorem C05_complement_pointwise : forall s, has cU s = false ->
  complement s = map trans1 s /\ length (complement s) = length s.
Proof. exact (fun s H => conj (complement_pointwise s H) (complement_length s)). Qed.
Print Assumptions C05_complement_pointwise.

Theorem C05_complement_involutive : forall s, forallb in_alpha s = true -> complement (complement s) = s.
Proof. exact complement_involutive. Qed.
Print Assumptions C05_complement_involutive.

Theorem C05_rc_defs : forall s, rc s = complement (rev s) /\ rc s = rev (complement s) /\ length (rc s) = length s.
Proof. exact (fun s => conj (proj1 (rc_defs s)) (conj (proj2 (rc_defs s)) (rc_length s))). Qed.
Print Assumptions C05_rc_defs.

Theorem C05_rc_involutive : forall s, forallb in_alpha s = true -> rc (rc s) = s.
Proof. exact rc_involutive. Qed.
Print Assumptions C05_rc_involutive.

(* GC numerator and denominator are preserved, for every string whatsoever *)
Theorem C05_gc_rc : forall s, gc_counts (rc s) = gc_counts s /\ gc_counts (complement s) = gc_counts s.
Proof. exact (fun s => conj (gc_rc s) (gc_complement s)). Qed.
Print Assumptions C05_gc_rc.

(* RNA is handled identically up to writing U for T *)
Theorem C05_rna_up_to_U : forall s, u2t (rc s) = rc (u2t s) /\ u2t (complement s) = complement (u2t s).
Proof. exact (fun s => conj (rna_rc s) (rna_complement s)). Qed.
Print Assumptions C05_rna_up_to_U.

Theorem C05_rna_rc_involutive : forall s, forallb in_alpha_rna s = true -> u2t (rc (rc s)) = u2t s.
Proof. exact rna_rc_involutive. Qed.
Print Assumptions C05_rna_rc_involutive.

Theorem C05_basket_rc : forall b, basket_rc b = map rc b /\ length (basket_rc b) = length b.
Proof. exact basket_rc_spec. Qed.
Print Assumptions C05_basket_rc.

(* the harness evaluates rc on very long inputs with a linear-time reverse; it is the same function *)
Theorem C05_lin_eval : forall op s, run_C05_lin op s = run_C05 op s.
Proof. exact run_C05_lin_eq. Qed.
Print Assumptions C05_lin_eval.

(* ---- round 7: every byte string, exact regions ---- *)
(* the translation table on all 256 code points: identity outside the 17 symbols (U, lower case, amino acids, anything), an involution *)
Theorem C05_table_every_byte : forall c,
  (in_alpha c = false -> trans1 c = c) /\ trans1 (trans1 c) = c /\ byte_eqb cU (trans1 c) = byte_eqb cU c.
Proof. exact (fun c => conj (trans1_outside c) (conj (trans1_invol c) (trans1_U_iff c))). Qed.
Print Assumptions C05_table_every_byte.

(* complement of ANY string is position-wise: one symbol map chosen by the single flag 'U' in data; lengths equal *)
Theorem C05_complement_every_string : forall s,
  complement s = map (cc (has cU s)) s /\ length (complement s) = length s /\
  (forall i, nth_error (complement s) i = option_map (cc (has cU s)) (nth_error s i)).
Proof. exact complement_every_string. Qed.
Print Assumptions C05_complement_every_string.

(* the symbol map of the U branch, for every byte *)
Theorem C05_rna_symbol_map : forall c,
  cc true c = (if byte_eqb c cU || byte_eqb c cT then cA else if byte_eqb c cA then cU else trans1 c) /\ cc false c = trans1 c.
Proof. exact (fun c => conj (cc_true_spec c) eq_refl). Qed.
Print Assumptions C05_rna_symbol_map.

(* set-level IUPAC semantics of the U branch on the RNA alphabet *)
Theorem C05_complement_table_sound_rna : forall c, In c alphabet_rna ->
  set_eqb (iupac_rna (cc true c)) (map wc_rna (iupac_rna c)) = true /\ In (cc true c) alphabet_rna /\
  (is_gapsym c = true -> cc true c = c).
Proof. exact complement_table_sound_rna. Qed.
Print Assumptions C05_complement_table_sound_rna.

(* complement twice / rc twice: the exact result, and exactly where it is the identity (any bytes) *)
Theorem C05_twice : forall s,
  complement (complement s) = (if has cU s then (if has cA s then t2u s else u2t s) else s) /\
  rc (rc s) = complement (complement s).
Proof. exact (fun s => conj (complement_twice s) (rc_twice s)). Qed.
Print Assumptions C05_twice.

Theorem C05_involution_iff : forall s,
  (complement (complement s) = s <-> inv_ok s = true) /\ (rc (rc s) = s <-> inv_ok s = true).
Proof. exact (fun s => conj (complement_involutive_iff s) (rc_involutive_iff s)). Qed.
Print Assumptions C05_involution_iff.

(* in particular every string without U, whatever its bytes *)
Theorem C05_involutive_no_U : forall s, has cU s = false -> complement (complement s) = s /\ rc (rc s) = s.
Proof. exact involutive_no_U. Qed.
Print Assumptions C05_involutive_no_U.

(* RNA = DNA conjugated by the letter substitutions, which are mutually inverse between T-free and U-free strings *)
Theorem C05_rna_square : forall s, has cU s = true ->
  complement s = t2u (complement (u2t s)) /\ has cT (complement s) = false.
Proof. exact rna_square. Qed.
Print Assumptions C05_rna_square.

Theorem C05_tu_bijection : forall s, (has cT s = false -> t2u (u2t s) = s) /\ (has cU s = false -> u2t (t2u s) = s).
Proof. exact (fun s => conj (t2u_u2t s) (u2t_t2u_id s)). Qed.
Print Assumptions C05_tu_bijection.

(* the other square commutes exactly when the RNA spelling is recognisable: it contains a U, or nothing turns into one *)
Theorem C05_t2u_square_iff : forall d, has cU d = false ->
  (complement (t2u d) = t2u (complement d) <-> has cT d = true \/ has cA d = false).
Proof. exact t2u_square_iff. Qed.
Print Assumptions C05_t2u_square_iff.

(* strings with both T and U: every T is read as U *)
Theorem C05_mixed_TU : forall s, has cU s = true -> complement s = complement (t2u s) /\ rc s = rc (t2u s).
Proof. exact mixed_TU. Qed.
Print Assumptions C05_mixed_TU.

(* constructor: upper-casing is idempotent, fixes the alphabet and undoes lower-casing of it *)
Theorem C05_constructor : forall s,
  construct (construct s) = construct s /\
  (forallb in_alpha_rna s = true -> construct s = s /\ construct (py_lower s) = s) /\
  (forallb (fun c => N.ltb (nb c) 128) s = true -> length (construct s) = length s).
Proof. exact (fun s => conj (construct_idem s) (conj (construct_alpha s) (construct_length_ascii s))). Qed.
Print Assumptions C05_constructor.

(* the derivation of seq.py:21-24, run on the regenerated CODES and COMPLEMENT, yields the regenerated COMPLEMENT_ALL and COMPLEMENT_TRANS *)
Theorem C05_derived_tables : exists d, derive_all CODES COMPLEMENT = Some d /\
  (forall c, lookupB c d = lookupB c COMPLEMENT_ALL) /\
  (forall c, trans_with (derive_trans d) c = trans1 c) /\
  forallb (fun kv => N.ltb (fst kv) 256 && N.ltb (snd kv) 256) COMPLEMENT_TRANS = true.
Proof. exact derived_tables. Qed.
Print Assumptions C05_derived_tables.

(* the derivation is sound for ANY CODES / COMPLEMENT tables: when it succeeds (no KeyError) the derived complement of a code is a code
   of the table whose base set is the image of the bases under COMPLEMENT; keys and their order are those of CODES *)
Theorem C05_derivation_sound : forall codes compl d, derive_all codes compl = Some d ->
  map fst d = map fst codes /\
  forall c nts, In (c, nts) codes ->
    exists c' nts' img, In (c, c') d /\ In (c', nts') codes /\
      mapM (fun nt => lookupB nt compl) nts = Some img /\ (forall x, In x nts' <-> In x img).
Proof. exact derivation_sound. Qed.
Print Assumptions C05_derivation_sound.

Example C05_witness_derive : exists d, derive_all [("A"%byte, bs "A"%bs); ("T"%byte, bs "T"%bs); ("W"%byte, bs "AT"%bs); ("X"%byte, bs "TA"%bs)]
    [("A"%byte, "T"%byte); ("T"%byte, "A"%byte)] = Some d /\ lookupB "W"%byte d = Some "X"%byte.
Proof. exact witness_derive. Qed.

(* CODES is the IUPAC nucleotide code *)
Theorem C05_codes_are_iupac : forallb codes_ok alphabet = true /\ length CODES = length alphabet.
Proof. exact codes_are_iupac. Qed.
Print Assumptions C05_codes_are_iupac.

Example C05_witness_twice : inv_ok (bs "ACGU"%bs) = true /\ inv_ok (bs "UUU"%bs) = false /\ inv_ok (bs "ATU"%bs) = false /\
  Bstr (complement (complement (bs "UUU"%bs))) = "TTT"%bs /\ Bstr (complement (bs "TU"%bs)) = "AA"%bs /\
  Bstr (complement (bs "aXu-R"%bs)) = "aXu-Y"%bs /\ Bstr (complement (t2u (bs "AAA"%bs))) = "TTT"%bs /\
  Bstr (t2u (complement (bs "AAA"%bs))) = "UUU"%bs /\ Bstr (construct (bs "acgu-n"%bs)) = "ACGU-N"%bs.
Proof. exact witness_twice. Qed.

(* rc position by position: symbol i of the result is the complement symbol of symbol len-1-i *)
Theorem C05_rc_positionwise : forall s i, i < length s ->
  nth_error (rc s) i = option_map (cc (has cU s)) (nth_error s (length s - 1 - i)).
Proof. exact rc_positionwise. Qed.
Print Assumptions C05_rc_positionwise.

(* complement and concatenation (+=, slices): pieces are complemented independently exactly when the RNA flag agrees or the
   U-free piece contains no A (the two symbol maps differ on A and U only) *)
Theorem C05_complement_app : forall a b,
  complement (a ++ b) = map (cc (has cU a || has cU b)) a ++ map (cc (has cU a || has cU b)) b /\
  (complement (a ++ b) = complement a ++ complement b <->
   (has cU a = has cU b \/ (has cU a = true /\ has cA b = false) \/ (has cU b = true /\ has cA a = false))) /\
  (forall c, byte_eqb (cc true c) (cc false c) = negb (byte_eqb c cA || byte_eqb c cU)).
Proof. exact (fun a b => conj (complement_app a b) (conj (complement_app_iff a b) cc_differ)). Qed.
Print Assumptions C05_complement_app.

(* the alphabets are closed: DNA strings stay DNA strings, RNA strings (with a U, no T) stay RNA-alphabet strings *)
Theorem C05_closed_alphabets : forall s,
  (forallb in_alpha s = true -> forallb in_alpha (complement s) = true /\ forallb in_alpha (rc s) = true) /\
  (forallb in_rna s = true -> has cU s = true -> forallb in_rna (complement s) = true /\ forallb in_rna (rc s) = true).
Proof. exact closed_alphabets. Qed.
Print Assumptions C05_closed_alphabets.

Example C05_witness_app : Bstr (complement (bs "AC"%bs ++ bs "GU"%bs)) = "UGCA"%bs /\
  Bstr (complement (bs "AC"%bs) ++ complement (bs "GU"%bs)) = "TGCA"%bs /\
  nth_error (rc (bs "AACGU"%bs)) 1 = Some "C"%byte.
Proof. exact witness_app. Qed.

(* what BioSeq.gc counts: G and C over A, C, G, T, U; ambiguity codes (S = G|C included), gaps and all other symbols are ignored;
   additive over concatenation, invariant under reverse (complement and rc: C05_gc_rc) *)
Theorem C05_gc_meaning : forall s,
  gc_counts s = (length (filter isGC s), length (filter isGC s) + length (filter isATU s)) /\
  gc_counts (reverse s) = gc_counts s /\
  (forall a b, gc_counts (a ++ b) = (fst (gc_counts a) + fst (gc_counts b), snd (gc_counts a) + snd (gc_counts b))).
Proof. exact gc_meaning. Qed.
Print Assumptions C05_gc_meaning.

Example C05_witness_gc : gc_counts (bs "SSGC-NRAU"%bs) = (2, 4) /\ gc_counts (bs "SN-."%bs) = (0, 0).
Proof. exact witness_gc. Qed.

(* ---- round 7: objects, baskets, histories ---- *)
(* "for seq in self: seq.f()": an object is operated on once per listing in the basket *)
Theorem C05_basket_loop : forall f b h i, i < length h ->
  cell (on_basket f b h) i = Nat.iter (count_occ Nat.eq_dec b i) f (cell h i).
Proof. exact on_basket_spec. Qed.
Print Assumptions C05_basket_loop.

(* basket-level operation = per-sequence operation: objects listed once are operated on once, the others stay *)
Theorem C05_basket_nodup : forall f b h i, NoDup b -> i < length h ->
  cell (on_basket f b h) i = if existsb (Nat.eqb i) b then f (cell h i) else cell h i.
Proof. exact on_basket_nodup. Qed.
Print Assumptions C05_basket_nodup.

Theorem C05_basket_is_map : forall f h, on_basket f (seq 0 (length h)) h = map f h.
Proof. exact on_basket_map. Qed.
Print Assumptions C05_basket_is_map.

(* copy(): fresh object with the same residues; a later in-place method on the copy leaves every older object alone *)
Theorem C05_copy_isolation : forall s p arg opc arg' f, p < length (bask s) ->
  seq_fun opc arg' = Some f -> basket_fun opc = None -> opc <> 4%N -> opc <> 14%N -> opc <> 16%N ->
  let i := nth p (bask s) 0 in
  let s1 := step s (4%N, p, arg) in
  let s2 := step s1 (opc, p, arg') in
  (forall j, j < length (heap s) -> cell (heap s1) j = cell (heap s) j) /\
  cell (heap s1) (length (heap s)) = cell (heap s) i /\
  nth p (bask s1) 0 = length (heap s) /\
  (forall j, j < length (heap s) -> cell (heap s2) j = cell (heap s) j) /\
  cell (heap s2) (length (heap s)) = f (cell (heap s) i).
Proof. exact copy_isolation. Qed.
Print Assumptions C05_copy_isolation.

(* any history of complement / reverse / rc (either update_fts value; on one sequence or on the basket) keeps the length and the
   GC counts of every object and the basket's handles *)
Theorem C05_history_invariants : forall ops s, forallb (fun o => residue_op (fst (fst o))) ops = true ->
  map (@length byte) (heap (run_ops s ops)) = map (@length byte) (heap s) /\
  map gc_counts (heap (run_ops s ops)) = map gc_counts (heap s) /\
  bask (run_ops s ops) = bask s.
Proof. exact residue_history_invariants. Qed.
Print Assumptions C05_history_invariants.

(* one sequence under any history of complement / reverse / rc: only the two parities matter (U-free data: any bytes);
   with U the same holds after writing T for U *)
Theorem C05_history_normal_form : forall ks s,
  (has cU s = false -> run_kinds ks s = kind_fun (parity ks) s) /\
  u2t (run_kinds ks s) = kind_fun (parity ks) (u2t s).
Proof. exact (fun ks s => conj (history_normal_form ks s) (history_normal_form_rna ks s)). Qed.
Print Assumptions C05_history_normal_form.

(* ... and that is what the object machine does to the object at position p; the other objects are not touched *)
Theorem C05_object_history : forall s p ops, forallb (res_on p) ops = true -> nth p (bask s) 0 < length (heap s) ->
  cell (heap (run_ops s ops)) (nth p (bask s) 0) = run_kinds (kinds_of ops) (cell (heap s) (nth p (bask s) 0)) /\
  bask (run_ops s ops) = bask s /\
  (forall j, j <> nth p (bask s) 0 -> cell (heap (run_ops s ops)) j = cell (heap s) j).
Proof. exact object_history. Qed.
Print Assumptions C05_object_history.

(* a sliced basket is a view over the same objects: basket[p:].rc() reverse-complements exactly the objects at positions >= p,
   basket[:p+1].complement() complements exactly those at positions <= p (objects listed once) *)
Theorem C05_slice_view : forall s p arg q, NoDup (bask s) -> q < length (bask s) -> nth q (bask s) 0 < length (heap s) ->
  cell (heap (step s (18%N, p, arg))) (nth q (bask s) 0) =
    (if p <=? q then rc (cell (heap s) (nth q (bask s) 0)) else cell (heap s) (nth q (bask s) 0)) /\
  cell (heap (step s (19%N, p, arg))) (nth q (bask s) 0) =
    (if q <=? p then complement (cell (heap s) (nth q (bask s) 0)) else cell (heap s) (nth q (bask s) 0)) /\
  bask (step s (18%N, p, arg)) = bask s /\ bask (step s (19%N, p, arg)) = bask s.
Proof. exact slice_view. Qed.
Print Assumptions C05_slice_view.

(* the harness compares every intermediate state; the last one is run_ops *)
Theorem C05_trace_last : forall s ops, last (trace s ops) s = run_ops s ops /\ length (trace s ops) = length ops.
Proof. exact trace_last. Qed.
Print Assumptions C05_trace_last.

Example C05_witness_hist :
  Bstr (run_kinds [(true, true); (true, false); (false, true)] (bs "AACGR-"%bs)) = "AACGR-"%bs /\
  map Bstr (on_basket rc [0; 1; 0] [bs "AAC"%bs; bs "GGU"%bs]) = ["AAC"%bs; "ACC"%bs] /\
  map Bstr (heap (run_ops (init_st [(true, bs "aacg"%bs)]) [(4%N, 0, []); (2%N, 0, [])])) = ["AACG"%bs; "CGTT"%bs].
Proof. exact witness_hist. Qed.

(* non-vacuity: a string meeting the hypotheses, with ambiguity codes and gaps *)
Example C05_witness : forallb in_alpha (bs "ACGTRYSWKMBDHVN.-"%bs) = true /\
  Bstr (rc (bs "ACGTRYKMBDHVN.-"%bs)) = "-.NBDHVKMRYACGT"%bs.
Proof. exact (conj eq_refl eq_refl). Qed.
