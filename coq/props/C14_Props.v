(* C14 -- SJSON is lossless for the public object graph. Only statements here; proofs are in proof/C14_Lemmas.v. *)
From Coq Require Import List ZArith Bool.
From Coq.Strings Require Import Byte.
Import ListNotations.
From SV Require Import Text G_flags G_sjson C14_Model C14_Lemmas C14_Text C14_TextLemmas C14_DomainLemmas C14_Ops C14_OpsLemmas.

(* P0: BioBasket.write(fmt='sjson') followed by read_sjson returns the basket with, in every Attr/Meta mapping, exactly the
   keys rejected by the encoder filter removed (strip); everything else -- residues, type, nested metadata with its classes,
   features, and start/stop/strand/defect/metadata of every location -- is the input. *)
Theorem C14_sjson_roundtrip : forall b, wf_C14 b = true -> read_sjson (write_sjson b) = Ok (strip b).
Proof. exact roundtrip_basket. Qed.
Print Assumptions C14_sjson_roundtrip.

(* the same for any object of the universe sitting anywhere (the encoder and the hook are generic); in particular the hook
   is total on the encoder's image *)
Theorem C14_roundtrip_any_object : forall o, wf o = true -> dec (enc o) = Ok (strip o).
Proof. exact roundtrip_obj. Qed.
Print Assumptions C14_roundtrip_any_object.

(* what strip is: the identity on every field except the items of Attr/Meta mappings *)
Theorem C14_strip_fields :
  (forall data m, strip (OBasket data m) = OBasket (map strip data) (strip_items m)) /\
  (forall d m t, strip (OSeq d m t) = OSeq d (strip_items m) t) /\
  (forall data, strip (OFts data) = OFts (map strip data)) /\
  (forall m locs, strip (OFeat m locs) = OFeat (strip_items m) (map strip locs)) /\
  (forall a b s d m, strip (OLoc a b s d m) = OLoc a b s d (option_map strip_items m)) /\
  (forall c kv, strip (OAttr c kv) = OAttr c (strip_items kv)) /\
  (forall kv, strip (ODict kv) = ODict (map (fun p => (fst p, strip (snd p))) kv)) /\
  (forall l, strip (OList l) = OList (map strip l)) /\
  (forall s, strip (OStr s) = OStr s) /\ (forall z, strip (OInt z) = OInt z) /\ (forall l, strip (OFloat l) = OFloat l) /\
  (forall b, strip (OBool b) = OBool b) /\ strip ONone = ONone.
Proof. exact strip_fields. Qed.
Print Assumptions C14_strip_fields.

(* ... and there: order kept, values stripped recursively, a key disappears only if keep_final rejects it *)
Theorem C14_strip_items_spec : forall kv,
  strip_items kv = map (fun p => (fst p, strip (snd p))) (filter (fun p => keep_final (fst p)) kv).
Proof. exact strip_items_spec. Qed.
Print Assumptions C14_strip_items_spec.

(* a key disappears ONLY if it starts with '_' *)
Theorem C14_dropped_keys_private : forall k, keep_final k = false -> starts_us k = true.
Proof. exact dropped_keys_private. Qed.
Print Assumptions C14_dropped_keys_private.

(* hence on the domain the public part (all '_'-prefixed keys of Attr/Meta mappings removed) is untouched *)
Theorem C14_only_private_dropped : forall o, wf o = true -> pub (strip o) = pub o.
Proof. exact pub_strip. Qed.
Print Assumptions C14_only_private_dropped.

(* write() then sugar.read(): the exact result (the reader adds the private key _fmt to every sequence) ... *)
Theorem C14_write_read_exact : forall data m, wf_C14 (OBasket data m) = true ->
  write_read (OBasket data m) = Ok (OBasket (map add_fmt (map strip data)) (strip_items m)).
Proof. exact write_read_exact. Qed.
Print Assumptions C14_write_read_exact.

(* ... and the property as stated: reading succeeds and the public object graph is equal *)
Theorem C14_write_read_public : forall b, wf_C14 b = true -> exists b', write_read b = Ok b' /\ pub b' = pub b.
Proof. exact write_read_public. Qed.
Print Assumptions C14_write_read_public.

(* what was read back is again in the domain and a second write/read changes nothing more (fixpoint) *)
Theorem C14_second_roundtrip_identity : forall o, wf o = true -> wf (strip o) = true /\ dec (enc (strip o)) = Ok (strip o).
Proof. exact second_roundtrip. Qed.
Print Assumptions C14_second_roundtrip_identity.

Theorem C14_strip_idempotent : forall o, strip (strip o) = strip o.
Proof. exact strip_idem. Qed.
Print Assumptions C14_strip_idempotent.

(* P0 enc_tags_injective: distinct classes get distinct tags, every tag names a class of sjson.SUGAR (regenerated), the
   hook dispatches a tag to the constructor of its class, and the encoder writes the tag of the object's class *)
Theorem C14_enc_tags_injective :
  (forall k1 k2, tag k1 = tag k2 -> k1 = k2) /\ (forall k, In (tag k) SJSON_CLASSES) /\
  (forall k d, construct (tag k) d = constructor_of k d) /\
  (forall o k, kind_of o = Some k -> json_cls (enc o) = Some (JStr (tag k))).
Proof. exact (conj tags_injective (conj tags_are_sugar_classes (conj tags_dispatch enc_writes_tag))). Qed.
Print Assumptions C14_enc_tags_injective.

(* tie: the attribute sets and constructor signatures of /repo the model was written against (regenerated on every run) *)
Theorem C14_pins :
  SJSON_CLASSES = [cls_name CAttr; N_BioBasket; N_BioSeq; bs "Defect"%bs; N_Feature; N_FeatureList; N_Location; cls_name CMeta; bs "Strand"%bs] /\
  (SJSON_VARS_BioSeq = [K_data; K_meta; K_type] /\ SJSON_VARS_BioBasket = [K_data; K_meta] /\
   SJSON_VARS_FeatureList = [K_data] /\ SJSON_VARS_Feature = [K_meta; bs "_locs"%bs] /\
   SJSON_VARS_Location = [K_start; K_stop; bs "_strand"%bs; bs "_defect"%bs; bs "_meta"%bs]) /\
  (SJSON_INIT_BioSeq = [K_data; K_id; K_meta; K_type] /\ SJSON_INIT_BioBasket = [K_data; K_meta] /\
   SJSON_INIT_FeatureList = [K_data] /\ SJSON_INIT_Location = [K_start; K_stop; K_strand; K_defect; K_meta] /\
   SJSON_INIT_Feature = [K_type; K_locs; K_meta; bs "**kw"%bs] /\
   SJSON_INIT_LocationTuple = [K_locs; K_start; K_stop; K_strand] /\
   SJSON_INIT_Attr = [bs "*args"%bs; bs "**kwargs"%bs]) /\
  (filter keep_key SJSON_VARS_BioSeq = [K_data; K_meta; K_type] /\ filter keep_key SJSON_VARS_BioBasket = [K_data; K_meta] /\
   filter keep_key SJSON_VARS_FeatureList = [K_data] /\ filter keep_key SJSON_VARS_Feature = [K_meta] /\
   filter keep_key SJSON_VARS_Location = [K_start; K_stop] /\ keep_key K_fmtcomment = true /\ keep_key K_cls = false).
Proof. exact (conj pin_classes (conj pin_vars (conj pin_inits pin_filter_on_vars))). Qed.
Print Assumptions C14_pins.

(* non-vacuity: a basket with a two-location minus-strand feature (defects 3 and 128, location metadata), nested Attr/list/dict
   metadata, private keys and a type that is not the inferred one satisfies wf_C14; the round trip drops something (strip b <> b)
   but nothing public *)
Example C14_witness :
  wf_C14 w_basket = true /\ read_sjson (write_sjson w_basket) = Ok (strip w_basket) /\ strip w_basket <> w_basket /\
  (exists b', write_read w_basket = Ok b' /\ pub b' = pub w_basket /\ pub w_basket <> w_basket).
Proof. exact witness_ok. Qed.

(* fixed finding reserved_meta_keys (/repo 056e094): the metadata keys 'str' and 'self' -- at sequence, basket and nested level,
   also inside a plain dict in a list -- are inside the domain and come back unchanged *)
Example C14_str_self_keys_kept :
  wf_C14 w_keys = true /\ strip w_keys = w_keys /\ read_sjson (write_sjson w_keys) = Ok w_keys /\
  exists b', write_read w_keys = Ok b' /\ pub b' = w_keys.
Proof. exact str_self_keys_kept. Qed.

(* seeded change C14-3: sequence ids (and feature id/name/seqid/type, location and basket entries named id) that are falsy JSON
   scalars -- 0, None, False, 0.0, '' -- are inside the domain and come back with value and type *)
Example C14_falsy_ids_kept :
  wf_C14 w_falsy = true /\ strip w_falsy = w_falsy /\ read_sjson (write_sjson w_falsy) = Ok w_falsy /\
  exists b', write_read w_falsy = Ok b' /\ pub b' = w_falsy.
Proof. exact falsy_ids_kept. Qed.

(* rebuilding a sequence from its written attributes never touches a metadata mapping that has the key 'id', whatever its value *)
Theorem C14_seq_id_any_value : forall d m t,
  conv_kv m = m -> has_key K_id m = true -> (str_eqb t N_nt || str_eqb t N_aa) = true ->
  construct_seq [(K_data, OStr d); (K_meta, OAttr CMeta m); (K_type, OStr t)] = Ok (OSeq (upper d) m t).
Proof. exact seq_id_any_value. Qed.
Print Assumptions C14_seq_id_any_value.

(* the `_fmtcomment` wrapper and the sniffer: the top-level object written for a basket starts with the comment entry, and the text
   json.dump produces for such an object (its head: brace, quoted key, separator, opening quote, value -- trusted text layer, checked
   by the driver on every case) is accepted by is_sjson whatever follows, so sugar.read detects the format of what write() wrote *)
Theorem C14_written_text_is_detected : forall b rest, is_basket b = true ->
  (exists kv, write_sjson b = JObj ((K_fmtcomment, JStr SJSON_COMMENT) :: kv)) /\
  text_head (write_sjson b) <> [] /\ is_sjson (text_head (write_sjson b) ++ rest) = true.
Proof. exact written_text_is_detected. Qed.
Print Assumptions C14_written_text_is_detected.

(* the clauses of the property, spelled out on a flat view: per sequence the residues and the type, per feature of meta['fts'] the
   start, stop, strand and defect of every location, in order -- equal after write -> read for every basket of the domain *)
Theorem C14_view_preserved : forall b, wf_C14 b = true ->
  exists b', write_read b = Ok b' /\ basket_view b' = basket_view b.
Proof. exact view_preserved. Qed.
Print Assumptions C14_view_preserved.

(* totality of the hook on arbitrary JSON trees: (i) a tree without any `_cls` key is returned as the plain data it denotes;
   (ii) on every tree read_sjson either succeeds or raises TypeError, ValueError, KeyError or AssertionError, and sugar.read adds
   only AttributeError (a basket element without metadata) *)
Theorem C14_dec_plain : forall j, no_cls j = true -> dec j = Ok (plain_of j).
Proof. exact dec_plain. Qed.
Print Assumptions C14_dec_plain.

Theorem C14_hook_errors_documented :
  (forall j e, dec j = Err e -> documented_error e = true) /\
  (forall viaread j e, read_any viaread j = Err e -> documented_error e = true \/ e = E_Attribute).
Proof. exact (conj dec_errors_documented read_errors_documented). Qed.
Print Assumptions C14_hook_errors_documented.

(* ======== JSON TEXT LAYER (round 7): the bytes json.dump writes and what json.load scans back =================================== *)
(* json.load(json.dump(t)) = t for EVERY tree (any nesting, any number of elements; floats must be literals float.__repr__ can
   produce, wfj): the scanner reads the printed text followed by any continuation that does not prolong a number, returns the tree
   and leaves exactly the continuation; fuel = size of the tree is enough *)
Theorem C14_text_roundtrip : forall j fuel rest, wfj j = true -> stop_ok rest = true -> jsize j <= fuel ->
  parse fuel (print j ++ rest) = Some (j, rest).
Proof. exact parse_print. Qed.
Print Assumptions C14_text_roundtrip.

(* json.loads(json.dumps(t)) = t; the length of the text is always enough fuel *)
Theorem C14_loads_dumps : forall j, wfj j = true ->
  (forall fuel, jsize j <= fuel -> loads fuel (print j) = Some j) /\ loads (S (List.length (print j))) (print j) = Some j.
Proof. exact (fun j W => conj (fun fuel => loads_print j fuel W) (loads_print_len j W)). Qed.
Print Assumptions C14_loads_dumps.

(* the text determines the tree: True / 1 / 1.0, null / "null", [] / {} / "" ... are never confused *)
Theorem C14_print_injective : forall j1 j2, wfj j1 = true -> wfj j2 = true -> print j1 = print j2 -> j1 = j2.
Proof. exact print_injective. Qed.
Print Assumptions C14_print_injective.

(* string literals: for every string over code points 0..255 the literal followed by any text is scanned back to the string and
   that text, and the literal is printable ASCII only (ensure_ascii) *)
Theorem C14_jstring_roundtrip : forall s rest,
  jstring s ++ rest = """"%byte :: flat_map esc_char s ++ """"%byte :: rest /\ scan_str (flat_map esc_char s ++ """"%byte :: rest) = Some (s, rest) /\ forallb printable (jstring s) = true.
Proof. exact (fun s rest => conj (jstring_app s rest) (conj (scan_str_body s rest) (jstring_printable s))). Qed.
Print Assumptions C14_jstring_roundtrip.

(* the encoder's image is printable and readable whenever the floats of the graph are *)
Theorem C14_written_tree_is_text : forall b, wfo b = true -> wfj (write_sjson b) = true.
Proof. exact wfj_write. Qed.
Print Assumptions C14_written_tree_is_text.

(* THE ROUND TRIP AT BYTE LEVEL: reading the bytes written for a basket of the domain returns the basket with only the keys
   rejected by the encoder filter removed; through sugar.read the public object graph is equal *)
Theorem C14_bytes_roundtrip : forall b, wf_C14 b = true -> wfo b = true ->
  read_bytes (write_bytes b) = Ok (strip b) /\ exists b', write_read_bytes b = Ok b' /\ pub b' = pub b.
Proof. exact (fun b H W => conj (bytes_roundtrip b H W) (bytes_write_read_public b H W)). Qed.
Print Assumptions C14_bytes_roundtrip.

(* values json.dump accepts although they are not JSON -- tuples and dict keys that are int / float / bool / None: they come back
   changed (tuple -> list, key -> str), so json.loads(json.dumps(v)) = v EXACTLY for the values without tuples whose keys are all
   str; those are therefore outside the property's domain, everything else the quantifier names is inside *)
Theorem C14_native_roundtrip_iff : forall v j, native v = Some j -> (back j = v <-> json_native v = true).
Proof. exact native_back_iff. Qed.
Print Assumptions C14_native_roundtrip_iff.

Theorem C14_nonstr_keys_outside :
  (forall k t, key_text k = Some t -> is_kstr k = false -> KStr t <> k) /\ key_text (KInt 1) = key_text (KStr (bs "1"%bs)) /\ key_text (KBool true) = key_text (KStr (bs "true"%bs)) /\ key_text KNone = key_text (KStr (bs "null"%bs)).
Proof. exact (conj nonstr_key_changed key_collision). Qed.
Print Assumptions C14_nonstr_keys_outside.

Example C14_witness_text :
  wfj w_json = true /\ loads (jsize w_json) (print w_json) = Some w_json /\ print (JArr [JBool true; JInt 1; JFloat (bs "1.0"%bs); JFloat (bs "nan"%bs); JFloat (bs "-inf"%bs); JStr [xe9; x0a]])
    = bs "[true, 1, 1.0, NaN, -Infinity, ""\u00e9\n""]"%bs /\
  loads 9 (bs " [ 1 ,2.5E+3 , -0,""\u00E9\/"" ]  "%bs) = Some (JArr [JInt 1; JFloat (bs "2.5E+3"%bs); JInt 0; JStr [xe9; x2f]]) /\
  loads 9 (bs "[01]"%bs) = None /\ loads 9 (bs "[1.]"%bs) = None /\ loads 9 (bs "1 2"%bs) = None /\ loads 9 (bs "[+1]"%bs) = None.
Proof. exact w_json_ok. Qed.

Example C14_witness_native :
  json_native w_pyv = false /\
  option_map print (native w_pyv) = Some (bs "{""t"": [1, 2], ""1"": ""a"", ""true"": null, ""null"": [], ""1.5"": false}"%bs) /\
  option_map back (native w_pyv) =
    Some (PDict [(KStr (bs "t"%bs), PList [PInt 1; PInt 2]); (KStr (bs "1"%bs), PStr (bs "a"%bs)); (KStr (bs "true"%bs), PNone);
                 (KStr (bs "null"%bs), PList []); (KStr (bs "1.5"%bs), PBool false)]) /\
  native (PDict [(KOther, PNone)]) = None.
Proof. exact w_pyv_ok. Qed.

Example C14_witness_bytes : wfo w_basket = true /\ read_bytes (write_bytes w_basket) = Ok (strip w_basket).
Proof. exact w_bytes_ok. Qed.

(* ======== THE BORDERS OF THE DOMAIN (round 7): must unsorted tuples, several strands and lower-case residues stay out? ========== *)
(* LocationTuple(locs) on Location objects always returns a non-empty, one-strand tuple in the order of transcription, is the
   identity on such tuples (so constructing, rc(), slice(), assignment to ft.locs ... -- everything that ends in LocationTuple(...)
   -- lands inside the domain), and returns its argument when that was in order *)
Theorem C14_locationtuple_ordered : forall l l', forallb is_loc l = true -> location_tuple l = Ok l' ->
  l' <> [] /\ forallb is_loc l' = true /\ same_strands l' = true /\ sorted_by (loc_order l') l' = true /\
  location_tuple l' = Ok l' /\ (sorted_by (loc_order l) l = true -> l' = l).
Proof. exact locationtuple_ordered. Qed.
Print Assumptions C14_locationtuple_ordered.

(* a feature that satisfies everything except the order of its locations (Location attributes edited in place) is read back SORTED
   (stable), and it is read back as written exactly when it was in order: the order clause is necessary *)
Theorem C14_feature_roundtrip_sorts : forall m locs, wf_feat_but_order m locs = true -> same_strands locs = true ->
  dec (enc (OFeat m locs)) = Ok (OFeat (strip_items m) (map strip (sort_by (loc_order locs) locs))).
Proof. exact feature_roundtrip_sorts. Qed.
Print Assumptions C14_feature_roundtrip_sorts.

Theorem C14_feature_roundtrip_iff_sorted : forall m locs, wf_feat_but_order m locs = true -> same_strands locs = true ->
  (dec (enc (OFeat m locs)) = Ok (strip (OFeat m locs)) <-> sorted_by (loc_order locs) locs = true).
Proof. exact feature_roundtrip_iff_sorted. Qed.
Print Assumptions C14_feature_roundtrip_iff_sorted.

(* several strands in one feature (only reachable by editing loc.strand in place): the written file cannot be read -- they MUST stay out *)
Theorem C14_mixed_strands_unreadable : forall m locs, wf_feat_but_order m locs = true -> same_strands locs = false ->
  dec (enc (OFeat m locs)) = Err E_Value.
Proof. exact feature_mixed_strands_unreadable. Qed.
Print Assumptions C14_mixed_strands_unreadable.

(* residues: whatever was written, the reader returns the upper-cased residues; equal exactly when there is no lower-case ASCII
   letter -- lower-case residues (seq.data = ..., seq.str.lower()) MUST stay out *)
Theorem C14_lowercase_residues_uppercased : forall d m t, wf_seq_but_case m t = true ->
  dec (enc (OSeq d m t)) = Ok (OSeq (upper d) (strip_items m) t) /\
  (dec (enc (OSeq d m t)) = Ok (strip (OSeq d m t)) <-> upper d = d) /\
  (upper d = d <-> forallb (fun c => negb (is_lower_ascii c)) d = true).
Proof. exact (fun d m t H => conj (seq_roundtrip_uppercases d m t H) (conj (seq_roundtrip_iff_no_lower d m t H) (upper_fix_iff d))). Qed.
Print Assumptions C14_lowercase_residues_uppercased.

Example C14_witness_borders :
  wf_feat_but_order [(K_type, OStr (bs "CDS"%bs))] w_locs_unsorted = true /\ same_strands w_locs_unsorted = true /\
  sorted_by (loc_order w_locs_unsorted) w_locs_unsorted = false /\
  location_tuple w_locs_unsorted = Ok [OLoc 30 40 S_minus 0 None; OLoc 12 20 S_minus 1 None; OLoc 5 20 S_minus 2 (Some [])] /\
  wf_feat_but_order [] [OLoc 1 2 S_plus 0 None; OLoc 5 6 S_minus 0 None] = true /\
  same_strands [OLoc 1 2 S_plus 0 None; OLoc 5 6 S_minus 0 None] = false /\
  wf_seq_but_case [(K_id, OStr [])] N_nt = true /\ upper (bs "acgU-n"%bs) = bs "ACGU-N"%bs.
Proof. exact w_unsorted_ok. Qed.

(* ======== BASKETS WITH A HISTORY (round 7): public operations applied before the write ============================================ *)
(* Strand and Defect values (over the regenerated flag tables) are closed under _reverse, which is an involution, and under the
   MISS_LEFT / MISS_RIGHT marking of FeatureList.slice *)
Theorem C14_flags_closed :
  (forall d, (0 <= d < 256)%Z -> (0 <= defect_reverse d < 256)%Z /\ defect_reverse (defect_reverse d) = d) /\
  (forall s, is_strand s = true -> is_strand (strand_reverse s) = true /\ strand_reverse (strand_reverse s) = s) /\
  (forall d, (0 <= d < 256)%Z -> (0 <= Z.lor d (Z.of_N D_MISS_LEFT) < 256)%Z /\ (0 <= Z.lor d (Z.of_N D_MISS_RIGHT) < 256)%Z).
Proof. exact (conj defect_reverse_closed (conj strand_reverse_closed defect_mark_closed)). Qed.
Print Assumptions C14_flags_closed.

(* every modelled public operation -- Feature.rc(seqlen), FeatureList.rc(seqlen), assignment to Feature.locs, item assignment on
   sequence and basket metadata (with its dict -> Attr conversion) -- keeps a basket inside the domain, strands '.' and '?' included *)
Theorem C14_preop_keeps_domain : forall o b b', wf_C14 b = true -> op_ok o = true -> apply_op o b = Ok b' -> wf_C14 b' = true.
Proof. exact op_keeps_domain. Qed.
Print Assumptions C14_preop_keeps_domain.

(* so after ANY number of them in ANY order write -> read returns the basket as it is at the moment of writing (induction over the
   history) *)
Theorem C14_prehistory_roundtrip : forall ops b b', wf_C14 b = true -> forallb op_ok ops = true -> apply_ops ops b = Ok b' ->
  read_sjson (write_sjson b') = Ok (strip b') /\ exists b'', write_read b' = Ok b'' /\ pub b'' = pub b'.
Proof. exact prehistory_roundtrip. Qed.
Print Assumptions C14_prehistory_roundtrip.

Example C14_witness_history :
  wf_C14 w_basket = true /\ forallb op_ok w_ops = true /\
  (exists b', apply_ops w_ops w_basket = Ok b' /\ b' <> w_basket /\ wf_C14 b' = true /\ read_sjson (write_sjson b') = Ok (strip b')).
Proof. exact w_history_ok. Qed.

(* operations that only rearrange, drop or repeat sequences of the basket or features of a sequence (sort, filter, select, set
   operations, slicing of the basket, concatenation, list reversal) keep the domain too *)
Theorem C14_rearrangement_keeps_domain :
  (forall data data' m, wf_C14 (OBasket data m) = true -> incl data' data -> wf_C14 (OBasket data' m) = true) /\
  (forall d m t fl fl', wf (OSeq d m t) = true -> lookup K_fts m = Some (OFts fl) -> incl fl' fl ->
     wf (OSeq d (set_key K_fts (OFts fl') m) t) = true).
Proof. exact rearrangement_keeps_domain. Qed.
Print Assumptions C14_rearrangement_keeps_domain.

(* LocationTuple(...) on ANY argument (locations given as lists are coerced to Location first): if it returns, the result is a
   non-empty one-strand tuple of Location objects in order, and a fixed point *)
Theorem C14_locationtuple_ordered_any : forall l l', location_tuple l = Ok l' ->
  l' <> [] /\ forallb is_loc l' = true /\ same_strands l' = true /\ sorted_by (loc_order l') l' = true /\ location_tuple l' = Ok l'.
Proof. exact locationtuple_ordered_any. Qed.
Print Assumptions C14_locationtuple_ordered_any.

(* the sniffer accepts the written BYTES: the text-head assumption of C14_written_text_is_detected is now a theorem about the printer *)
Theorem C14_written_bytes_detected : forall b, is_basket b = true -> is_sjson (write_bytes b) = true.
Proof. exact written_bytes_detected. Qed.
Print Assumptions C14_written_bytes_detected.

(* white space (space, tab, newline, carriage return) before and after the document does not matter *)
Theorem C14_loads_padded : forall j fuel pre post, wfj j = true -> jsize j <= fuel ->
  forallb is_ws pre = true -> forallb is_ws post = true -> loads fuel (pre ++ print j ++ post) = Some j.
Proof. exact loads_padded. Qed.
Print Assumptions C14_loads_padded.
