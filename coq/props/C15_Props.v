(* C15 -- Stockholm annotations survive I/O; feature rows invert. Only statements here; proofs in proof/C15_*.v. *)
From Coq Require Import List ZArith NArith Bool.
From Coq.Strings Require Import Byte.
Import ListNotations.
From SV Require Import Text G_flags C15_Model C15_Lemmas C15_Read C15_Fold C15_Blocks C15_Rows C15_RowInv C15_RowIdem C15_Handle C15_Crlf C15_Noise.

(* the Defect values the row functions rely on (regenerated from /repo) *)
Theorem C15_flags_pinned : D_NONE = 0%N /\ D_MISS_LEFT = 1%N /\ D_MISS_RIGHT = 2%N /\ D_BEYOND_LEFT = 4%N /\ D_BEYOND_RIGHT = 8%N.
Proof. exact flags_pinned. Qed.
Print Assumptions C15_flags_pinned.

(* GF, GC, GS, GR written by write_stockholm are read back unchanged, attached to the same alignment / sequence,
   rows and keys in the same order; the handle is left at the end *)
Theorem C15_stk_roundtrip : forall a, wf_aln a = true -> read_text (write_text a) = (Some a, []).
Proof. exact stk_roundtrip. Qed.
Print Assumptions C15_stk_roundtrip.

(* reading stops at the end of the first alignment, whatever follows on the handle *)
Theorem C15_stk_stop : forall a rest, wf_aln a = true -> read_text (write_text a ++ rest) = (Some a, rest).
Proof. exact read_write_rest. Qed.
Print Assumptions C15_stk_stop.

(* successive reads on one handle return the successive alignments, then an empty basket *)
Theorem C15_stk_multi : forall alns, forallb wf_aln alns = true ->
  read_n (S (length alns)) (concat (map write_text alns)) = map Some alns ++ [Some empty_aln].
Proof. exact stk_multi_all. Qed.
Print Assumptions C15_stk_multi.

(* an interleaved (multi-block) file, at every block width, reads to the same result as the single-block form,
   and the handle is left after the terminator whatever follows *)
Theorem C15_stk_interleave : forall bw a, wf_aln a = true -> 1 <= bw ->
  read_text (render_blocks bw a) = read_text (write_text a) /\ read_text (render_blocks bw a) = (Some a, []).
Proof. exact stk_interleave. Qed.
Print Assumptions C15_stk_interleave.

Theorem C15_stk_interleave_stop : forall bw a rest, wf_aln a = true -> 1 <= bw ->
  read_text (render_blocks bw a ++ rest) = (Some a, rest).
Proof. exact read_blocks_rest. Qed.
Print Assumptions C15_stk_interleave_stop.

(* repeated #=GF lines with one key are joined by one space; other keys are untouched *)
Theorem C15_stk_gf_join : forall s k v1 v2,
  let s' := step (step s (IGF k v1)) (IGF k v2) in
  lookup k (s_gf s') = Some (join_sp v2 (Some (join_sp v1 (lookup k (s_gf s)))))
  /\ (forall k', k' <> k -> lookup k' (s_gf s') = lookup k' (s_gf s))
  /\ (lookup k (s_gf s) = None -> lookup k (s_gf s') = Some (v1 ++ SP :: v2)).
Proof. exact stk_gf_join. Qed.
Print Assumptions C15_stk_gf_join.

Theorem C15_stk_gs_join : forall s i k v1 v2,
  let s' := step (step s (IGS i k v1)) (IGS i k v2) in
  lookup k (getd i (s_gs s')) = Some (join_sp v2 (Some (join_sp v1 (lookup k (getd i (s_gs s))))))
  /\ (forall i', i' <> i -> getd i' (s_gs s') = getd i' (s_gs s)).
Proof. exact stk_gs_join. Qed.
Print Assumptions C15_stk_gs_join.

(* repeated tags ANYWHERE in the file (adjacent or separated by other GF tags, sequence blocks, GC/GR lines, comments):
   a GF tag k whose fragments in file order are v :: vs reads as the fragments joined by single spaces; likewise a GS tag
   of one sequence; stated on the reader's fold over arbitrary item lists and on the text of a file *)
Theorem C15_gf_all_frags : forall k its s,
  lookup k (s_gf (fold_left step its s)) = join_all (lookup k (s_gf s)) (gf_frags k its).
Proof. exact gf_all_frags. Qed.
Print Assumptions C15_gf_all_frags.

Theorem C15_gs_all_frags : forall i k its s,
  lookup k (getd i (s_gs (fold_left step its s))) = join_all (lookup k (getd i (s_gs s))) (gs_frags i k its).
Proof. exact gs_all_frags. Qed.
Print Assumptions C15_gs_all_frags.

Theorem C15_read_text_gf_join : forall t ls e rest k v vs,
  py_lines t = ls ++ e :: rest -> forallb good (map parse_line ls) = true -> parse_line e = IEnd ->
  gf_frags k (map parse_line ls) = v :: vs ->
  exists a, fst (read_text t) = Some a /\ lookup k (a_gf a) = Some (spaced v vs).
Proof. exact read_text_gf_join. Qed.
Print Assumptions C15_read_text_gf_join.

Theorem C15_read_text_gs_join : forall t ls e rest i k v vs r,
  py_lines t = ls ++ e :: rest -> forallb good (map parse_line ls) = true -> parse_line e = IEnd ->
  gs_frags i k (map parse_line ls) = v :: vs ->
  exists a, fst (read_text t) = Some a /\ (In r (a_rows a) -> r_id r = i -> lookup k (r_gs r) = Some (spaced v vs)).
Proof. exact read_text_gs_join. Qed.
Print Assumptions C15_read_text_gs_join.

(* column data (GC, GR, sequence rows) with ANY placement of the lines, i.e. any block layout: every key reads as the
   concatenation of its fragments in file order *)
Theorem C15_stk_columns_anywhere : forall its,
  (forall k v vs, gc_frags k its = v :: vs -> lookup k (s_gc (fold_left step its st0)) = Some (concat (v :: vs)))
  /\ (forall i v vs, seq_frags i its = v :: vs -> lookup i (s_seqs (fold_left step its st0)) = Some (concat (v :: vs)))
  /\ (forall i k v vs, gr_frags i k its = v :: vs ->
        lookup k (getd i (s_gr (fold_left step its st0))) = Some (concat (v :: vs))).
Proof. exact stk_columns_anywhere. Qed.
Print Assumptions C15_stk_columns_anywhere.

(* every annotation line the writer emits is classified back to its item (the text layer of the round trip) *)
Theorem C15_lines_items : forall a, wf_aln a = true -> map (fun l => parse_line (l ++ [NL])) (content_lines a) = items_of a.
Proof. exact (fun a H => lines_items a (wf_aln_ok a H)). Qed.
Print Assumptions C15_lines_items.

(* fts2row then row2fts gives the (sorted) features back, for feature lists of ANY length, width and names: boundaries,
   names (also when fts2row repeats the name of a wide feature), shared boundary columns, open ends as MISS_LEFT/MISS_RIGHT
   and the column offset of the first feature; the row ends at the last stop *)
Theorem C15_row_fts_inverse : forall l, wf_fts l = true ->
  exists s, fts2row l = ROk s /\ row2fts s = sort_fts l /\ length s = last_stop 0 (sort_fts l).
Proof. exact row_fts_inverse. Qed.
Print Assumptions C15_row_fts_inverse.

(* row2fts then fts2row then row2fts is the identity on features, for EVERY well-formed row of any length (any printable
   name characters); the features of such a row are sorted and well-formed *)
Theorem C15_row_fts_row : forall r, wf_rowstr r = true ->
  exists s, fts2row (row2fts r) = ROk s /\ row2fts s = row2fts r /\ oksorted (row2fts r).
Proof. exact row_fts_row. Qed.
Print Assumptions C15_row_fts_row.

(* the rows fts2row produces are fixed points of row2fts ; fts2row *)
Theorem C15_row_canonical : forall l s, wf_fts l = true -> fts2row l = ROk s -> fts2row (row2fts s) = ROk s.
Proof. exact row_canonical. Qed.
Print Assumptions C15_row_canonical.

(* a feature with several locations is drawn over its whole range: start = minimum of the starts, stop = maximum of the
   stops (nested locations, later start with earlier stop, any order, both strands) *)
Theorem C15_range_spec : forall locs, locs <> [] ->
  (forall x, In x locs -> range_start locs <= l_start x /\ l_stop x <= range_stop locs)
  /\ (exists x, In x locs /\ l_start x = range_start locs) /\ (exists x, In x locs /\ l_stop x = range_stop locs).
Proof. exact range_spec. Qed.
Print Assumptions C15_range_spec.

Theorem C15_range_perm : forall locs locs', Permutation.Permutation locs locs' ->
  range_start locs = range_start locs' /\ range_stop locs = range_stop locs'.
Proof. exact range_perm. Qed.
Print Assumptions C15_range_perm.

Theorem C15_multi_ft_range : forall name minus locs, locs <> [] ->
  f_start (multi_ft name minus locs) = range_start locs /\ f_stop (multi_ft name minus locs) = range_stop locs
  /\ f_name (multi_ft name minus locs) = name.
Proof. exact multi_ft_range. Qed.
Print Assumptions C15_multi_ft_range.

(* row2fts (fts2row (row2fts r)) = row2fts r, and the features of a well-formed row are well-formed:
   complete enumeration of the 87 381 rows over {. | a b} of length <= 8 (21 835 of them well-formed) *)
Theorem C15_row_fts_row_box : forall r, In r (strs_upto ROW_ALPHA ROW_BOX) -> wf_rowstr r = true ->
  exists s, fts2row (row2fts r) = ROk s /\ row2fts s = row2fts r /\ wf_fts (row2fts r) = true.
Proof. exact row_fts_row_box. Qed.
Print Assumptions C15_row_fts_row_box.

(* row2fts (fts2row fts) = fts (sorted): boundaries, names, shared boundary markers, open ends and the offset of the
   first feature; the row ends at the last stop. Complete enumeration of the 129 961 lists of <= 2 features inside
   columns 0..9 with names a / bc and defects 0..3 (1 085 of them well-formed) *)
Theorem C15_fts_row_fts_box : forall l, In l box_fts -> wf_fts l = true ->
  exists s, fts2row l = ROk s /\ row2fts s = sort_fts l
            /\ length s = match rev (sort_fts l) with f :: _ => f_stop f | [] => 0 end.
Proof. exact fts_row_fts_box. Qed.
Print Assumptions C15_fts_row_fts_box.

Theorem C15_box_sizes : N.of_nat (length (strs_upto ROW_ALPHA ROW_BOX)) = 87381%N /\ N.of_nat (length box_fts) = 129961%N
  /\ N.of_nat (length (filter wf_rowstr (strs_upto ROW_ALPHA ROW_BOX))) = 21835%N
  /\ N.of_nat (length (filter wf_fts box_fts)) = 1085%N.
Proof. exact box_sizes. Qed.
Print Assumptions C15_box_sizes.

(* ---- round 6: handle positions. A handle is a text t and an offset; read_at models one sugar.read(handle[, fmt]) ---- *)

(* format detection accepts what the writer (and the interleaved rendering) produces, whatever follows *)
Theorem C15_is_stockholm_written : forall a rest,
  is_stockholm (write_text a ++ rest) = true /\ (forall bw, is_stockholm (render_blocks bw a ++ rest) = true).
Proof. exact (fun a rest => conj (is_stockholm_write a rest) (fun bw => is_stockholm_blocks bw a rest)). Qed.
Print Assumptions C15_is_stockholm_written.

(* offset theorem: the handle standing behind leading bytes pre and the first k alignments (the caller consumed them, or
   earlier reads did), one read - format given or detected - returns alignment k and leaves the handle exactly behind it *)
Theorem C15_read_at_offset : forall alns k a pre post auto, forallb wf_aln alns = true -> nth_error alns k = Some a ->
  let texts := map write_text alns in
  let off := length pre + length (concat (firstn k texts)) in
  read_at auto (pre ++ concat texts ++ post) off = (got a, off + length (write_text a)).
Proof. exact read_at_kth. Qed.
Print Assumptions C15_read_at_offset.

(* successive reads on one handle, any mixture of given / detected format: step k returns alignment k with its own
   annotations and offset k+1 = offset k + the length of the text of alignment k (induction on the list of alignments) *)
Theorem C15_chain_offsets : forall alns flags pre post, forallb wf_aln alns = true -> length flags = length alns ->
  chain flags (pre ++ concat (map write_text alns) ++ post) (length pre)
  = combine (map got alns) (offsets (length pre) (map write_text alns)).
Proof. exact chain_offsets. Qed.
Print Assumptions C15_chain_offsets.

(* the same for files in which every alignment has its own block width *)
Theorem C15_chain_any_layout : forall ps flags pre post, forallb wf_layout ps = true -> length flags = length ps ->
  chain flags (pre ++ concat (map layout_text ps) ++ post) (length pre)
  = combine (map (fun p => got (fst p)) ps) (offsets (length pre) (map layout_text ps)).
Proof. exact chain_any_layout. Qed.
Print Assumptions C15_chain_any_layout.

(* one more read with the format given: an empty basket, the handle stays at the end of the file *)
Theorem C15_chain_then_empty : forall alns flags pre, forallb wf_aln alns = true -> length flags = length alns ->
  let t := pre ++ concat (map write_text alns) in
  chain (flags ++ [false]) t (length pre)
  = combine (map got alns) (offsets (length pre) (map write_text alns)) ++ [(empty_read, length t)].
Proof. exact chain_then_empty. Qed.
Print Assumptions C15_chain_then_empty.

(* the offsets tile the file: as many as texts, the last one is the end of the last text *)
Theorem C15_offsets_tile : forall off texts,
  length (offsets off texts) = length texts /\ last (offsets off texts) off = off + length (concat texts).
Proof. exact (fun off texts => conj (offsets_length off texts) (offsets_last texts off)). Qed.
Print Assumptions C15_offsets_tile.

(* at the end of the handle: empty basket when the format is given, no detection otherwise; the handle stays *)
Theorem C15_read_at_eof : forall t,
  read_at false t (length t) = (empty_read, length t) /\ read_at true t (length t) = (None, length t).
Proof. exact (fun t => conj (read_at_eof t) (read_at_eof_auto t)). Qed.
Print Assumptions C15_read_at_eof.

(* ---- white space at the end of lines (blanks, tabs, the "\r" of DOS line ends) is not seen: the written lines with ANY
   white-space tails read to the same alignment and the reader consumes exactly that text; in particular the file with
   "\r\n" line ends, for which the successive-read theorem holds as well ---- *)
Theorem C15_read_trailing_ws : forall a tails tend rest, wf_aln a = true ->
  length tails = length (content_lines a) -> Forall ws_tail tails -> ws_tail tend ->
  read_text (concat (eol_lines (content_lines a) tails) ++ (bs "//"%bs ++ tend ++ [NL]) ++ rest) = (Some a, rest).
Proof. exact read_trailing_ws. Qed.
Print Assumptions C15_read_trailing_ws.

Theorem C15_read_crlf : forall a rest, wf_aln a = true ->
  read_text (crlf (write_text a) ++ rest) = (Some a, rest) /\ is_stockholm (crlf (write_text a) ++ rest) = true.
Proof. exact (fun a rest H => renders_crlf a H rest). Qed.
Print Assumptions C15_read_crlf.

Theorem C15_chain_crlf : forall alns flags pre post, forallb wf_aln alns = true -> length flags = length alns ->
  chain flags (pre ++ concat (map dos_text alns) ++ post) (length pre)
  = combine (map got alns) (offsets (length pre) (map dos_text alns)).
Proof. exact chain_crlf. Qed.
Print Assumptions C15_chain_crlf.

(* ---- lines that carry nothing: blank lines, comments and (repeated) header lines may stand anywhere - on the reader's
   loop and on the text of ANY file; a file without the terminator is read completely; the header line is not needed when
   the format is given ---- *)
Theorem C15_noise_ignored : forall its s, fold_left step (filter keeps its) s = fold_left step its s.
Proof. exact fold_noise. Qed.
Print Assumptions C15_noise_ignored.

Theorem C15_read_text_noise : forall t, fst (read_text (concat (filter keepl (py_lines t)))) = fst (read_text t).
Proof. exact read_text_noise. Qed.
Print Assumptions C15_read_text_noise.

Theorem C15_read_unterminated : forall a, wf_aln a = true ->
  read_text (concat (map addnl (content_lines a))) = (Some a, []).
Proof. exact read_unterminated. Qed.
Print Assumptions C15_read_unterminated.

Theorem C15_read_headerless : forall a rest, wf_aln a = true ->
  read_text (concat (map addnl (tl (content_lines a))) ++ ENDL ++ rest) = (Some a, rest).
Proof. exact read_headerless. Qed.
Print Assumptions C15_read_headerless.

(* ---- the command-line converter as a transport: written files are fixed points byte for byte; an interleaved file is
   converted to the single-block text of the same alignment; what it prints / writes reads back to the alignment ---- *)
Theorem C15_convert_fixpoint : forall a, wf_aln a = true -> convert_text false (write_text a) = Some (write_text a).
Proof. exact convert_fixpoint. Qed.
Print Assumptions C15_convert_fixpoint.

Theorem C15_convert_blocks : forall bw a stdout, wf_aln a = true -> 1 <= bw ->
  exists out, convert_text stdout (render_blocks bw a) = Some out
              /\ out = write_text a ++ (if stdout then [NL] else [])
              /\ fst (read_text out) = Some a.
Proof. exact convert_blocks. Qed.
Print Assumptions C15_convert_blocks.

(* iter_ (no basket): every sequence of the alignment with its own GS / GR, in order, from any block layout *)
Theorem C15_iter_rows : forall a, wf_aln a = true ->
  iter_text (write_text a) = Some (a_rows a) /\ (forall bw, 1 <= bw -> iter_text (render_blocks bw a) = Some (a_rows a)).
Proof. exact iter_rows. Qed.
Print Assumptions C15_iter_rows.

(* ---- line layout of write_stockholm: header, one line per GF entry, per GS entry, per sequence, per GR entry, per GC
   entry, terminator; every line ends in exactly one newline and nothing else is written ---- *)
Theorem C15_write_layout : forall a, wf_aln a = true ->
  py_lines (write_text a) = map addnl (content_lines a) ++ [ENDL]
  /\ length (py_lines (write_text a)) = 2 + length (a_gf a) + n_gs a + length (a_rows a) + n_gr a + length (a_gc a).
Proof. exact write_layout. Qed.
Print Assumptions C15_write_layout.

(* ---- widths: a file whose GC / GR fragments are block by block as wide as the fragments of a sequence row reads to
   annotations exactly as wide as that row, for ANY placement of the lines; and what is read from the interleaved
   rendering of a well-formed alignment has every row, GR and GC value of the alignment's width ---- *)
Theorem C15_width_invariant : forall its i d ds, seq_frags i its = d :: ds ->
  let S := fold_left step its st0 in
  exists y, lookup i (s_seqs S) = Some y /\ length y = list_sum (map (@length byte) (d :: ds))
  /\ (forall k v vs, gc_frags k its = v :: vs -> map (@length byte) (v :: vs) = map (@length byte) (d :: ds) ->
        exists x, lookup k (s_gc S) = Some x /\ length x = length y)
  /\ (forall j k v vs, gr_frags j k its = v :: vs -> map (@length byte) (v :: vs) = map (@length byte) (d :: ds) ->
        exists x, lookup k (getd j (s_gr S)) = Some x /\ length x = length y).
Proof. exact width_invariant. Qed.
Print Assumptions C15_width_invariant.

Theorem C15_read_widths : forall bw a rest, wf_aln a = true -> 1 <= bw ->
  exists b, read_text (render_blocks bw a ++ rest) = (Some b, rest) /\ all_width b (width a) = true /\ width b = width a.
Proof. exact read_widths. Qed.
Print Assumptions C15_read_widths.

(* non-vacuity: tails that are white space without a newline exist, and a DOS file *)
Example C15_witness_tails :
  ws_tail [CR] /\ ws_tail (bs "  "%bs) /\ ws_tail []
  /\ Bstr (crlf (write_text (mkaln [] [] [mkrow (bs "a"%bs) (bs "AC"%bs) [] []])))
     = Bstr (unhex (bs "232053544f434b484f4c4d20312e300d0a612041430d0a2f2f0d0a"%bs)).
Proof. exact (conj (conj eq_refl eq_refl) (conj (conj eq_refl eq_refl) (conj (conj eq_refl eq_refl) eq_refl))). Qed.

(* non-vacuity: a file with a comment, a blank line and a second header loses exactly those lines *)
Example C15_witness_noise :
  map Bstr (filter keepl (py_lines (unhex (bs "232053544f434b484f4c4d20312e300a2320636f6d6d656e740a0a6120414347550a232053544f434b484f4c4d20312e300a2f2f0a"%bs))))
  = [Bstr (unhex (bs "6120414347550a"%bs)); Bstr (unhex (bs "2f2f0a"%bs))].
Proof. exact eq_refl. Qed.

(* non-vacuity of the chain theorems: five leading bytes, two alignments (the second detected), then one more read *)
Example C15_witness_chain :
  let a1 := mkaln [(bs "ID"%bs, bs "x"%bs)] [] [mkrow (bs "a"%bs) (bs "AC"%bs) [] [(bs "SS"%bs, bs "<>"%bs)]] in
  let a2 := mkaln [] [(bs "SS_cons"%bs, bs "."%bs)] [mkrow (bs "b"%bs) (bs "G"%bs) [(bs "DE"%bs, bs "y z"%bs)] []] in
  forallb wf_aln [a1; a2] = true
  /\ chain [false; true; false] (bs "junk "%bs ++ write_text a1 ++ write_text a2) 5
     = [(got a1, 52); (got a2, 104); (empty_read, 104)].
Proof. exact (conj eq_refl eq_refl). Qed.

(* non-vacuity: an alignment with all four annotation kinds meets the hypotheses *)
Example C15_witness_aln :
  wf_aln (mkaln [(bs "ID"%bs, bs "UPSK"%bs); (bs "CC"%bs, bs "two  words"%bs)] [(bs "SS_cons"%bs, bs "<<.>>"%bs)]
    [mkrow (bs "a/1-5"%bs) (bs "ACGU-"%bs) [(bs "DE"%bs, bs "first seq"%bs)] [(bs "SS"%bs, bs "((.))"%bs)];
     mkrow (bs "b"%bs) (bs "AC-UU"%bs) [] []]) = true.
Proof. exact eq_refl. Qed.

Example C15_witness_blocks :
  Bstr (render_blocks 3 (mkaln [] [(bs "SS_cons"%bs, bs "<<.>>"%bs)] [mkrow (bs "a"%bs) (bs "ACGU-"%bs) [] [(bs "SS"%bs, bs "((.))"%bs)]]))
  = Bstr (unhex (bs "232053544f434b484f4c4d20312e300a61204143470a233d475220612053532028282e0a233d47432053535f636f6e73203c3c2e0a0a6120552d0a233d475220612053532029290a233d47432053535f636f6e73203e3e0a0a2f2f0a"%bs)).
Proof. exact eq_refl. Qed.

(* F22 / F23 witnesses on the model as the code is now; a shared boundary and an offset survive both ways *)
Example C15_witness_rows :
  wf_rowstr (bs "..|.a.|.b.|"%bs) = true
  /\ row2fts (bs "..|.a.|.b.|"%bs) = [mkft 2 7 0 (bs "a"%bs); mkft 6 11 0 (bs "b"%bs)]
  /\ fts2row [mkft 2 7 0 (bs "a"%bs); mkft 6 11 0 (bs "b"%bs)] = ROk (bs "..|.a.|.b.|"%bs)
  /\ row2fts (bs "..a.."%bs) = [mkft 0 5 3 (bs "a"%bs)]
  /\ wf_fts [mkft 2 7 0 (bs "a"%bs); mkft 6 11 0 (bs "b"%bs)] = true.
Proof. exact (conj eq_refl (conj eq_refl (conj eq_refl (conj eq_refl eq_refl)))). Qed.

(* non-adjacent repeats (Rfam/Pfam reference blocks): RN [1], RM 123, RN [2] -> RN = "[1] [2]" *)
Example C15_witness_nonadjacent :
  option_map (fun a => map (fun kv => (Bstr (fst kv), Bstr (snd kv))) (a_gf a))
    (fst (read_text (unhex (bs "233d474620524e205b315d0a233d474620524d203132330a233d474620524e205b325d0a6120414347550a2f2f0a"%bs))))
  = Some [("RN"%bs, "[1] [2]"%bs); ("RM"%bs, "123"%bs)].
Proof. exact eq_refl. Qed.

(* a 400-column feature: fts2row repeats the name, row2fts folds the repeats back (seeded change C15-3) *)
Example C15_witness_wide :
  wf_fts [wide_ft] = true /\
  match fts2row [wide_ft] with
  | ROk s => match row2fts s with [f] => ft_same f wide_ft | _ => false end && Nat.leb 4 (length (dot_tokens s))
  | RErr _ => false
  end = true.
Proof. exact witness_wide. Qed.
