(* C10 -- GenBank reader: records, features, INSDC locations.  Only statements here; proofs in proof/C10_Lemmas.v. *)
From Coq Require Import List ZArith NArith Bool Permutation Sorted.
From Coq.Strings Require Import Byte.
Import ListNotations.
From SV Require Import Text G_flags C10_Model C10_Lemmas C10_Table C10_Reader.
Local Open Scope Z_scope.

(* P0 single_loc_spec: _parse_single_loc on the text of one location. n -> [n-1, n), a..b -> [a-1, b), '<' and '>' -> BEYOND_LEFT /
   BEYOND_RIGHT, a.b and a^b -> the two special defects; numbers are the digit strings of the file, dval is their decimal value. *)
Theorem C10_single_loc_spec :
  (forall lt gt n, all_digits n = true -> 1 <= dval n ->
     parse_single (print (LPos lt gt n)) = ROk (mkloc (dval n - 1) (dval n) plus (dflags lt gt)))
  /\ (forall lt a gt b, all_digits a = true -> all_digits b = true -> 1 <= dval a -> dval a <= dval b ->
     parse_single (print (LRange lt a gt b)) = ROk (mkloc (dval a - 1) (dval b) plus (dflags lt gt)))
  /\ (forall a b, all_digits a = true -> all_digits b = true -> 1 <= dval a -> dval a < dval b ->
     parse_single (print (LDot a b)) = ROk (mkloc (dval a - 1) (dval b) plus D_UNKNOWN_SINGLE_BETWEEN))
  /\ (forall a b, all_digits a = true -> all_digits b = true -> 1 <= dval a -> dval a < dval b ->
     parse_single (print (LBetween a b)) = ROk (mkloc (dval a - 1) (dval b) plus D_BETWEEN_CONSECUTIVE)).
Proof. exact single_loc_spec. Qed.
Print Assumptions C10_single_loc_spec.

(* P0 loc_sem: the meaning of a well-formed expression is a list of 0-based half-open non-empty intervals on + or -;
   complement flips every strand beneath it and is an involution; join/order concatenate *)
Theorem C10_loc_sem : forall e, wf_lexp e = true ->
  Forall (fun l => 0 <= lstart l /\ lstart l < lstop l /\ (lstrand l = plus \/ lstrand l = minus)) (sem e)
  /\ sem (LCompl e) = map flip (sem e)
  /\ sem (LCompl (LCompl e)) = sem e
  /\ (forall es, sem (LJoin es) = flat_map sem es /\ sem (LOrder es) = flat_map sem es).
Proof. exact loc_sem_spec. Qed.
Print Assumptions C10_loc_sem.

(* key lemma of P1: the nesting-aware comma split returns the arguments of join/order exactly *)
Theorem C10_split_toplevel : forall es, es <> [] -> forallb wf_lexp es = true ->
  split_top (join comma (map print es)) 0 = map print es.
Proof. exact split_top_join. Qed.
Print Assumptions C10_split_toplevel.

(* P1 parse_print_loc: _parse_locs on the text of any well-formed expression, at any nesting depth, yields its meaning;
   sufficient fuel is depth e + 1, and the fuel the reader uses (text length + 1) is sufficient *)
Theorem C10_parse_print_loc : forall e, wf_lexp e = true ->
  (forall fuel, (depth e < fuel)%nat -> parse_locs fuel (print e) = ROk (sem e))
  /\ parse_locs_str (print e) = ROk (sem e).
Proof. exact (fun e W => conj (parse_print_loc e W) (parse_print_loc_str e W)). Qed.
Print Assumptions C10_parse_print_loc.

(* the feature's LocationTuple: one strand per feature -> the meaning ordered along the strand (a permutation of it, ascending
   starts on +, descending stops on -); mixed strands are rejected with ValueError (outside the domain) *)
Theorem C10_feature_locs : forall e, wf_lexp e = true ->
  (one_strand (sem e) = true ->
     match parse_locs_str (print e) with ROk ls => mk_loctuple ls | RErr k => RErr k end = ROk (sort_locs (sem e)))
  /\ (one_strand (sem e) = false -> sem e <> [] -> mk_loctuple (sem e) = RErr ValueError).
Proof. exact (fun e W => conj (feature_locs e W) (fun H N => mixed_strands_rejected (sem e) N H)). Qed.
Print Assumptions C10_feature_locs.

Theorem C10_sort_locs : forall ls,
  Permutation (sort_locs ls) ls /\
  match ls with
  | [] => True
  | l0 :: _ => if byte_eqb (lstrand l0) minus
               then StronglySorted (fun a b => lstop a >= lstop b) (sort_locs ls)
               else StronglySorted (fun a b => lstart a <= lstart b) (sort_locs ls)
  end.
Proof. exact sort_locs_spec. Qed.
Print Assumptions C10_sort_locs.

(* P1 wrapped_loc: breaking the location text at any positions (pieces of any sizes) and concatenating the pieces (what the reader does with
   continuation lines) gives the text back *)
Theorem C10_wrapped_loc : forall s w, concat (wrap_at s w) = s.
Proof. exact wrap_concat. Qed.
Print Assumptions C10_wrapped_loc.

(* regression anchor, subsumed by C10_read_render below: the whole reader on rendered files equals the view (ids, upper-case residues, feature type /
   ordered locations / qualifiers / seqid, exclude semantics, read_fts = concatenated features) -- proved here only on a finite
   box of 324 files x 7 exclude tuples (with and without 'fts', 'seq', 'translation'); the general statement is covered by the correspondence run only *)
Theorem C10_read_render_box_partial : forall excl rs, In excl box_excl -> In rs box_files ->
  wf_C10 excl rs && val_eqb (run_text excl (render_gb rs)) (spec_val excl rs) = true.
Proof. exact read_render_box. Qed.
Print Assumptions C10_read_render_box_partial.

(* P2 read_render, feature-table part, general (unbounded): from any reader state without a pending feature, the key line and
   the location lines that render_feat writes (render_feat f = loc_lines (akey f) (wrap_at (print (aloc f)) (awrap f)) ++
   qualifier lines), wrapped at any break points, followed by the flush that the next key line triggers, append exactly the feature
   with that key and the meaning of the location ordered along its strand.  Qualifier lines, header and ORIGIN remain
   box/correspondence-only. *)
Theorem C10_feature_table_locs_partial : forall excl s key e w,
  mem k_fts excl = false -> fttype s = None ->
  key <> [] -> nows key = true -> (length key <= 15)%nat -> str_eqb (lower key) k_origin = false ->
  wf_lexp e = true -> one_strand (sem e) = true ->
  (forall f, render_feat f = loc_lines (akey f) (wrap_at (print (aloc f)) (awrap f)) ++ flat_map render_qual (aquals f))
  /\ exists s1 s2, steps excl s (loc_lines key (wrap_at (print e) w)) = ROk s1 /\ flush s1 = ROk s2
    /\ fts s2 = fts s ++ [mkfeat key (sort_locs (sem e)) [] None] /\ fttype s2 = None /\ mode s2 = mode s.
Proof. exact (fun excl s key e w H1 H2 H3 H4 H5 H6 H7 H8 => conj render_feat_split (feature_table_locs excl s key e w H1 H2 H3 H4 H5 H6 H7 H8)). Qed.
Print Assumptions C10_feature_table_locs_partial.

(* P2 read_render, GENERAL (unbounded): for every list of well-formed abstract records and every exclude tuple, the reader applied to
   the rendered GenBank text returns exactly the view -- one record per abstract record, in order; and read_fts returns the
   concatenated features.  (read and iter_ both list iter_genbank; that dispatch is outside the model and tested only.) *)
Theorem C10_read_render : forall excl rs, wf_C10 excl rs = true ->
  iter_genbank excl (render_gb rs) = ROk (view excl rs) /\ read_fts_genbank excl (render_gb rs) = ROk (view_fts excl rs).
Proof. exact read_render. Qed.
Print Assumptions C10_read_render.

(* what the view is, clause by clause: one record per abstract record in order; id = first word of ACCESSION ('' without one);
   header fields as metadata (REFERENCE dropped); residues upper-cased; one feature per feature-table entry with key as type, the
   meaning of its location ordered along the strand, the record id as seqid and its qualifiers as the dict the reader builds
   (C10_quals_dict); a record without ORIGIN has neither residues nor a feature list *)
Theorem C10_view_spec : forall excl rs,
  length (view excl rs) = length rs
  /\ Forall2 (fun r v =>
       rid v = match view_id r with Some i => i | None => [] end
       /\ rhdr v = adel k_reference (view_hdr (ahdr r))
       /\ (mem k_seq excl = false -> aorigin r = true -> rseq v = upper (aseq r))
       /\ (aorigin r = false -> rseq v = [] /\ rfts v = None)
       /\ (mem k_fts excl = false -> aorigin r = true ->
           exists fl, rfts v = Some fl /\
             Forall2 (fun f g => ftype g = akey f /\ flocs g = sort_locs (sem (aloc f)) /\ fseqid g = view_id r
                        /\ (mem k_translation excl = false -> fquals g = quals_dict (aquals f))) (afts r) fl))
     rs (view excl rs).
Proof. exact view_spec. Qed.
Print Assumptions C10_view_spec.

(* the exclude option removes exactly what it names: relative to reading without exclude, 'seq' empties the residues, 'fts'
   drops the feature list, 'translation' deletes that qualifier from every feature, nothing else changes (header metadata and id
   are never touched); any other name in the tuple has no effect *)
Theorem C10_exclude_exact : forall excl r,
  view_rec excl r =
  mkrec (rid (view_rec [] r))
        (if mem k_seq excl then [] else rseq (view_rec [] r))
        (if mem k_fts excl then None
         else option_map (map (fun f => if mem k_translation excl then del_translation f else f)) (rfts (view_rec [] r)))
        (rhdr (view_rec [] r))
  /\ (mem k_seq excl = false -> mem k_fts excl = false -> mem k_translation excl = false -> view_rec excl r = view_rec [] r).
Proof. exact (fun excl r => conj (exclude_exact excl r) (exclude_unknown excl r)). Qed.
Print Assumptions C10_exclude_exact.

(* read_fts agrees with read/iter_: its result is the concatenation of the feature lists of the records *)
Theorem C10_read_fts_agrees : forall excl rs, wf_C10 excl rs = true ->
  read_fts_genbank excl (render_gb rs) = ROk (flat_map feats_of (view excl rs))
  /\ iter_genbank excl (render_gb rs) = ROk (view excl rs).
Proof. exact (fun excl rs W => conj (eq_trans (proj2 (read_render excl rs W)) (f_equal ROk (view_fts_agrees excl rs))) (proj1 (read_render excl rs W))). Qed.
Print Assumptions C10_read_fts_agrees.

(* non-vacuity: a two-record file with a wrapped complement(join(1..5,<7..>10)), flags, '=' in a value and a multi-line
   translation is in the domain, reads to its view, and the view has the expected minus-strand locations *)
Example C10_witness :
  wf_C10 [] ex_file = true
  /\ iter_genbank [] (render_gb ex_file) = ROk (view [] ex_file)
  /\ read_fts_genbank [k_translation] (render_gb ex_file) = ROk (view_fts [k_translation] ex_file)
  /\ map (fun r => option_map (map flocs) (rfts r)) (view [] ex_file) =
     [Some [[mkloc 0 70 plus 0]; [mkloc 6 10 minus 12; mkloc 0 5 minus 0]]; Some [[mkloc 6 10 minus 12; mkloc 0 5 minus 0]]].
Proof. exact ex_read_render. Qed.
Example C10_witness_loc :
  wf_lexp (LCompl (LJoin [LRange false (d "1") false (d "5"); LRange true (d "7") true (d "10")])) = true
  /\ Bstr (print (LCompl (LJoin [LRange false (d "1") false (d "5"); LRange true (d "7") true (d "10")]))) = "complement(join(1..5,<7..>10))"%bs
  /\ dval (d "2000") = 2000.
Proof. exact (conj eq_refl (conj eq_refl eq_refl)). Qed.
(* exclude=('fts',) (defect exclude_fts, fixed in /repo da56cff) removes exactly the features: same ids and residues, no fts *)
Example C10_witness_exclude_fts :
  wf_C10 [k_fts] ex_file = true
  /\ iter_genbank [k_fts] (render_gb ex_file) = ROk (view [k_fts] ex_file)
  /\ map rid (view [k_fts] ex_file) = map rid (view [] ex_file)
  /\ map rseq (view [k_fts] ex_file) = map rseq (view [] ex_file)
  /\ map rfts (view [k_fts] ex_file) = [None; None]
  /\ read_fts_genbank [k_fts] (render_gb ex_file) = ROk []
  /\ match iter_genbank [k_fts; k_seq] (render_gb ex_file) with ROk l => map (fun r => (rid r, rseq r, rfts r)) l | RErr _ => [] end
     = [(bs "AB000001"%bs, [], None); ([], [], None)].
Proof. exact ex_exclude_fts. Qed.
