(* C10 -- GenBank reader: records, features, INSDC locations.  Only statements here; proofs in proof/C10_Lemmas.v. *)
From Coq Require Import List ZArith NArith Bool Permutation Sorted.
From Coq.Strings Require Import Byte.
Import ListNotations.
From SV Require Import Text G_flags C10_Model C10_Lemmas C10_Table C10_Reader C10_Extra C10_Total C10_Excl C10_NoNl.
Local Open Scope Z_scope.

(* P0 single_loc_spec: _parse_single_loc on the text of one location. n -> [n-1, n), a..b -> [a-1, b), '<' and '>' -> BEYOND_LEFT /
   BEYOND_RIGHT, a.b and a^b -> the two special defects; numbers are the digit strings of the file, dval is their decimal value. *)
Theorem C10_single_loc_spec :
  (forall lt gt n, all_digits n = true -> 1 <= dval n ->
     parse_single (print (LPos lt gt n)) = ROk (mkloc (dval n - 1) (dval n) plus (dflags lt gt)))
  /\ (forall lt a gt b, all_digits a = true -> all_digits b = true -> 1 <= dval a -> dval a <= dval b ->
     parse_single (print (LRange lt a gt b)) = ROk (mkloc (dval a - 1) (dval b) plus (dflags lt gt)))
  /\ (forall a b, all_digits a = true -> all_digits b = true -> 1 <= dval a -> dval a < dval b ->
     parse_single (print (LDot a b)) = ROk (mkloc (dval a - 1) (dval b) plus D_UNKNOWN_SINGLE_BETWEEN))
  /\ (forall a b, all_digits a = true -> all_digits b = true -> 1 <= dval a -> dval a < dval b ->
     parse_single (print (LBetween a b)) = ROk (mkloc (dval a - 1) (dval b) plus D_BETWEEN_CONSECUTIVE)).
Proof. exact single_loc_spec. Qed.
Print Assumptions C10_single_loc_spec.

(* P0 loc_sem: the meaning of a well-formed expression is a list of 0-based half-open non-empty intervals on + or -;
   complement flips every strand beneath it and is an involution; join/order concatenate *)
Theorem C10_loc_sem : forall e, wf_lexp e = true ->
  Forall (fun l => 0 <= lstart l /\ lstart l < lstop l /\ (lstrand l = plus \/ lstrand l = minus)) (sem e)
  /\ sem (LCompl e) = map flip (sem e)
  /\ sem (LCompl (LCompl e)) = sem e
  /\ (forall es, sem (LJoin es) = flat_map sem es /\ sem (LOrder es) = flat_map sem es).
Proof. exact loc_sem_spec. Qed.
Print Assumptions C10_loc_sem.

(* key lemma of P1: the nesting-aware comma split returns the arguments of join/order exactly *)
Theorem C10_split_toplevel : forall es, es <> [] -> forallb wf_lexp es = true ->
  split_top (join comma (map print es)) 0 = map print es.
Proof. exact split_top_join. Qed.
Print Assumptions C10_split_toplevel.

(* P1 parse_print_loc: _parse_locs on the text of any well-formed expression, at any nesting depth, yields its meaning;
   sufficient fuel is depth e + 1, and the fuel the reader uses (text length + 1) is sufficient *)
Theorem C10_parse_print_loc : forall e, wf_lexp e = true ->
  (forall fuel, (depth e < fuel)%nat -> parse_locs fuel (print e) = ROk (sem e))
  /\ parse_locs_str (print e) = ROk (sem e).
Proof. exact (fun e W => conj (parse_print_loc e W) (parse_print_loc_str e W)). Qed.
Print Assumptions C10_parse_print_loc.

(* the feature's LocationTuple: one strand per feature -> the meaning ordered along the strand (a permutation of it, ascending
   starts on +, descending stops on -); mixed strands are rejected with ValueError (outside the domain) *)
Theorem C10_feature_locs : forall e, wf_lexp e = true ->
  (one_strand (sem e) = true ->
     match parse_locs_str (print e) with ROk ls => mk_loctuple ls | RErr k => RErr k end = ROk (sort_locs (sem e)))
  /\ (one_strand (sem e) = false -> sem e <> [] -> mk_loctuple (sem e) = RErr ValueError).
Proof. exact (fun e W => conj (feature_locs e W) (fun H N => mixed_strands_rejected (sem e) N H)). Qed.
Print Assumptions C10_feature_locs.

Theorem C10_sort_locs : forall ls,
  Permutation (sort_locs ls) ls /\
  match ls with
  | [] => True
  | l0 :: _ => if byte_eqb (lstrand l0) minus
               then StronglySorted (fun a b => lstop a >= lstop b) (sort_locs ls)
               else StronglySorted (fun a b => lstart a <= lstart b) (sort_locs ls)
  end.
Proof. exact sort_locs_spec. Qed.
Print Assumptions C10_sort_locs.

(* P1 wrapped_loc: breaking the location text at any positions (pieces of any sizes) and concatenating the pieces (what the reader does with
   continuation lines) gives the text back *)
Theorem C10_wrapped_loc : forall s w, concat (wrap_at s w) = s.
Proof. exact wrap_concat. Qed.
Print Assumptions C10_wrapped_loc.

(* regression anchor, subsumed by C10_read_render below: the whole reader on rendered files equals the view (ids, upper-case residues, feature type /
   ordered locations / qualifiers / seqid, exclude semantics, read_fts = concatenated features) -- proved here only on a finite
   box of 324 files x 7 exclude tuples (with and without 'fts', 'seq', 'translation'); the general statement is covered by the correspondence run only *)
Theorem C10_read_render_box : forall excl rs, In excl box_excl -> In rs box_files ->
  wf_C10 excl rs && val_eqb (run_text excl (render_gb rs)) (spec_val excl rs) = true.
Proof. exact read_render_box. Qed.
Print Assumptions C10_read_render_box.

(* P2 read_render, feature-table part, general (unbounded): from any reader state in the feature table whose pending feature (if
   any) can be built (pend_view s F: flushing s gives the feature list F), the lines that render_feat writes for a well-formed
   feature - key line, location wrapped at any break points, qualifier lines of every kind - leave the reader in a state whose
   flush gives F plus exactly that feature (feat0 f: key as type, meaning of the location ordered along the strand, the qualifier
   dict); nothing else of the state changes (hframe) *)
Theorem C10_feature_table : forall excl f s F,
  mem k_fts excl = false -> mode s = PFts -> pend_view s F -> wf_afeat f = true ->
  Forall okline (render_feat f) /\ exists s2, steps_any excl s (render_feat f) = ROk s2 /\ mode s2 = PFts /\ hframe s s2
    /\ pend_view s2 (F ++ [feat0 f]).
Proof. exact (fun excl f s F He => feature_lines excl He f s F). Qed.
Print Assumptions C10_feature_table.

(* P2 read_render, GENERAL (unbounded): for every list of well-formed abstract records and every exclude tuple, the reader applied to
   the rendered GenBank text returns exactly the view -- one record per abstract record, in order; and read_fts returns the
   concatenated features.  (read and iter_ both list iter_genbank; that dispatch is outside the model and tested only.) *)
Theorem C10_read_render : forall excl rs, wf_C10 excl rs = true ->
  iter_genbank excl (render_gb rs) = ROk (view excl rs) /\ read_fts_genbank excl (render_gb rs) = ROk (view_fts excl rs).
Proof. exact read_render. Qed.
Print Assumptions C10_read_render.

(* the side condition of wf_C10 "no rendered line contains a newline" follows from the character classes of the records: the domain
   of C10_read_render is just a non-empty list of well-formed records *)
Theorem C10_wf_no_nl : forall excl rs,
  (forallb (wf_arec excl) rs = true -> no_nl rs = true) /\ wf_C10 excl rs = nonempty rs && forallb (wf_arec excl) rs.
Proof. exact (fun excl rs => conj (wf_no_nl excl rs) (wf_C10_simple excl rs)). Qed.
Print Assumptions C10_wf_no_nl.

(* what the view is, clause by clause: one record per abstract record in order; id = first word of ACCESSION ('' without one);
   header fields as metadata (REFERENCE dropped); residues upper-cased; one feature per feature-table entry with key as type, the
   meaning of its location ordered along the strand, the record id as seqid and its qualifiers as the dict the reader builds
   (C10_quals_dict); a record without ORIGIN or without a FEATURES line has neither residues nor a feature list, and without FEATURES
   the ORIGIN block ends up in the header metadata (entry 'origin', one nested sub-field per residue line) *)
Theorem C10_view_spec : forall excl rs,
  length (view excl rs) = length rs
  /\ Forall2 (fun r v =>
       rid v = match view_id r with Some i => i | None => [] end
       /\ (afeatures r = true -> rhdr v = adel k_reference (view_hdr (ahdr r)))
       /\ (mem k_seq excl = false -> aorigin r = true -> afeatures r = true -> rseq v = upper (aseq r))
       /\ (aorigin r = false \/ afeatures r = false -> rseq v = [] /\ rfts v = None)
       /\ (aorigin r = true -> afeatures r = false ->
           rhdr v = adel k_reference (aset k_origin (origin_hdr_val (render_origin (aseq r))) (view_hdr (ahdr r))))
       /\ (mem k_fts excl = false -> aorigin r = true -> afeatures r = true ->
           exists fl, rfts v = Some fl /\
             Forall2 (fun f g => ftype g = akey f /\ flocs g = sort_locs (sem (aloc f)) /\ fseqid g = view_id r
                        /\ (mem k_translation excl = false -> fquals g = quals_dict (aquals f))) (afts r) fl))
     rs (view excl rs).
Proof. exact view_spec. Qed.
Print Assumptions C10_view_spec.

(* the exclude option removes exactly what it names: relative to reading without exclude, 'seq' empties the residues, 'fts'
   drops the feature list, 'translation' deletes that qualifier from every feature, nothing else changes (header metadata and id
   are never touched); any other name in the tuple has no effect *)
Theorem C10_exclude_exact : forall excl r,
  view_rec excl r =
  mkrec (rid (view_rec [] r))
        (if mem k_seq excl then [] else rseq (view_rec [] r))
        (if mem k_fts excl then None
         else option_map (map (fun f => if mem k_translation excl then del_translation f else f)) (rfts (view_rec [] r)))
        (rhdr (view_rec [] r))
  /\ (mem k_seq excl = false -> mem k_fts excl = false -> mem k_translation excl = false -> view_rec excl r = view_rec [] r).
Proof. exact (fun excl r => conj (exclude_exact excl r) (exclude_unknown excl r)). Qed.
Print Assumptions C10_exclude_exact.

(* the same on ARBITRARY text (any file, well-formed or not, any other exclude names): adding 'translation' to the exclude tuple
   gives the result without it with that qualifier deleted from every feature (del_tr), adding 'seq' gives it with the residues
   emptied (clear_seq) - same records, same order, same errors, nothing else changes; and the tuple matters only through the membership
   of 'seq', 'fts' and 'translation' (order, repetitions and any other names have no effect on any file) *)
Theorem C10_exclude_any_text : forall excl text,
  iter_genbank (k_translation :: excl) text = res_map (map del_tr) (iter_genbank excl text)
  /\ iter_genbank (k_seq :: excl) text = res_map (map clear_seq) (iter_genbank excl text)
  /\ (forall excl2, mem k_seq excl = mem k_seq excl2 -> mem k_fts excl = mem k_fts excl2 -> mem k_translation excl = mem k_translation excl2 ->
      iter_genbank excl text = iter_genbank excl2 text /\ read_fts_genbank excl text = read_fts_genbank excl2 text).
Proof. exact (fun excl text => conj (exclude_translation_any excl text) (conj (exclude_seq_any excl text) (fun e2 => iter_mem_ext excl e2 text))). Qed.
Print Assumptions C10_exclude_any_text.

(* read_fts agrees with read/iter_: its result is the concatenation of the feature lists of the records *)
Theorem C10_read_fts_agrees : forall excl rs, wf_C10 excl rs = true ->
  read_fts_genbank excl (render_gb rs) = ROk (flat_map feats_of (view excl rs))
  /\ iter_genbank excl (render_gb rs) = ROk (view excl rs).
Proof. exact (fun excl rs W => conj (eq_trans (proj2 (read_render excl rs W)) (f_equal ROk (view_fts_agrees excl rs))) (proj1 (read_render excl rs W))). Qed.
Print Assumptions C10_read_fts_agrees.

(* the qualifier dict of a feature (fquals of the view), characterised completely: the value under a key is the one of the LAST
   qualifier line with that key (quoted text with its lines concatenated, int of an unquoted digit string, unquoted word); the flags are
   collected in file order in one list under 'misc'; the keys stand in the order of their FIRST use; with pairwise distinct keys this is
   the plain listing view_quals *)
Theorem C10_quals_dict : forall qs, forallb wf_qual qs = true ->
  (forall k, str_eqb k k_misc = false -> aget k (quals_dict qs) = last_val k qs None)
  /\ aget k_misc (quals_dict qs) = (match flag_names qs with [] => None | fl => Some (QL fl) end)
  /\ map fst (quals_dict qs) = first_use (map dkey qs)
  /\ (distinct (map qkey (filter nonflag qs)) = true -> quals_dict qs = view_quals qs (flag_names qs) false).
Proof. exact quals_dict_spec. Qed.
Print Assumptions C10_quals_dict.

(* header fields as record metadata (rhdr of the view = meta._genbank): one entry per field name in lower case, a repeated field
   replaces the value at the first position; the value is the text of the field with continuation lines joined by one blank (LOCUS:
   its words joined by ", "); every sub-field wraps the value so far as {id: value so far, subfield: text}; REFERENCE is dropped.
   The record id is the first word of the 'accession' entry - VERSION (or any other field) never contributes to the id *)
Theorem C10_header_attrs :
  (forall hs h, view_hdr (hs ++ [h]) = aset (lower (hk h)) (field_val h) (view_hdr hs))
  /\ view_hdr [] = []
  /\ (forall h, field_val h = fold_left sub_val (hsubs h) (HS (main_val h)))
  /\ (forall h, main_val h = match hlines h with
                             | [] => []
                             | l :: r => join [sp] ((if str_eqb (lower (hk h)) k_locus then join (bs ", "%bs) (split_ws l) else l) :: r)
                             end)
  /\ (forall V p, sub_val V p = HA (aset (lower (fst p)) (HS (join [sp] (snd p))) [(k_id, V)]))
  /\ (forall r, forallb wf_hfield (ahdr r) = true -> view_id r = id_of_hdr (view_hdr (ahdr r)))
  /\ (forall excl r, afeatures r = true -> rhdr (view_rec excl r) = adel k_reference (view_hdr (ahdr r))).
Proof. exact header_attrs_spec. Qed.
Print Assumptions C10_header_attrs.

(* the location parser is total: on ANY text, with the fuel the reader model uses (text length + 1), _parse_locs returns a
   non-empty list of locations or stops with ValueError or IndexError - the fuel never runs out, there is no other outcome;
   the LocationTuple built from a non-empty list is a reordering of it or ValueError (both strands) *)
Theorem C10_parse_total :
  (forall s, (exists ls, ls <> [] /\ parse_locs_str s = ROk ls) \/ parse_locs_str s = RErr ValueError \/ parse_locs_str s = RErr IndexError)
  /\ (forall ls, ls <> [] -> (exists lt, mk_loctuple ls = ROk lt /\ Permutation lt ls) \/ mk_loctuple ls = RErr ValueError).
Proof. exact (conj parse_total loctuple_total). Qed.
Print Assumptions C10_parse_total.

(* outside the one-strand / ORIGIN domain the behaviour is proved as it is: when the first record that is not well-formed has
   (well-formed header and, fts not excluded) a feature with locations on both strands, the reader stops with ValueError in that
   record (LocationTuple rejects it when the feature is built, at the next key line or at ORIGIN); when it has no ORIGIN line but
   features, the reader stops with AssertionError at '//' (the last feature is still pending); read_fts stops the same way; the
   records before it are read normally but never returned by read / read_fts *)
Theorem C10_read_errors : forall excl rs k, no_nl rs = true -> err_class excl rs = Some k ->
  iter_genbank excl (render_gb rs) = RErr k /\ read_fts_genbank excl (render_gb rs) = RErr k.
Proof. exact read_errors. Qed.
Print Assumptions C10_read_errors.
Theorem C10_err_class_spec : forall excl rs k, err_class excl rs = Some k ->
  exists rs1 r rs2, rs = rs1 ++ r :: rs2 /\ forallb (wf_arec excl) rs1 = true /\ err_rec excl r = Some k
    /\ mem k_fts excl = false /\ forallb wf_hfield (ahdr r) = true
    /\ (k = ValueError /\ aorigin r = true /\ (exists fs1 f fs2, afts r = fs1 ++ f :: fs2 /\ forallb wf_afeat fs1 = true
           /\ wf_afeat_pre f = true /\ one_strand (sem (aloc f)) = false /\ forallb wf_afeat_pre fs2 = true)
        \/ k = AssertionError /\ aorigin r = false /\ afts r <> [] /\ forallb wf_afeat (afts r) = true).
Proof. exact err_class_spec. Qed.
Print Assumptions C10_err_class_spec.

(* strand orderings: complement distributes over join/order; the LocationTuple of a one-strand feature depends only on the set
   of its parts when their starts and stops are pairwise different, so complement(join(a,b)), join(complement(b),complement(a)) - the
   INSDC way of writing a minus-strand feature 5'->3' - and complement(join(b,a)) all give the same tuple; on the minus strand the
   tuple is ordered 5'->3', i.e. by descending stop *)
Theorem C10_strand_order : forall es,
  sem (LCompl (LJoin es)) = sem (LJoin (map LCompl es))
  /\ (one_strand (sem (LCompl (LJoin es))) = true ->
      NoDup (map lstart (sem (LCompl (LJoin es)))) -> NoDup (map lstop (sem (LCompl (LJoin es)))) ->
      sort_locs (sem (LCompl (LJoin es))) = sort_locs (sem (LJoin (map LCompl (rev es))))
      /\ sort_locs (sem (LCompl (LJoin es))) = sort_locs (sem (LCompl (LJoin (rev es)))))
  /\ (forall e, one_strand (sem e) = true -> Forall (fun l => lstrand l = minus) (sem e) ->
      StronglySorted (fun a b => lstop a >= lstop b) (sort_locs (sem e))).
Proof. exact strand_order. Qed.
Print Assumptions C10_strand_order.

(* remote locations (accession:location, INSDC feature table 3.4.2.1) are not supported: a single location whose text contains ':' is
   rejected with ValueError, by _parse_single_loc and by _parse_locs when it is not inside join/order/complement *)
Theorem C10_remote_rejected : forall s, has colon s = true ->
  parse_single s = RErr ValueError /\ (is_compound (strip s) = false -> parse_locs_str s = RErr ValueError).
Proof. exact (fun s H => conj (remote_single s H) (remote_rejected s H)). Qed.
Print Assumptions C10_remote_rejected.

(* the whole reader is total on ARBITRARY text and every exclude tuple: the modelled iter_genbank / read_fts_genbank return a list of
   records / features or stop with one of seven exception classes (doc_err: ValueError, IndexError, KeyError, TypeError, AttributeError,
   AssertionError, UnboundLocalError) - never stuck, the fuel of the location parser never runs out *)
Theorem C10_reader_total : forall excl text,
  ((exists rs, iter_genbank excl text = ROk rs) \/ (exists k, iter_genbank excl text = RErr k /\ doc_err k))
  /\ ((exists fl, read_fts_genbank excl text = ROk fl) \/ (exists k, read_fts_genbank excl text = RErr k /\ doc_err k)).
Proof. exact (fun excl text => conj (reader_total excl text) (read_fts_total excl text)). Qed.
Print Assumptions C10_reader_total.

(* non-vacuity: a two-record file with a wrapped complement(join(1..5,<7..>10)), flags, '=' in a value and a multi-line
   translation is in the domain, reads to its view, and the view has the expected minus-strand locations *)
Example C10_witness :
  wf_C10 [] ex_file = true
  /\ iter_genbank [] (render_gb ex_file) = ROk (view [] ex_file)
  /\ read_fts_genbank [k_translation] (render_gb ex_file) = ROk (view_fts [k_translation] ex_file)
  /\ map (fun r => option_map (map flocs) (rfts r)) (view [] ex_file) =
     [Some [[mkloc 0 70 plus 0]; [mkloc 6 10 minus 12; mkloc 0 5 minus 0]]; Some [[mkloc 6 10 minus 12; mkloc 0 5 minus 0]]].
Proof. exact ex_read_render. Qed.
Example C10_witness_loc :
  wf_lexp (LCompl (LJoin [LRange false (d "1") false (d "5"); LRange true (d "7") true (d "10")])) = true
  /\ Bstr (print (LCompl (LJoin [LRange false (d "1") false (d "5"); LRange true (d "7") true (d "10")]))) = "complement(join(1..5,<7..>10))"%bs
  /\ dval (d "2000") = 2000.
Proof. exact (conj eq_refl (conj eq_refl eq_refl)). Qed.
(* exclude=('fts',) (defect exclude_fts, fixed in /repo da56cff) removes exactly the features: same ids and residues, no fts *)
Example C10_witness_exclude_fts :
  wf_C10 [k_fts] ex_file = true
  /\ iter_genbank [k_fts] (render_gb ex_file) = ROk (view [k_fts] ex_file)
  /\ map rid (view [k_fts] ex_file) = map rid (view [] ex_file)
  /\ map rseq (view [k_fts] ex_file) = map rseq (view [] ex_file)
  /\ map rfts (view [k_fts] ex_file) = [None; None]
  /\ read_fts_genbank [k_fts] (render_gb ex_file) = ROk []
  /\ match iter_genbank [k_fts; k_seq] (render_gb ex_file) with ROk l => map (fun r => (rid r, rseq r, rfts r)) l | RErr _ => [] end
     = [(bs "AB000001"%bs, [], None); ([], [], None)].
Proof. exact ex_exclude_fts. Qed.
(* error classes: a join over both strands, and a record without ORIGIN that has a feature *)
Example C10_witness_errors :
  err_class [] ex_mixed = Some ValueError /\ no_nl ex_mixed = true /\ iter_genbank [] (render_gb ex_mixed) = RErr ValueError
  /\ wf_C10 [k_fts] ex_mixed = true
  /\ err_class [] ex_noorigin = Some AssertionError /\ no_nl ex_noorigin = true /\ read_fts_genbank [] (render_gb ex_noorigin) = RErr AssertionError
  /\ wf_C10 [k_fts] ex_noorigin = true.
Proof. exact ex_errors. Qed.
(* repeated qualifier keys and a location wrapped inside a number and inside '..' *)
Example C10_witness_quals :
  quals_dict [QText (d "note") [d "a"]; QFlag (d "pseudo"); QNum (d "x") (d "5"); QText (d "note") [d "b"; d "c"]; QFlag (d "partial"); QNum (d "note") (d "3")]
  = [(d "note", QI 3); (k_misc, QL [d "pseudo"; d "partial"]); (d "x", QI 5)]
  /\ wrap_at (d "join(12..34,56)") [6; 3; 0; 1]%nat = [d "join(1"; d "2.."; d "34,56)"].
Proof. exact (conj eq_refl eq_refl). Qed.
(* complement(join(1..5,7..10)) and join(complement(7..10),complement(1..5)) are the same feature: [7,10) before [1,5) on the minus strand *)
Example C10_witness_strand_order :
  sort_locs (sem (LCompl (LJoin [LRange false (d "1") false (d "5"); LRange false (d "7") false (d "10")])))
  = [mkloc 6 10 minus 0; mkloc 0 5 minus 0]
  /\ sort_locs (sem (LJoin [LCompl (LRange false (d "7") false (d "10")); LCompl (LRange false (d "1") false (d "5"))]))
  = [mkloc 6 10 minus 0; mkloc 0 5 minus 0].
Proof. exact (conj eq_refl eq_refl). Qed.
(* a quoted value over three lines with blanks inside the pieces: joined without a separator *)
Example C10_witness_multiline :
  wf_qual (QText (d "note") [d "a long"; d "note over"; d "lines"]) = true
  /\ quals_dict [QText (d "note") [d "a long"; d "note over"; d "lines"]] = [(d "note", QS (d "a longnote overlines"))].
Proof. exact (conj eq_refl eq_refl). Qed.
Example C10_witness_remote :
  parse_locs_str (d "J00194.1:100..202") = RErr ValueError /\ parse_locs_str (d "join(1..5,J00194.1:100..202)") = RErr ValueError.
Proof. exact (conj eq_refl eq_refl). Qed.
(* double quotes inside a quoted value are kept as written (doubled, not unescaped); at the ends of a line the reader strips ALL of
   them, so a value ending with an escaped quote is outside the domain: the reader loses the closing pair *)
Example C10_witness_quotes :
  wf_qual (QText (d "note") [unhex (bs "73617920222268692222206e6f77"%bs)]) = true
  /\ wf_qual (QText (d "note") [unhex (bs "736179202222686922222222"%bs)]) = false
  /\ strip_char dq (unhex (bs "22736179202222686922222222"%bs)) = unhex (bs "7361792022226869"%bs).
Proof. exact ex_quotes. Qed.
(* a record without a FEATURES line is in the domain: no residues, no feature list, the ORIGIN block in the header metadata *)
Example C10_witness_nofeatures :
  wf_C10 [] ex_nofeatures = true
  /\ iter_genbank [] (render_gb ex_nofeatures) = ROk (view [] ex_nofeatures)
  /\ map (fun r => (rid r, rseq r, rfts r)) (view [] ex_nofeatures) = [(bs "AB000001"%bs, [], None)]
  /\ map (fun r => aget k_origin (rhdr r)) (view [] ex_nofeatures)
     = [Some (HA [(k_id, HS []); (bs "1 ac"%bs, HS (bs "acgtacgtac gt"%bs))])].
Proof. exact ex_nofeat. Qed.
