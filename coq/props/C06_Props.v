(* C06 -- Feature-addressed subsequences and coordinate tracking under slicing and rc.
   Only statements here; proofs are in proof/C06_Lemmas.v.  Vocabulary (model/C06_Model.v):
   zsub s x y = residues of [x, y); spiece s x y minus = those residues, reverse-complemented on the minus strand;
   piece s l = what sugar extracts for location l; cut_spec lo hi rel l = the part of l inside [lo, hi) shifted by rel,
   MISS flags added where cut; slice_spec = per feature: keep the overlapping locations, cut them, drop empty features. *)
From Coq Require Import List ZArith NArith Bool.
From Coq.Strings Require Import Byte.
Import ListNotations.
From SV Require Import Text G_codes G_flags C05_Model C05_Lemmas C06_Model C06_Lemmas C06_Round6 C06_Round7.
Local Open Scope Z_scope.

(* ---- extraction (no update_fts) ---- *)
(* seq[locs]: 5'->3' concatenation of the pieces, fill_num * filler and splitter between consecutive pieces *)
Theorem C06_extract_spec : forall q ls sp fi,
  slice_locs q ls sp fi false = Ok (mkSeq (upper (concat (extract_spec (sdata q) fi sp ls))) (sfts q)).
Proof. exact extract_locs. Qed.
Print Assumptions C06_extract_spec.

Theorem C06_extract_plain : forall q ls, forallb in_alpha (sdata q) = true ->
  slice_locs q ls None None false = Ok (mkSeq (concat (map (piece (sdata q)) ls)) (sfts q)).
Proof. exact extract_plain. Qed.
Print Assumptions C06_extract_plain.

Theorem C06_extract_splitter : forall s x ls,
  concat (extract_spec s None (Some x) ls) = py_join x (map (piece s) ls).
Proof. exact extract_splitter. Qed.
Print Assumptions C06_extract_splitter.

(* a location inside the sequence addresses [start, stop), reverse-complemented on the minus strand *)
Theorem C06_piece_spec : forall s l, 0 <= lstart l -> lstart l <= lstop l -> lstop l <= Z.of_nat (length s) ->
  piece s l = spiece s (lstart l) (lstop l) (is_minus l).
Proof. exact piece_in. Qed.
Print Assumptions C06_piece_spec.

(* bare Location = [loc]; Feature = its locations; type name = first feature whose type matches case-insensitively *)
Theorem C06_getitem_dispatch : forall q u sp fi,
  (forall l, getitem q (WLoc l) u sp fi = slice_locs q [l] sp fi u) /\
  (forall ls, getitem q (WFeat ls) u sp fi = slice_locs q ls sp fi u) /\
  (forall name, getitem q (WType name) u sp fi =
     match find (type_matches name) (sfts q) with
     | Some f => slice_locs q (flocs f) sp fi u
     | None => Err E_Value
     end).
Proof. exact getitem_dispatch. Qed.
Print Assumptions C06_getitem_dispatch.

(* ---- update_fts on slices ---- *)
(* every slice window (None / negative / out-of-range bounds normalised to lo, hi; empty windows included) *)
Theorem C06_window_tracking : forall q a b step sp fi,
  let len := Z.of_nat (length (sdata q)) in
  let lo := fst (slice_bounds len a b) in
  let hi := snd (slice_bounds len a b) in
  upper (sdata q) = sdata q -> (step = None \/ step = Some 1) ->
  forallb (ft_in len) (sfts q) = true ->
  getitem q (WSlice a b step) true sp fi = Ok (mkSeq (zsub (sdata q) lo hi) (slice_spec lo hi lo (sfts q))) /\
  0 <= lo <= len /\ 0 <= hi <= len /\
  (hi <= lo -> slice_spec lo hi lo (sfts q) = []) /\
  forall f l, In f (sfts q) -> In l (flocs f) -> overlaps lo hi l = true ->
    lo < hi /\
    piece (zsub (sdata q) lo hi) (cut_spec lo hi lo l)
      = spiece (sdata q) (Z.max lo (lstart l)) (Z.min hi (lstop l)) (is_minus l).
Proof. exact window_tracking. Qed.
Print Assumptions C06_window_tracking.

Theorem C06_int_window_tracking : forall q i sp fi,
  let len := Z.of_nat (length (sdata q)) in
  let k := if i <? 0 then i + len else i in
  upper (sdata q) = sdata q -> forallb (ft_in len) (sfts q) = true -> 0 <= k < len ->
  getitem q (WInt i) true sp fi = Ok (mkSeq (zsub (sdata q) k (k + 1)) (slice_spec k (k + 1) k (sfts q))) /\
  forall f l, In f (sfts q) -> In l (flocs f) -> overlaps k (k + 1) l = true ->
    piece (zsub (sdata q) k (k + 1)) (cut_spec k (k + 1) k l)
      = spiece (sdata q) (Z.max k (lstart l)) (Z.min (k + 1) (lstop l)) (is_minus l).
Proof. exact int_window_tracking. Qed.
Print Assumptions C06_int_window_tracking.

(* which features / locations survive: exactly the overlapping ones *)
Theorem C06_survivors : forall lo hi rel fts,
  (forall f', In f' (slice_spec lo hi rel fts) <->
     exists f, In f fts /\ existsb (overlaps lo hi) (flocs f) = true /\
               f' = mkFt (ftype f) (sort_locs (map (cut_spec lo hi rel) (filter (overlaps lo hi) (flocs f))))) /\
  (forall f l', In l' (sort_locs (map (cut_spec lo hi rel) (filter (overlaps lo hi) (flocs f)))) <->
     exists l, In l (flocs f) /\ overlaps lo hi l = true /\ l' = cut_spec lo hi rel l).
Proof. exact (fun lo hi rel fts => conj (slice_spec_In lo hi rel fts) (slice_locs_In lo hi rel)). Qed.
Print Assumptions C06_survivors.

(* truncated locations are flagged: MISS_LEFT (bit 0) / MISS_RIGHT (bit 1) exactly when cut, other bits kept *)
Theorem C06_miss_flags : forall lo hi l,
  N.testbit (cut_defect lo hi l) 0 = N.testbit (ldefect l) 0 || (lstart l <? lo) /\
  N.testbit (cut_defect lo hi l) 1 = N.testbit (ldefect l) 1 || (hi <? lstop l) /\
  forall i, (2 <= i)%N -> N.testbit (cut_defect lo hi l) i = N.testbit (ldefect l) i.
Proof. exact cut_defect_bits. Qed.
Print Assumptions C06_miss_flags.

(* ---- rc(update_fts) ---- *)
Theorem C06_rc_tracking : forall q,
  let len := Z.of_nat (length (sdata q)) in
  forallb in_alpha (sdata q) = true -> forallb (ft_in len) (sfts q) = true ->
  seq_rc q true = mkSeq (rc (sdata q)) (map (feature_rc len) (sfts q)) /\
  forall f l, In f (sfts q) -> In l (flocs f) ->
    let l' := loc_reverse len l in
    lstart l' = len - lstop l /\ lstop l' = len - lstart l /\ lstrand l' = strand_reverse (lstrand l) /\
    (is_pm (lstrand l) = true -> lstrand l' <> lstrand l /\ piece (rc (sdata q)) l' = piece (sdata q) l).
Proof. exact rc_tracking. Qed.
Print Assumptions C06_rc_tracking.

Theorem C06_feature_rc_locations : forall len f l',
  In l' (flocs (feature_rc len f)) <-> exists l, In l (flocs f) /\ l' = loc_reverse len l.
Proof. exact feature_rc_In. Qed.
Print Assumptions C06_feature_rc_locations.

(* mirroring a defect set swaps LEFT/RIGHT inside each pair and is an involution *)
Theorem C06_defect_reverse : forall d, (d < 256)%N ->
  defect_reverse (defect_reverse d) = d /\ (defect_reverse d < 256)%N /\
  forall i, (i < 8)%N -> N.testbit (defect_reverse d) i = N.testbit d (mirror_bit i).
Proof. exact defect_reverse_spec. Qed.
Print Assumptions C06_defect_reverse.

(* ---- update_fts on a Location / single-location Feature window, both strands ---- *)
Theorem C06_feature_window_tracking : forall q w sp fi,
  let len := Z.of_nat (length (sdata q)) in
  let lo := lstart w in
  let hi := lstop w in
  forallb in_alpha (sdata q) = true -> loc_in len w = true -> forallb (ft_in len) (sfts q) = true ->
  getitem q (WLoc w) true sp fi =
    Ok (mkSeq (piece (sdata q) w)
              (if is_minus w then fts_rc (hi - lo) (slice_spec lo hi lo (sfts q)) else slice_spec lo hi lo (sfts q))) /\
  piece (sdata q) w = spiece (sdata q) lo hi (is_minus w) /\
  forall f l, In f (sfts q) -> In l (flocs f) -> overlaps lo hi l = true -> is_pm (lstrand l) = true ->
    let c := cut_spec lo hi lo l in
    let l' := if is_minus w then loc_reverse (hi - lo) c else c in
    piece (piece (sdata q) w) l' = spiece (sdata q) (Z.max lo (lstart l)) (Z.min hi (lstop l)) (is_minus l).
Proof. exact feature_window_tracking. Qed.
Print Assumptions C06_feature_window_tracking.

(* ---- the 5'->3' order of locations (LocationTuple: ascending start, descending stop on the minus strand) ---- *)
Theorem C06_loctuple_sorted : forall ls ls', mk_loctuple ls = Ok ls' ->
  sorted53 ls' = true /\ Permutation.Permutation ls' ls /\ same_strand ls = true.
Proof. exact loctuple_sorted. Qed.
Print Assumptions C06_loctuple_sorted.

Theorem C06_built_features_sorted : forall rs fs, build_fts rs = Ok fs ->
  forall f, In f fs -> sorted53 (flocs f) = true /\ same_strand (flocs f) = true /\ flocs f <> [].
Proof. exact build_fts_sorted. Qed.
Print Assumptions C06_built_features_sorted.

(* cutting to a window keeps the order of the survivors (the re-sort inside Feature() is the identity) *)
Theorem C06_window_keeps_order : forall lo hi rel ls, same_strand ls = true -> sorted53 ls = true ->
  sort_locs (map (cut_spec lo hi rel) (filter (overlaps lo hi) ls)) = map (cut_spec lo hi rel) (filter (overlaps lo hi) ls).
Proof. exact window_keeps_order. Qed.
Print Assumptions C06_window_keeps_order.

(* mirroring a + / - feature keeps its 5'->3' order (the re-sort inside Feature.rc is the identity) *)
Theorem C06_rc_keeps_order : forall len ls c, all_strand c ls = true -> is_pm c = true -> sorted53 ls = true ->
  sort_locs (map (loc_reverse len) ls) = map (loc_reverse len) ls.
Proof. exact rc_keeps_order. Qed.
Print Assumptions C06_rc_keeps_order.

(* ---- without update_fts ---- *)
Theorem C06_no_update_keeps_fts : forall q,
  (forall w sp fi r, getitem q w false sp fi = Ok r -> sfts r = sfts q) /\ sfts (seq_rc q false) = sfts q.
Proof. exact (fun q => conj (no_update_keeps_fts q) (no_update_keeps_fts_rc q)). Qed.
Print Assumptions C06_no_update_keeps_fts.

(* ---- the domain predicate evaluated by the harness implies the hypotheses used above; end-to-end corollaries ---- *)
Theorem C06_wf_sound : forall data fts w u sp fi, wf_C06 data fts w u sp fi None = true ->
  exists fs ow, build_fts fts = Ok fs /\ build_win w = Ok ow /\
    let q := new_seq data fs in
    upper (sdata q) = sdata q /\ forallb in_alpha (sdata q) = true /\
    forallb (ft_in (Z.of_nat (length (sdata q)))) (sfts q) = true /\
    match ow with Some win => win_ok q win u = true | None => True end.
Proof. exact wf_C06_sound. Qed.
Print Assumptions C06_wf_sound.

Theorem C06_run_slice_tracked : forall data fts a b step sp fi, wf_C06 data fts (RSlice a b step) true sp fi None = true ->
  exists fs, build_fts fts = Ok fs /\
    let len := Z.of_nat (length data) in
    let lo := fst (slice_bounds len a b) in
    let hi := snd (slice_bounds len a b) in
    run_op data fts (RSlice a b step) true sp fi None = Ok (mkSeq (zsub (upper data) lo hi) (slice_spec lo hi lo fs)).
Proof. exact run_slice_tracked. Qed.
Print Assumptions C06_run_slice_tracked.

Theorem C06_run_rc_tracked : forall data fts sp fi, wf_C06 data fts RRc true sp fi None = true ->
  exists fs, build_fts fts = Ok fs /\
    run_op data fts RRc true sp fi None = Ok (mkSeq (rc (upper data)) (map (feature_rc (Z.of_nat (length data))) fs)).
Proof. exact run_rc_tracked. Qed.
Print Assumptions C06_run_rc_tracked.

(* ---- depth round: error clauses, options with update_fts, gap, RNA, unstranded features, filler length ---- *)
Theorem C06_multi_update_error : forall gap q ls sp fi, (1 < length ls)%nat -> slice_locs_g gap q ls sp fi true = Err E_Value.
Proof. exact multi_update_error. Qed.
Print Assumptions C06_multi_update_error.

Theorem C06_single_options_irrelevant : forall gap q l sp fi u,
  slice_locs_g gap q [l] sp fi u = slice_locs_g gap q [l] None None u.
Proof. exact single_options_irrelevant. Qed.
Print Assumptions C06_single_options_irrelevant.

Theorem C06_int_index_error : forall q i u sp fi,
  let len := Z.of_nat (length (sdata q)) in
  (i < - len \/ len <= i) -> getitem q (WInt i) u sp fi = Err E_Index.
Proof. exact int_index_error. Qed.
Print Assumptions C06_int_index_error.

(* the gap-aware model restricted to gap=None is the model the theorems above are about *)
Theorem C06_getitem_gap_none : forall q w u sp fi, getitem_g q w u sp fi None = getitem q w u sp fi.
Proof. exact getitem_g_None. Qed.
Print Assumptions C06_getitem_gap_none.

Theorem C06_no_update_keeps_fts_gap : forall q w sp fi gap r, getitem_g q w false sp fi gap = Ok r -> sfts r = sfts q.
Proof. exact no_update_keeps_fts_g. Qed.
Print Assumptions C06_no_update_keeps_fts_gap.

(* gap=g: a window [x, y) counts residues; with the gap columns removed it is the plain window of the ungapped sequence;
   the same for Location windows on both strands (gap symbols '-' '.'); on gap-free sequences the option is neutral *)
Theorem C06_gap_window_spec : forall g s x y, 0 <= x -> x <= y ->
  degap g (gslice (Some g) s (Some x) (Some y)) = zsub (degap g s) x y.
Proof. exact gap_window_spec. Qed.
Print Assumptions C06_gap_window_spec.

Theorem C06_gap_piece_spec : forall g s l, forallb is_gapsym g = true -> forallb in_alpha s = true ->
  0 <= lstart l -> lstart l <= lstop l ->
  degap g (gpiece (Some g) s l) = spiece (degap g s) (lstart l) (lstop l) (is_minus l).
Proof. exact gap_piece_spec. Qed.
Print Assumptions C06_gap_piece_spec.

Theorem C06_gap_neutral : forall g s x y, forallb (fun c => negb (has c g)) s = true -> 0 <= x -> 0 <= y ->
  gslice (Some g) s (Some x) (Some y) = gslice None s (Some x) (Some y).
Proof. exact gap_neutral. Qed.
Print Assumptions C06_gap_neutral.

(* RNA (alphabet plus U): residues are tracked under rc up to writing T for U, the sense in which C05 proves rc on RNA *)
Theorem C06_rc_tracking_rna : forall s l, forallb in_alpha_rna s = true ->
  0 <= lstart l -> lstart l <= lstop l -> lstop l <= Z.of_nat (length s) -> is_pm (lstrand l) = true ->
  u2t (piece (rc s) (loc_reverse (Z.of_nat (length s)) l)) = u2t (piece s l).
Proof. exact piece_rc_rna. Qed.
Print Assumptions C06_rc_tracking_rna.

(* unstranded locations ('.', '?'): mirrored coordinate-wise, strand value kept, addressing the reverse complement *)
Theorem C06_rc_tracking_unstranded : forall s l, forallb in_alpha s = true ->
  0 <= lstart l -> lstart l <= lstop l -> lstop l <= Z.of_nat (length s) -> is_pm (lstrand l) = false ->
  let l' := loc_reverse (Z.of_nat (length s)) l in
  lstart l' = Z.of_nat (length s) - lstop l /\ lstop l' = Z.of_nat (length s) - lstart l /\ lstrand l' = lstrand l /\
  piece (rc s) l' = rc (piece s l).
Proof. exact rc_tracking_unstranded. Qed.
Print Assumptions C06_rc_tracking_unstranded.

Theorem C06_feature_window_unstranded : forall s w l, forallb in_alpha s = true ->
  let len := Z.of_nat (length s) in
  let lo := lstart w in
  let hi := lstop w in
  loc_in len w = true -> loc_in len l = true -> overlaps lo hi l = true -> is_pm (lstrand l) = false ->
  let c := cut_spec lo hi lo l in
  piece (zsub s lo hi) c = zsub s (Z.max lo (lstart l)) (Z.min hi (lstop l)) /\
  piece (rc (zsub s lo hi)) (loc_reverse (hi - lo) c) = rc (zsub s (Z.max lo (lstart l)) (Z.min hi (lstop l))).
Proof. exact feature_window_unstranded. Qed.
Print Assumptions C06_feature_window_unstranded.

(* filler: ascending non-overlapping plus-strand locations are padded to the length of the feature's range *)
Theorem C06_filler_pads : forall s c l0 r, negb (is_minus l0) = true ->
  0 <= lstart l0 -> lstart l0 <= lstop l0 -> lstop l0 <= Z.of_nat (length s) -> chain_ok (Z.of_nat (length s)) l0 r = true ->
  Z.of_nat (length (concat (extract_spec s (Some [c]) None (l0 :: r)))) = lstop (last r l0) - lstart l0.
Proof. exact filler_pads. Qed.
Print Assumptions C06_filler_pads.

(* Feature(...) argument forms used by the driver build the same features *)
Theorem C06_run_op_modes : forall mode data fts w u sp fi gap, wf_C06 data fts w u sp fi gap = true -> (mode = 0 \/ mode = 1) ->
  run_op_m mode data fts w u sp fi gap = run_op data fts w u sp fi gap.
Proof. exact run_op_modes. Qed.
Print Assumptions C06_run_op_modes.

(* ---- round 6 ---- *)
(* the harness decides the domain with wf_C06u (RNA allowed); the DNA domain the theorems above are stated on lies inside it *)
Theorem C06_wf_dna_in_rna : forall data fts w u sp fi gap, wf_C06 data fts w u sp fi gap = true -> wf_C06u data fts w u sp fi gap = true.
Proof. exact wf_dna_in_rna. Qed.
Print Assumptions C06_wf_dna_in_rna.

(* type-name lookup: the FIRST feature whose type EQUALS the name case-insensitively (no prefix / substring matching: a matching
   type has the length of the name); features without a type never match *)
Theorem C06_type_lookup_spec : forall name fts,
  (forall f, fts_get name fts = Some f <->
     exists pre post, fts = pre ++ f :: post /\ type_matches name f = true /\
                      forallb (fun g => negb (type_matches name g)) pre = true) /\
  (fts_get name fts = None <-> forallb (fun g => negb (type_matches name g)) fts = true) /\
  (forall f, type_matches name f = true <-> exists t, ftype f = Some t /\ lower t = lower name) /\
  (forall f t, type_matches name f = true -> ftype f = Some t -> length t = length name).
Proof. exact type_lookup_spec. Qed.
Print Assumptions C06_type_lookup_spec.

(* BioBasket: seqs[a:b:st, w] is exactly the selected sequences, in order, each replaced by its sequence-level window
   (elem_ok w .. e r: r carries e's tag and getitem_g (snd e) w .. = Ok (snd r)) *)
Theorem C06_basket_slice_window : forall qs a b st w u sp fi gap rs,
  basket_getitem qs (BPairS a b st w) u sp fi gap = Ok (BMany rs) <->
  exists sel, list_slice qs a b st = Ok sel /\ Forall2 (elem_ok w u sp fi gap) sel rs.
Proof. exact basket_slice_window. Qed.
Print Assumptions C06_basket_slice_window.

Theorem C06_basket_slice_window_error : forall qs a b st w u sp fi gap e,
  basket_getitem qs (BPairS a b st w) u sp fi gap = Err e <->
  list_slice qs a b st = Err e \/
  exists sel pre x post, list_slice qs a b st = Ok sel /\ sel = pre ++ x :: post /\
    (forall y, In y pre -> exists r, getitem_g (snd y) w u sp fi gap = Ok r) /\ getitem_g (snd x) w u sp fi gap = Err e.
Proof. exact basket_slice_window_error. Qed.
Print Assumptions C06_basket_slice_window_error.

Theorem C06_basket_forms : forall qs w u sp fi gap,
  basket_getitem qs (BWin w) u sp fi gap = basket_getitem qs (BPairS None None None w) u sp fi gap /\
  (forall i, basket_getitem qs (BPairI i w) u sp fi gap =
     bind (list_item qs i) (fun e => bind (getitem_g (snd e) w u sp fi gap) (fun r => Ok (BOne (fst e, r))))) /\
  (forall i, basket_getitem qs (BInt i) u sp fi gap = bind (list_item qs i) (fun e => Ok (BOne e))) /\
  (forall i, (i < - Z.of_nat (length qs) \/ Z.of_nat (length qs) <= i) -> basket_getitem qs (BPairI i w) u sp fi gap = Err E_Index).
Proof. exact basket_forms. Qed.
Print Assumptions C06_basket_forms.

(* seqs[a:b:st, feature | location | 'type'] is the map of C06_extract_spec over the selected sequences *)
Theorem C06_basket_extract : forall qs a b st sp fi,
  (forall ls, basket_getitem qs (BPairS a b st (WFeat ls)) false sp fi None =
     bind (list_slice qs a b st) (fun sel => Ok (BMany (map (extract_elem ls sp fi) sel)))) /\
  (forall l, basket_getitem qs (BPairS a b st (WLoc l)) false sp fi None =
     bind (list_slice qs a b st) (fun sel => Ok (BMany (map (extract_elem [l] sp fi) sel)))) /\
  (forall name, basket_getitem qs (BPairS a b st (WType name)) false sp fi None =
     bind (list_slice qs a b st) (fun sel =>
       bind (map_res (fun e => match find (type_matches name) (sfts (snd e)) with
                               | Some f => Ok (extract_elem (flocs f) sp fi e)
                               | None => Err E_Value
                               end) sel) (fun r => Ok (BMany r)))).
Proof. exact basket_extract. Qed.
Print Assumptions C06_basket_extract.

(* BioBasket.rc(update_fts): every sequence is reverse-complemented and its features are mirrored about ITS OWN length *)
Theorem C06_basket_rc : forall qs u sp fi gap,
  basket_getitem qs BRc u sp fi gap = Ok (BMany (map (fun e => (fst e, seq_rc (snd e) u)) qs)) /\
  (forall e, In e qs ->
     let q := snd e in
     let len := Z.of_nat (length (sdata q)) in
     forallb in_alpha (sdata q) = true -> forallb (ft_in len) (sfts q) = true ->
     seq_rc q true = mkSeq (rc (sdata q)) (map (feature_rc len) (sfts q)) /\
     forall f l, In f (sfts q) -> In l (flocs f) -> is_pm (lstrand l) = true ->
       piece (rc (sdata q)) (loc_reverse len l) = piece (sdata q) l).
Proof. exact basket_rc_spec. Qed.
Print Assumptions C06_basket_rc.

(* gap=g with ANY slice bounds (omitted, negative, beyond the ends, crossing) and with int windows *)
Theorem C06_gap_window_spec_all : forall g s a b, degap g (gslice (Some g) s a b) = py_slice (degap g s) a b.
Proof. exact gap_window_spec_all. Qed.
Print Assumptions C06_gap_window_spec_all.

Theorem C06_gap_int_spec : forall q g i u sp fi,
  let s := sdata q in
  let d := degap g s in
  let n := Z.of_nat (length d) in
  let r := if i <? 0 then i + n else i in
  (0 <= r < n ->
     let k := Z.of_nat (col_of g s (Z.to_nat r)) in
     0 <= k < Z.of_nat (length s) /\
     getitem_g q (WInt i) u sp fi (Some g) = getitem q (WInt k) u sp fi /\
     zsub s k (k + 1) = zsub d r (r + 1)) /\
  (~ (0 <= r < n) -> getitem_g q (WInt i) u sp fi (Some g) = Err E_Index).
Proof. exact gap_int_spec. Qed.
Print Assumptions C06_gap_int_spec.

(* gap x update_fts.  int / slice windows cut the features at the COLUMN bounds of the window ... *)
Theorem C06_gap_update_slice_path : forall q g a b step sp fi,
  let s := sdata q in
  let len := Z.of_nat (length s) in
  let lo := fst (slice_bounds len (adj g s a) (adj g s b)) in
  let hi := snd (slice_bounds len (adj g s a) (adj g s b)) in
  upper s = s -> (step = None \/ step = Some 1) -> forallb (ft_in len) (sfts q) = true ->
  getitem_g q (WSlice a b step) true sp fi (Some g) = Ok (mkSeq (zsub s lo hi) (slice_spec lo hi lo (sfts q))).
Proof. exact gap_update_slice_path. Qed.
Print Assumptions C06_gap_update_slice_path.

(* ... Location-like windows cut them at the NUMBERS of the window (which count residues), as if gap were not given *)
Theorem C06_gap_update_loc_path : forall q g w sp fi,
  let len := Z.of_nat (length (sdata q)) in
  let lo := lstart w in
  let hi := lstop w in
  forallb in_alpha (sdata q) = true -> loc_in len w = true -> forallb (ft_in len) (sfts q) = true ->
  getitem_g q (WLoc w) true sp fi (Some g) =
    Ok (mkSeq (upper (gpiece (Some g) (sdata q) w))
              (if is_minus w then fts_rc (hi - lo) (slice_spec lo hi lo (sfts q)) else slice_spec lo hi lo (sfts q))).
Proof. exact gap_update_loc_path. Qed.
Print Assumptions C06_gap_update_loc_path.

(* the two paths agree on a forward window [a, b) when its bounds are aligned (residue a is column a, residue b is column b) *)
Theorem C06_gap_update_paths_agree_partial : forall q g w sp fi,
  is_minus w = false -> 0 <= lstart w -> 0 <= lstop w -> aligned g (sdata q) (lstart w) (lstop w) = true ->
  getitem_g q (WLoc w) true sp fi (Some g) =
  getitem_g q (WSlice (Some (lstart w)) (Some (lstop w)) None) true sp fi (Some g).
Proof. exact gap_update_paths_agree. Qed.
Print Assumptions C06_gap_update_paths_agree_partial.

(* ... they do not agree in general ... *)
Theorem C06_gap_update_paths_agree_refuted :
  exists q g w, state_ok (Some g) q = true /\ win_ok_g q (WLoc w) true (Some g) = true /\ is_minus w = false /\
    aligned g (sdata q) (lstart w) (lstop w) = false /\
    getitem_g q (WLoc w) true None None (Some g) <>
    getitem_g q (WSlice (Some (lstart w)) (Some (lstop w)) None) true None None (Some g).
Proof. exact gap_update_paths_refuted. Qed.
Print Assumptions C06_gap_update_paths_agree_refuted.

(* ... and for EVERY non-aligned window inside the residues some single-location feature inside the sequence tells them apart *)
Theorem C06_gap_update_paths_differ : forall s g a b sp fi,
  0 <= a -> a < b -> b <= Z.of_nat (length (degap g s)) -> aligned g s a b = false ->
  exists f, ft_in (Z.of_nat (length s)) f = true /\ length (flocs f) = 1%nat /\
    getitem_g (mkSeq s [f]) (WLoc (mkLoc a b S_FORWARD 0)) true sp fi (Some g) <>
    getitem_g (mkSeq s [f]) (WSlice (Some a) (Some b) None) true sp fi (Some g).
Proof. exact gap_update_paths_differ. Qed.
Print Assumptions C06_gap_update_paths_differ.

(* filler on descending non-overlapping minus-strand locations pads to the length of the feature's range too *)
Theorem C06_filler_pads_minus : forall s c l0 r, is_minus l0 = true ->
  0 <= lstart l0 -> lstart l0 <= lstop l0 -> lstop l0 <= Z.of_nat (length s) -> chain_ok_minus (Z.of_nat (length s)) l0 r = true ->
  Z.of_nat (length (concat (extract_spec s (Some [c]) None (l0 :: r)))) = lstop l0 - lstart (last r l0).
Proof. exact filler_pads_minus. Qed.
Print Assumptions C06_filler_pads_minus.

(* ---- non-vacuity: a minus-strand two-location feature and a cut plus-strand feature, window [2, 6) ---- *)
Example C06_witness :
  let data := bs "ACGTACGT"%bs in
  let fts := [(Some (bs "cds"%bs), [(0, 8, 43, 0)]); (Some (bs "gene"%bs), [(1, 3, 45, 0); (5, 7, 45, 0)])] in
  wf_C06 data fts (RSlice (Some 2) (Some 6) None) true None None None = true /\
  wf_C06 data fts (RLoc (2, 6, 45, 0)) true None None None = true /\
  wf_C06 data fts RRc true None None None = true /\
  Bstr (show (show_res (run_op data fts (RLoc (2, 6, 45, 0)) true None None None))) =
  Bstr (show (VL [VS (bs "GTAC"%bs);
                  VL [VL [VS (bs "cds"%bs); VL [VL [VI 0; VI 4; VS (bs "-"%bs); VI 3]]];
                      VL [VS (bs "gene"%bs); VL [VL [VI 0; VI 1; VS (bs "+"%bs); VI 1]; VL [VI 3; VI 4; VS (bs "+"%bs); VI 2]]]]])).
Proof. exact (conj eq_refl (conj eq_refl (conj eq_refl eq_refl))). Qed.

(* the former empty_window defect (fixed): an empty window inside a location is in the domain, result empty, no features *)
Example C06_witness_empty_window :
  let data := bs "ACGTACGT"%bs in
  let fts := [(Some (bs "cds"%bs), [(0, 8, 43, 0)])] in
  wf_C06 data fts (RSlice (Some 3) (Some 3) None) true None None None = true /\
  run_op data fts (RSlice (Some 3) (Some 3) None) true None None None = Ok (mkSeq [] []) /\
  wf_C06 data fts (RSlice (Some 5) (Some 2) None) true None None None = true /\
  run_op data fts (RSlice (Some 5) (Some 2) None) true None None None = Ok (mkSeq [] []).
Proof. exact empty_window_ok. Qed.

(* gap: residues 1..3 of A-CGT; a minus-strand window over a gapped stretch; an RNA / unstranded hypothesis instance *)
Example C06_witness_gap :
  Bstr (gslice (Some (bs "-"%bs)) (bs "A-CGT"%bs) (Some 1) (Some 3)) = "CG"%bs /\
  Bstr (gpiece (Some (bs "-"%bs)) (bs "AC--GTTAG"%bs) (mkLoc 1 4 S_REVERSE 0)) = "AC--G"%bs /\
  forallb in_alpha_rna (bs "ACGU"%bs) = true /\ is_pm S_NONE = false /\
  chain_ok 8 (mkLoc 0 2 S_FORWARD 0) [mkLoc 4 6 S_FORWARD 0] = true.
Proof. exact (conj eq_refl (conj eq_refl (conj eq_refl (conj eq_refl eq_refl)))). Qed.

(* round 6: an RNA case is inside the harness domain (not inside wf_C06); 'mRNA' is not found through 'RNA'; a basket of two
   sequences indexed by a type name; aligned / not aligned bounds; a descending minus-strand chain *)
Example C06_witness_round6 :
  wf_C06u (bs "ACGU"%bs) [(Some (bs "cds"%bs), [(0, 3, 45, 0)])] (RType (bs "CDS"%bs)) true None None None = true /\
  wf_C06 (bs "ACGU"%bs) [(Some (bs "cds"%bs), [(0, 3, 45, 0)])] (RType (bs "CDS"%bs)) true None None None = false /\
  fts_get (bs "MRNA"%bs) [mkFt (Some (bs "RNA"%bs)) [mkLoc 0 1 S_FORWARD 0]; mkFt (Some (bs "mRNA"%bs)) [mkLoc 1 2 S_FORWARD 0]]
    = Some (mkFt (Some (bs "mRNA"%bs)) [mkLoc 1 2 S_FORWARD 0]) /\
  wf_C06b [(bs "ACGT"%bs, [(Some (bs "cds"%bs), [(0, 2, 45, 0)])]); (bs "GGA"%bs, [(Some (bs "CDS"%bs), [(1, 3, 43, 0)])])]
          (QPairS None None (Some (-1)) (RType (bs "cds"%bs))) false None None None = true /\
  Bstr (show (show_bres (bind (build_basket 0 [(bs "ACGT"%bs, [(Some (bs "cds"%bs), [(0, 2, 45, 0)])]);
                                               (bs "GGA"%bs, [(Some (bs "CDS"%bs), [(1, 3, 43, 0)])])])
                 (fun qs => basket_getitem qs (BPairS None None (Some (-1)) (WType (bs "cds"%bs))) false None None None)))) =
  Bstr (show (VL [VS (bs "basket"%bs);
                  VL [VL [VI 1; VL [VS (bs "GA"%bs); VL [VL [VS (bs "CDS"%bs); VL [VL [VI 1; VI 3; VS (bs "+"%bs); VI 0]]]]]];
                      VL [VI 0; VL [VS (bs "GT"%bs); VL [VL [VS (bs "cds"%bs); VL [VL [VI 0; VI 2; VS (bs "-"%bs); VI 0]]]]]]]])) /\
  aligned (bs "-"%bs) (bs "ACG-T"%bs) 0 2 = true /\ aligned (bs "-"%bs) (bs "A-CG"%bs) 1 2 = false /\
  chain_ok_minus 8 (mkLoc 5 7 S_REVERSE 0) [mkLoc 1 3 S_REVERSE 0] = true.
Proof. exact witness_round6. Qed.

(* ---- round 7: histories over the feature list (in-place edits of seq.fts interleaved with lookups by type name) ---- *)
(* sorted(objs, key, reverse) for the two keys of FeatureList.sort (0 = position: Feature.__lt__, otherwise len): a permutation; ascending
   (descending with reverse=True) in the key; features the key does not order keep their relative order, in BOTH directions *)
Theorem C06_sort_dir_spec : forall k reverse l,
  Permutation.Permutation (sort_dir (key_lt k) reverse l) l /\
  Sorted.StronglySorted (fun a b => if reverse then key_lt k a b = false else key_lt k b a = false) (sort_dir (key_lt k) reverse l) /\
  (forall p, (forall a b, p a = true -> p b = true -> key_lt k a b = false) ->
             filter p (sort_dir (key_lt k) reverse l) = filter p l).
Proof. exact sort_dir_spec. Qed.
Print Assumptions C06_sort_dir_spec.

(* FeatureList.sort(keys): the first key decides first (it is applied last, to the list sorted by the remaining keys) *)
Theorem C06_fts_sort_keys : forall reverse l,
  fts_sort [] reverse l = l /\
  (forall k ks, fts_sort (k :: ks) reverse l = sort_dir (key_lt k) reverse (fts_sort ks reverse l)) /\
  (forall ks, Permutation.Permutation (fts_sort ks reverse l) l).
Proof. exact fts_sort_keys. Qed.
Print Assumptions C06_fts_sort_keys.

(* fts.get(name) is the head of fts.select(name), select is the sub-list of the matching features in list order, a list of one
   name is that name *)
Theorem C06_get_head_select : forall name l,
  fts_get name l = hd_error (fts_select name l) /\
  (forall f, In f (fts_select name l) <-> In f l /\ type_matches name f = true) /\
  (forall a b, fts_select name (a ++ b) = fts_select name a ++ fts_select name b) /\
  (forall f, type_in [name] f = type_matches name f).
Proof. exact get_head_select. Qed.
Print Assumptions C06_get_head_select.

(* the type-name lookup after an in-place edit, from the pieces of the list before it: fts[k] = x; del fts[k]; fts.append(x);
   fts.reverse() (the LAST feature of the type) *)
Theorem C06_get_after_edit : forall name l k x,
  fts_get name (list_set l k x) =
    match fts_get name (firstn k l) with
    | Some f => Some f
    | None => if type_matches name x then Some x else fts_get name (skipn (S k) l)
    end /\
  fts_get name (list_del l k) =
    match fts_get name (firstn k l) with Some f => Some f | None => fts_get name (skipn (S k) l) end /\
  fts_get name (l ++ [x]) =
    match fts_get name l with Some f => Some f | None => if type_matches name x then Some x else None end /\
  fts_get name (rev l) = hd_error (rev (fts_select name l)).
Proof. exact get_after_edit. Qed.
Print Assumptions C06_get_after_edit.

(* fts.insert(i, x): the index is clamped into the list; x is the answer iff it matches and nothing before it does *)
Theorem C06_get_after_insert : forall name l i x,
  exists k, (k <= length l)%nat /\ list_ins l i x = firstn k l ++ x :: skipn k l /\
    fts_get name (list_ins l i x) =
      match fts_get name (firstn k l) with
      | Some f => Some f
      | None => if type_matches name x then Some x else fts_get name (skipn k l)
      end.
Proof. exact get_after_insert. Qed.
Print Assumptions C06_get_after_insert.

(* seq.fts.sort(); seq[name]: a feature of the type at the smallest position (start, then stop, of its whole range); among the
   features of the type at that position the one that came first BEFORE the sort; found after the sort iff found before *)
Theorem C06_get_after_sort : forall name l,
  (forall f, fts_get name (fts_sort [0] false l) = Some f ->
     In f l /\ type_matches name f = true /\
     (forall g, In g l -> type_matches name g = true -> ft_pos_lt g f = false) /\
     hd_error (filter (fun g => type_matches name g && negb (ft_pos_lt f g) && negb (ft_pos_lt g f)) l) = Some f) /\
  (fts_get name (fts_sort [0] false l) = None <-> fts_get name l = None).
Proof. exact get_after_sort. Qed.
Print Assumptions C06_get_after_sort.

(* l[k] = x and del l[k], position by position *)
Theorem C06_list_edit_spec : forall (l : list feature) k x, (k < length l)%nat ->
  length (list_set l k x) = length l /\
  nth_error (list_set l k x) k = Some x /\
  (forall j, j <> k -> nth_error (list_set l k x) j = nth_error l j) /\
  S (length (list_del l k)) = length l /\
  (forall j, (j < k)%nat -> nth_error (list_del l k) j = nth_error l j) /\
  (forall j, (k <= j)%nat -> nth_error (list_del l k) j = nth_error l (S j)).
Proof. exact (@list_edit_spec feature). Qed.
Print Assumptions C06_list_edit_spec.

(* negative indices count from the end; outside [-len, len) there is no position (IndexError in every edit that addresses one) *)
Theorem C06_norm_idx_spec : forall len i, 0 <= len ->
  match norm_idx len i with
  | Some k => - len <= i < len /\ Z.of_nat k = (if i <? 0 then i + len else i)
  | None => i < - len \/ len <= i
  end.
Proof. exact norm_idx_spec. Qed.
Print Assumptions C06_norm_idx_spec.

(* fts.remove(x): the first feature equal to x goes, the others keep their order *)
Theorem C06_remove_first_spec : forall x l,
  match remove_first x l with
  | Some r => exists pre y post, l = pre ++ y :: post /\ r = pre ++ post /\ ft_eqb y x = true /\
                                 forallb (fun z => negb (ft_eqb z x)) pre = true
  | None => forallb (fun z => negb (ft_eqb z x)) l = true
  end.
Proof. exact remove_first_spec. Qed.
Print Assumptions C06_remove_first_spec.

(* a history continues from the state its prefix produced, and that state does not depend on the lookups made on the way: the
   answers to any continuation s2 are the same with every earlier lookup (get / select / not-in-place window / basket index) removed *)
Theorem C06_history_lookups_transparent : forall qs s1 s2,
  snd (fhist_run qs (s1 ++ s2)) = snd (fhist_run qs s1) ++ snd (fhist_run (fhist_state qs s1) s2) /\
  fhist_state qs (filter (fun s => negb (is_lookup (snd s))) s1) = fhist_state qs s1 /\
  snd (fhist_run (fhist_state qs (filter (fun s => negb (is_lookup (snd s))) s1)) s2) = snd (fhist_run (fhist_state qs s1) s2).
Proof. exact history_lookups_transparent. Qed.
Print Assumptions C06_history_lookups_transparent.

(* fts.sort() twice is fts.sort() once; seq.add_fts(new) is the stable position sort of old ++ new (so C06_get_after_sort says what
   a type-name lookup returns afterwards) *)
Theorem C06_sort_idempotent_add_fts : forall l fs r,
  fts_sort [0] false (fts_sort [0] false l) = fts_sort [0] false l /\
  (build_fts fs = Ok r ->
   fedit_run l (EAddFts fs) = (true, VNone, fts_sort [0] false (l ++ r)) /\
   Permutation.Permutation (snd (fedit_run l (EAddFts fs))) (l ++ r)).
Proof. exact sort_idempotent_add_fts. Qed.
Print Assumptions C06_sort_idempotent_add_fts.

(* the shape of every in-place edit: sort / reverse re-order; item assignment, swap, changing the type or the locations of a feature
   keep the number of features; pop / remove take exactly one away unless they raise; insert / append add exactly one; an edit
   that raises leaves the list as it was *)
Theorem C06_fedit_shape : forall l e,
  let r := snd (fedit_run l e) in
  match e with
  | ESort _ _ | EReverse => Permutation.Permutation r l
  | ESetItem _ _ | ESwap _ _ | ESetType _ _ | ESetLocs _ _ => length r = length l
  | EPop _ | ERemove _ => r = l \/ S (length r) = length l
  | EInsert _ _ | EAppend _ => r = l \/ length r = S (length l)
  | EExtend _ | EAddFts _ => (length l <= length r)%nat
  | EClear => r = []
  end.
Proof. exact fedit_shape. Qed.
Print Assumptions C06_fedit_shape.

(* the in-place str methods of the history language (seq.str.upper / lower / swapcase / replace / strip / lstrip / rstrip): the case
   methods keep the length (features stay where they were); replacing a character by a character is a map; replacing an absent
   character changes nothing; lstrip / rstrip remove exactly the longest prefix / suffix made of chars *)
Theorem C06_str_methods_spec : forall chars c new s,
  (length (upper s) = length s /\ length (lower s) = length s /\ length (map swap1 s) = length s) /\
  (forall d, replace1 c [d] s = map (fun x => if byte_eqb x c then d else x) s) /\
  (has c s = false -> replace1 c new s = s) /\
  (exists pre, s = pre ++ lstrip_chars chars s /\ forallb (fun x => has x chars) pre = true /\
               match lstrip_chars chars s with x :: _ => has x chars = false | [] => True end) /\
  (exists suf, s = rstrip_chars chars s ++ suf /\ forallb (fun x => has x chars) suf = true /\
               match rev (rstrip_chars chars s) with x :: _ => has x chars = false | [] => True end).
Proof. exact str_methods_spec. Qed.
Print Assumptions C06_str_methods_spec.

(* BioBasket(objs).fts.get(name): the answer of the first sequence, in basket order, that has a feature of the type;
   .select(name): the selections of the sequences one after the other *)
Theorem C06_get_all_objects : forall name qs,
  fts_get name (flat_map sfts qs) = first_some (map (fun q => fts_get name (sfts q)) qs) /\
  fts_select name (flat_map sfts qs) = flat_map (fun q => fts_select name (sfts q)) qs.
Proof. exact get_all_objects. Qed.
Print Assumptions C06_get_all_objects.

(* non-vacuity: two cds, the later one further left: sort() changes the answer of the lookup (the history of seeded change C06-21) *)
Example C06_witness_sort_changes_lookup :
  let late := mkFt (Some (bs "cds"%bs)) [mkLoc 11 17 S_REVERSE 0] in
  let g := mkFt (Some (bs "gene"%bs)) [mkLoc 1 18 S_FORWARD 0] in
  let early := mkFt (Some (bs "CDS"%bs)) [mkLoc 2 5 S_FORWARD 0; mkLoc 7 9 S_FORWARD 0] in
  fts_get (bs "cds"%bs) [late; g; early] = Some late /\
  fts_sort [0] false [late; g; early] = [g; early; late] /\
  fts_get (bs "cds"%bs) (fts_sort [0] false [late; g; early]) = Some early /\
  fts_sort [1; 0] true [late; g; early] = [g; early; late].
Proof. exact (conj eq_refl (conj eq_refl (conj eq_refl eq_refl))). Qed.
