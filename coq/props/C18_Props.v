(* C18 -- copy() gives full isolation; metadata containers behave as mappings.
   Only statements here; proofs are in proof/C18_Lemmas.v (value-level mapping laws) and
   proof/C18_HeapLemmas.v (heap model: frame, deepcopy, copy isolation). *)
From Coq Require Import List ZArith Bool.
From Coq.Strings Require Import Byte.
Import ListNotations.
From SV Require Import Text G_attr C18_Model C18_Heap C18_Lemmas C18_Good C18_HeapLemmas C18_HeapOps C18_Refine C18_Obj C18_ObjLemmas C18_ObjIso C18_ObjElems G_c18_str C18_Conv C18_ObjMore C18_ObjTotal C18_ObjSlice.

(* --- Attr/Meta as a mapping: get after set (the stored value is the recursively converted one) --- *)
Theorem C18_get_set_same : forall g kvs k v, is_attr g = true ->
  exists t', apply_op (OSetItem [] k v) (TMap g kvs) = inl (t', VNone) /\
             apply_op (OGetItem [] k) t' = inl (t', enc (conv v)) /\
             apply_op (OGetAttr [] k) t' = inl (t', enc (conv v)).
Proof. exact get_set_same. Qed.
Print Assumptions C18_get_set_same.

Theorem C18_get_set_other : forall g kvs k k' v, k <> k' ->
  exists t', apply_op (OSetItem [] k v) (TMap g kvs) = inl (t', VNone) /\
             forall r, apply_op (OGetItem [] k') t' = inl (t', r) <->
                       apply_op (OGetItem [] k') (TMap g kvs) = inl (TMap g kvs, r).
Proof. exact get_set_other. Qed.
Print Assumptions C18_get_set_other.

Theorem C18_assoc_laws : forall (m : list (str * tree)) k k' v,
  aget k (aset k v m) = Some v /\
  (k <> k' -> aget k' (aset k v m) = aget k' m) /\
  akeys (aset k v m) = (if amem k m then akeys m else akeys m ++ [k]) /\
  (nodupb (akeys m) = true -> nodupb (akeys (aset k v m)) = true).
Proof.
  exact (fun m k k' v => conj (aget_aset_same k v m) (conj (aget_aset_other k k' v m)
          (conj (eq_trans (akeys_aset k v m) (f_equal (fun b : bool => if b then akeys m else akeys m ++ [k]) (eq_sym (amem_inkeys k m))))
                (nodup_aset k v m)))).
Qed.
Print Assumptions C18_assoc_laws.

Theorem C18_del_laws : forall (m m' : list (str * tree)) k k', adel k m = Some m' ->
  (nodupb (akeys m) = true -> aget k m' = None) /\ (k <> k' -> aget k' m' = aget k' m) /\
  (adel k m = None <-> amem k m = false).
Proof.
  exact (fun m m' k k' H => conj (fun ND => aget_adel_same k m m' ND H) (conj (fun N => aget_adel_other k k' m m' N H)
          (conj (fun E => proj1 (iff_trans (adel_inkeys k m) (eq_ind _ (fun b => b = false <-> amem k m = false) (iff_refl _) _ (amem_inkeys k m))) E)
                (fun E => proj2 (iff_trans (adel_inkeys k m) (eq_ind _ (fun b => b = false <-> amem k m = false) (iff_refl _) _ (amem_inkeys k m))) E)))).
Qed.
Print Assumptions C18_del_laws.

(* --- attribute access is key access (meta.py:59-66); only the exception class differs --- *)
Theorem C18_attr_is_key : forall g kvs k v, is_attr g = true ->
  apply_op (OGetAttr [] k) (TMap g kvs) =
    match apply_op (OGetItem [] k) (TMap g kvs) with inr EKey => inr EAttr | r => r end /\
  apply_op (OSetAttr [] k v) (TMap g kvs) = apply_op (OSetItem [] k v) (TMap g kvs) /\
  apply_op (ODelAttr [] k) (TMap g kvs) = apply_op (ODelItem [] k) (TMap g kvs).
Proof.
  exact (fun g kvs k v H => conj (getattr_is_getitem g kvs k H) (conj (setattr_is_setitem g kvs k v H) (delattr_is_delitem g kvs k H))).
Qed.
Print Assumptions C18_attr_is_key.

(* --- nested mappings are converted recursively; the plain-dict view gives the literal back --- *)
Theorem C18_to_dict_of_dict : forall d, wf_lit d = true ->
  to_dict (conv d) = d /\ plain_dict (conv d) = false /\ closed (conv d) = true /\ conv (conv d) = conv d.
Proof.
  exact (fun d W => conj (to_dict_conv d W) (conj (proj1 (conv_closed d W)) (conj (proj2 (conv_closed d W)) (conv_idem d)))).
Qed.
Print Assumptions C18_to_dict_of_dict.

Theorem C18_init_keeps_items : forall g kvs, nodupb (map fst kvs) = true ->
  attr_init g kvs = TMap g (map (fun kv => (fst kv, conv (snd kv))) kvs).
Proof. exact attr_init_nodup. Qed.
Print Assumptions C18_init_keeps_items.

(* --- Attr(d) == d and Meta(d) == d for the equivalent dict --- *)
Theorem C18_eq_dict : forall d, wf_lit d = true -> py_eq (conv d) d = true /\ py_eq d d = true.
Proof. exact (fun d W => conj (py_eq_conv d W) (py_eq_refl_wf d W)). Qed.
Print Assumptions C18_eq_dict.

Theorem C18_meta_eq_dict : forall g kvs, wf_lit (TMap TgDict kvs) = true ->
  py_eq (attr_init g kvs) (TMap TgDict kvs) = true.
Proof. exact py_eq_meta_init. Qed.
Print Assumptions C18_meta_eq_dict.

(* non-vacuity: a nested literal with a list satisfies the hypotheses, and the conversion really changes classes *)
Example C18_witness_lit :
  let d := TMap TgDict [(bs "a"%bs, TMap TgDict [(bs "b"%bs, TMap TgDict [(bs "c"%bs, TInt 1)])]);
                        (bs "l"%bs, TList [TMap TgDict [(bs "x"%bs, TBool true)]])] in
  wf_lit d = true /\
  conv d = TMap TgAttr [(bs "a"%bs, TMap TgAttr [(bs "b"%bs, TMap TgAttr [(bs "c"%bs, TInt 1)])]);
                        (bs "l"%bs, TList [TMap TgDict [(bs "x"%bs, TBool true)]])] /\
  py_eq (conv d) d = true.
Proof. exact (conj eq_refl (conj eq_refl eq_refl)). Qed.

(* the reserved set is what makes the hypotheses necessary: 'items' is excluded (open finding F20) *)
Example C18_witness_reserved : reserved (bs "items"%bs) = true /\ reserved (bs "__deepcopy__"%bs) = true /\
  reserved (bs "name"%bs) = false /\ wf_lit (TMap TgDict [(bs "items"%bs, TInt 1)]) = false.
Proof. exact (conj eq_refl (conj eq_refl (conj eq_refl eq_refl))). Qed.

(* --- the mapping laws at ANY path of the object, not only at its root --- *)
Theorem C18_attr_is_key_path : forall p T g kvs k v, tnav p T = Some (TMap g kvs) -> is_attr g = true ->
  apply_op (OGetAttr p k) T = match apply_op (OGetItem p k) T with inr EKey => inr EAttr | x => x end /\
  apply_op (OSetAttr p k v) T = apply_op (OSetItem p k v) T /\
  apply_op (ODelAttr p k) T = apply_op (ODelItem p k) T.
Proof. exact attr_is_key_path. Qed.
Print Assumptions C18_attr_is_key_path.

Theorem C18_get_set_path : forall p T g kvs k v, key_path p = true -> tnav p T = Some (TMap g kvs) -> is_attr g = true ->
  exists T', apply_op (OSetItem p k v) T = inl (T', VNone) /\
             tnav p T' = Some (TMap g (aset k (conv v) kvs)) /\
             apply_op (OGetItem p k) T' = inl (T', enc (conv v)) /\ apply_op (OGetAttr p k) T' = inl (T', enc (conv v)).
Proof. exact get_set_path. Qed.
Print Assumptions C18_get_set_path.

(* --- EVERY modelled operation, at every path, keeps: unique keys at every mapping, and "an Attr/Meta never directly
       holds a plain dict" (recursive conversion through item/attribute assignment, update, setdefault, ...) --- *)
Theorem C18_apply_op_good : forall o t t' r, wf_op o = true -> good t = true -> apply_op o t = inl (t', r) ->
  good t' = true /\ same_kind t t'.
Proof. exact apply_op_good. Qed.
Print Assumptions C18_apply_op_good.

(* --- after ANY history of modelled operations on x = Meta(d): the invariant holds and x == dict(x) == x --- *)
Theorem C18_reachable_good : forall d kvs ops okd acc, d = TMap TgDict kvs -> wf_lit d = true -> forallb wf_op ops = true ->
  let x := snd (run_ops ops (attr_init TgMeta kvs) okd acc) in
  good x = true /\ py_eq x (to_dict x) = true /\ py_eq (to_dict x) x = true.
Proof. exact reachable_good. Qed.
Print Assumptions C18_reachable_good.

Theorem C18_good_closed : forall t, good t = true -> closed t = true.
Proof. exact good_closed. Qed.
Print Assumptions C18_good_closed.

(* --- Mapping equality is equality of finite maps: same key set and equal values; a missing key is NOT a key whose
       value is None --- *)
Theorem C18_eq_is_finite_map_eq : forall g1 g2 ka kb, nodupb (map fst ka) = true -> nodupb (map fst kb) = true ->
  (py_eq (TMap g1 ka) (TMap g2 kb) = true <->
   (forall k, amem k ka = amem k kb) /\ (forall k x, aget k ka = Some x -> exists y, aget k kb = Some y /\ py_eq x y = true)).
Proof. exact py_eq_map_iff. Qed.
Print Assumptions C18_eq_is_finite_map_eq.

Example C18_witness_none_key :
  py_eq (TMap TgMeta [(bs "id"%bs, TStr (bs "s1"%bs)); (bs "name"%bs, TNull)])
        (TMap TgDict [(bs "id"%bs, TStr (bs "s1"%bs)); (bs "gene"%bs, TNull)]) = false /\
  py_eq (TMap TgAttr [(bs "a"%bs, TNull)]) (TMap TgAttr [(bs "b"%bs, TNull)]) = false /\
  py_eq (TMap TgAttr [(bs "a"%bs, TNull)]) (TMap TgDict [(bs "a"%bs, TNull)]) = true.
Proof. exact none_key_witness. Qed.

(* ================= heap model (lib/C18_Heap.v): aliasing, copy(), frame ================= *)

(* frame: a write to a cell that x cannot reach changes nothing observable through x *)
Theorem C18_frame : forall h v l c n, ~ Reach h v l -> snap n (hwrite h l c) v = snap n h v.
Proof. exact frame_write. Qed.
Print Assumptions C18_frame.

Theorem C18_frame_writes : forall h v n (ws : list (nat * cell)),
  (forall l, Reach h v l -> ~ In l (map fst ws)) ->
  snap n (fold_left (fun h w => hwrite h (fst w) (snd w)) ws h) v = snap n h v.
Proof. exact frame_writes. Qed.
Print Assumptions C18_frame_writes.

(* building a value allocates fresh cells only, referring to fresh cells only, and reads back as the value *)
Theorem C18_build_fresh : forall t h h' v, build t h = (h', v) ->
  exists ex, h' = h ++ ex /\ vref_ge (length h) v /\ vref_lt (length h') v /\ cells_ge (length h) ex
             /\ cells_lt (length h') ex /\ exists n, snap n h' v = Some t.
Proof. exact build_spec. Qed.
Print Assumptions C18_build_fresh.

(* y = x.copy(): equal snapshots, x and all old cells untouched, reachable cells disjoint *)
Theorem C18_deepcopy_disjoint : forall n h x h' y, heap_ok h -> vref_lt (length h) x -> deepcopy n h x = Some (h', y) ->
  exists t ex, h' = h ++ ex /\ snap n h x = Some t /\ snap n h' x = Some t /\ (exists m, snap m h' y = Some t) /\
    (forall l, Reach h' x l -> l < length h) /\ (forall l, Reach h' y l -> length h <= l).
Proof. exact deepcopy_disjoint. Qed.
Print Assumptions C18_deepcopy_disjoint.

(* copy isolation over arbitrary write histories, both directions *)
Theorem C18_copy_isolation : forall n h x h' y ws k, heap_ok h -> vref_lt (length h) x -> deepcopy n h x = Some (h', y) ->
  let h'' := fold_left (fun h w => hwrite h (fst w) (snd w)) ws h' in
  ((forall l, In l (map fst ws) -> length h <= l) -> snap k h'' x = snap k h' x) /\
  ((forall l, In l (map fst ws) -> l < length h) -> snap k h'' y = snap k h' y).
Proof. exact copy_isolation. Qed.
Print Assumptions C18_copy_isolation.

(* operations that only allocate (copy(), Meta(x), literals) are not in-place: every deep read of an existing object is unchanged *)
Theorem C18_alloc_not_inplace : forall n h ex v t, snap n h v = Some t -> snap n (h ++ ex) v = Some t.
Proof. exact snap_app. Qed.
Print Assumptions C18_alloc_not_inplace.

(* the no-dangling-reference invariant is kept by allocation and by writes *)
Theorem C18_heap_ok_preserved : forall h,
  heap_ok h ->
  (forall ex, Forall (fun c => Forall (vref_lt (length (h ++ ex))) (cell_vals c)) ex -> heap_ok (h ++ ex)) /\
  (forall l c, Forall (vref_lt (length h)) (cell_vals c) -> heap_ok (hwrite h l c)).
Proof. exact (fun h OK => conj (fun ex => heap_ok_app h ex OK) (fun l c => heap_ok_write h l c OK)). Qed.
Print Assumptions C18_heap_ok_preserved.

(* ---- the invariants composed through EVERY modelled operation (hop_step), no hypothesis left to the reader ---- *)

(* every state reachable from the empty heap by ANY list of modelled operations has no dangling references *)
Theorem C18_reachable_ok : forall ops, let s := exec ops init_state in
  inv all_true all_true s /\ heap_ok (fst s) /\ forall k, vref_lt (length (fst s)) (reg s k).
Proof. exact reachable_ok. Qed.
Print Assumptions C18_reachable_ok.

(* one modelled operation whose variables all belong to the R-side keeps the two-colour separation invariant, never
   touches a cell of the other colour and leaves the variables of the other side alone *)
Theorem C18_hop_step_ok : forall side R s o s' r, fresh_true side (length (fst s)) -> inv side R s -> regs_in R o = true ->
  hop_step o s = inl (s', r) -> step_ok side R s s'.
Proof. exact hop_step_ok. Qed.
Print Assumptions C18_hop_step_ok.

Theorem C18_exec_frame : forall side R ops s, fresh_true side (length (fst s)) -> inv side R s ->
  forallb (regs_in R) ops = true ->
  inv side R (exec ops s) /\ fresh_true side (length (fst (exec ops s))) /\
  forall k n, R k = false -> snap n (fst (exec ops s)) (reg (exec ops s) k) = snap n (fst s) (reg s k).
Proof. exact exec_frame. Qed.
Print Assumptions C18_exec_frame.

(* exec is what the harness runs *)
Theorem C18_exec_is_run : forall ops s okd acc, snd (run_hops ops s okd acc) = exec ops s.
Proof. exact run_hops_exec. Qed.
Print Assumptions C18_exec_is_run.

(* COPY ISOLATION over arbitrary histories of modelled operations: after ANY prefix, r_i = r_j.copy() gives an equal
   snapshot; then any history working on r_i only leaves every other variable unchanged, and any history not mentioning
   r_i leaves r_i unchanged (nested edits, deletions, list appends, assignments of own sub-objects, further copies and
   re-wraps included) *)
Theorem C18_copy_isolation_ops : forall pre i j s1 r, i < nregs ->
  hop_step (HCopy i j) (exec pre init_state) = inl (s1, r) ->
  let s0 := exec pre init_state in
  (exists t m, snap (fuel_of (fst s0)) (fst s0) (reg s0 j) = Some t /\ snap m (fst s1) (reg s1 i) = Some t /\
               (i <> j -> snap (fuel_of (fst s0)) (fst s1) (reg s1 j) = Some t)) /\
  (forall ops, forallb (regs_in (only i)) ops = true -> forall k n, k <> i ->
     snap n (fst (exec ops s1)) (reg (exec ops s1) k) = snap n (fst s1) (reg s1 k)) /\
  (forall ops, forallb (regs_in (except i)) ops = true -> forall n,
     snap n (fst (exec ops s1)) (reg (exec ops s1) i) = snap n (fst s1) (reg s1 i)).
Proof. exact copy_isolation_ops. Qed.
Print Assumptions C18_copy_isolation_ops.

(* ---- not_inplace_pure ---- *)

(* value level: the reading operations of Attr/Meta (getitem, getattr, get, len, keys, in, ==) at any path return the
   object unchanged, and so does a whole history of them *)
Theorem C18_read_not_inplace : forall o t t' r, is_read o = true -> apply_op o t = inl (t', r) -> t' = t.
Proof. exact read_not_inplace. Qed.
Print Assumptions C18_read_not_inplace.

Theorem C18_run_reads : forall ops t okd acc, forallb is_read ops = true -> snd (run_ops ops t okd acc) = t.
Proof. exact run_reads. Qed.
Print Assumptions C18_run_reads.

(* heap level: Meta(d), x.copy(), Meta(x) and "is" are not in-place: they only allocate, every variable except the
   destination is unchanged, and every deep read of every operand gives what it gave before *)
Theorem C18_hop_not_inplace : forall o s s' r dest, pure_hop o = Some dest -> hop_step o s = inl (s', r) ->
  (exists ex, fst s' = fst s ++ ex) /\
  (forall k, Some k <> dest -> reg s' k = reg s k) /\
  (forall k n t, Some k <> dest -> snap n (fst s) (reg s k) = Some t -> snap n (fst s') (reg s' k) = Some t).
Proof. exact hop_not_inplace. Qed.
Print Assumptions C18_hop_not_inplace.

(* ---- refinement between the two models: for an object without internal sharing, the snapshot after the heap operation is
        the value-level operation applied to the snapshot before (item assignment of a literal incl. the recursive
        conversion, item deletion, list append; target reached by a path of keys) ---- *)
Theorem C18_refine_setitem : forall s i p k t s' r n T, key_path p = true ->
  snap n (fst s) (reg s i) = Some T -> NoDup (reach_list n (fst s) (reg s i)) ->
  hop_step (HSetLit i p k t) s = inl (s', r) ->
  exists T' m, apply_op (OSetItem p k t) T = inl (T', VNone) /\ snap m (fst s') (reg s' i) = Some T'.
Proof. exact refine_setlit. Qed.
Print Assumptions C18_refine_setitem.

Theorem C18_refine_delitem : forall s i p k s' r n T, key_path p = true ->
  snap n (fst s) (reg s i) = Some T -> NoDup (reach_list n (fst s) (reg s i)) ->
  hop_step (HDel i p k) s = inl (s', r) ->
  exists T' m, apply_op (ODelItem p k) T = inl (T', VNone) /\ snap m (fst s') (reg s' i) = Some T'.
Proof. exact refine_del. Qed.
Print Assumptions C18_refine_delitem.

Theorem C18_refine_append : forall s i p t s' r n T, key_path p = true ->
  snap n (fst s) (reg s i) = Some T -> NoDup (reach_list n (fst s) (reg s i)) ->
  hop_step (HAppendLit i p t) s = inl (s', r) ->
  exists T' m, apply_op (OListAppend p t) T = inl (T', VNone) /\ snap m (fst s') (reg s' i) = Some T'.
Proof. exact refine_append. Qed.
Print Assumptions C18_refine_append.

(* the model's boolean domain test tree_shaped gives the NoDup hypothesis *)
Theorem C18_tree_shaped_nodup : forall n h v, tree_shaped n h v = true -> NoDup (reach_list n h v).
Proof. exact (fun n h v => nodup_nat_NoDup (reach_list n h v)). Qed.
Print Assumptions C18_tree_shaped_nodup.

(* in-place operations never re-bind a variable: the receiver keeps its address (identity), all references see the update *)
Theorem C18_inplace_keeps_receiver : forall o s s' r, inplace_hop o = true -> hop_step o s = inl (s', r) -> snd s' = snd s.
Proof. exact inplace_keeps_vars. Qed.
Print Assumptions C18_inplace_keeps_receiver.

(* non-vacuity: a concrete heap satisfies the hypotheses and copy() succeeds on it; a concrete program shows that
   copy() separates (r0.a is not r1.a, editing r1.a.b leaves r0) while Meta(r0) shares nested objects (r0.a is r2.a) *)
Example C18_witness_heap : heap_ok demo_heap /\ vref_lt (length demo_heap) (HRef 3) /\
  exists h' y, deepcopy 5 demo_heap (HRef 3) = Some (h', y) /\ y = HRef 7 /\ length h' = 8.
Proof. exact demo_heap_ok. Qed.

Example C18_witness_program :
  wf_C18_heap demo_prog = true /\
  let '(_, res, s) := run_hops demo_prog init_state true [] in
  res = [VNone; VNone; VNone; VNone; VB false; VB true] /\
  snap 9 (fst s) (reg s 0) = Some (TMap TgMeta [(bs "a"%bs, TMap TgAttr [(bs "b"%bs, TInt 1)]); (bs "l"%bs, TList [TMap TgDict []])]) /\
  snap 9 (fst s) (reg s 1) = Some (TMap TgMeta [(bs "a"%bs, TMap TgAttr [(bs "b"%bs, TInt 2)]); (bs "l"%bs, TList [TMap TgDict []])]).
Proof. exact demo_run. Qed.

(* non-vacuity of C18_copy_isolation_ops: after a prefix with a re-wrap, the copy succeeds; a history with a nested edit,
   a deletion and an assignment of an own sub-object works on the copy only, changes it, and leaves the original alone *)
Example C18_witness_copy_ops :
  let pre := [HNew 0 (TMap TgDict [(bs "a"%bs, TMap TgDict [(bs "b"%bs, TInt 1)]); (bs "l"%bs, TList [TMap TgDict []])]); HWrap 2 0 []] in
  let ops := [HSetLit 1 [PK (bs "a"%bs)] (bs "b"%bs) (TInt 2); HDel 1 [] (bs "l"%bs); HSetRef 1 [] (bs "z"%bs) 1 [PK (bs "a"%bs)]] in
  exists s1, hop_step (HCopy 1 0) (exec pre init_state) = inl (s1, VNone) /\ 1 < nregs /\
             forallb (regs_in (only 1)) ops = true /\
             snap 9 (fst (exec ops s1)) (reg (exec ops s1) 1) <> snap 9 (fst s1) (reg s1 1) /\
             snap 9 (fst (exec ops s1)) (reg (exec ops s1) 0) = snap 9 (fst s1) (reg s1 0).
Proof. exact demo_copy_ops. Qed.

(* non-vacuity of the refinement theorems: a tree-shaped object on which all three operations succeed *)
Example C18_witness_refine :
  let s := exec [HNew 0 (TMap TgDict [(bs "a"%bs, TMap TgDict [(bs "b"%bs, TInt 1)]); (bs "l"%bs, TList [TMap TgDict []])])] init_state in
  tree_shaped 5 (fst s) (reg s 0) = true /\
  (exists T, snap 5 (fst s) (reg s 0) = Some T) /\
  (exists s', hop_step (HSetLit 0 [PK (bs "a"%bs)] (bs "c"%bs) (TMap TgDict [(bs "d"%bs, TInt 2)])) s = inl (s', VNone)) /\
  (exists s', hop_step (HDel 0 [PK (bs "a"%bs)] (bs "b"%bs)) s = inl (s', VNone)) /\
  (exists s', hop_step (HAppendLit 0 [PK (bs "l"%bs)] (TInt 7)) s = inl (s', VNone)).
Proof. exact demo_refine. Qed.

(* non-vacuity of C18_reachable_good / C18_apply_op_good: a history with nested set, update, setdefault, delattr, popitem *)
Example C18_witness_good :
  let d := TMap TgDict [(bs "a"%bs, TMap TgDict [(bs "b"%bs, TInt 1)]); (bs "l"%bs, TList [TMap TgDict []])] in
  let ops := [OSetItem [PK (bs "a"%bs)] (bs "c"%bs) (TMap TgDict [(bs "d"%bs, TMap TgDict [])]);
              OUpdate [] (TMap TgDict [(bs "q"%bs, TMap TgDict [(bs "r"%bs, TInt 2)])]);
              OSetDefault [PK (bs "q"%bs)] (bs "s"%bs) (TMap TgDict []); ODelAttr [PK (bs "a"%bs)] (bs "b"%bs); OPopItem []] in
  wf_lit d = true /\ forallb wf_op ops = true /\
  snd (run_ops ops (attr_init TgMeta [(bs "a"%bs, TMap TgDict [(bs "b"%bs, TInt 1)]); (bs "l"%bs, TList [TMap TgDict []])]) true [])
  = TMap TgMeta [(bs "l"%bs, TList [TMap TgDict []]);
                 (bs "q"%bs, TMap TgAttr [(bs "r"%bs, TInt 2); (bs "s"%bs, TMap TgAttr [])])].
Proof. exact demo_good. Qed.

(* ================= object model (lib/C18_Obj.v): BioSeq / BioBasket / FeatureList / Feature / LocationTuple / Location / Meta
   as a heap of objects with identities; every public operation is a program for a capability-checked interpreter ================= *)

(* deepcopy as GRAPH copy: only new cells, referring to new cells only; every old cell is left as it is *)
Theorem C18_obj_graph_copy_fresh : forall h l h' l', graph_copy h l = Some (h', l') ->
  exists cells, h' = h ++ cells /\ length h <= l' < length h' /\
    Forall (fun c => Forall (fun v => match v with HRef a => length h <= a < length h' | _ => True end) (ocell_vals c)) cells.
Proof. exact graph_copy_spec. Qed.
Print Assumptions C18_obj_graph_copy_fresh.

(* THE interpreter theorem: ANY program run by the side that owns its operands keeps the two-colour separation invariant,
   changes no cell of the other colour and returns a value of its own colour *)
Theorem C18_obj_interp_separation : forall side c kn h h' r,
  fresh_true side (length h) -> ocells_inv side h -> known_ok side (length h) kn ->
  interp c kn h = inl (h', r) ->
  ocells_inv side h' /\ length h <= length h' /\ okv side (length h') true r /\
  (forall l, side l = false -> nth_error h' l = nth_error h l).
Proof. exact interp_inv. Qed.
Print Assumptions C18_obj_interp_separation.

Theorem C18_obj_step_separation : forall side R s o s' r, fresh_true side (length (fst s)) -> oinv side R s -> oregs_in R o = true ->
  ostep o s = inl (s', r) -> ostep_ok side R s s'.
Proof. exact ostep_sep. Qed.
Print Assumptions C18_obj_step_separation.

(* any history by the R-side leaves every observation (canonical dump of the object graph, any fuel) through the other side unchanged *)
Theorem C18_obj_exec_frame : forall side R ops s, fresh_true side (length (fst s)) -> oinv side R s ->
  forallb (oregs_in R) ops = true ->
  oinv side R (oexec ops s) /\ fresh_true side (length (fst (oexec ops s))) /\
  forall k n, R k = false -> view n (oexec ops s) k = view n s k.
Proof. exact oexec_frame. Qed.
Print Assumptions C18_obj_exec_frame.

Theorem C18_obj_exec_is_run : forall ops s okd acc, snd (orun ops s okd acc) = oexec ops s.
Proof. exact orun_oexec. Qed.
Print Assumptions C18_obj_exec_is_run.

(* every state reachable from the empty store by ANY program is well formed: no dangling reference *)
Theorem C18_obj_reachable_ok : forall ops, let s := oexec ops oinit in
  oinv all_true all_true s /\ oheap_ok (fst s) /\ forall k, vref_lt (length (fst s)) (oreg s k).
Proof. exact oreachable_ok. Qed.
Print Assumptions C18_obj_reachable_ok.

(* COPY ISOLATION: after ANY prefix, r_i = nav(r_j, q).copy(); then for every finite sequence of modelled public operations
   whose variables are r_i and scratch variables holding no object at that moment, every observation through every other
   variable is unchanged -- and vice versa: every sequence that does not use r_i leaves every observation through r_i unchanged *)
Theorem C18_obj_copy_isolation : forall pre i j q s1 r, i < nregs ->
  ostep (OPure i PCopy j q) (oexec pre oinit) = inl (s1, r) ->
  (forall R ops, R i = true -> (forall k, k <> i -> R k = true -> forall l, oreg s1 k <> HRef l) ->
     forallb (oregs_in R) ops = true -> forall k n, R k = false -> view n (oexec ops s1) k = view n s1 k) /\
  (forall R ops, R i = false -> (forall k, k <> i -> R k = false -> forall l, oreg s1 k <> HRef l) ->
     forallb (oregs_in R) ops = true -> forall k n, R k = false -> view n (oexec ops s1) k = view n s1 k).
Proof. exact obj_copy_isolation. Qed.
Print Assumptions C18_obj_copy_isolation.

(* in-place operations (reverse, str.lower/upper, +=, sort, filter(inplace=True) on sequences and baskets of ANY size, the empty
   basket included) return the receiver itself and re-bind no other variable *)
Theorem C18_obj_inplace_returns_receiver : forall d f j q s s' r, ostep (OInpl d f j q) s = inl (s', r) ->
  exists l, onav_pure (fst s) (oreg s j) q = Some (HRef l) /\ r = HRef l /\
            snd s' = match d with Some i => set_nth (snd s) i (HRef l) | None => snd s end.
Proof. exact inplace_returns_receiver. Qed.
Print Assumptions C18_obj_inplace_returns_receiver.

(* operations documented as not in-place (copy, slicing, +, filter, plain access) leave every existing object as it was *)
Theorem C18_obj_pure_only_allocates : forall i f j q s s' r, ostep (OPure i f j q) s = inl (s', r) ->
  length (fst s) <= length (fst s') /\ (forall l, l < length (fst s) -> nth_error (fst s') l = nth_error (fst s) l) /\
  (forall k, k <> i -> oreg s' k = oreg s k).
Proof. exact pure_only_allocates. Qed.
Print Assumptions C18_obj_pure_only_allocates.

Theorem C18_obj_pure_not_inplace : forall i f j q s s' r, oinv all_true all_true s -> ostep (OPure i f j q) s = inl (s', r) ->
  forall k n, k <> i -> view n s' k = view n s k.
Proof. exact pure_not_inplace. Qed.
Print Assumptions C18_obj_pure_not_inplace.

(* non-vacuity / sharing by design: a slice shares meta.fts and nested metadata with its origin (seq.py:316-330, 498) but has its
   own top-level meta; copy() shares nothing; sort returns the receiver *)
Example C18_witness_obj_sharing : wf_C18_obj demo_share = true /\
  (let '(_, res, _) := orun demo_share oinit true [] in
   map (fun i => nth i res VNone) [2; 3; 4; 6; 7; 9] = [VB false; VB true; VB true; VB false; VB false; VB true]).
Proof. exact demo_share_run. Qed.

(* non-vacuity of C18_obj_copy_isolation: after a prefix with a slice (shared metadata), the copy succeeds; a history of in-place
   transformations, nested metadata edits, deletion, fts assignment and feature append on the copy changes the copy and leaves
   the original and the slice alone *)
Example C18_witness_obj_copy :
  let pre := [ONew 0 demo_basket; OPure 2 (PSlice 0 1) 0 []] in
  let ops := [OInpl None FReverse 1 [PI 0]; OMut (MSetLit (bs "b"%bs) (TInt 2)) 1 [PI 0; pmeta; PK (bs "a"%bs)];
              OMut (MDelIdx 1) 1 []; OInpl (Some 1) FLower 1 []; OBin None BSetFts 1 [PI 0] 1 [PI 0; pmeta; pfts];
              OMut (MAppendFeat (FeatLit None [LocLit 0 1 (bs "-"%bs) 0 (TMap TgDict [])] (TMap TgDict []))) 1 [PI 0; pmeta; pfts]] in
  exists s1, ostep (OPure 1 PCopy 0 []) (oexec pre oinit) = inl (s1, HRef 15) /\ 1 < nregs /\
             forallb (oregs_in (only 1)) ops = true /\
             wf_C18_obj (pre ++ [OPure 1 PCopy 0 []] ++ ops) = true /\
             view 99 (oexec ops s1) 1 <> view 99 s1 1 /\
             view 99 (oexec ops s1) 0 = view 99 s1 0 /\ view 99 (oexec ops s1) 2 = view 99 s1 2.
Proof. exact demo_obj_copy. Qed.

(* y = x.copy() is ISOMORPHIC to x: the canonical dump (classes, slots, elements, scalars and the identity structure incl. internal
   sharing and cycles) behind the new variable equals the dump behind the copied object, for every fuel *)
Theorem C18_obj_graph_copy_iso : forall h l h' l' n, graph_copy h l = Some (h', l') -> gview n h' (HRef l') = gview n h (HRef l).
Proof. exact graph_copy_iso. Qed.
Print Assumptions C18_obj_graph_copy_iso.

Theorem C18_obj_copy_is_isomorphic : forall i j q s s1 r n, i < length (snd s) -> ostep (OPure i PCopy j q) s = inl (s1, r) ->
  exists l, onav_pure (fst s) (oreg s j) q = Some (HRef l) /\ view n s1 i = gview n (fst s) (HRef l).
Proof. exact copy_is_isomorphic. Qed.
Print Assumptions C18_obj_copy_is_isomorphic.

(* what the in-place operations on a basket of ANY size do to the element OBJECTS and to the metadata object: element-wise
   transformations keep the same objects in the same order, sort gives a permutation, filter(inplace=True) a selection in order;
   the class and the metadata object are kept *)
Theorem C18_obj_inplace_elements : forall d f j q s s' r l c, ostep (OInpl d f j q) s = inl (s', r) ->
  onav_pure (fst s) (oreg s j) q = Some (HRef l) -> nth_error (fst s) l = Some c -> ocls c = KBasket ->
  exists c', nth_error (fst s') l = Some c' /\ ocls c' = KBasket /\ ofs c' = ofs c /\ elems_rel f (oes c') (oes c).
Proof. exact inplace_elements. Qed.
Print Assumptions C18_obj_inplace_elements.

(* container += other: the old element objects followed by the operand's element objects; the receiver is returned *)
Theorem C18_obj_extend_elements : forall d j q j2 q2 s s' r, ostep (OBin d BExtend j q j2 q2) s = inl (s', r) ->
  exists l l2 c c2, onav_pure (fst s) (oreg s j) q = Some (HRef l) /\ onav_pure (fst s) (oreg s j2) q2 = Some (HRef l2) /\
    nth_error (fst s) l = Some c /\ nth_error (fst s) l2 = Some c2 /\ r = HRef l /\
    nth_error (fst s') l = Some (set_elems c (oes c ++ oes c2)).
Proof. exact extend_elements. Qed.
Print Assumptions C18_obj_extend_elements.

(* ================= mapping part: the conversion is the same function on every entry path ================= *)
Theorem C18_conv_on_every_entry : forall g kvs k v, is_attr g = true ->
  let stored := TMap g (aset k (conv v) kvs) in
  apply_op (OSetItem [] k v) (TMap g kvs) = inl (stored, VNone) /\
  apply_op (OSetAttr [] k v) (TMap g kvs) = inl (stored, VNone) /\
  apply_op (OUpdate [] (TMap TgDict [(k, v)])) (TMap g kvs) = inl (stored, VNone) /\
  (aget k kvs = None -> apply_op (OSetDefault [] k v) (TMap g kvs) = inl (stored, enc v)) /\
  attr_init g [(k, v)] = TMap g [(k, conv v)] /\
  apply_op (OGetItem [] k) stored = inl (stored, enc (conv v)) /\
  apply_op (OGetAttr [] k) stored = inl (stored, enc (conv v)).
Proof. exact conv_on_every_entry. Qed.
Print Assumptions C18_conv_on_every_entry.

(* lists are not descended: a dict inside a list stays a dict (meta.py:49-54), and to_dict . conv = id on JSON-like trees is
   C18_to_dict_of_dict above *)
Theorem C18_conv_list_not_descended : forall l, conv (TList l) = TList l.
Proof. exact conv_list_not_descended. Qed.
Print Assumptions C18_conv_list_not_descended.

(* the regenerated table of observed behaviour: BioBasket.str.<m>() is the basket exactly when BioSeq.str.<m>() works in place,
   for baskets with 0, 1 and 2 sequences *)
Theorem C18_str_namespace_agrees : forallb str_row_ok STR_TABLE = true /\
  existsb (fun row => str_eqb (fst row) (bs "lower"%bs) && N.eqb (fst (snd row)) 1) STR_TABLE = true /\
  existsb (fun row => str_eqb (fst row) (bs "find"%bs) && N.eqb (fst (snd row)) 0) STR_TABLE = true.
Proof. exact str_table_ok. Qed.
Print Assumptions C18_str_namespace_agrees.

Example C18_witness_obj_sort : let s := oexec [ONew 0 demo_basket] oinit in
  exists s' l c c', ostep (OInpl None FSortLen 0 []) s = inl (s', HRef l) /\ oreg s 0 = HRef l /\ nth_error (fst s) l = Some c /\
    ocls c = KBasket /\ nth_error (fst s') l = Some c' /\ oes c' = rev (oes c) /\ length (oes c) = 2.
Proof. exact demo_sort. Qed.

(* operations documented as not in-place (copy, slicing, +, filter) return a NEW object: one that did not exist before *)
Theorem C18_obj_pure_returns_new : forall i f j q s s' r, f <> PGet -> ostep (OPure i f j q) s = inl (s', r) ->
  exists a, r = HRef a /\ length (fst s) <= a /\ nth_error (fst s) a = None.
Proof. exact pure_returns_new. Qed.
Print Assumptions C18_obj_pure_returns_new.

(* WRITE FOOTPRINT: let M be ANY set of existing objects that contains the objects held by the operand variables and is closed
   under references (for instance everything reachable from the operands); then the operation changes no object outside M *)
Theorem C18_obj_step_footprint : forall (M : nat -> bool) o s s' r,
  (forall l c, nth_error (fst s) l = Some c -> M l = true ->
     Forall (fun v => match v with HRef a => a < length (fst s) /\ M a = true | _ => True end) (ocell_vals c)) ->
  (forall k a, In k (op_regs o) -> oreg s k = HRef a -> a < length (fst s) /\ M a = true) ->
  ostep o s = inl (s', r) ->
  forall l, l < length (fst s) -> M l = false -> nth_error (fst s') l = nth_error (fst s) l.
Proof. exact ostep_footprint. Qed.
Print Assumptions C18_obj_step_footprint.

Theorem C18_obj_interp_footprint : forall side c kn h h' r,
  fresh_true side (length h) -> closed_true side h -> known_ok side (length h) kn ->
  interp c kn h = inl (h', r) ->
  closed_true side h' /\ length h <= length h' /\ okv side (length h') true r /\
  (forall l, side l = false -> nth_error h' l = nth_error h l).
Proof. exact interp_footprint. Qed.
Print Assumptions C18_obj_interp_footprint.

(* copy() never leaves the modelled domain: on a heap without dangling references the fuelled DFS terminates within its fuel
   with a closed reachable set, so the graph copy of every existing object succeeds -- on every reachable state *)
Theorem C18_obj_graph_copy_total : forall h l, oheap_ok h -> l < length h -> exists h' l', graph_copy h l = Some (h', l').
Proof. exact graph_copy_total. Qed.
Print Assumptions C18_obj_graph_copy_total.

Theorem C18_obj_copy_succeeds : forall pre l, let s := oexec pre oinit in
  l < length (fst s) -> exists h' l', graph_copy (fst s) l = Some (h', l').
Proof. exact copy_succeeds. Qed.
Print Assumptions C18_obj_copy_succeeds.

(* SLICING SHARES METADATA BY DESIGN (seq.py:316-330, 447-498): seq[a:b] is a NEW sequence (upper-cased residues of the slice) whose
   metadata is a NEW top-level Meta holding the SAME item values as the origin -- so the FeatureList meta.fts and every nested
   metadata object of the slice ARE the ones of the origin (only an absent id is added) *)
Theorem C18_obj_slice_shares_meta : forall i a b j q s s' r l c, ostep (OPure i (PSlice a b) j q) s = inl (s', r) ->
  onav_pure (fst s) (oreg s j) q = Some (HRef l) -> nth_error (fst s) l = Some c -> ocls c = KSeq ->
  exists d m mc lnew mnew cnew mcnew,
    seq_data c = Some d /\ aget kmeta (ofs c) = Some (HRef m) /\ nth_error (fst s) m = Some mc /\
    r = HRef lnew /\ nth_error (fst s') lnew = Some cnew /\ ocls cnew = KSeq /\
    seq_data cnew = Some (upper (slice_py d a b)) /\ aget kmeta (ofs cnew) = Some (HRef mnew) /\
    length (fst s) <= mnew /\ length (fst s) <= lnew /\
    nth_error (fst s') mnew = Some mcnew /\ ocls mcnew = KMeta /\
    ofs mcnew = (if amem kid (ofs mc) then ofs mc else aset kid (HStr []) (ofs mc)).
Proof. exact slice_shares_meta. Qed.
Print Assumptions C18_obj_slice_shares_meta.

Theorem C18_obj_slice_shares_fts : forall i a b j q s s' r l c, ostep (OPure i (PSlice a b) j q) s = inl (s', r) ->
  onav_pure (fst s) (oreg s j) q = Some (HRef l) -> nth_error (fst s) l = Some c -> ocls c = KSeq ->
  exists m mc lnew mnew cnew mcnew,
    aget kmeta (ofs c) = Some (HRef m) /\ nth_error (fst s) m = Some mc /\ r = HRef lnew /\ nth_error (fst s') lnew = Some cnew /\
    aget kmeta (ofs cnew) = Some (HRef mnew) /\ mnew <> m /\ nth_error (fst s') mnew = Some mcnew /\
    forall k, k <> kid -> aget k (ofs mcnew) = aget k (ofs mc).
Proof. exact slice_shares_fts. Qed.
Print Assumptions C18_obj_slice_shares_fts.

(* an in-place transformation (reverse, complement, rc, str.lower/upper, += literal) of a SEQUENCE changes exactly its residues:
   same object, same class, same metadata object, nothing else in the store changes *)
Theorem C18_obj_inplace_seq_effect : forall d f j q s s' r l c, ostep (OInpl d f j q) s = inl (s', r) ->
  onav_pure (fst s) (oreg s j) q = Some (HRef l) -> nth_error (fst s) l = Some c -> ocls c = KSeq ->
  exists g dat, seq_fn f = Some g /\ seq_data c = Some dat /\
    nth_error (fst s') l = Some (set_slot c kdata (HStr (g dat))) /\
    length (fst s') = length (fst s) /\ forall x, x <> l -> nth_error (fst s') x = nth_error (fst s) x.
Proof. exact inplace_seq_effect. Qed.
Print Assumptions C18_obj_inplace_seq_effect.
