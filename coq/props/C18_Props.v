(* C18 -- copy() gives full isolation; metadata containers behave as mappings.
   Only statements here; proofs are in proof/C18_Lemmas.v (value-level mapping laws) and
   proof/C18_HeapLemmas.v (heap model: frame, deepcopy, copy isolation). *)
From Coq Require Import List ZArith Bool.
From Coq.Strings Require Import Byte.
Import ListNotations.
From SV Require Import Text G_attr C18_Model C18_Heap C18_Lemmas C18_HeapLemmas.

(* --- Attr/Meta as a mapping: get after set (the stored value is the recursively converted one) --- *)
Theorem C18_get_set_same : forall g kvs k v, is_attr g = true ->
  exists t', apply_op (OSetItem [] k v) (TMap g kvs) = inl (t', VNone) /\
             apply_op (OGetItem [] k) t' = inl (t', enc (conv v)) /\
             apply_op (OGetAttr [] k) t' = inl (t', enc (conv v)).
Proof. exact get_set_same. Qed.
Print Assumptions C18_get_set_same.

Theorem C18_get_set_other : forall g kvs k k' v, k <> k' ->
  exists t', apply_op (OSetItem [] k v) (TMap g kvs) = inl (t', VNone) /\
             forall r, apply_op (OGetItem [] k') t' = inl (t', r) <->
                       apply_op (OGetItem [] k') (TMap g kvs) = inl (TMap g kvs, r).
Proof. exact get_set_other. Qed.
Print Assumptions C18_get_set_other.

Theorem C18_assoc_laws : forall (m : list (str * tree)) k k' v,
  aget k (aset k v m) = Some v /\
  (k <> k' -> aget k' (aset k v m) = aget k' m) /\
  akeys (aset k v m) = (if amem k m then akeys m else akeys m ++ [k]) /\
  (nodupb (akeys m) = true -> nodupb (akeys (aset k v m)) = true).
Proof.
  exact (fun m k k' v => conj (aget_aset_same k v m) (conj (aget_aset_other k k' v m)
          (conj (eq_trans (akeys_aset k v m) (f_equal (fun b : bool => if b then akeys m else akeys m ++ [k]) (eq_sym (amem_inkeys k m))))
                (nodup_aset k v m)))).
Qed.
Print Assumptions C18_assoc_laws.

Theorem C18_del_laws : forall (m m' : list (str * tree)) k k', adel k m = Some m' ->
  (nodupb (akeys m) = true -> aget k m' = None) /\ (k <> k' -> aget k' m' = aget k' m) /\
  (adel k m = None <-> amem k m = false).
Proof.
  exact (fun m m' k k' H => conj (fun ND => aget_adel_same k m m' ND H) (conj (fun N => aget_adel_other k k' m m' N H)
          (conj (fun E => proj1 (iff_trans (adel_inkeys k m) (eq_ind _ (fun b => b = false <-> amem k m = false) (iff_refl _) _ (amem_inkeys k m))) E)
                (fun E => proj2 (iff_trans (adel_inkeys k m) (eq_ind _ (fun b => b = false <-> amem k m = false) (iff_refl _) _ (amem_inkeys k m))) E)))).
Qed.
Print Assumptions C18_del_laws.

(* --- attribute access is key access (meta.py:59-66); only the exception class differs --- *)
Theorem C18_attr_is_key : forall g kvs k v, is_attr g = true ->
  apply_op (OGetAttr [] k) (TMap g kvs) =
    match apply_op (OGetItem [] k) (TMap g kvs) with inr EKey => inr EAttr | r => r end /\
  apply_op (OSetAttr [] k v) (TMap g kvs) = apply_op (OSetItem [] k v) (TMap g kvs) /\
  apply_op (ODelAttr [] k) (TMap g kvs) = apply_op (ODelItem [] k) (TMap g kvs).
Proof.
  exact (fun g kvs k v H => conj (getattr_is_getitem g kvs k H) (conj (setattr_is_setitem g kvs k v H) (delattr_is_delitem g kvs k H))).
Qed.
Print Assumptions C18_attr_is_key.

(* --- nested mappings are converted recursively; the plain-dict view gives the literal back --- *)
Theorem C18_to_dict_of_dict : forall d, wf_lit d = true ->
  to_dict (conv d) = d /\ plain_dict (conv d) = false /\ closed (conv d) = true /\ conv (conv d) = conv d.
Proof.
  exact (fun d W => conj (to_dict_conv d W) (conj (proj1 (conv_closed d W)) (conj (proj2 (conv_closed d W)) (conv_idem d)))).
Qed.
Print Assumptions C18_to_dict_of_dict.

Theorem C18_init_keeps_items : forall g kvs, nodupb (map fst kvs) = true ->
  attr_init g kvs = TMap g (map (fun kv => (fst kv, conv (snd kv))) kvs).
Proof. exact attr_init_nodup. Qed.
Print Assumptions C18_init_keeps_items.

(* --- Attr(d) == d and Meta(d) == d for the equivalent dict --- *)
Theorem C18_eq_dict : forall d, wf_lit d = true -> py_eq (conv d) d = true /\ py_eq d d = true.
Proof. exact (fun d W => conj (py_eq_conv d W) (py_eq_refl_wf d W)). Qed.
Print Assumptions C18_eq_dict.

Theorem C18_meta_eq_dict : forall g kvs, wf_lit (TMap TgDict kvs) = true ->
  py_eq (attr_init g kvs) (TMap TgDict kvs) = true.
Proof. exact py_eq_meta_init. Qed.
Print Assumptions C18_meta_eq_dict.

(* non-vacuity: a nested literal with a list satisfies the hypotheses, and the conversion really changes classes *)
Example C18_witness_lit :
  let d := TMap TgDict [(bs "a"%bs, TMap TgDict [(bs "b"%bs, TMap TgDict [(bs "c"%bs, TInt 1)])]);
                        (bs "l"%bs, TList [TMap TgDict [(bs "x"%bs, TBool true)]])] in
  wf_lit d = true /\
  conv d = TMap TgAttr [(bs "a"%bs, TMap TgAttr [(bs "b"%bs, TMap TgAttr [(bs "c"%bs, TInt 1)])]);
                        (bs "l"%bs, TList [TMap TgDict [(bs "x"%bs, TBool true)]])] /\
  py_eq (conv d) d = true.
Proof. exact (conj eq_refl (conj eq_refl eq_refl)). Qed.

(* the reserved set is what makes the hypotheses necessary: 'items' is excluded (open finding F20) *)
Example C18_witness_reserved : reserved (bs "items"%bs) = true /\ reserved (bs "__deepcopy__"%bs) = true /\
  reserved (bs "name"%bs) = false /\ wf_lit (TMap TgDict [(bs "items"%bs, TInt 1)]) = false.
Proof. exact (conj eq_refl (conj eq_refl (conj eq_refl eq_refl))). Qed.

(* ================= heap model (lib/C18_Heap.v): aliasing, copy(), frame ================= *)

(* frame: a write to a cell that x cannot reach changes nothing observable through x *)
Theorem C18_frame : forall h v l c n, ~ Reach h v l -> snap n (hwrite h l c) v = snap n h v.
Proof. exact frame_write. Qed.
Print Assumptions C18_frame.

Theorem C18_frame_writes : forall h v n (ws : list (nat * cell)),
  (forall l, Reach h v l -> ~ In l (map fst ws)) ->
  snap n (fold_left (fun h w => hwrite h (fst w) (snd w)) ws h) v = snap n h v.
Proof. exact frame_writes. Qed.
Print Assumptions C18_frame_writes.

(* building a value allocates fresh cells only, referring to fresh cells only, and reads back as the value *)
Theorem C18_build_fresh : forall t h h' v, build t h = (h', v) ->
  exists ex, h' = h ++ ex /\ vref_ge (length h) v /\ vref_lt (length h') v /\ cells_ge (length h) ex
             /\ exists n, snap n h' v = Some t.
Proof. exact build_spec. Qed.
Print Assumptions C18_build_fresh.

(* y = x.copy(): equal snapshots, x and all old cells untouched, reachable cells disjoint *)
Theorem C18_deepcopy_disjoint : forall n h x h' y, heap_ok h -> vref_lt (length h) x -> deepcopy n h x = Some (h', y) ->
  exists t ex, h' = h ++ ex /\ snap n h x = Some t /\ snap n h' x = Some t /\ (exists m, snap m h' y = Some t) /\
    (forall l, Reach h' x l -> l < length h) /\ (forall l, Reach h' y l -> length h <= l).
Proof. exact deepcopy_disjoint. Qed.
Print Assumptions C18_deepcopy_disjoint.

(* copy isolation over arbitrary write histories, both directions *)
Theorem C18_copy_isolation : forall n h x h' y ws k, heap_ok h -> vref_lt (length h) x -> deepcopy n h x = Some (h', y) ->
  let h'' := fold_left (fun h w => hwrite h (fst w) (snd w)) ws h' in
  ((forall l, In l (map fst ws) -> length h <= l) -> snap k h'' x = snap k h' x) /\
  ((forall l, In l (map fst ws) -> l < length h) -> snap k h'' y = snap k h' y).
Proof. exact copy_isolation. Qed.
Print Assumptions C18_copy_isolation.

(* operations that only allocate (copy(), Meta(x), literals) are not in-place: every deep read of an existing object is unchanged *)
Theorem C18_alloc_not_inplace : forall n h ex v t, snap n h v = Some t -> snap n (h ++ ex) v = Some t.
Proof. exact snap_app. Qed.
Print Assumptions C18_alloc_not_inplace.

(* the no-dangling-reference invariant is kept by allocation and by writes *)
Theorem C18_heap_ok_preserved : forall h,
  heap_ok h ->
  (forall ex, Forall (fun c => Forall (vref_lt (length (h ++ ex))) (cell_vals c)) ex -> heap_ok (h ++ ex)) /\
  (forall l c, Forall (vref_lt (length h)) (cell_vals c) -> heap_ok (hwrite h l c)).
Proof. exact (fun h OK => conj (fun ex => heap_ok_app h ex OK) (fun l c => heap_ok_write h l c OK)). Qed.
Print Assumptions C18_heap_ok_preserved.

(* non-vacuity: a concrete heap satisfies the hypotheses and copy() succeeds on it; a concrete program shows that
   copy() separates (r0.a is not r1.a, editing r1.a.b leaves r0) while Meta(r0) shares nested objects (r0.a is r2.a) *)
Example C18_witness_heap : heap_ok demo_heap /\ vref_lt (length demo_heap) (HRef 3) /\
  exists h' y, deepcopy 5 demo_heap (HRef 3) = Some (h', y) /\ y = HRef 7 /\ length h' = 8.
Proof. exact demo_heap_ok. Qed.

Example C18_witness_program :
  wf_C18_heap demo_prog = true /\
  let '(_, res, s) := run_hops demo_prog init_state true [] in
  res = [VNone; VNone; VNone; VNone; VB false; VB true] /\
  snap 9 (fst s) (reg s 0) = Some (TMap TgMeta [(bs "a"%bs, TMap TgAttr [(bs "b"%bs, TInt 1)]); (bs "l"%bs, TList [TMap TgDict []])]) /\
  snap 9 (fst s) (reg s 1) = Some (TMap TgMeta [(bs "a"%bs, TMap TgAttr [(bs "b"%bs, TInt 2)]); (bs "l"%bs, TList [TMap TgDict []])]).
Proof. exact demo_run. Qed.
