(* C12 -- ORF finder reports exactly the open reading frames of the requested frames.
   Only statements here; proofs are in proof/C12_Lemmas.v. The model (model/C12_Model.v) follows
   sugar/core/cane.py find_orfs/_inds2orf/match line by line and is tied to the code by the correspondence. *)
From Coq Require Import List ZArith Bool Sorted.
From Coq.Strings Require Import Byte.
Import ListNotations.
From SV Require Import Text C12_Model C12_Lemmas C12_Gap C12_Modes C12_GapSet C12_Rx C12_RxProofs.
Local Open Scope Z_scope.

(* P0, every mode (need_start always/once/never x need_stop), every sequence, every rf and minlen -- no hypothesis:
   the pairing loop terminates within its fuel |starts|+|stops|+1 (result is ROk, not RFuel), no assertion fails, and every
   reported ORF lies inside the sequence, respects minlen and carries the rf of a requested frame with the matching strand *)
Theorem C12_orf_invariants : forall rf ns need_stop minlen s,
  exists l, find_orfs rf ns need_stop minlen s = ROk l /\
    Forall (fun o => 0 <= o_start o /\ o_start o < o_stop o /\ o_stop o <= Z.of_nat (length s) /\
                     minlen <= o_stop o - o_start o /\ In (o_rf o) (frames_of rf) /\ o_plus o = (o_rf o >=? 0)) l.
Proof. exact orf_invariants. Qed.
Print Assumptions C12_orf_invariants.

(* P1, default mode (need_start=always, need_stop=True), every sequence and every rf: the result is, frame by frame in the
   requested order, the declarative pairing of the frame's start positions and stop end positions, mirrored for backward
   frames and filtered by minlen *)
Theorem C12_orf_default_spec : forall rf minlen s,
  find_orfs rf NSAlways true minlen s =
  ROk (concat (map (fun f => filter (fun o => o_stop o - o_start o >=? minlen)
                               (map (mk_orf f (Z.of_nat (length s))) (spec_default (frame_starts s f) (frame_stops s f) 0)))
                   (frames_of rf))).
Proof. exact orf_default_spec. Qed.
Print Assumptions C12_orf_default_spec.

(* what the pairing says, for the codon lists of any frame of any sequence: at most one ORF per stop, in stop order;
   every ORF goes from a start to a later stop with no stop of the frame in between, and every earlier start of the frame is
   cut off by a stop (so it is the first start since the previous stop); every stop that has such a start gets its ORF *)
Theorem C12_pairing_meaning : forall minlen s f,
  let starts := frame_starts s f in let stops := frame_stops s f in
  sublist (map snd (spec_default starts stops 0)) stops /\
  (forall a e, In (a, e) (spec_default starts stops 0) ->
     In a starts /\ In e stops /\ 0 <= a /\ a < e /\
     (forall e', In e' stops -> e' < e -> e' <= a) /\
     (forall a', In a' starts -> a' < a -> exists e', In e' stops /\ a' < e' /\ e' <= a)) /\
  (forall e a0, In e stops -> In a0 starts -> a0 < e -> (forall e', In e' stops -> e' < e -> e' <= a0) ->
     exists a, In (a, e) (spec_default starts stops 0)) /\
  frame_orfs NSAlways true minlen s f = ROk (spec_orfs minlen f (Z.of_nat (length s)) starts stops 0).
Proof. exact pairing_meaning. Qed.
Print Assumptions C12_pairing_meaning.

(* the codon lists themselves: strictly increasing, inside the sequence *)
Theorem C12_codon_lists : forall s f,
  StronglySorted Z.lt (frame_starts s f) /\ StronglySorted Z.lt (frame_stops s f) /\
  Forall (fun a => 0 <= a < Z.of_nat (length s)) (frame_starts s f) /\
  Forall (fun e => 0 < e <= Z.of_nat (length s)) (frame_stops s f).
Proof. exact (fun s f => conj (frame_starts_sorted s f) (conj (frame_stops_sorted s f)
                        (conj (frame_starts_bound s f) (frame_stops_bound s f)))). Qed.
Print Assumptions C12_codon_lists.

(* default mode on gap-free input: every ORF length is a multiple of three (both strands) *)
Theorem C12_default_gapfree_div3 : forall rf minlen s, forallb (fun c => negb (is_gap c)) s = true ->
  exists l, find_orfs rf NSAlways true minlen s = ROk l /\ forall o, In o l -> (o_stop o - o_start o) mod 3 = 0.
Proof. exact (fun rf minlen s G => ex_intro _ _ (conj (orf_default_spec rf minlen s) (default_gapfree_div3 rf minlen s G))). Qed.
Print Assumptions C12_default_gapfree_div3.

(* gapped sequences: frames count residues, not columns. A start/stop codon reported for frame f begins after a number
   of residues of its strand congruent to the frame offset, and spans exactly three residues (plus gap columns) *)
Theorem C12_frame_counts_residues : forall s f i e,
  In (i, e) (hits START_WORDS s f) \/ In (i, e) (hits STOP_WORDS s f) ->
  Z.of_nat (rb (strand_str s f) i) mod 3 = frame_key f /\ rb (strand_str s f) e = (rb (strand_str s f) i + 3)%nat.
Proof. exact codon_residues. Qed.
Print Assumptions C12_frame_counts_residues.

(* default mode, any (gapped) sequence: every paired ORF holds a number of residues divisible by three
   (positions on the strand that is read; C12_orf_default_spec mirrors them for backward frames) *)
Theorem C12_default_residues_div3 : forall s f a e,
  In (a, e) (spec_default (frame_starts s f) (frame_stops s f) 0) ->
  (Z.of_nat (rb (strand_str s f) (Z.to_nat e)) - Z.of_nat (rb (strand_str s f) (Z.to_nat a))) mod 3 = 0.
Proof. exact default_residues_div3. Qed.
Print Assumptions C12_default_residues_div3.

(* P2, every mode (need_start always/once/never x need_stop), both strands, every sequence and rf: the ORFs of the degapped
   sequence are exactly the ORFs of the gapped sequence, in the same order with the same strand/rf, under
   p -> number of residues before column p  (rbZ s p = Z.of_nat (rb s (Z.to_nat p)); minlen = 0 because minlen counts
   columns; C12_minlen_filter reduces any minlen to this case) *)
Theorem C12_gap_bijection : forall rf ns need_stop s,
  exists l, find_orfs rf ns need_stop 0 s = ROk l /\
            find_orfs rf ns need_stop 0 (degap s) =
            ROk (map (fun o => mkorf (rbZ s (o_start o)) (rbZ s (o_stop o)) (o_plus o) (o_rf o)) l).
Proof. exact gap_bijection. Qed.
Print Assumptions C12_gap_bijection.

(* minlen is a pure filter (on column length) of the result for minlen = 0, in every mode *)
Theorem C12_minlen_filter : forall rf ns need_stop m s,
  exists l, find_orfs rf ns need_stop 0 s = ROk l /\
            find_orfs rf ns need_stop m s = ROk (filter (fun o => o_stop o - o_start o >=? m) l).
Proof. exact minlen_filter. Qed.
Print Assumptions C12_minlen_filter.

(* the codon lists are first-principles objects. On a gap-free sequence the regex-style locator (leftmost, non-overlapping
   finditer) reports exactly the in-frame occurrences of the start / stop codons on the strand that is read: position i
   is reported iff i = frame offset (mod 3) and one of the words is a prefix of the strand at i (word_at = existsb prefix);
   nothing is lost to the non-overlap rule because start (stop) codons cannot overlap one another *)
Theorem C12_codons_gapfree_complete : forall s f, forallb (fun c => negb (is_gap c)) s = true -> forall i e,
  (In (i, e) (hits START_WORDS s f) <->
     (i < length s)%nat /\ e = (i + 3)%nat /\ Z.of_nat i mod 3 = frame_key f /\
     word_at START_WORDS (skipn i (strand_str s f)) = true) /\
  (In (i, e) (hits STOP_WORDS s f) <->
     (i < length s)%nat /\ e = (i + 3)%nat /\ Z.of_nat i mod 3 = frame_key f /\
     word_at STOP_WORDS (skipn i (strand_str s f)) = true).
Proof. exact codons_gapfree_complete. Qed.
Print Assumptions C12_codons_gapfree_complete.

(* ... and on a gapped sequence the codon lists are those of the degapped sequence, position by position, under
   p -> residues before column p of the strand (the strand of the degapped sequence is the degapped strand) *)
Theorem C12_codon_lists_degap : forall s f,
  frame_starts (degap s) f = map (rbZ (strand_str s f)) (frame_starts s f) /\
  frame_stops (degap s) f = map (rbZ (strand_str s f)) (frame_stops s f) /\
  strand_str (degap s) f = degap (strand_str s f).
Proof. exact codon_lists_degap. Qed.
Print Assumptions C12_codon_lists_degap.

(* frames without any start codon contribute nothing, in the modes that need one *)
Theorem C12_no_start_no_orf : forall ns need_stop minlen s f, ns <> NSNever -> frame_starts s f = [] ->
  frame_orfs ns need_stop minlen s f = ROk [].
Proof. exact no_start_no_orf. Qed.
Print Assumptions C12_no_start_no_orf.

(* need_start='never': the first ORF of a frame starts at _frame_start, the column of the k-th residue (k = frame offset)
   of the strand that is read -- after exactly k residues, on a residue -- or at len(data) when there are at most k residues
   (then the loop breaks at once because i1 >= last) *)
Theorem C12_frame_start_residues : forall data frame, frame_ok frame = true ->
  let i := frame_start data frame in
  (i <= length data)%nat /\
  ((i < length data)%nat -> Z.of_nat (rb data i) = frame_key frame /\
                            exists c, nth_error data i = Some c /\ is_gap c = false) /\
  (i = length data -> Z.of_nat (nres data) <= frame_key frame).
Proof. exact frame_start_residues. Qed.
Print Assumptions C12_frame_start_residues.

(* EVERY mode (need_start always/once/never x need_stop), every sequence, rf and minlen: the result is, frame by frame in
   the requested order, the specification of the mode over the frame's start positions and stop end positions --
   spec_always: the pairing above plus, for need_stop=False, one ORF from the first start at or after the last stop to
   len(seq); spec_chain: from the first start (once) or the first residue of the frame (never) through the consecutive
   stops, a last link to len(seq) for need_stop=False, no link beginning at or after the end of the last residue --
   mirrored for backward frames and filtered by minlen. The list equality is soundness and completeness at once. *)
Theorem C12_orf_modes_spec : forall rf ns need_stop minlen s,
  find_orfs rf ns need_stop minlen s =
  ROk (concat (map (fun f => filter (fun o => o_stop o - o_start o >=? minlen)
                               (map (mk_orf f (Z.of_nat (length s)))
                                    (spec_mode ns need_stop (frame_fs s f) (frame_last s f) (Z.of_nat (length s))
                                               (frame_starts s f) (frame_stops s f))))
                   (frames_of rf))).
Proof. exact orf_modes_spec. Qed.
Print Assumptions C12_orf_modes_spec.

(* first-principles meaning, need_start='always' (both need_stop): (a, e) is listed iff a is a start of the frame that no
   stop separates from an earlier start (every earlier start is cut off by a stop ending at or before a), and e is the
   end of the first stop ending after a -- or, for need_stop=False only, len(seq) when no stop ends after a *)
Theorem C12_always_meaning : forall need_stop s f a e,
  let starts := frame_starts s f in let stops := frame_stops s f in let L := Z.of_nat (length s) in
  In (a, e) (spec_always need_stop L starts stops 0) <->
  In a starts /\
  (forall a', In a' starts -> a' < a -> exists e', In e' stops /\ a' < e' /\ e' <= a) /\
  ((In e stops /\ a < e /\ forall e', In e' stops -> e' < e -> e' <= a) \/
   (need_stop = false /\ e = L /\ forall e', In e' stops -> e' <= a)).
Proof. exact always_meaning_frame. Qed.
Print Assumptions C12_always_meaning.

(* first-principles meaning, need_start='once' / 'never': (a, e) is listed iff a lies before the end of the last
   residue and is the origin i0 (the first start of the frame for 'once' -- nothing is listed without one -- and the
   first residue of the frame for 'never') or the end of a stop after the origin, and e is the end of the first stop
   ending after a -- or, for need_stop=False only, len(seq) when no stop ends after a *)
Theorem C12_chain_meaning : forall need_stop s f a e,
  let stops := frame_stops s f in let L := Z.of_nat (length s) in let last := frame_last s f in
  let link i0 := a < last /\ (a = i0 \/ (In a stops /\ i0 < a)) /\
                 ((In e stops /\ a < e /\ forall e', In e' stops -> e' < e -> e' <= a) \/
                  (need_stop = false /\ e = L /\ forall e', In e' stops -> e' <= a)) in
  (In (a, e) (spec_mode NSOnce need_stop (frame_fs s f) last L (frame_starts s f) stops) <->
     exists a0 rest, frame_starts s f = a0 :: rest /\ link a0) /\
  (In (a, e) (spec_mode NSNever need_stop (frame_fs s f) last L (frame_starts s f) stops) <-> link (frame_fs s f)).
Proof. exact (fun need_stop s f a e => conj (frame_spec_meaning NSOnce need_stop s f a e)
                                              (frame_spec_meaning NSNever need_stop s f a e)). Qed.
Print Assumptions C12_chain_meaning.

(* order and exactly-once, every mode: the specification of a frame lists its intervals in increasing order on the strand
   that is read, each one ending before the next begins, none twice; with minlen=0 the reported list of the frame is
   exactly this list (mirrored for backward frames), so every listed interval is reported exactly once, in this order *)
Theorem C12_modes_ordered : forall ns need_stop s f,
  let spec := spec_mode ns need_stop (frame_fs s f) (frame_last s f) (Z.of_nat (length s)) (frame_starts s f) (frame_stops s f) in
  StronglySorted (fun p q => snd p <= fst q) spec /\ Forall (fun p => fst p < snd p) spec /\ NoDup spec /\
  frame_orfs ns need_stop 0 s f = ROk (map (mk_orf f (Z.of_nat (length s))) spec).
Proof. exact (fun ns need_stop s f => match frame_spec_ordered ns need_stop s f with
                                       | conj A (conj B C) => conj A (conj B (conj C (frame_modes_min0 ns need_stop s f))) end). Qed.
Print Assumptions C12_modes_ordered.

(* the chain modes tile the frame: the first listed interval begins at the origin (first start for 'once', first residue of the
   frame for 'never'), every further one exactly where the previous one ends; without a start 'once' lists nothing *)
Theorem C12_chain_tiles : forall need_stop s f,
  let spec ns := spec_mode ns need_stop (frame_fs s f) (frame_last s f) (Z.of_nat (length s)) (frame_starts s f) (frame_stops s f) in
  match frame_starts s f with
  | [] => spec NSOnce = []
  | a0 :: _ => tiles a0 (spec NSOnce)
  end /\ tiles (frame_fs s f) (spec NSNever).
Proof. exact frame_chain_tiles. Qed.
Print Assumptions C12_chain_tiles.

(* BioBasket.find_orfs is the concatenation, in basket order, of the per-sequence results, every ORF carrying the
   requested feature type and the id of its own sequence; an empty basket raises TypeError (reduce of an empty list) *)
Theorem C12_basket_map : forall ftype rf ns need_stop minlen seqs,
  basket_find_orfs ftype rf ns need_stop minlen seqs =
  match seqs with
  | [] => FErr (bs "TypeError"%bs)
  | _ => FOk (concat (map (fun sq => map (mkfeat ftype (fst sq)) (orfs_list rf ns need_stop minlen (snd sq))) seqs))
  end /\
  forall s, find_orfs rf ns need_stop minlen s = ROk (orfs_list rf ns need_stop minlen s).
Proof. exact (fun ftype rf ns need_stop minlen seqs => conj (basket_map ftype rf ns need_stop minlen seqs)
                                                             (find_orfs_total rf ns need_stop minlen)). Qed.
Print Assumptions C12_basket_map.

(* the ORF feature objects as observables: type, seqid, and interval/strand/rf satisfying the invariants with respect to
   the sequence the feature names *)
Theorem C12_feature_observables : forall ftype rf ns need_stop minlen seqs ft,
  In ft (concat (map (fun sq => map (mkfeat ftype (fst sq)) (orfs_list rf ns need_stop minlen (snd sq))) seqs)) ->
  ft_type ft = ftype /\
  exists sq, In sq seqs /\ ft_seqid ft = fst sq /\ In (ft_orf ft) (orfs_list rf ns need_stop minlen (snd sq)) /\
    let o := ft_orf ft in
    0 <= o_start o /\ o_start o < o_stop o /\ o_stop o <= Z.of_nat (length (snd sq)) /\
    minlen <= o_stop o - o_start o /\ In (o_rf o) (frames_of rf) /\ o_plus o = (o_rf o >=? 0).
Proof. exact feature_observables. Qed.
Print Assumptions C12_feature_observables.

(* minlen and the filter helpers: find_orfs(minlen=m) is find_orfs() followed by .filter(len_ge=m) (or len_min=m), for
   sequences and baskets, in every mode; a later len_ge filter composes with minlen (the larger bound counts); every
   len_<op> filter keeps exactly the features whose length passes the test *)
Theorem C12_minlen_is_len_ge : forall ftype rf ns need_stop m v op seqs, op = OpGe \/ op = OpMin ->
  basket_find_orfs ftype rf ns need_stop m seqs =
    fmap_res (filter_len op m) (basket_find_orfs ftype rf ns need_stop 0 seqs) /\
  fmap_res (filter_len op v) (basket_find_orfs ftype rf ns need_stop m seqs) =
    basket_find_orfs ftype rf ns need_stop (Z.max m v) seqs.
Proof. exact (fun ftype rf ns need_stop m v op seqs H => conj (minlen_is_len_ge ftype rf ns need_stop m op seqs H)
                                                               (len_ge_compose ftype rf ns need_stop m v op seqs H)). Qed.
Print Assumptions C12_minlen_is_len_ge.

Theorem C12_filter_len_spec : forall op v l ft,
  In ft (filter_len op v l) <-> In ft l /\ lenop_test op (o_stop (ft_orf ft) - o_start (ft_orf ft)) v = true.
Proof. exact filter_len_spec. Qed.
Print Assumptions C12_filter_len_spec.

(* the witnesses of the repaired defects (never_frame_start, gap_tail) now satisfy the property *)
Example C12_witness_repaired :
  find_orfs RFbwd NSNever true 0 (bs "TTATTTCAT"%bs) = ROk [mkorf 0 9 false (-1); mkorf 5 8 false (-2)] /\
  find_orfs RFfwd NSNever false 0 (bs "A"%bs) = ROk [mkorf 0 1 true 0] /\
  find_orfs RFfwd NSNever false 0 [] = ROk [] /\
  find_orfs (RFint 1) NSNever true 0 (bs "--ATAA"%bs) = ROk [mkorf 3 6 true 1] /\
  find_orfs (RFint 0) NSOnce false 0 (bs "ATGTAA--"%bs) = ROk [mkorf 0 6 true 0] /\
  find_orfs (RFint 0) NSOnce false 0 (degap (bs "ATGTAA--"%bs)) = ROk [mkorf 0 6 true 0] /\
  find_orfs RFbwd NSNever false 0 (bs "-CAT--AACA-T-"%bs) =
    ROk [mkorf 0 12 false (-1); mkorf 0 10 false (-2); mkorf 0 9 false (-3)].
Proof. exact (conj eq_refl (conj eq_refl (conj eq_refl (conj eq_refl (conj eq_refl (conj eq_refl eq_refl)))))). Qed.

(* non-vacuity: inputs meeting the hypotheses, with ORFs on both strands, gaps, and every mode *)
Example C12_witness : wf_C12 RFboth NSAlways true 0 (bs "AUGCCCTAAUUAGGGCAU"%bs) = true /\
  find_orfs RFboth NSAlways true 0 (bs "AUGCCCTAAUUAGGGCAU"%bs) = ROk [mkorf 0 9 true 0; mkorf 9 18 false (-1)].
Proof. exact (conj eq_refl eq_refl). Qed.
Example C12_witness_modes :
  wf_C12 RFfwd NSNever false 4 (bs "ATGAAATAAC"%bs) = true /\
  find_orfs RFfwd NSNever false 4 (bs "ATGAAATAAC"%bs) = ROk [mkorf 0 9 true 0; mkorf 4 10 true 1; mkorf 2 10 true 2] /\
  wf_C12 (RFtuple [-3; 0]) NSOnce true 0 (bs "A-TG-AAATA-A-CTTA"%bs) = true /\
  find_orfs (RFtuple [-3; 0]) NSOnce true 0 (bs "A-TG-AAATA-A-CTTA"%bs) = ROk [mkorf 0 12 true 0].
Proof. exact (conj eq_refl (conj eq_refl (conj eq_refl eq_refl))). Qed.
Example C12_witness_gapped :
  find_orfs RFboth NSOnce false 0 (bs "-A-TGC--CCTAAT-TAGG-GCAT-"%bs) =
    ROk [mkorf 1 13 true 0; mkorf 13 25 true 0; mkorf 13 24 false (-1); mkorf 0 13 false (-1)] /\
  find_orfs RFboth NSOnce false 0 (degap (bs "-A-TGC--CCTAAT-TAGG-GCAT-"%bs)) =
    ROk [mkorf 0 9 true 0; mkorf 9 18 true 0; mkorf 9 18 false (-1); mkorf 0 9 false (-1)].
Proof. exact (conj eq_refl eq_refl). Qed.
Example C12_witness_gapfree : forallb (fun c => negb (is_gap c)) (bs "AUGCCCTAAUUAGGGCAU"%bs) = true.
Proof. exact eq_refl. Qed.

(* non-vacuity of the mode specifications and of the basket layer: every mode lists something on a concrete frame, the
   basket result carries both sequence ids and a custom feature type, the len filter and minlen agree *)
Example C12_witness_mode_specs :
  let s := bs "ATGAAATAACCCATGCCC--"%bs in
  spec_mode NSAlways false (frame_fs s 0) (frame_last s 0) 20 (frame_starts s 0) (frame_stops s 0) = [(0, 9); (12, 20)] /\
  spec_mode NSOnce false (frame_fs s 0) (frame_last s 0) 20 (frame_starts s 0) (frame_stops s 0) = [(0, 9); (9, 20)] /\
  spec_mode NSNever true (frame_fs s 0) (frame_last s 0) 20 (frame_starts s 0) (frame_stops s 0) = [(0, 9)] /\
  spec_mode NSNever false (frame_fs s 1) (frame_last s 1) 20 (frame_starts s 1) (frame_stops s 1) = [(1, 4); (4, 20)] /\
  frame_last s 0 = 18 /\ frame_fs s 1 = 1.
Proof. exact (conj eq_refl (conj eq_refl (conj eq_refl (conj eq_refl (conj eq_refl eq_refl))))). Qed.
Example C12_witness_basket :
  basket_find_orfs (bs "CDS"%bs) RFboth NSAlways true 0
    [(bs "a"%bs, bs "ATGAAATAA"%bs); (bs "b"%bs, bs "TTATTTCATCC"%bs)] =
  FOk [mkfeat (bs "CDS"%bs) (bs "a"%bs) (mkorf 0 9 true 0); mkfeat (bs "CDS"%bs) (bs "b"%bs) (mkorf 0 9 false (-3))] /\
  wf_C12_basket RFboth NSAlways true 0 [(bs "a"%bs, bs "ATGAAATAA"%bs); (bs "b"%bs, bs "TTATTTCATCC"%bs)] = true /\
  fmap_res (filter_len OpGt 9) (basket_find_orfs (bs "ORF"%bs) RFfwd NSNever false 0 [(bs "a"%bs, bs "ATGAAATAAC"%bs)]) =
  FOk [].
Proof. exact (conj eq_refl (conj eq_refl eq_refl)). Qed.

(* ---- round 7: the gap option as a SET of characters, custom codon sets, is_orf, every rf form ---------------------------- *)
(* the gap set is a renaming of the gap symbol. find_orfs_x g (the code with gap=<g>: regex class [g]*, 'nt in gap',
   rstrip(gap)) on any text equals find_orfs (gap='-') on the text with every character of g rewritten to '-' (and a '-'
   that is no gap character rewritten to '#', a residue of no codon) -- for every gap set over the self-complementary
   symbols GAP_SAFE = ".-_~*N" (the empty set is gap=None), every rf, mode and minlen. So every theorem above speaks about
   every gap option. *)
Theorem C12_gapset_transfer : forall g rf ns need_stop minlen s, gap_safe g = true ->
  find_orfs_x g START_WORDS STOP_WORDS rf ns need_stop minlen s = find_orfs rf ns need_stop minlen (to_dash g s).
Proof. exact gapset_transfer. Qed.
Print Assumptions C12_gapset_transfer.

(* P2 for ANY gap set: the ORFs of the sequence with the gap characters removed are exactly the ORFs of the gapped sequence,
   same order / strand / rf, under p -> number of non-gap characters before column p; every mode, both strands *)
Theorem C12_gap_bijection_any_gap : forall g rf ns need_stop s, gap_safe g = true ->
  exists l, find_orfs_x g START_WORDS STOP_WORDS rf ns need_stop 0 s = ROk l /\
            find_orfs_x g START_WORDS STOP_WORDS rf ns need_stop 0 (degap_g g s) =
            ROk (map (fun o => mkorf (rbZ_g g s (o_start o)) (rbZ_g g s (o_stop o)) (o_plus o) (o_rf o)) l).
Proof. exact gap_bijection_g. Qed.
Print Assumptions C12_gap_bijection_any_gap.

(* CUSTOM codon sets (find_orfs(start='ATG|GTG|TTG', stop='TAA')): for any non-empty words over letters that are no gap
   characters, any safe gap set, every rf / mode / minlen, the result is, frame by frame in the requested order, the
   specification of the mode over the frame's custom start positions and stop end positions (mirrored, minlen-filtered) *)
Theorem C12_custom_modes_spec : forall g sw pw rf ns need_stop minlen s,
  gap_safe g = true -> words_ok g sw = true -> words_ok g pw = true ->
  find_orfs_x g sw pw rf ns need_stop minlen s =
  ROk (concat (map (fun f => filter (fun o => o_stop o - o_start o >=? minlen)
                               (map (mk_orf f (Z.of_nat (length s))) (spec_x g sw pw ns need_stop s f)))
                   (frames_of rf))).
Proof. exact custom_modes_spec. Qed.
Print Assumptions C12_custom_modes_spec.

Theorem C12_custom_codon_lists : forall g sw pw s f, gap_safe g = true -> words_ok g sw = true -> words_ok g pw = true ->
  StronglySorted Z.lt (starts_x g sw s f) /\ StronglySorted Z.lt (stops_x g pw s f) /\
  Forall (fun a => 0 <= a < Z.of_nat (length s)) (starts_x g sw s f) /\
  Forall (fun e => 0 < e <= Z.of_nat (length s)) (stops_x g pw s f).
Proof. exact custom_codon_lists. Qed.
Print Assumptions C12_custom_codon_lists.

(* "in every mode the reported intervals lie inside the sequence, respect minlen", strand and rf identify a requested frame:
   all need_start x need_stop modes, custom codon sets, any gap set *)
Theorem C12_custom_invariants : forall g sw pw rf ns need_stop minlen s,
  gap_safe g = true -> words_ok g sw = true -> words_ok g pw = true ->
  exists l, find_orfs_x g sw pw rf ns need_stop minlen s = ROk l /\
    Forall (fun o => 0 <= o_start o /\ o_start o < o_stop o /\ o_stop o <= Z.of_nat (length s) /\
                     minlen <= o_stop o - o_start o /\ In (o_rf o) (frames_of rf) /\ o_plus o = (o_rf o >=? 0)) l.
Proof. exact custom_invariants. Qed.
Print Assumptions C12_custom_invariants.

(* default settings with custom codon sets: the list of a frame holds exactly the (a, e) satisfying the declarative
   predicate is_orf_x, each once, in increasing order *)
Theorem C12_custom_is_orf : forall g sw pw s f, gap_safe g = true -> words_ok g sw = true -> words_ok g pw = true ->
  (forall a e, In (a, e) (spec_x g sw pw NSAlways true s f) <-> is_orf_x g sw pw s f a e) /\
  NoDup (spec_x g sw pw NSAlways true s f) /\
  StronglySorted (fun p q => snd p <= fst q) (spec_x g sw pw NSAlways true s f).
Proof. exact custom_is_orf. Qed.
Print Assumptions C12_custom_is_orf.

(* THE DEFAULT-SETTINGS CLAUSE against the independent predicate is_orf (text, frame, a, e), both strands, ANY requested
   frame list (names, ints, tuples): the result is the concatenation, in the requested frame order, of the mirrored lists
   default_list s f, and for every frame f: (soundness, completeness) (a, e) is listed iff is_orf s f a e -- a is an
   in-frame start, e the end of an in-frame stop after it, no in-frame stop ends in between, every earlier in-frame start is
   cut off by an in-frame stop; (exactly once) the list has no duplicates; (order) increasing, each ORF ends before the next
   begins. A frame without start codon has an empty list (no a with In a (frame_starts s f)). *)
Theorem C12_default_is_orf : forall rf s,
  find_orfs rf NSAlways true 0 s =
    ROk (concat (map (fun f => map (mk_orf f (Z.of_nat (length s))) (default_list s f)) (frames_of rf))) /\
  forall f, (forall a e, In (a, e) (default_list s f) <-> is_orf s f a e) /\
            NoDup (default_list s f) /\
            StronglySorted (fun p q => snd p <= fst q) (default_list s f).
Proof. exact default_is_orf. Qed.
Print Assumptions C12_default_is_orf.

(* ... and every such ORF begins after a number of residues congruent to the frame offset, holds a multiple of three
   residues (gapped or not, either strand) and lies inside the sequence *)
Theorem C12_is_orf_residues : forall s f a e, is_orf s f a e ->
  let t := strand_str s f in
  Z.of_nat (rb t (Z.to_nat a)) mod 3 = frame_key f /\
  (Z.of_nat (rb t (Z.to_nat e)) - Z.of_nat (rb t (Z.to_nat a))) mod 3 = 0 /\
  0 <= a /\ a < e /\ e <= Z.of_nat (length s).
Proof. exact is_orf_residues. Qed.
Print Assumptions C12_is_orf_residues.

(* every form of rf: decision table (error class or frame list; orfs_frames_st is the loop over the frames that hands the
   popped match lists on to a later pass over the SAME frame); without repeated frames it is find_orfs_x *)
Theorem C12_rf_forms : forall gap start stop rf ns need_stop minlen s,
  find_orfs_any gap start stop rf ns need_stop minlen s =
  match rf with
  | RAbadstr => XErr (bs "AssertionError"%bs)
  | RAnpint _ | RAfloat | RAnone => XErr (bs "TypeError"%bs)
  | RAspec r => xres (orfs_frames_st (gap_set gap) (pat_words start) (pat_words stop) ns need_stop minlen s []
                        (match r with RFfwd => [0; 1; 2] | RFbwd => [-1; -2; -3] | RFboth => [0; 1; 2; -1; -2; -3]
                                    | RFint z => [z] | RFtuple l => l end))
  end /\
  (forall r, nodupz (frames_of r) = true ->
     find_orfs_any gap start stop (RAspec r) ns need_stop minlen s =
     xres (find_orfs_x (gap_set gap) (pat_words start) (pat_words stop) r ns need_stop minlen s)).
Proof. exact rf_forms. Qed.
Print Assumptions C12_rf_forms.

(* a frame outside -3..2 holds no codon: nothing when a start codon is needed; with need_start='never' the chain from its k-th
   residue over an empty stop list (one ORF to the end of the sequence for need_stop=False, if there are that many residues) *)
Theorem C12_out_of_range_frame : forall ns need_stop minlen s f, frame_ok f = false ->
  frame_orfs ns need_stop minlen s f =
  match ns with
  | NSNever => ROk (filter (fun o => o_stop o - o_start o >=? minlen)
                      (map (mk_orf f (Z.of_nat (length s)))
                           (spec_chain need_stop (frame_last s f) (Z.of_nat (length s)) (frame_fs s f) [])))
  | _ => ROk []
  end.
Proof. exact out_of_range_frame. Qed.
Print Assumptions C12_out_of_range_frame.

Example C12_witness_gapset :
  gap_safe (bs ".-"%bs) = true /\ words_ok (bs ".-"%bs) (pat_words (bs "ATG|GTG|TTG"%bs)) = true /\
  words_ok (bs ".-"%bs) (pat_words (bs "TAA"%bs)) = true /\
  find_orfs_any (Some (bs ".-"%bs)) (bs "ATG|GTG|TTG"%bs) (bs "TAA"%bs) (RAspec RFboth) NSAlways true 0 (bs "CCG.TGA-AATAAC"%bs) =
    XOk [mkorf 2 13 true 2] /\
  find_orfs_x (bs "."%bs) START_WORDS STOP_WORDS RFfwd NSAlways true 0 (bs "A.TGCC-TAA"%bs) = ROk [mkorf 0 10 true 0] /\
  find_orfs_x (bs "."%bs) START_WORDS STOP_WORDS RFfwd NSAlways true 0 (bs "A.TGCCCTA.A"%bs) = ROk [mkorf 0 11 true 0] /\
  to_dash (bs "."%bs) (bs "A.TGCC-TAA"%bs) = bs "A-TGCC#TAA"%bs /\
  find_orfs_any None (bs "start"%bs) (bs "stop"%bs) (RAnpint 0) NSAlways true 0 (bs "ATGTAA"%bs) = XErr (bs "TypeError"%bs) /\
  find_orfs (RFint 5) NSNever false 0 (bs "CCATGAAATAAC"%bs) = ROk [mkorf 5 12 true 5] /\
  is_orf (bs "AUGCCCTAAUUAGGGCAU"%bs) 0 0 9.
Proof. exact (conj eq_refl (conj eq_refl (conj eq_refl (conj eq_refl (conj eq_refl (conj eq_refl (conj eq_refl (conj eq_refl
              (conj eq_refl is_orf_witness))))))))). Qed.

(* is_orf is a first-principles predicate on the TEXT. On a gap-free sequence, with codon_at ws s f i := i < len(s), i = frame
   offset (mod 3), one of the words is a prefix of the strand at column i (no matcher, no lists): is_orf s f a e holds iff a is
   the column of an in-frame start codon, e the end of an in-frame stop codon, a < e, no in-frame stop codon ends in between and
   every earlier in-frame start codon is cut off by an in-frame stop codon *)
Theorem C12_is_orf_text : forall s f a e, forallb (fun c => negb (is_gap c)) s = true ->
  (is_orf s f a e <->
   (start_col s f a /\ stop_end s f e /\ a < e /\ (forall e', stop_end s f e' -> e' < e -> e' <= a) /\
    (forall a', start_col s f a' -> a' < a -> exists e', stop_end s f e' /\ a' < e' /\ e' <= a))) /\
  (forall a, start_col s f a <-> exists i, a = Z.of_nat i /\ (i < length s)%nat /\ Z.of_nat i mod 3 = frame_key f /\
                                           word_at START_WORDS (skipn i (strand_str s f)) = true) /\
  (forall e, stop_end s f e <-> exists j, e = Z.of_nat (j + 3) /\ (j < length s)%nat /\ Z.of_nat j mod 3 = frame_key f /\
                                          word_at STOP_WORDS (skipn j (strand_str s f)) = true).
Proof. exact (fun s f a e G => conj (is_orf_text_iff s f a e G) (conj (fun a => iff_refl _) (fun e => iff_refl _))). Qed.
Print Assumptions C12_is_orf_text.

(* ... and on ANY (gapped) text the listed ORFs of a frame are, one to one and in the same order, the text-level ORFs of the
   degapped sequence under p -> residues before column p of the strand *)
Theorem C12_default_orfs_text : forall s f,
  default_list (degap s) f = map (fun p => (rbZ (strand_str s f) (fst p), rbZ (strand_str s f) (snd p))) (default_list s f) /\
  (forall a e, In (a, e) (default_list s f) -> is_orf_text (degap s) f (rbZ (strand_str s f) a) (rbZ (strand_str s f) e)) /\
  (forall a' e', is_orf_text (degap s) f a' e' ->
     exists a e, In (a, e) (default_list s f) /\ a' = rbZ (strand_str s f) a /\ e' = rbZ (strand_str s f) e).
Proof. exact (fun s f => conj (default_list_degap s f) (default_orfs_text s f)). Qed.
Print Assumptions C12_default_orfs_text.

Example C12_witness_is_orf_text : is_orf_text (bs "CCATGAAATAAC"%bs) 2 2 11.
Proof. exact is_orf_text_witness. Qed.

(* "in every mode the reported intervals lie inside the sequence, respect minlen" for EVERY rf form -- also tuples that repeat
   a frame (second passes read the popped lists), frames outside -3..2, any safe gap set, custom codon sets: the call either
   raises the documented error class (rf form) or returns a list satisfying the invariants *)
Theorem C12_any_rf_invariants : forall gap start stop rf ns need_stop minlen s,
  gap_safe (gap_set gap) = true -> words_ok (gap_set gap) (pat_words start) = true -> words_ok (gap_set gap) (pat_words stop) = true ->
  match rf with
  | RAspec r => exists l, find_orfs_any gap start stop rf ns need_stop minlen s = XOk l /\
      Forall (fun o => 0 <= o_start o /\ o_start o < o_stop o /\ o_stop o <= Z.of_nat (length s) /\
                       minlen <= o_stop o - o_start o /\ In (o_rf o) (frames_of r) /\ o_plus o = (o_rf o >=? 0)) l
  | RAbadstr => find_orfs_any gap start stop rf ns need_stop minlen s = XErr (bs "AssertionError"%bs)
  | _ => find_orfs_any gap start stop rf ns need_stop minlen s = XErr (bs "TypeError"%bs)
  end.
Proof. exact any_rf_invariants. Qed.
Print Assumptions C12_any_rf_invariants.

(* default settings and ANY tuple of frames: a frame that is requested again contributes nothing the second time (its start
   list or its stop list is exhausted), so the result is that of the tuple without the repetitions (first occurrences kept) --
   with C12_rf_forms and C12_default_is_orf the default-settings clause holds for every requested frame tuple *)
Theorem C12_default_any_frames : forall g sw pw minlen s frames,
  gap_safe g = true -> words_ok g sw = true -> words_ok g pw = true ->
  orfs_frames_st g sw pw NSAlways true minlen s [] frames = orfs_frames_x g sw pw NSAlways true minlen s (dedup_from [] frames).
Proof. exact default_any_frames. Qed.
Print Assumptions C12_default_any_frames.

Example C12_witness_repeated :
  find_orfs_any (Some (bs "-"%bs)) (bs "start"%bs) (bs "stop"%bs) (RAspec (RFtuple [0; 0])) NSNever false 0 (bs "CCATGAAATAAC"%bs) =
    XOk [mkorf 0 6 true 0; mkorf 6 12 true 0; mkorf 0 12 true 0] /\
  find_orfs_any (Some (bs "-"%bs)) (bs "start"%bs) (bs "stop"%bs) (RAspec (RFtuple [2; 0; 2])) NSAlways true 0 (bs "CCATGAAATAAC"%bs) =
    XOk [mkorf 2 11 true 2] /\
  dedup_from [] [2; 0; 2; 0; -1] = [2; 0; -1].
Proof. exact (conj eq_refl (conj eq_refl eq_refl)). Qed.

(* custom codon sets of three-letter words that cannot overlap one another (no proper suffix of a word begins a word): on
   gap-free input the codon list of a frame holds exactly the in-frame occurrences of the words (general form of
   C12_codons_gapfree_complete) ... *)
Theorem C12_custom_codons_complete : forall ws s f, codons3 ws = true -> no_overlap ws = true ->
  forallb (fun c => negb (is_gap c)) s = true ->
  forall i e, In (i, e) (hits ws s f) <->
    e = (i + 3)%nat /\ (i < length s)%nat /\ Z.of_nat i mod 3 = frame_key f /\ word_at ws (skipn i (strand_str s f)) = true.
Proof. exact custom_codons_complete. Qed.
Print Assumptions C12_custom_codons_complete.

(* ... and REFUTED for words that can overlap: find_orfs(start='ATG|GTG|TTG') on AATGTGCCCTAA does not see the in-frame GTG of
   frame 0, it is hidden behind the ATG of frame 1 (re.finditer is non-overlapping). Custom sets are outside the property text;
   the model reproduces the behaviour. *)
Theorem C12_custom_overlap_refuted :
  exists ws s f i, codons3 ws = true /\ forallb (fun c => negb (is_gap c)) s = true /\ no_overlap ws = false /\
                   ((i < length s)%nat /\ Z.of_nat i mod 3 = frame_key f /\ word_at ws (skipn i (strand_str s f)) = true) /\
                   ~ In (Z.of_nat i) (starts_w ws s f).
Proof. exact custom_overlap_refuted. Qed.
Print Assumptions C12_custom_overlap_refuted.

(* ARBITRARY regular expressions as start / stop patterns (find_orfs(start='A[TU]G', stop='T(?:AA|AG|GA)'), regex trees and
   backtracking matcher of C13_Rx, gap rewriting with a character class as one unit), any gap option, every rf form incl.
   repeated and out-of-range frames, every need_start x need_stop mode, NO hypothesis: the call raises the documented class
   for the rf form or returns ORFs that lie inside the sequence, respect minlen and identify a requested frame *)
Theorem C12_rx_invariants : forall gap (rs rp : C13_Rx.rx) rf ns need_stop minlen s,
  match rf with
  | RAspec r => exists l, find_orfs_rx gap rs rp rf ns need_stop minlen s = XOk l /\
      Forall (fun o => 0 <= o_start o /\ o_start o < o_stop o /\ o_stop o <= Z.of_nat (length s) /\
                       minlen <= o_stop o - o_start o /\ In (o_rf o) (frames_of r) /\ o_plus o = (o_rf o >=? 0)) l
  | RAbadstr => find_orfs_rx gap rs rp rf ns need_stop minlen s = XErr (bs "AssertionError"%bs)
  | _ => find_orfs_rx gap rs rp rf ns need_stop minlen s = XErr (bs "TypeError"%bs)
  end.
Proof. exact rx_invariants. Qed.
Print Assumptions C12_rx_invariants.

Example C12_witness_rx :
  let rs := C13_Rx.XCat (C13_Rx.XChr "A"%byte) (C13_Rx.XCat (C13_Rx.XCls false (bs "TU"%bs)) (C13_Rx.XChr "G"%byte)) in
  let rp := C13_Rx.XCat (C13_Rx.XChr "T"%byte) (C13_Rx.XGrp false (C13_Rx.XAlt (C13_Rx.XCat (C13_Rx.XChr "A"%byte) (C13_Rx.XChr "A"%byte))
                                                                               (C13_Rx.XCat (C13_Rx.XChr "G"%byte) (C13_Rx.XChr "A"%byte)))) in
  C13_Rx.show rs = bs "A[TU]G"%bs /\ C13_Rx.show rp = bs "T(?:AA|GA)"%bs /\
  wf_C12rx (Some (bs "-"%bs)) rs rp (RAspec RFboth) NSAlways true 0 (bs "CCA-TGAAATA-AC"%bs) = true /\
  find_orfs_rx (Some (bs "-"%bs)) rs rp (RAspec RFboth) NSAlways true 0 (bs "CCA-TGAAATA-AC"%bs) = XOk [mkorf 2 13 true 2].
Proof. exact (conj eq_refl (conj eq_refl (conj eq_refl eq_refl))). Qed.

(* regular expressions as start/stop, rf without repeated frames: EVERY mode is its specification (spec_always / spec_chain)
   over the strictly increasing match lists of the frame, mirrored and minlen-filtered, in the requested frame order; for
   need_start='always' under the one hypothesis that every start match begins before the end of the last residue of its strand
   (no hypothesis for 'once' / 'never') *)
Theorem C12_rx_modes_spec : forall gap (rs rp : C13_Rx.rx) r ns need_stop minlen s,
  nodupz (frames_of r) = true ->
  (ns = NSAlways -> forall f, Forall (fun a => a < Z.of_nat (last_res_g (gap_set gap) (strand_data s f))) (starts_rx gap rs s f)) ->
  find_orfs_rx gap rs rp (RAspec r) ns need_stop minlen s =
  XOk (concat (map (fun f => filter (fun o => o_stop o - o_start o >=? minlen)
                               (map (mk_orf f (Z.of_nat (length s)))
                                    (spec_mode ns need_stop (Z.of_nat (frame_start_g (gap_set gap) (strand_data s f) f))
                                               (Z.of_nat (last_res_g (gap_set gap) (strand_data s f))) (Z.of_nat (length s))
                                               (starts_rx gap rs s f) (stops_rx gap rp s f))))
                   (frames_of r))) /\
  (forall f, StronglySorted Z.lt (starts_rx gap rs s f) /\ StronglySorted Z.lt (stops_rx gap rp s f)).
Proof. exact (fun gap rs rp r ns need_stop minlen s N H => conj (rx_modes_spec gap rs rp r ns need_stop minlen s N H)
               (fun f => conj (match hits_rx_sorted gap rs s f with conj A B => sorted_map_fst _ A B end)
                              (match hits_rx_sorted gap rp s f with conj A B => sorted_map_snd _ A B end))). Qed.
Print Assumptions C12_rx_modes_spec.

Example C12_witness_rx_modes :
  nodupz (frames_of RFboth) = true /\
  (forall f, Forall (fun a => a < Z.of_nat (last_res_g (gap_set (Some (bs "-"%bs))) (strand_data (bs "CCA-TGAAATA-AC"%bs) f)))
                    (starts_rx (Some (bs "-"%bs)) wit_rs (bs "CCA-TGAAATA-AC"%bs) f)) /\
  starts_rx (Some (bs "-"%bs)) wit_rs (bs "CCA-TGAAATA-AC"%bs) 2 = [2].
Proof. exact (conj eq_refl (conj rx_modes_witness eq_refl)). Qed.

(* the default codon sets are custom codon sets for every safe gap set, so C12_custom_modes_spec / C12_custom_is_orf /
   C12_custom_invariants state the default-settings clause (with is_orf_x on the text itself) under every gap option *)
Theorem C12_default_words_ok : forall g, gap_safe g = true -> words_ok g START_WORDS = true /\ words_ok g STOP_WORDS = true.
Proof. exact default_words_ok. Qed.
Print Assumptions C12_default_words_ok.

(* ... and the hypothesis is discharged syntactically: when every word of the start pattern begins with a residue (head_ok: the
   pattern begins with letters / positive classes of characters that are no gap characters -- A[TU]G, (ATG), AT+G, ATG|GTG|TTG,
   the default 'start'), every start match begins on a residue, hence before the end of the last residue; then EVERY mode
   equals its specification for every text, gap option of the safe symbols and rf without repeated frames *)
Theorem C12_rx_modes_spec_plain : forall gap (rs rp : C13_Rx.rx) r ns need_stop minlen s,
  gap_safe (gap_set gap) = true -> head_ok (fun c => negb (is_gap_g (gap_set gap) c)) rs = true ->
  nodupz (frames_of r) = true ->
  find_orfs_rx gap rs rp (RAspec r) ns need_stop minlen s =
  XOk (concat (map (fun f => filter (fun o => o_stop o - o_start o >=? minlen)
                               (map (mk_orf f (Z.of_nat (length s)))
                                    (spec_mode ns need_stop (Z.of_nat (frame_start_g (gap_set gap) (strand_data s f) f))
                                               (Z.of_nat (last_res_g (gap_set gap) (strand_data s f))) (Z.of_nat (length s))
                                               (starts_rx gap rs s f) (stops_rx gap rp s f))))
                   (frames_of r))).
Proof. exact rx_modes_spec_plain. Qed.
Print Assumptions C12_rx_modes_spec_plain.

Example C12_witness_head_ok :
  gap_safe (gap_set (Some (bs ".-"%bs))) = true /\
  head_ok (fun c => negb (is_gap_g (gap_set (Some (bs ".-"%bs))) c)) wit_rs = true /\
  head_ok (fun c => negb (is_gap_g (gap_set (Some (bs ".-"%bs))) c)) (C13_Rx.XCat C13_Rx.XDot (C13_Rx.XChr "G"%byte)) = false.
Proof. exact (conj eq_refl (conj eq_refl eq_refl)). Qed.

(* P2 for CUSTOM codon sets and any gap set, every mode, both strands, every rf: results on the text with the gap characters
   removed correspond one to one, in order, to those on the gapped text under p -> non-gap characters before column p *)
Theorem C12_custom_gap_bijection : forall g sw pw rf ns need_stop s,
  gap_safe g = true -> words_ok g sw = true -> words_ok g pw = true ->
  exists l, find_orfs_x g sw pw rf ns need_stop 0 s = ROk l /\
            find_orfs_x g sw pw rf ns need_stop 0 (degap_g g s) =
            ROk (map (fun o => mkorf (rbZ_g g s (o_start o)) (rbZ_g g s (o_stop o)) (o_plus o) (o_rf o)) l).
Proof. exact custom_gap_bijection. Qed.
Print Assumptions C12_custom_gap_bijection.

(* custom sets of three-letter codons, any gap set: an ORF of the default pairing begins after a number of non-gap characters
   congruent to the frame offset and holds a multiple of three of them (frames count residues, not columns) *)
Theorem C12_custom_is_orf_residues : forall g sw pw s f a e,
  gap_safe g = true -> words_ok g sw = true -> words_ok g pw = true -> codons3 sw = true -> codons3 pw = true ->
  is_orf_x g sw pw s f a e ->
  rbZ_g g (strand_str s f) a mod 3 = frame_key f /\
  (rbZ_g g (strand_str s f) e - rbZ_g g (strand_str s f) a) mod 3 = 0.
Proof. exact custom_is_orf_residues. Qed.
Print Assumptions C12_custom_is_orf_residues.
